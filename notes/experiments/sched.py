"""Feasibility prototype: deterministic (baton-passing) scheduling of the real AsyncRunner + client threads.
All blocking/flag operations of sismic.runner.runner go through shims; exactly one thread runs at a time."""
import threading as real_threading, time as real_time, random, sys, types, collections
import sismic.runner.runner as rr
from sismic.io import import_from_yaml
from sismic.interpreter import Interpreter

class Sched:
    def __init__(self, rnd):
        self.rnd = rnd
        self.lock = real_threading.Lock()
        self.batons = {}           # thread name -> Semaphore
        self.state = {}            # name -> 'ready' | ('blocked', predicate) | 'done'
        self.trace = []
        self.main = real_threading.Semaphore(0)
    def register(self, name):
        self.batons[name] = real_threading.Semaphore(0); self.state[name] = 'ready'
    def yield_point(self, name, label, blocked_until=None):
        """called by a managed thread: hand control back to the scheduler"""
        self.trace.append((name, label))
        self.state[name] = ('blocked', blocked_until) if blocked_until else 'ready'
        self.main.release()
        self.batons[name].acquire()
    def finish(self, name):
        self.trace.append((name, 'end')); self.state[name] = 'done'; self.main.release()
    def run(self, max_actions=500):
        n = 0
        while n < max_actions:
            enabled = [k for k, v in self.state.items() if v == 'ready' or (isinstance(v, tuple) and v[1]())]
            if not enabled:
                return 'deadlock' if any(v != 'done' for v in self.state.values()) else 'done'
            k = self.rnd.choice(sorted(enabled))
            self.state[k] = 'ready'
            self.batons[k].release()
            self.main.acquire()
            n += 1
        return 'limit'

S = None
class CoopEvent:
    def __init__(self): self.flag = False
    def me(self): return real_threading.current_thread().name
    def is_set(self): S.yield_point(self.me(), 'is_set'); return self.flag
    def set(self): S.yield_point(self.me(), 'set'); self.flag = True
    def clear(self): S.yield_point(self.me(), 'clear'); self.flag = False
    def wait(self, timeout=None):
        S.yield_point(self.me(), 'wait', blocked_until=lambda: self.flag); return True
class CoopThread:
    def __init__(self, target=None, name='runner'):
        self.target = target; self.name = 'runner'; self.t = None; self.started = False
    def start(self):
        S.yield_point(real_threading.current_thread().name, 'thread.start')
        S.register(self.name)
        def body():
            S.batons[self.name].acquire()
            try: self.target()
            finally: S.finish(self.name)
        self.t = real_threading.Thread(target=body, name=self.name, daemon=True); self.started = True; self.t.start()
    def is_alive(self):
        return self.started and S.state.get(self.name) != 'done'
    def join(self, timeout=None):
        S.yield_point(real_threading.current_thread().name, 'join', blocked_until=lambda: S.state.get(self.name) == 'done')
shim_threading = types.SimpleNamespace(Event=CoopEvent, Thread=CoopThread)
vt = [0.0]
shim_time = types.SimpleNamespace(time=lambda: vt[0], sleep=lambda d: S.yield_point(real_threading.current_thread().name, 'sleep'))
rr.threading = shim_threading; rr.time = shim_time

Y = """
statechart:
  name: t
  root state:
    name: root
    initial: a
    states:
      - name: a
        transitions: [{event: e, target: b}, {event: stop, target: f}]
      - name: b
        transitions: [{event: e, target: a}, {event: stop, target: f}]
      - name: f
        type: final
"""
def trial(seed, execute_all=False):
    global S
    rnd = random.Random(seed); S = Sched(rnd)
    it = Interpreter(import_from_yaml(Y))
    executed = []; reported = []; hooks = collections.Counter()
    orig = it.execute_once
    def eo():
        S.yield_point(real_threading.current_thread().name, 'execute_once')
        s = orig()
        if s: executed.append(s)
        return s
    it.execute_once = eo
    class R(rr.AsyncRunner):
        def before_run(self): hooks['before_run'] += 1
        def after_run(self): hooks['after_run'] += 1
        def after_execute(self, steps): reported.extend(steps); hooks['cycles'] += 1
    r = R(it, interval=0.1, execute_all=execute_all)
    def client():
        S.batons['client'].acquire()
        try:
            r.start()
            for _ in range(rnd.randint(2, 8)):
                op = rnd.choice(['q', 'q', 'q', 'pause', 'unpause'])
                S.yield_point('client', op)
                if op == 'q': it.queue('e')
                elif op == 'pause': r.pause()
                else: r.unpause()
            if rnd.random() < .5:
                S.yield_point('client', 'q-stop'); it.queue('stop'); r.unpause(); r.wait()
            else:
                r.stop()
        finally: S.finish('client')
    S.register('client')
    ct = real_threading.Thread(target=client, name='client', daemon=True); ct.start()
    res = S.run()
    R.__del__ = lambda self: None
    return res, len(executed), len(reported), dict(hooks), len(S.trace)
bad = 0
for seed in range(int(sys.argv[1]), int(sys.argv[2])):
    res = trial(seed)
    if res[0] != 'done' or res[1] != res[2] or res[3].get('before_run') != 1 or res[3].get('after_run') != 1:
        bad += 1
        if bad <= 5: print(seed, res)
print('bad', bad)
