"""Quick-and-dirty random WF chart generator + spec oracles (design-phase experiment, not framework)."""
import random, itertools
from sismic.model import *
from sismic.interpreter import Interpreter
from sismic.exceptions import *

class G:
    def __init__(self, rnd, max_states=14, events=('e', 'f'), guard_p=0.5):
        self.r = rnd; self.max_states = max_states; self.events = events; self.guard_p = guard_p
        self.names = []; self.n = 0
    def fresh(self):
        # names whose order disagrees with creation order
        pool = [a + b for a in 'zyxcba' for b in 'qpo321']
        self.r.shuffle(pool)
        while True:
            nm = self.r.choice(pool) + ('' if self.n < 30 else str(self.n))
            self.n += 1
            if nm not in self.names:
                self.names.append(nm); return nm
    def build(self):
        r = self.r
        sc = Statechart('g', preamble='x = 0')
        budget = [r.randint(3, self.max_states)]
        kinds = {}
        def mk(parent, allowed, depth):
            budget[0] -= 1
            name = self.fresh()
            k = r.choice(allowed) if budget[0] > 1 and depth < 4 else r.choice([a for a in allowed if a in ('basic', 'final')] or ['basic'])
            if k == 'final' and 'final' not in allowed: k = 'basic'
            kinds[name] = k
            if k == 'basic': st = BasicState(name)
            elif k == 'final': st = FinalState(name)
            elif k == 'compound': st = CompoundState(name)
            elif k == 'orthogonal': st = OrthogonalState(name)
            sc.add_state(st, parent)
            if k == 'compound':
                n = r.randint(1, 3)
                ch = [mk(name, ['basic', 'basic', 'compound', 'orthogonal', 'final'], depth + 1) for _ in range(n)]
                nonfinal = ch
                st.initial = r.choice(ch)
                # history
                if r.random() < 0.35:
                    h = self.fresh(); kinds[h] = r.choice(['shallow', 'deep'])
                    cls = ShallowHistoryState if kinds[h] == 'shallow' else DeepHistoryState
                    sc.add_state(cls(h, memory=r.choice(ch)), name)
                    if r.random() < 0.2: st.initial = h
            elif k == 'orthogonal':
                n = r.randint(2, 3)
                for _ in range(n): mk(name, ['basic', 'compound', 'compound', 'orthogonal'], depth + 1)
            return name
        root = mk(None, ['compound', 'compound', 'orthogonal'], 0)
        self.kinds = kinds; self.sc = sc
        # transitions
        owners = [n for n, k in kinds.items() if k in ('basic', 'compound', 'orthogonal')]
        nt = r.randint(2, 3 * len(owners))
        tid = 0
        for _ in range(nt):
            src = r.choice(owners)
            tgt = r.choice([None] + list(kinds))
            if tgt is not None and not self.ok_target(src, tgt): continue
            ev = r.choice([None] + list(self.events) * 2)
            guard = 'G(%d, event)' % tid if (r.random() < self.guard_p or (ev is None)) else None
            pr = r.choice([0, 0, 0, 1, -1, 2])
            if ev is None and tgt is None and guard is None: continue
            t = Transition(src, tgt, event=ev, guard=guard, action='P(%d)' % tid, priority=pr)
            sc.add_transition(t); tid += 1
        sc.validate()
        return sc
    def anc(self, n): return self.sc.ancestors_for(n)
    def ok_target(self, s, t):
        sc = self.sc
        # W8
        l = sc.least_common_ancestor(s, t)
        if l is not None and isinstance(sc.state_for(l), OrthogonalState):
            def child(x):
                cur = x
                for a in sc.ancestors_for(x):
                    if a == l: break
                    cur = a
                return cur
            if child(s) != child(t): return False
        # W9
        if self.kinds[t] in ('shallow', 'deep'):
            p = sc.parent_for(t)
            if s == p or p in sc.ancestors_for(s): return False
        return True

def legal(sc, cfg):
    cfg = set(cfg)
    if not cfg: return True
    if sc.root not in cfg: return 'root'
    for s in cfg:
        p = sc.parent_for(s)
        if p is not None and p not in cfg: return 'parent of %s' % s
        st = sc.state_for(s)
        ch = [c for c in sc.children_for(s) if c in cfg]
        if isinstance(st, CompoundState) and len(ch) != 1: return 'compound %s has %d' % (s, len(ch))
        if isinstance(st, OrthogonalState) and len(ch) != len(sc.children_for(s)): return 'orthogonal %s' % s
        if isinstance(st, (ShallowHistoryState, DeepHistoryState)): return 'history %s' % s
    return True

def fires_spec(sc, cfg, ev, gv):
    """gv(t, exposed) -> bool ; returns set of transition ids (by identity index)"""
    ts = sc.transitions
    def enabled(t):
        if t.source not in cfg: return False
        if t.event is None: return t.guard is None or gv(t, None)
        return ev is not None and t.event == ev.name and (t.guard is None or gv(t, ev))
    en = [t for t in ts if enabled(t)]
    if any(t.event is None for t in en): comp = [t for t in en if t.event is None]
    else: comp = en
    res = []
    for t in comp:
        if any(t.source in sc.ancestors_for(u.source) for u in comp): continue
        if any(u.source == t.source and u.priority > t.priority for u in comp): continue
        res.append(t)
    return res
