from sismic.io import import_from_yaml, export_to_yaml
from sismic.interpreter import Interpreter
from sismic.model import *
from sismic.exceptions import *

y = """
statechart:
  name: t
  root state:
    name: root
    initial: out
    states:
      - name: out
        transitions:
          - event: go
            target: s1b
      - name: P
        parallel states:
          - name: R1
            initial: s1a
            states:
              - name: s1a
              - name: s1b
          - name: R2
            initial: s2a
            states:
              - name: s2a
              - name: s2b
"""
sc = import_from_yaml(y)
it = Interpreter(sc)
it.execute_once()
it.queue('go')
s = it.execute_once()
print(s, it.configuration)
