from sismic.io import import_from_yaml
from sismic.interpreter import Interpreter
from sismic.model import *
from sismic.exceptions import *
from sismic.runner import AsyncRunner
from sismic.bdd import execute_bdd
import tempfile, os, json

# D10 rotate
sc = Statechart('x')
sc.add_state(CompoundState('root', initial='a'), None)
sc.add_state(BasicState('a'), 'root'); sc.add_state(BasicState('b'), 'root')
t = Transition('a', 'b', event='e'); sc.add_transition(t)
try:
    sc.rotate_transition(t, new_source='b', new_target='nope')
except StatechartError as e:
    print('D10: raised; source now', t.source, 'target', t.target)

# D6 runner
y = """
statechart:
  name: t
  root state:
    name: root
    initial: a
    states:
      - name: a
        transitions:
          - event: e
            target: b
      - name: b
        transitions:
          - event: e
            target: a
"""
it = Interpreter(import_from_yaml(y))
executed = []
orig = it.execute_once
def eo():
    s = orig()
    if s: executed.append(s)
    return s
it.execute_once = eo
r = AsyncRunner(it)
it.queue('e','e','e')
res = r.execute()
print('D6 reported', len(res), 'executed', len(executed))

# D9 bdd
y = """
statechart:
  name: t
  preamble: x = 1
  root state:
    name: root
"""
feat = '''
Feature: f
  Scenario: s
    When I do nothing
    Then expression "x == 2" holds
    And expression "x == 1" does not hold
'''
with tempfile.TemporaryDirectory() as d:
    p = os.path.join(d, 'f.feature'); open(p,'w').write(feat)
    out = os.path.join(d, 'o.json')
    rc = execute_bdd(import_from_yaml(y), [p], behave_parameters=['-f','json','-o',out, '--no-summary'])
    print('D9 rc', rc)
    for f in json.load(open(out)):
        for el in f['elements']:
            for st in el['steps']:
                print('  ', st['keyword'], st['name'], st.get('result',{}).get('status'))
