"""C12 fault enumeration (design-phase experiment)."""
import sys, io, copy, collections, glob
import ruamel.yaml as yaml
from sismic.io import import_from_yaml
from sismic.exceptions import StatechartError

def load(p): return yaml.YAML(typ='safe', pure=True).load(open(p).read())
def dump(d):
    o = io.StringIO(); y = yaml.YAML(typ='safe', pure=True); y.default_flow_style = False; y.dump(d, o); return o.getvalue()

def states(d, path=()):
    """yield (state dict, parent dict, path)"""
    root = d['statechart']['root state']
    stack = [(root, None)]
    while stack:
        s, p = stack.pop()
        yield s, p
        for k in ('states', 'parallel states'):
            for c in s.get(k, []) or []: stack.append((c, s))

def faults(doc):
    sts = list(states(doc))
    names = [s['name'] for s, _ in sts]
    for i, (s, p) in enumerate(sts):
        def mut(f, label):
            d = copy.deepcopy(doc); ss = list(states(d)); f(ss[i][0], ss[i][1], d); return (label, s['name'], d)
        yield mut(lambda s, p, d: s.pop('name'), 'missing name')
        yield mut(lambda s, p, d: s.__setitem__('nme', 'x'), 'unknown key')
        yield mut(lambda s, p, d: s.__setitem__('type', 'weird'), 'unknown type')
        yield mut(lambda s, p, d: s.__setitem__('name', names[(i + 1) % len(names)]), 'duplicate name') if len(names) > 1 else ('skip', None, None)
        yield mut(lambda s, p, d: s.setdefault('transitions', []).append({'target': 'no such state'}), 'unknown target')
        yield mut(lambda s, p, d: s.setdefault('transitions', []).append({'event': 'e', 'priority': 'medium'}), 'bad priority')
        yield mut(lambda s, p, d: s.setdefault('transitions', []).append({'event': 'e', 'colour': 'red'}), 'unknown transition key')
        yield mut(lambda s, p, d: s.setdefault('contract', []).append({'sometimes': 'x'}), 'unknown contract key')
        yield mut(lambda s, p, d: (s.__setitem__('states', [{'name': 'NEW1'}]), s.__setitem__('parallel states', [{'name': 'NEW2'}])), 'both kinds')
        yield mut(lambda s, p, d: s.__setitem__('transitions', {'event': 'e'}), 'transitions not a list')
        if s.get('states'):
            yield mut(lambda s, p, d: s.__setitem__('initial', 'no such'), 'initial unknown')
            yield mut(lambda s, p, d: s.__setitem__('initial', s['name']), 'initial = self')
            if p is not None: yield mut(lambda s, p, d: s.__setitem__('initial', p['name']), 'initial = parent')
            yield mut(lambda s, p, d: s['states'].append({'name': 'HX', 'type': 'shallow history', 'memory': 'no such'}), 'memory unknown')
            yield mut(lambda s, p, d: s['states'].append({'name': 'HX', 'type': 'deep history', 'memory': 'HX'}), 'memory self')
            yield mut(lambda s, p, d: s['states'].append({'name': 'HX', 'type': 'deep history', 'memory': s['name']}), 'memory = parent')
            yield mut(lambda s, p, d: s['states'].append({'name': 'FX', 'type': 'final', 'transitions': [{'event': 'e'}]}), 'transition on final')
            yield mut(lambda s, p, d: s['states'].append({'name': 'HX', 'type': 'shallow history', 'transitions': [{'event': 'e'}]}), 'transition on history')
        if s.get('parallel states'):
            yield mut(lambda s, p, d: s['parallel states'].append({'name': 'HX', 'type': 'shallow history'}), 'history under orthogonal')
        if not s.get('states') and not s.get('parallel states') and not s.get('type'):
            yield mut(lambda s, p, d: s.__setitem__('type', 'shallow history') if (p is None or 'parallel states' in p) else None, 'history at root/orthogonal')
    for lab, f in (('no statechart name', lambda d: d['statechart'].pop('name')), ('no root', lambda d: d['statechart'].pop('root state')),
                   ('unknown top key', lambda d: d['statechart'].__setitem__('zzz', 1)), ('no statechart', lambda d: d.pop('statechart'))):
        d = copy.deepcopy(doc); f(d); yield (lab, None, d)

tot = collections.Counter(); shown = set()
for path in sorted(glob.glob('/repo/tests/yaml/*.yaml') + glob.glob('/repo/docs/examples/*/*.yaml')):
    doc = load(path)
    try: import_from_yaml(dump(doc))
    except Exception as e: print('base fails', path, e); continue
    for lab, where, d in faults(doc):
        if d is None: continue
        if d == doc: continue
        try:
            import_from_yaml(dump(d)); out = 'ACCEPTED'
        except StatechartError: out = 'StatechartError'
        except Exception as e: out = 'OTHER:' + type(e).__name__
        tot[(lab, out)] += 1
        if out != 'StatechartError' and (lab, out) not in shown:
            shown.add((lab, out)); print('!!', lab, out, where, path.split('/')[-1])
for k, v in sorted(tot.items()): print(k, v)
