"""C11 round trip with hostile strings (design-phase experiment)."""
import random, sys, collections
from gen import *
from sismic.io import export_to_yaml, import_from_yaml

HOST = ['', ' ', 'a b', ' lead', 'trail ', 'x: y', '# c', '- d', '? q', '| p', '> f', "it's", '"dq"', '\\n', 'multi\nline', 'multi\n\nline\n', '\ttab', 'yes', 'no', 'null', '~', '1', '1.5', '1e3', '0x1f', 'true', 'été', '日本', '😀', '{a: b}', '[x]', '&a', '*a', '!t', '%d', '@at', '`bt', 'a,b', 'a:b', 'a #b', '\x85', ' ', 'x\r\ny', '---', '...', 'null ', 'a\tb', '\x07bell', '﻿bom', 'a' * 200]

def field(sc, n):
    st = sc.state_for(n)
    return (type(st).__name__, getattr(st, 'on_entry', None), getattr(st, 'on_exit', None), getattr(st, 'initial', None),
            getattr(st, 'memory', None), tuple(st.preconditions), tuple(st.postconditions), tuple(st.invariants))
def tfield(t): return (t.source, t.target, t.event, t.guard, t.action, t.priority, tuple(t.preconditions), tuple(t.postconditions), tuple(t.invariants))
def strip(x): return x.strip() if isinstance(x, str) else x
def norm(x): return None if (x is None or strip(x) == '') else strip(x)

def run(seed):
    rnd = random.Random(seed)
    g = G(rnd); sc = g.build()
    stats = collections.Counter()
    # hostile renames
    used = set(sc.states)
    for n in list(sc.states):
        if rnd.random() < 0.5:
            new = rnd.choice(HOST)
            if new and new not in used and new.strip() == new or (new and new not in used and rnd.random() < 0.3):
                sc.rename_state(n, new); used.add(new)
    for n in sc.states:
        st = sc.state_for(n)
        if rnd.random() < 0.4: st.on_entry = rnd.choice(HOST)
        if rnd.random() < 0.4: st.on_exit = rnd.choice(HOST)
        for lst in (st.preconditions, st.postconditions, st.invariants):
            for _ in range(rnd.randint(0, 2)): lst.append(rnd.choice(HOST))
    for t in sc.transitions:
        if rnd.random() < 0.4: t.event = rnd.choice(HOST) or None
        if rnd.random() < 0.4: t.guard = rnd.choice(HOST)
        if rnd.random() < 0.4: t.action = rnd.choice(HOST)
        if rnd.random() < 0.3: t.priority = rnd.choice([-5, -1, 0, 1, 2, 10**12])
        for lst in (t.preconditions, t.postconditions, t.invariants):
            for _ in range(rnd.randint(0, 1)): lst.append(rnd.choice(HOST))
    sc.name = rnd.choice(HOST) or 'n'; sc.description = rnd.choice(HOST + [None]); sc._preamble = rnd.choice(HOST + [None])
    y = export_to_yaml(sc)
    try:
        sc2 = import_from_yaml(y)
    except Exception as e:
        return stats, ('import failed', seed, type(e).__name__, str(e)[:200])
    assert sc2.name == sc.name, ('name', sc.name, sc2.name)
    assert (sc2.description or None) == (sc.description or None), ('desc', sc.description, sc2.description)
    assert (sc2.preamble or None) == (sc.preamble or None), ('preamble', repr(sc.preamble), repr(sc2.preamble))
    assert sorted(sc.states) == sorted(sc2.states), ('states', sorted(sc.states), sorted(sc2.states))
    for n in sc.states:
        a, b = field(sc, n), field(sc2, n)
        assert a[0] == b[0], ('kind', n, a[0], b[0])
        assert norm(a[1]) == norm(b[1]) and norm(a[2]) == norm(b[2]), ('code', n, a, b)
        assert a[3] == b[3] and a[4] == b[4], ('init/mem', n, a, b)
        for i in (5, 6, 7):
            assert [strip(x) for x in a[i] if x] == list(b[i]), ('contract', n, a[i], b[i])
        assert sc.parent_for(n) == sc2.parent_for(n) and sorted(sc.children_for(n)) == sorted(sc2.children_for(n))
        if all(x is None or (x == x.strip() and x != '') for x in a[1:3]) and all(x == x.strip() and x for i in (5,6,7) for x in a[i]):
            eq = sc.state_for(n) == sc2.state_for(n)
            stats['eq_true' if eq else 'EQ_FALSE'] += 1
    def nt(t):
        f = tfield(t)
        return (f[0], f[1], norm(f[2]), norm(f[3]), norm(f[4]), f[5], tuple(strip(x) for x in f[6] if x), tuple(strip(x) for x in f[7] if x), tuple(strip(x) for x in f[8] if x))
    assert sorted(map(repr, map(nt, sc.transitions))) == sorted(map(repr, map(nt, sc2.transitions))), ('transitions',)
    stats['ok'] += 1
    return stats, None

tot = collections.Counter(); bad = []
for seed in range(int(sys.argv[1]), int(sys.argv[2])):
    try:
        s, b = run(seed)
    except AssertionError as e:
        s, b = collections.Counter({'ASSERT': 1}), ('assert', seed, str(e)[:300])
    tot.update(s)
    if b: bad.append(b)
print(dict(sorted(tot.items())))
for b in bad[:10]: print(b)
print(len(bad), 'bad')
