import tempfile, os, json, sys
from sismic.io import import_from_yaml
from sismic.bdd import execute_bdd
y = """
statechart:
  name: t
  preamble: x = 0
  root state:
    name: root
    initial: a
    states:
      - name: a
        transitions:
          - event: go
            target: b
            action: x += 1
      - name: b
        transitions:
          - event: go
            target: a
            action: send('pong', n=x)
          - event: stay
            action: x += 10
"""
feat = '''
Feature: f
  Scenario: s1
    When I send event go
    Then state b is entered
    And state a is exited
    And state b is active
    And variable x equals 1
    When I send event go
    Then state a is entered
    And state b is not entered
    And event pong is fired with n=1
    And event pong is not fired
    And state a is active
  Scenario: s2 given between whens
    When I send event go
    Given I send event go
    When I send event stay
    Then state b is entered
    And state a is entered
  Scenario: s3 repeat
    When I repeat "I send event go" 3 times
    Then state b is entered
    And state a is entered
    And variable x equals 2
  Scenario: s4 then first
    Then state a is active
  Scenario: s5 wait
    When I wait 2.5 seconds
    Then expression "time == 2.5" holds
'''
with tempfile.TemporaryDirectory() as d:
    p = os.path.join(d, 'f.feature'); open(p,'w').write(feat)
    out = os.path.join(d, 'o.json')
    rc = execute_bdd(import_from_yaml(y), [p], behave_parameters=['-f','json','-o',out, '--no-summary'])
    print('rc', rc)
    for f in json.load(open(out)):
        for el in f['elements']:
            print(el['name'], el.get('status'))
            for st in el['steps']:
                print('    %-6s %-50s %s' % (st['keyword'], st['name'], st.get('result',{}).get('status')))
