import random, sys, collections, copy
from gen import *
from sismic.model import Event
from sismic.io import export_to_yaml, import_from_yaml

def sub(sc, x): return [x] + sc.descendants_for(x)

def classify(sc, ts):
    """expected outcome for selected set ts: 'nondet' | 'conflict' | 'ok'"""
    nondet = conflict = False
    for t1, t2 in itertools.combinations(ts, 2):
        s1, s2 = t1.source, t2.source
        sep = None
        if s1 != s2 and s1 not in sc.ancestors_for(s2) and s2 not in sc.ancestors_for(s1):
            # true LCA
            a1 = sc.ancestors_for(s1); a2 = sc.ancestors_for(s2)
            l = [a for a in a1 if a in a2][0]
            if isinstance(sc.state_for(l), OrthogonalState):
                r1 = [x for x in [s1] + a1 if sc.parent_for(x) == l][0]
                r2 = [x for x in [s2] + a2 if sc.parent_for(x) == l][0]
                sep = (r1, r2)
        if sep is None: nondet = True
        else:
            for t, r in ((t1, sep[0]), (t2, sep[1])):
                if t.target is not None and t.target not in sub(sc, r): conflict = True
    return 'nondet' if nondet else 'conflict' if conflict else 'ok'

def twin(sc, rnd):
    """same chart, declaration order shuffled, built through the API"""
    sc2 = Statechart(sc.name, preamble=sc.preamble)
    def add(name, parent):
        st = copy.deepcopy(sc.state_for(name))
        sc2.add_state(st, parent)
        ch = list(sc.children_for(name)); rnd.shuffle(ch)
        for c in ch: add(c, name)
    add(sc.root, None)
    ts = list(sc.transitions); rnd.shuffle(ts)
    for t in ts: sc2.add_transition(copy.deepcopy(t))
    return sc2

def tkey(t): return (t.source, t.target, t.event, t.guard, t.action, t.priority)

def run(seed, nops=25):
    rnd = random.Random(seed)
    g = G(rnd); sc = g.build()
    # add entry/exit probes
    for n in sc.states:
        st = sc.state_for(n)
        st.on_entry = "P('in:%s')" % n; st.on_exit = "P('out:%s')" % n
    sc2 = twin(sc, rnd)
    val = {}
    def gvk(i, e):
        k = (i, None if e is None else e.name, len(hist))
        if k not in val: val[k] = random.Random(hash((seed, i, k[1], k[2]))).random() < 0.6
        return val[k]
    hist = []
    log, log2 = [], []
    it = Interpreter(sc, initial_context={'G': gvk, 'P': log.append})
    it2 = Interpreter(sc2, initial_context={'G': gvk, 'P': log2.append})
    stats = collections.Counter()
    lastexit = {}
    def do(itx):
        try:
            return itx.execute_once(), None
        except (NonDeterminismError, ConflictingTransitionsError, StatechartError) as e:
            return None, type(e).__name__
    for _ in range(nops):
        if rnd.random() < 0.7:
            e = rnd.choice(['e', 'f']); it.queue(e); it2.queue(e)
        cfg = list(it.configuration); ev = it._select_event()
        del log[:]; del log2[:]
        def gv(t, e): return gvk(int(t.guard[2:].split(',')[0]), e)
        expected = fires_spec(sc, set(cfg), ev, gv) if it._initialized else []
        step, err = do(it); step2, err2 = do(it2)
        hist.append(1)
        # C07
        assert err == err2, ('C07 err', err, err2)
        assert log == log2, ('C07 log', log, log2)
        if step or step2:
            assert (step is None) == (step2 is None)
            if step:
                assert [tkey(t) for t in step.transitions] == [tkey(t) for t in step2.transitions], 'C07 transitions'
                assert [(m.entered_states, m.exited_states) for m in step.steps] == [(m.entered_states, m.exited_states) for m in step2.steps], ('C07 micro', step, step2)
        assert it.configuration == it2.configuration
        # C04
        if it._initialized and (step is not None or err):
            exp = classify(sc, expected)
            got = {'NonDeterminismError': 'nondet', 'ConflictingTransitionsError': 'conflict', None: 'ok'}.get(err, err)
            assert exp == got, ('C04', exp, got, expected)
            stats['c04_' + exp] += 1
        if err:
            assert it.configuration == cfg and log == []
            it._select_event(consume=True); it2._select_event(consume=True)
            continue
        if step is None: continue
        # C03: exec log = replay
        rep = []
        active = set(cfg)
        for m in step.steps:
            # order laws
            ex, en = m.exited_states, m.entered_states
            for i, a in enumerate(ex):
                for b in ex[i+1:]:
                    assert b not in sc.descendants_for(a), ('C03 exit inner first', ex)
                    if sc.depth_for(a) == sc.depth_for(b): assert a < b, ('C03 exit name order', ex)
                    assert sc.depth_for(a) >= sc.depth_for(b), ('C03 exit depth order', ex)
            for i, a in enumerate(en):
                for b in en[i+1:]:
                    assert b not in sc.ancestors_for(a), ('C03 entry outer first', en)
            rep += ['out:' + s for s in ex]
            if m.transition: rep.append(int(m.transition.action[2:-1]))
            rep += ['in:' + s for s in en]
            # C06 bookkeeping: memory at exit of compound parents
            snap = set(active)
            for s in ex:
                if isinstance(sc.state_for(s), CompoundState):
                    lastexit[s] = (snap & set(sc.children_for(s)), snap & set(sc.descendants_for(s)))
                assert s in active, ('exit of inactive', s); active.discard(s)
            for s in en:
                assert s not in active, ('entry of active', s, step); active.add(s)
            # C06 restore shape
            for s in ex:
                st = sc.state_for(s)
                if isinstance(st, (ShallowHistoryState, DeepHistoryState)) and not m.transition:
                    p = sc.parent_for(s)
                    if p in lastexit:
                        mem = lastexit[p][0] if isinstance(st, ShallowHistoryState) else lastexit[p][1]
                        stats['c06_restore'] += 1
                    else:
                        mem = {st.memory}; stats['c06_default'] += 1
                    assert en == sorted(mem, key=lambda x: (sc.depth_for(x), x)), ('C06', s, en, mem)
        assert log == rep, ('C03 replay', log, rep)
        assert sorted(active) == sorted(it.configuration), 'C03 config'
        # transitions order
        keys = [(-sc.depth_for(t.source), t.source) for t in step.transitions]
        assert keys == sorted(keys), 'C03 transition order'
        assert legal(sc, it.configuration) is True
    return stats, None

tot = collections.Counter(); bad = []
for seed in range(int(sys.argv[1]), int(sys.argv[2])):
    try:
        s, b = run(seed)
    except AssertionError as e:
        s, b = collections.Counter({'ASSERT': 1}), ('assert', seed, str(e)[:400])
    tot.update(s)
    if b: bad.append(b)
print(dict(tot))
for b in bad[:8]: print(b)
print(len(bad), 'bad')
