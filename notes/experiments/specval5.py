"""C05 / C08 / C10 / C13 / C15 spec validation on random charts (design-phase experiment)."""
import random, sys, collections
from gen import *
from sismic.model import Event, InternalEvent, MetaEvent

def run(seed, nops=30):
    rnd = random.Random(seed)
    g = G(rnd, guard_p=0.3); sc = g.build()
    log = []
    stats = collections.Counter()
    nk = [0]
    def mkconds(owner):
        out = []
        for _ in range(rnd.randint(0, 2)):
            out.append("K(%d)" % nk[0]); nk[0] += 1
        return out
    kinfo = {}
    for n in sc.states:
        st = sc.state_for(n)
        st.on_entry = "P('in:%s')" % n; st.on_exit = "P('out:%s')" % n
        if rnd.random() < 0.3: st.on_entry += "; send('%s', delay=%d)" % (rnd.choice('ef'), rnd.choice([0, 0, 1, 2]))
        if rnd.random() < 0.15: st.on_exit += "; notify('user%d')" % rnd.randint(0, 2)
        for kind, lst in (('pre', st.preconditions), ('post', st.postconditions), ('inv', st.invariants)):
            for c in mkconds(n):
                lst.append(c); kinfo[int(c[2:-1])] = (kind, 'S', n)
    for i, t in enumerate(sc.transitions):
        t.action = "P(('act', %d))" % i
        if rnd.random() < 0.3: t.action += "; send('%s', v=%d)" % (rnd.choice('ef'), i)
        # time guards
        if t.guard is None and rnd.random() < 0.3:
            d = rnd.choice([0, 1, 2, 3])
            pr = rnd.choice(['after', 'idle'])
            t.guard = "T(%d, '%s', %d, %s(%d))" % (i, pr, d, pr, d)
        for kind, lst in (('pre', t.preconditions), ('post', t.postconditions), ('inv', t.invariants)):
            for c in mkconds(i):
                lst.append(c); kinfo[int(c[2:-1])] = (kind, 'T', i)
    # ghost for time predicates
    entered_at, fired_at = {}, {}
    tchecks = []
    def T(i, pred, d, value):
        src = sc.transitions[i].source
        now = it.clock.time
        ref = entered_at[src] if pred == 'after' else fired_at[src]
        assert value == (now - d >= ref), ('C13', pred, d, value, now, ref)
        tchecks.append(1); stats['c13_' + pred + ('_T' if value else '_F')] += 1
        if now - d == ref: stats['c13_boundary'] += 1
        return value
    def K(i): log.append(('K', i)); return True
    metas = []; bound = []
    it = Interpreter(sc, initial_context={'G': lambda i, e: rnd.random() < 0.6, 'P': log.append, 'K': K, 'T': T})
    it.attach(lambda m: metas.append(m))
    it.bind(bound.append)
    seq = [0]; tickets = {'int': [], 'ext': []}; consumed = []
    tidx = {id(t): i for i, t in enumerate(sc.transitions)}
    for _ in range(nops):
        r = rnd.random()
        if r < 0.5:
            d = rnd.choice([0, 0, 0, 1, 2, 3]); nm = rnd.choice('efz')
            it.queue(nm, **({'delay': d} if d else {}))
            tickets['ext'].append((it.time + d, seq[0], nm)); seq[0] += 1
        elif r < 0.65:
            it.clock.time += rnd.choice([0, 1, 1, 2])
        del log[:]; del metas[:]; del bound[:]; del tchecks[:]
        cfg0 = list(it.configuration)
        was_init = it._initialized
        try:
            step = it.execute_once()
        except (NonDeterminismError, ConflictingTransitionsError, StatechartError) as e:
            ev = it._select_event(consume=True)
            for cls in ('int', 'ext'):
                due = sorted(x for x in tickets[cls] if x[0] <= it.time)
                if due: tickets[cls].remove(due[0]); break
            continue
        now = it.time
        assert now == it.clock.time
        # ---------- C05: expected consumed event
        exp = None
        for cls in ('int', 'ext'):
            due = sorted(x for x in tickets[cls] if x[0] <= now)
            if due: exp = (cls, due[0]); break
        got = step.event if step else None
        if got is not None:
            assert exp is not None and exp[1][2] == got.name and (isinstance(got, InternalEvent) == (exp[0] == 'int')), ('C05 consumed', got, exp)
            tickets[exp[0]].remove(exp[1]); stats['consumed'] += 1
            if any(x[0] == exp[1][0] for x in tickets[exp[0]]): stats['fifo_tie'] += 1
        else:
            if exp is not None:
                assert step is not None and ((not was_init) or (step.transitions and all(t.event is None for t in step.transitions))), ('C05 due but not consumed', exp, step)
                stats['preempted'] += 1
        if step is None:
            assert exp is None
            # still: meta started/ended and invariants
        # ---------- expected meta stream / contract points / exec log
        expm = [('step started', {'time': now})]
        if got is not None: expm.append(('event consumed', {'event': got}))
        explog = []
        active = set(cfg0)
        sent_all = []
        for m in (step.steps if step else []):
            for s in m.exited_states:
                explog.append('out:' + s)
                explog += [('K', int(c[2:-1])) for c in sc.state_for(s).postconditions]
                expm.append(('state exited', {'state': s})); active.discard(s)
            if m.transition:
                t = m.transition
                explog += [('K', int(c[2:-1])) for c in t.preconditions + t.invariants]
                explog.append(('act', tidx[id(t)]))
                explog += [('K', int(c[2:-1])) for c in t.postconditions + t.invariants]
                expm.append(('transition processed', {'source': t.source, 'target': t.target, 'event': m.event}))
                fired_at[t.source] = now
            for s in m.entered_states:
                explog += [('K', int(c[2:-1])) for c in sc.state_for(s).preconditions]
                explog.append('in:' + s)
                expm.append(('state entered', {'state': s})); active.add(s)
                entered_at[s] = now; fired_at[s] = now
            for e in m.sent_events:
                if isinstance(e, InternalEvent):
                    expm.append(('event sent', {'event': e}))
                    if 'delay' in e.data: expm.append(('delayed event sent', {'event': e}))
                    tickets['int'].append((now + e.data.get('delay', 0), seq[0], e.name)); seq[0] += 1
                    sent_all.append(e)
                else:
                    assert isinstance(e, MetaEvent); expm.append((e.name, dict(e.data)))
        for s in sorted(it.configuration, key=lambda x: (sc.depth_for(x), x)):
            explog += [('K', int(c[2:-1])) for c in sc.state_for(s).invariants]
        expm.append(('step ended', {}))
        assert log == explog, ('C08/C03 log', log, explog)
        assert [(m.name, m.data) for m in metas] == expm, ('C10 metas', [(m.name, m.data) for m in metas], expm)
        # C15
        assert [(type(b), b.name, b.data) for b in bound] == [(Event, e.name, e.data) for e in sent_all], ('C15', bound, sent_all)
        # C13: time predicates (guards evaluated during selection, before this step's updates) -> use ghost before update
        stats['steps'] += 1
    return stats, None

tot = collections.Counter(); bad = []
for seed in range(int(sys.argv[1]), int(sys.argv[2])):
    try:
        s, b = run(seed)
    except AssertionError as e:
        s, b = collections.Counter({'ASSERT': 1}), ('assert', seed, str(e)[:500])
    tot.update(s)
    if b: bad.append(b)
print(dict(sorted(tot.items())))
for b in bad[:6]: print(b)
print(len(bad), 'bad')
