from sismic.io import import_from_yaml, export_to_yaml
from sismic.interpreter import Interpreter
from sismic.model import *
from sismic.exceptions import *

def mk(order):
    regs = {'A': """
          - name: A
            on exit: log.append('A')
""", 'B': """
          - name: B
            on exit: log.append('B')
"""}
    y = """
statechart:
  name: t
  preamble: log = []
  root state:
    name: root
    initial: P
    states:
      - name: P
        transitions:
          - event: go
            target: out
        parallel states:""" + ''.join(regs[o] for o in order) + """
      - name: out
"""
    return import_from_yaml(y)
for order in ['AB','BA']:
    sc = mk(order)
    it = Interpreter(sc)
    s0 = it.execute_once()
    it.queue('go')
    s = it.execute_once()
    print(order, sc.children_for('P'), s0.entered_states, s.exited_states, it.context['log'])
