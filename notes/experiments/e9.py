# K3: stale bisect position vs pop(0)
import sismic.interpreter.default as d
from sismic.io import import_from_yaml
from sismic.interpreter import Interpreter
y = """
statechart:
  name: t
  root state:
    name: root
"""
it = Interpreter(import_from_yaml(y)); it.execute_once()
it.queue('a'); it.queue('b', delay=10)
real = d.bisect.bisect_right
def racy(*a, **k):
    pos = real(*a, **k)
    # runner thread runs here: consumes 'a'
    it.execute_once()
    return pos
class B: bisect_right = staticmethod(racy)
d.bisect = B
it.queue('c', delay=5)
d.bisect = __import__('bisect')
print([(t, e.name) for t, e in it._external_queue])
it.clock.time = 5
print('at t=5:', it.execute_once())
it.clock.time = 10
print('at t=10:', it.execute_once(), it.execute_once())
