"""C09 / C18 validation (design-phase experiment)."""
import random, sys, collections, pickle, copy
from gen import *

def Gfun(i, e):  # deterministic guard valuation, picklable
    return (hash((i, None if e is None else e.name)) % 5) < 3

def obs(step):
    if step is None: return None
    return (step.time, repr(step.event), [(m.transition and (m.transition.source, m.transition.target), m.entered_states, m.exited_states, [repr(e) for e in m.sent_events]) for m in step.steps])

def build(seed):
    rnd = random.Random(seed)
    g = G(rnd, guard_p=0.3); sc = g.build()
    for n in sc.states:
        st = sc.state_for(n)
        st.on_entry = "x = x + 1" + ("; send('%s', delay=%d)" % (rnd.choice('ef'), rnd.choice([0, 1, 2])) if rnd.random() < .3 else '')
        if rnd.random() < .5: st.invariants.append('x >= __old__.x')
        if rnd.random() < .3: st.postconditions.append('x >= __old__.x')
        if rnd.random() < .3: st.preconditions.append('x >= 0')
    for t in sc.transitions:
        t.action = 'x += 2'
        if rnd.random() < .4: t.postconditions.append('x == __old__.x + 2')
        if rnd.random() < .3: t.invariants.append('x >= 0')
    return sc, rnd

def run(seed, nops=20):
    sc, rnd = build(seed)
    stats = collections.Counter()
    ops = []
    for _ in range(nops):
        r = rnd.random()
        ops.append(('q', rnd.choice('efz'), rnd.choice([0, 0, 1, 3])) if r < .5 else ('c', rnd.choice([1, 2])) if r < .65 else ('x',))
    def apply(it, op):
        if op[0] == 'q': it.queue(op[1], **({'delay': op[2]} if op[2] else {})); return None
        if op[0] == 'c': it.clock.time += op[1]; return None
        try: return ('step', obs(it.execute_once()), it.configuration, sorted((k, v) for k, v in it.context.items() if k == 'x'))
        except SismicError as e:
            try: it._select_event(consume=True)
            except Exception: pass
            return ('exc', type(e).__name__, getattr(e, 'condition', None), it.configuration)
    # reference run
    ref = Interpreter(sc, initial_context={'G': Gfun}); ref.execute_once()
    trace = [apply(ref, op) for op in ops]
    # C09
    sc2, _ = build(seed)
    a = Interpreter(sc2, initial_context={'G': Gfun}, ignore_contract=True); a.execute_once()
    ta = [apply(a, op) for op in ops]
    for i, (x, y) in enumerate(zip(trace, ta)):
        if x and x[0] == 'exc' and 'conditionError' in x[1].replace('Pre', 'pre').replace('Post', 'post').replace('Invariant', 'in') + 'x':
            pass
        if x and x[0] == 'exc' and x[1] in ('PreconditionError', 'PostconditionError', 'InvariantError'):
            stats['contract_fail'] += 1; break
        assert x == y, ('C09', i, x, y)
    else: stats['c09_full'] += 1
    # C18: snapshot at every boundary
    for k in range(len(ops) + 1):
        for how in ('pickle', 'deepcopy'):
            it = Interpreter(build(seed)[0], initial_context={'G': Gfun}); it.execute_once()
            for op in ops[:k]: apply(it, op)
            clone = pickle.loads(pickle.dumps(it)) if how == 'pickle' else copy.deepcopy(it)
            t1 = [apply(it, op) for op in ops[k:]]
            t2 = [apply(clone, op) for op in ops[k:]]
            assert t1 == trace[k:], ('C18 snapshot disturbed original', how, k)
            assert t2 == trace[k:], ('C18 clone diverges', how, k, [ (x, y) for x, y in zip(t2, trace[k:]) if x != y][:1])
            stats['c18_' + how] += 1
    return stats, None

tot = collections.Counter(); bad = []
for seed in range(int(sys.argv[1]), int(sys.argv[2])):
    try:
        s, b = run(seed)
    except AssertionError as e:
        s, b = collections.Counter({'ASSERT': 1}), ('assert', seed, str(e)[:500])
    tot.update(s)
    if b: bad.append(b)
print(dict(sorted(tot.items())))
for b in bad[:5]: print(b)
print(len(bad), 'bad')
