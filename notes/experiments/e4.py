import pickle, copy
from sismic.io import import_from_yaml
from sismic.interpreter import Interpreter
from sismic.model import *
y = """
statechart:
  name: t
  preamble: x = 0
  root state:
    name: root
    initial: a
    states:
      - name: a
        contract:
          - always: x >= __old__.x
        transitions:
          - event: inc
            action: x += 1
"""
sc = import_from_yaml(y)
it = Interpreter(sc)
it.execute_once()
it.queue('inc'); print(it.execute_once())
for name, clone in [('pickle', pickle.loads(pickle.dumps(it))), ('deepcopy', copy.deepcopy(it))]:
    clone.queue('inc')
    try:
        print(name, clone.execute_once())
    except Exception as e:
        print(name, 'EXC', type(e).__name__, str(e)[:100])
it.queue('inc'); print('orig', it.execute_once())
try:
    print(hash(BasicState('a')))
except Exception as e: print('hash', e)
