"""C17 copy_from_statechart behaviour (design-phase experiment)."""
import random, sys, collections
from gen import *

def run(seed, nops=20):
    rnd = random.Random(seed)
    g = G(rnd); guest = g.build()
    for n in guest.states:
        st = guest.state_for(n); st.on_entry = "P('in:%s')" % n; st.on_exit = "P('out:%s')" % n
    host = Statechart('host')
    host.add_state(CompoundState('hroot', initial='slot'), None)
    host.add_state(BasicState('slot'), 'hroot')
    groot = guest.root
    rho = lambda s: 'slot' if s == groot else 'g_' + s
    nint = sum(t.internal for t in guest.transitions)
    host.copy_from_statechart(guest, source=groot, replace='slot', renaming_func=lambda s: 'g_' + s)
    host.validate()
    assert sum(t.internal for t in host.transitions) == nint, 'internal count'
    assert len(host.transitions) == len(guest.transitions)
    def Gf(i, e): return (hash((i, None if e is None else e.name)) % 5) < 3
    l1, l2 = [], []
    a = Interpreter(guest, initial_context={'G': Gf, 'P': l1.append}); b = Interpreter(host, initial_context={'G': Gf, 'P': l2.append})
    st = collections.Counter()
    first = True
    for _ in range(nops):
        if rnd.random() < .7:
            e = rnd.choice('ef'); a.queue(e); b.queue(e)
        def do(it):
            try:
                s = it.execute_once()
                return None if s is None else [((m.transition.source, m.transition.target) if m.transition else None, m.entered_states, m.exited_states) for m in s.steps]
            except SismicError as ex:
                it._select_event(consume=True); return type(ex).__name__
        del l1[:]; del l2[:]
        ra, rb = do(a), do(b)
        if a.final: break
        if isinstance(ra, list):
            ra = [((rho(t[0]), rho(t[1]) if t[1] else t[1]) if t else None, list(map(rho, en)), list(map(rho, ex))) for t, en, ex in ra]
        if first and isinstance(rb, list):
            # host init also enters hroot first
            assert rb[0][1] == ['hroot'] and rb[1][1] == ['slot']
            rb = [(None, ['slot'], [])] + rb[2:]
            first = False
        m = lambda x: x if isinstance(x, int) else x.split(':')[0] + ':' + rho(x.split(':')[1])
        assert ra == rb, ('C17 copy', ra, rb)
        l2f = [x for x in l2]
        assert l1 == l2f, ('log', l1, l2)
        st['steps'] += 1
    return st
tot = collections.Counter(); bad = []
for seed in range(int(sys.argv[1]), int(sys.argv[2])):
    try: tot.update(run(seed))
    except AssertionError as e:
        tot['ASSERT'] += 1; bad.append((seed, str(e)[:300]))
print(dict(sorted(tot.items())))
for b in bad[:5]: print(b)
