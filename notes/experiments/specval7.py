"""C14 clock laws with scripted time source and exact rationals; C17 rename equivariance / copy (design-phase experiment)."""
import random, sys, collections
from fractions import Fraction as F
import sismic.clock.clock as ck
from gen import *

def clock_run(seed):
    rnd = random.Random(seed)
    now = [F(rnd.randint(0, 5))]
    def tick():
        now[0] += F(rnd.choice([0, 0, 1, 2, 5]), rnd.choice([1, 2, 3]))
        return now[0]
    ck.time = tick
    c = ck.SimulatedClock()
    last = c.time; stats = collections.Counter()
    for _ in range(40):
        op = rnd.choice(['start', 'stop', 'speed', 'set', 'read', 'read'])
        before = (c._base, c._time, c._play, c._speed)
        if op == 'start': c.start()
        elif op == 'stop': c.stop()
        elif op == 'speed': c.speed = F(rnd.choice([0, 1, 1, 2, 3]), rnd.choice([1, 2]))
        elif op == 'set':
            v = last + F(rnd.choice([-3, -1, 0, 0, 1, 4]), rnd.choice([1, 2]))
            frozen = now[0]
            try:
                c.time = v
                stats['set_ok'] += 1
            except ValueError:
                stats['set_rej'] += 1
                assert (c._base, c._time, c._play, c._speed) == before
        cur = c.time
        assert cur >= last, ('C14 monotone', op, last, cur)
        # stopped => stands still between two reads
        if not c._play:
            assert c.time == cur
        else:
            t0 = now[0]; a = c.time; t1 = now[0]  # a read at real time t1
            b = c.time; t2 = now[0]
            assert b - a == c.speed * (t2 - t1), 'C14 rate'
        last = c.time
    return stats
def rename_run(seed, nops=20):
    rnd = random.Random(seed)
    g = G(rnd); sc = g.build()
    import copy
    sc2 = copy.deepcopy(sc)
    # order-preserving renaming: append suffix to every name in a subset such that order is kept: use mapping name -> name + '~' for ALL >= some pivot? keep simple: rho(n) = n + suffix where suffix chosen so that relative order preserved
    names = sorted(sc.states)
    sub = set(rnd.sample(names, rnd.randint(1, len(names))))
    rho = {}
    for n in names:
        rho[n] = n + '\x01' if n in sub else n   # n < n+'\x01' < any string > n that does not have n as a prefix... names here have distinct 2-char prefixes mostly
    # verify order preservation, else skip
    if sorted(names, key=lambda n: rho[n]) != names or len(set(rho.values())) != len(names): return collections.Counter({'skipped': 1})
    for n in names:
        if rho[n] != n: sc2.rename_state(n, rho[n])
    def Gf(i, e): return (hash((i, None if e is None else e.name)) % 5) < 3
    l1, l2 = [], []
    a = Interpreter(sc, initial_context={'G': Gf, 'P': l1.append}); b = Interpreter(sc2, initial_context={'G': Gf, 'P': l2.append})
    st = collections.Counter()
    for _ in range(nops):
        if rnd.random() < .7:
            e = rnd.choice('ef'); a.queue(e); b.queue(e)
        def do(it):
            try:
                s = it.execute_once()
                return None if s is None else (repr(s.event), [((m.transition.source, m.transition.target) if m.transition else None, m.entered_states, m.exited_states) for m in s.steps])
            except SismicError as ex:
                it._select_event(consume=True); return type(ex).__name__
        ra, rb = do(a), do(b)
        m = lambda x: rho.get(x, x)
        if isinstance(ra, tuple):
            ra = (ra[0], [((m(t[0]), m(t[1]) if t[1] else t[1]) if t else None, list(map(m, en)), list(map(m, ex))) for t, en, ex in ra[1]])
        assert ra == rb, ('C17', ra, rb)
        assert l1 == l2
        assert list(map(m, a.configuration)) == b.configuration
        st['steps'] += 1
    return st
tot = collections.Counter(); bad = []
for seed in range(int(sys.argv[1]), int(sys.argv[2])):
    for f in (clock_run, rename_run):
        try: tot.update(f(seed))
        except AssertionError as e:
            tot['ASSERT_' + f.__name__] += 1; bad.append((f.__name__, seed, str(e)[:300]))
print(dict(sorted(tot.items())))
for b in bad[:5]: print(b)
