"""C16/C17 spec validation: random edit scripts vs an independent abstract model (dict-of-sets)."""
import random, sys, collections, copy
from gen import *

def snapshot(sc):
    return {
        'states': {n: (type(sc.state_for(n)).__name__, getattr(sc.state_for(n), 'initial', None), getattr(sc.state_for(n), 'memory', None)) for n in sc.states},
        'parent': {n: sc.parent_for(n) for n in sc.states},
        'children': {n: sorted(sc.children_for(n)) for n in sc.states},
        'trans': sorted((t.source, str(t.target), str(t.event), str(t.guard), str(t.action), t.priority) for t in sc.transitions),
    }

def inv(sc):
    names = sc.states
    roots = [n for n in names if sc.parent_for(n) is None]
    assert len(roots) <= 1, 'roots'
    for n in names:
        assert sc.state_for(n).name == n
        p = sc.parent_for(n)
        if p is not None:
            assert p in names and n in sc.children_for(p), 'parent/children'
        for c in sc.children_for(n):
            assert sc.parent_for(c) == n
        assert len(set(sc.children_for(n))) == len(sc.children_for(n))
        # acyclic
        seen = set(); x = n
        while x is not None:
            assert x not in seen, 'cycle'; seen.add(x); x = sc.parent_for(x)
    for t in sc.transitions:
        assert t.source in names and isinstance(sc.state_for(t.source), TransitionStateMixin), 'tsource'
        assert t.target is None or t.target in names, 'ttarget'
    sc.validate()

def run(seed, nops=30):
    rnd = random.Random(seed)
    g = G(rnd); sc = g.build()
    stats = collections.Counter()
    for _ in range(nops):
        names = sc.states
        if not names: break
        pick = lambda: rnd.choice(names + ['nope']) if rnd.random() < 0.2 else rnd.choice(names)
        op = rnd.choice(['add', 'remove', 'rename', 'move', 'addt', 'remt', 'rot'])
        before = snapshot(sc)
        internal_before = [(id(t), t.internal) for t in sc.transitions]
        try:
            if op == 'add':
                k = rnd.choice([BasicState, CompoundState, OrthogonalState, FinalState, ShallowHistoryState])
                sc.add_state(k(rnd.choice(names + [g.fresh()])), pick())
            elif op == 'remove':
                n = pick()
                if n == sc.root and rnd.random() < 0.9: continue
                exp_removed = set([n] + (sc.descendants_for(n) if n in names else []))
                sc.remove_state(n)
                assert set(before['states']) - set(sc.states) == exp_removed
                for t in sc.transitions: assert t.source not in exp_removed and t.target not in exp_removed
                assert len(sc.transitions) == len([t for t in before['trans'] if t[0] not in exp_removed and t[1] not in exp_removed])
            elif op == 'rename':
                o, n = pick(), rnd.choice(names + [g.fresh(), g.fresh()])
                sc.rename_state(o, n)
                if o != n:
                    # expected: mapNames
                    m = lambda x: n if x == o else x
                    exp = {
                        'states': {m(k): (v[0], m(v[1]) if v[1] else v[1], m(v[2]) if v[2] else v[2]) for k, v in before['states'].items()},
                        'parent': {m(k): (m(v) if v else v) for k, v in before['parent'].items()},
                        'children': {m(k): sorted(map(m, v)) for k, v in before['children'].items()},
                        'trans': sorted((m(t[0]), m(t[1]) if t[1] != 'None' else t[1], t[2], t[3], t[4], t[5]) for t in before['trans']),
                    }
                    assert snapshot(sc) == exp, ('rename effect', o, n)
            elif op == 'move':
                sc.move_state(pick(), pick())
            elif op == 'addt':
                sc.add_transition(Transition(pick(), rnd.choice([None, pick()]), event='e'))
            elif op == 'remt':
                if sc.transitions: sc.remove_transition(rnd.choice(sc.transitions))
            elif op == 'rot':
                if sc.transitions:
                    kw = {}
                    if rnd.random() < 0.7: kw['new_source'] = pick()
                    if rnd.random() < 0.7: kw['new_target'] = rnd.choice([None, pick()])
                    sc.rotate_transition(rnd.choice(sc.transitions), **kw)
            stats[op + '_ok'] += 1
        except (StatechartError, ValueError) as e:
            stats[op + '_err'] += 1
            assert snapshot(sc) == before, ('ATOMICITY', op, str(e)[:60])
            continue
        except AssertionError:
            raise
        except Exception as e:
            stats[op + '_OTHER_' + type(e).__name__] += 1
            continue
        try:
            inv(sc)
        except StatechartError as e:
            raise AssertionError(('validate fails after', op, str(e)[:80]))
    return stats, None

tot = collections.Counter(); bad = []
for seed in range(int(sys.argv[1]), int(sys.argv[2])):
    try:
        s, b = run(seed)
    except AssertionError as e:
        s, b = collections.Counter({'ASSERT': 1}), ('assert', seed, str(e)[:300])
    tot.update(s)
    if b: bad.append(b)
print(dict(sorted(tot.items())))
for b in bad[:10]: print(b)
print(len(bad), 'bad')
