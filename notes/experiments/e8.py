import threading, time
from sismic.io import import_from_yaml
from sismic.interpreter import Interpreter
from sismic.runner import AsyncRunner
y = """
statechart:
  name: t
  root state:
    name: root
"""
it = Interpreter(import_from_yaml(y))
r = AsyncRunner(it, interval=0.2)
r.start(); time.sleep(0.05)
# thread A begins stop(): sets flags ...
r._stop.set(); r._unpaused.set()
# ... thread B calls pause() before A joins
r.pause()
r._thread.join(timeout=1.5)
print('KF-C20 runner alive after stop+pause:', r._thread.is_alive())
r.unpause(); r._thread.join(timeout=1.5); print('after unpause alive:', r._thread.is_alive())
AsyncRunner.__del__ = lambda self: None
