import random, sys, io
import ruamel.yaml as yaml
from sismic.model import *
from sismic.io import export_to_yaml, import_from_yaml
alpha = list("?:-#,[]{}&*!|>'\"%@` \n\t ab1~=\\.<_") + ['\x85', ' ', '\xa0', 'é', '﻿', '\r', '\x0b', '\x0c', '\x1f', '\x7f', '퟿', '😀']
rnd = random.Random(1)
fails = {}
lossy = {}
def rt(s, where):
    sc = Statechart('n'); sc.add_state(CompoundState('r', initial='a'), None)
    if where == 'name':
        sc.state_for('r').initial = s
        sc.add_state(BasicState(s), 'r')
    else:
        sc.add_state(BasicState('a'), 'r')
        if where == 'guard': sc.add_transition(Transition('a', 'a', guard=s))
        elif where == 'entry': sc.state_for('a').on_entry = s
        elif where == 'pre': sc.state_for('a').preconditions.append(s)
        elif where == 'preamble': sc._preamble = s
    try:
        sc2 = import_from_yaml(export_to_yaml(sc))
    except Exception as e:
        return 'FAIL ' + type(e).__name__
    if where == 'name':
        return None if s in sc2.states else 'LOSSY name'
    if where == 'guard': got = sc2.transitions[0].guard
    elif where == 'entry': got = sc2.state_for('a').on_entry
    elif where == 'pre': got = (sc2.state_for('a').preconditions or [None])[0]
    elif where == 'preamble': got = sc2.preamble; return None if got == s else 'LOSSY preamble'
    return None if (got or '') == s.strip() else 'LOSSY %r' % (got,)
n = 0
for _ in range(int(sys.argv[1])):
    L = rnd.randint(1, 6)
    s = ''.join(rnd.choice(alpha) for _ in range(L))
    for where in ('name', 'guard', 'entry', 'pre', 'preamble'):
        if where == 'name' and (s == 'r' or s == ''): continue
        n += 1
        r = rt(s, where)
        if r:
            key = (where, r.split()[0] + ' ' + (r.split()[1] if r.startswith('FAIL') else ''))
            fails.setdefault(key, []).append(s)
print(n, 'round trips')
for k, v in fails.items():
    print(k, len(v), [repr(x) for x in sorted(v, key=len)[:8]])
