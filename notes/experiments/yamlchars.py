import sys, io, unicodedata
import ruamel.yaml as yaml
def rt(s, flow):
    y = yaml.YAML(typ='safe', pure=True)
    if not flow: y.default_flow_style = False
    out = io.StringIO(); y.dump({'k': [{'a': s}]}, out)
    try:
        back = yaml.YAML(typ='safe', pure=True).load(out.getvalue())['k'][0]['a']
    except Exception as e:
        return 'FAIL ' + type(e).__name__
    return None if back == s else 'LOSSY %r' % (back,)
bad = {}
cps = list(range(0, 0x3000)) + [0xd7ff, 0xe000, 0xfeff, 0xfffd, 0xfffe, 0xffff, 0x10000, 0x1f600, 0x10ffff]
for cp in cps:
    if 0xd800 <= cp <= 0xdfff: continue
    ch = chr(cp)
    for tmpl in ('%s', 'a%sb', '%sb', 'a%s'):
        s = tmpl % ch
        for flow in (True, False):
            r = rt(s, flow)
            if r: bad.setdefault((r.split()[0], flow, tmpl), []).append(cp)
for k, v in sorted(bad.items(), key=str):
    print(k, len(v), [hex(x) for x in v[:20]])
