from sismic.io import import_from_yaml
from sismic.interpreter import Interpreter
from sismic.exceptions import *
# D12: mixed nondeterminism + conflict
y = """
statechart:
  name: t
  root state:
    name: root
    initial: P
    states:
      - name: out
      - name: P
        parallel states:
          - name: A
            initial: a1
            states:
              - name: a1
                transitions:
                  - event: go
                    target: a2
                  - event: go
                    target: a3
              - name: a2
              - name: a3
          - name: B
            initial: b1
            states:
              - name: b1
                initial: b11
                states:
                  - name: b11
                    transitions:
                      - event: go
                        target: out
"""
it = Interpreter(import_from_yaml(y)); it.execute_once(); it.queue('go')
try:
    print(it.execute_once())
except Exception as e:
    print('D12:', type(e).__name__)

# KF C15: notify spoof
y = """
statechart:
  name: t
  root state:
    name: root
    transitions:
      - event: e
        action: notify('event sent', event=event)
"""
got = []
it = Interpreter(import_from_yaml(y)); it.bind(got.append); it.execute_once(); it.queue('e', x=1); s = it.execute_once()
print('KF-C15: forwarded', got, 'sent_events', s.sent_events)
