from sismic.io import import_from_yaml
from sismic.exceptions import *
def t(name, y):
    try:
        sc = import_from_yaml(y)
        print(name, 'ACCEPTED', sc.states, [type(sc.state_for(s)).__name__ for s in sc.states])
    except StatechartError as e:
        print(name, 'StatechartError', str(e)[:80])
    except Exception as e:
        print(name, 'OTHER', type(e).__name__, str(e)[:80])
t('root history', """
statechart:
  name: t
  root state:
    name: root
    type: shallow history
""")
t('final with states', """
statechart:
  name: t
  root state:
    name: root
    initial: a
    states:
      - name: a
        type: final
        states:
          - name: b
""")
t('name null', """
statechart:
  name: t
  root state:
    name: null
""")
t('dup names', """
statechart:
  name: t
  root state:
    name: root
    states:
      - name: a
      - name: a
""")
t('name empty', """
statechart:
  name: t
  root state:
    name: ''
    states:
      - name: a
""")
t('child named like root', """
statechart:
  name: t
  root state:
    name: root
    states:
      - name: root
""")
t('memory on grandchild', """
statechart:
  name: t
  root state:
    name: root
    initial: c
    states:
      - name: h
        type: deep history
        memory: d
      - name: c
        states:
          - name: d
""")
t('initial on orthogonal', """
statechart:
  name: t
  root state:
    name: root
    initial: zzz
    parallel states:
      - name: a
""")
t('priority str', """
statechart:
  name: t
  root state:
    name: root
    transitions:
      - event: e
        priority: medium
""")
t('priority float', """
statechart:
  name: t
  root state:
    name: root
    transitions:
      - event: e
        priority: 1.7
""")
t('transition on final', """
statechart:
  name: t
  root state:
    name: root
    initial: f
    states:
      - name: f
        type: final
        transitions:
          - event: e
""")
t('empty states list', """
statechart:
  name: t
  root state:
    name: root
    states: []
    parallel states:
      - name: a
""")
t('no statechart name', """
statechart:
  root state:
    name: root
""")
t('not a mapping', "- a\n- b\n")
t('states as mapping', """
statechart:
  name: t
  root state:
    name: root
    states:
      name: a
""")
