from sismic.io import import_from_yaml, export_to_yaml
from sismic.interpreter import Interpreter
from sismic.model import *
from sismic.exceptions import *
import traceback

# 2: two enabled transitions from same source whose parent is orthogonal
y = """
statechart:
  name: t
  root state:
    name: root
    parallel states:
      - name: A
        transitions:
          - event: go
            action: x = 1
          - event: go
            action: x = 2
      - name: B
"""
sc = import_from_yaml(y)
it = Interpreter(sc)
it.execute_once()
it.queue('go')
try:
    s = it.execute_once()
    print('2:', s, it.configuration, it.context)
except Exception as e:
    print('2: EXC', type(e).__name__)

# 2b: external targets
y = """
statechart:
  name: t
  root state:
    name: root
    parallel states:
      - name: A
        initial: a1
        transitions:
          - event: go
            target: a1
          - event: go
            target: a2
        states:
          - name: a1
          - name: a2
      - name: B
"""
sc = import_from_yaml(y)
it = Interpreter(sc)
it.execute_once()
it.queue('go')
try:
    s = it.execute_once()
    print('2b:', s, it.configuration, it.context)
except Exception as e:
    print('2b: EXC', type(e).__name__)

# 3: root with two enabled transitions
y = """
statechart:
  name: t
  root state:
    name: root
    transitions:
      - event: go
        action: x = 1
      - event: go
        action: x = 2
"""
sc = import_from_yaml(y)
it = Interpreter(sc)
it.execute_once()
it.queue('go')
try:
    s = it.execute_once()
    print('3:', s, it.configuration, it.context)
except Exception as e:
    print('3: EXC', type(e).__name__, e)

# 4: rename with internal transition
sc = Statechart('x')
sc.add_state(CompoundState('root', initial='a'), None)
sc.add_state(BasicState('a'), 'root')
t = Transition('a', None, event='e', action='pass')
sc.add_transition(t)
print('4 before', t.internal)
sc.rename_state('a', 'b')
print('4 after', t.internal, t.source, t.target)

# 5 eq
print('5:', BasicState('a', on_entry='x=1') == BasicState('a', on_entry='x=1'))
print('5b:', BasicState('a', on_entry='x=1', on_exit='x=1') == BasicState('a', on_entry='x=1', on_exit='x=1'))
print('5c:', BasicState('a', on_entry='x=1', on_exit='y') == BasicState('a', on_entry='y', on_exit='y'))
