import random, sys, collections
from gen import *
from sismic.model import Event

def run(seed, nops=25):
    rnd = random.Random(seed)
    g = G(rnd); sc = g.build()
    tape = {}
    calls = []
    def Gf(i, event):
        calls.append((i, None if event is None else event.name))
        return rnd.random() < 0.6
    log = []
    it = Interpreter(sc, initial_context={'G': Gf, 'P': log.append})
    stats = collections.Counter()
    it.execute_once()
    assert legal(sc, it.configuration) is True, ('init', legal(sc, it.configuration))
    for _ in range(nops):
        if rnd.random() < 0.7: it.queue(rnd.choice(['e', 'f']))
        cfg = list(it.configuration)
        ev = it._select_event()
        # spec with memoised guard valuation: evaluate all guards up front with fixed valuation
        val = {}
        def gv(t, e):
            k = (id(t), None if e is None else e.name)
            if k not in val: val[k] = rnd.random() < 0.6
            return val[k]
        expected = fires_spec(sc, set(cfg), ev, gv)
        def Gf2(i, event):
            t = [t for t in sc.transitions if t.guard == 'G(%d, event)' % i][0]
            return gv(t, event)
        it._evaluator._context['G'] = Gf2
        try:
            step = it.execute_once()
        except (NonDeterminismError, ConflictingTransitionsError) as e:
            stats[type(e).__name__] += 1
            # classify
            srcs = [t.source for t in expected]
            same = len(set(srcs)) < len(srcs)
            if isinstance(e, NonDeterminismError): assert same, ('nondet without same source', srcs)
            assert it.configuration == cfg
            # consume the event manually to make progress
            it._select_event(consume=True)
            continue
        except StatechartError as e:
            stats['StatechartError'] += 1
            it._select_event(consume=True)
            continue
        got = step.transitions if step else []
        assert sorted(map(id, got)) == sorted(map(id, expected)), ('fires mismatch', seed, got, expected, cfg, ev)
        srcs = [t.source for t in expected]
        if len(set(srcs)) < len(srcs): stats['SILENT_SAME_SOURCE'] += 1
        stats['multi' if len(got) > 1 else 'n%d' % len(got)] += 1
        lg = legal(sc, it.configuration)
        if lg is not True:
            stats['ILLEGAL'] += 1
            return stats, ('illegal', seed, lg, it.configuration, step)
    return stats, None

tot = collections.Counter(); bad = []
for seed in range(int(sys.argv[1]), int(sys.argv[2])):
    try:
        s, b = run(seed)
    except AssertionError as e:
        s, b = collections.Counter({'ASSERT': 1}), ('assert', seed, str(e)[:300])
    tot.update(s)
    if b: bad.append(b)
print(dict(tot))
for b in bad[:6]: print(b)
print(len(bad), 'bad')
