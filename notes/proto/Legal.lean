/-! Prototype for C02: a transition micro step from a legal configuration yields a
    semi-legal one (set-level reasoning over an abstract tree).  Core Lean only. -/
namespace LG

abbrev Name := String

inductive Kind | basic | compound | orthogonal | shallowHistory | deepHistory | final
  deriving DecidableEq, Repr

structure Tree where
  parent : Name → Option Name
  kind : Name → Option Kind
  root : Name

inductive Anc (T : Tree) : Name → Name → Prop
  | base {a s} : T.parent s = some a → Anc T a s
  | step {a p s} : T.parent s = some p → Anc T a p → Anc T a s

/-- ancestor-or-self -/
def Sub (T : Tree) (x y : Name) : Prop := y = x ∨ Anc T x y

structure WF (T : Tree) : Prop where
  rank : ∃ r : Name → Nat, ∀ s p, T.parent s = some p → r p < r s
  root_state : T.kind T.root ≠ none
  root_parent : T.parent T.root = none
  parent_state : ∀ s p, T.parent s = some p → T.kind s ≠ none ∧ T.kind p ≠ none
  nonroot : ∀ s, T.kind s ≠ none → s ≠ T.root → ∃ p, T.parent s = some p
  leaf : ∀ s p k, T.parent s = some p → T.kind p = some k → k = .compound ∨ k = .orthogonal

variable {T : Tree}

theorem Anc.trans {a b s : Name} (h1 : Anc T a b) (h2 : Anc T b s) : Anc T a s := by
  induction h2 with
  | base hp => exact Anc.step hp h1
  | step hp _ ih => exact Anc.step hp ih

theorem Anc.rank_lt (r : Name → Nat) (hr : ∀ s p, T.parent s = some p → r p < r s)
    {a s : Name} (h : Anc T a s) : r a < r s := by
  induction h with
  | base hp => exact hr _ _ hp
  | step hp _ ih => exact Nat.lt_trans ih (hr _ _ hp)

theorem Anc.irrefl (h : WF T) {a : Name} : ¬ Anc T a a := by
  obtain ⟨r, hr⟩ := h.rank
  intro ha
  exact Nat.lt_irrefl _ (ha.rank_lt r hr)

theorem Anc.asymm (h : WF T) {a b : Name} (h1 : Anc T a b) (h2 : Anc T b a) : False :=
  Anc.irrefl h (h1.trans h2)

/-- the parent of `y` is the first proper ancestor: any ancestor of `y` is the parent or above it -/
theorem Anc.parent_cases {a y p : Name} (h : Anc T a y) (hp : T.parent y = some p) :
    a = p ∨ Anc T a p := by
  cases h with
  | base hp' => left; rw [hp] at hp'; exact (Option.some.inj hp').symm
  | step hp' h' => right; rw [hp] at hp'; cases hp'; exact h'

theorem Anc.chain {a b s : Name} (h1 : Anc T a s) (h2 : Anc T b s) :
    a = b ∨ Anc T a b ∨ Anc T b a := by
  induction h1 generalizing b with
  | base hp =>
    rcases h2.parent_cases hp with h | h
    · left; exact h.symm
    · right; right; exact h
  | step hp _ ih =>
    rcases h2.parent_cases hp with h | h
    · right; left; rw [h]; assumption
    · exact ih h

/-- every state other than the root has the root as an ancestor -/
theorem root_anc (h : WF T) : ∀ s, T.kind s ≠ none → s ≠ T.root → Anc T T.root s := by
  obtain ⟨r, hr⟩ := h.rank
  have aux : ∀ n s, r s < n → T.kind s ≠ none → s ≠ T.root → Anc T T.root s := by
    intro n
    induction n with
    | zero => intro s hs; omega
    | succ n ih =>
      intro s hs hk hne
      obtain ⟨p, hp⟩ := h.nonroot s hk hne
      by_cases hpr : p = T.root
      · rw [hpr] at hp; exact Anc.base hp
      · have := ih p (by have := hr s p hp; omega) (h.parent_state s p hp).2 hpr
        exact Anc.step hp this
  intro s
  exact aux (r s + 1) s (Nat.lt_succ_self _)

/-! ### configurations as predicates -/
abbrev Cfg := Name → Prop

structure Legal (T : Tree) (cfg : Cfg) : Prop where
  root : cfg T.root
  state : ∀ s, cfg s → T.kind s ≠ none
  up : ∀ s p, cfg s → T.parent s = some p → cfg p
  compound : ∀ z, cfg z → T.kind z = some .compound → ∃ c, T.parent c = some z ∧ cfg c ∧
      ∀ c', T.parent c' = some z → cfg c' → c' = c
  orth : ∀ z, cfg z → T.kind z = some .orthogonal → ∀ c, T.parent c = some z → cfg c
  nohist : ∀ s, cfg s → T.kind s ≠ some .shallowHistory ∧ T.kind s ≠ some .deepHistory

structure Semi (T : Tree) (cfg : Cfg) : Prop where
  root : cfg T.root
  state : ∀ s, cfg s → T.kind s ≠ none
  up : ∀ s p, cfg s → T.parent s = some p → cfg p
  compound : ∀ z, cfg z → T.kind z = some .compound →
      ∀ c c', T.parent c = some z → T.parent c' = some z → cfg c → cfg c' → c = c'

theorem Legal.up_anc {cfg : Cfg} (h : Legal T cfg) {a s : Name} (ha : Anc T a s) (hs : cfg s) : cfg a := by
  induction ha with
  | base hp => exact h.up _ _ hs hp
  | step hp _ ih => exact ih (h.up _ _ hs hp)

/-- The situation of `_create_steps` for an external transition `s → t` whose code-LCA is `l`:
    `x` is the child of `l` that is or contains the source, `y` the child of `l` that is or
    contains the target. -/
structure Scope (T : Tree) (s t l x y : Name) : Prop where
  xs : Sub T x s
  xp : T.parent x = some l
  yt : Sub T y t
  yp : T.parent y = some l
  t_state : T.kind t ≠ none

/-- states entered: strictly below `l`, on the way to (and including) `t` -/
def OnPath (T : Tree) (t l : Name) (z : Name) : Prop := Sub T z t ∧ Anc T l z

/-- configuration after exiting the active part of `Sub x` and entering the path -/
def after (T : Tree) (cfg : Cfg) (t l x : Name) : Cfg :=
  fun z => (cfg z ∧ ¬ Sub T x z) ∨ OnPath T t l z

theorem sub_of_parent_sub {x z p : Name} (hp : T.parent z = some p) (h : Sub T x p) : Sub T x z := by
  rcases h with h | h
  · right; rw [h] at hp; exact Anc.base hp
  · right; exact Anc.step hp h

/-- every element of the path lies in `Sub y` -/
theorem onPath_sub_y (hwf : WF T) {s t l x y : Name} (sc : Scope T s t l x y) {z : Name}
    (hz : OnPath T t l z) : Sub T y z := by
  obtain ⟨hzt, hlz⟩ := hz
  -- y and z are both ancestors-or-self of t, both strictly below l
  have hly : Anc T l y := Anc.base sc.yp
  rcases sc.yt with hy | hy <;> rcases hzt with hz' | hz'
  · left; rw [← hz', hy]
  · -- y = t, z proper ancestor of t = y, z below l: but parent y = l so Anc z y → z = l ∨ Anc z l
    exfalso
    rw [hy] at hz'
    rcases hz'.parent_cases sc.yp with h | h
    · rw [h] at hlz; exact Anc.irrefl hwf hlz
    · exact Anc.asymm hwf hlz h
  · right; rw [← hz']; exact hy
  · rcases Anc.chain hy hz' with h | h | h
    · left; exact h.symm
    · right; exact h
    · exfalso
      rcases h.parent_cases sc.yp with h' | h'
      · rw [h'] at hlz; exact Anc.irrefl hwf hlz
      · exact Anc.asymm hwf hlz h'

theorem step_semi (hwf : WF T) {cfg : Cfg} (hL : Legal T cfg) {s t l x y : Name}
    (sc : Scope T s t l x y) (hs : cfg s)
    (hl : T.kind l = some .compound ∨ (T.kind l = some .orthogonal ∧ x = y)) :
    Semi T (after T cfg t l x) := by
  have hx_act : cfg x := by
    rcases sc.xs with h | h
    · rw [← h]; exact hs
    · exact hL.up_anc h hs
  have hl_act : cfg l := hL.up _ _ hx_act sc.xp
  have hl_notsub : ¬ Sub T x l := by
    rintro (h | h)
    · have : Anc T l x := Anc.base sc.xp
      rw [h] at this; exact Anc.irrefl hwf this
    · exact Anc.asymm hwf h (Anc.base sc.xp)
  -- an active state strictly inside `Sub y` forces `y = x`
  have hy_act_eq : cfg y → y = x := by
    intro hy
    rcases hl with hk | ⟨_, he⟩
    · obtain ⟨c, _, _, huniq⟩ := hL.compound l hl_act hk
      rw [huniq y sc.yp hy, huniq x sc.xp hx_act]
    · exact he.symm
  constructor
  · -- root
    left
    refine ⟨hL.root, ?_⟩
    rintro (h | h)
    · have := sc.xp; rw [← h, hwf.root_parent] at this; cases this
    · -- root has no parent, so it has no ancestor
      cases h with
      | base hp => rw [hwf.root_parent] at hp; cases hp
      | step hp _ => rw [hwf.root_parent] at hp; cases hp
  · -- states
    rintro z (⟨hz, _⟩ | ⟨hzt, _⟩)
    · exact hL.state z hz
    · rcases hzt with h | h
      · rw [← h]; exact sc.t_state
      · cases h with
        | base hp => exact (hwf.parent_state _ _ hp).2
        | step hp h' =>
          -- z is an ancestor: it is the parent of something
          clear hp
          induction h' with
          | base hp' => exact (hwf.parent_state _ _ hp').2
          | step _ _ ih => exact ih
  · -- upward closed
    rintro z p (⟨hz, hnz⟩ | ⟨hzt, hlz⟩) hp
    · left
      refine ⟨hL.up z p hz hp, ?_⟩
      intro hsub
      exact hnz (sub_of_parent_sub hp hsub)
    · have hpt : Anc T p t := by
        rcases hzt with h | h
        · rw [h]; exact Anc.base hp
        · exact (Anc.base hp).trans h
      rcases hlz.parent_cases hp with h | h
      · left; rw [← h]; exact ⟨hl_act, hl_notsub⟩
      · right; exact ⟨Or.inr hpt, h⟩
  · -- compound states have at most one active child
    intro z _ hk c c' hc hc' hca hca'
    -- helper: a child `c` of `z` that survived (active, outside Sub x) while a sibling is on the path is impossible
    have clash : ∀ c c', T.parent c = some z → T.parent c' = some z →
        (cfg c ∧ ¬ Sub T x c) → OnPath T t l c' → False := by
      intro c c' hc hc' ⟨hcact, hcn⟩ hpath
      have hz_act : cfg z := hL.up _ _ hcact hc
      rcases hpath.2.parent_cases hc' with h | h
      · -- z = l : the surviving child must be x
        subst h
        rcases hl with hk' | ⟨hk', _⟩
        · obtain ⟨_, _, _, huniq⟩ := hL.compound l hl_act hk'
          have : c = x := by rw [huniq c hc hcact, huniq x sc.xp hx_act]
          exact hcn (Or.inl this)
        · rw [hk'] at hk; cases hk
      · -- z strictly below l on the path
        have hzpath : OnPath T t l z := by
          refine ⟨Or.inr ?_, h⟩
          rcases hpath.1 with h' | h'
          · rw [h']; exact Anc.base hc'
          · exact (Anc.base hc').trans h'
        have hzy : Sub T y z := onPath_sub_y hwf sc hzpath
        have hy_act : cfg y := by
          rcases hzy with h' | h'
          · rw [← h']; exact hz_act
          · exact hL.up_anc h' hz_act
        have hyx := hy_act_eq hy_act
        rw [hyx] at hzy
        exact hcn (sub_of_parent_sub hc hzy)
    rcases hca with hca | hca <;> rcases hca' with hca' | hca'
    · -- both survivors
      have hz_act : cfg z := hL.up _ _ hca.1 hc
      obtain ⟨_, _, _, huniq⟩ := hL.compound z hz_act hk
      rw [huniq c hc hca.1, huniq c' hc' hca'.1]
    · exact (clash c c' hc hc' hca hca').elim
    · exact (clash c' c hc' hc hca' hca).elim
    · -- both on the path: two ancestors-or-self of t with the same parent
      have key : ∀ a b, Sub T a t → Sub T b t → T.parent a = some z → T.parent b = some z → Anc T a b → False := by
        intro a b _ _ ha hb hab
        rcases hab.parent_cases hb with h | h
        · rw [h] at ha; exact Anc.irrefl hwf (Anc.base ha)
        · exact Anc.asymm hwf h (Anc.base ha)
      rcases hca.1 with h1 | h1 <;> rcases hca'.1 with h2 | h2
      · rw [← h1, ← h2]
      · exfalso; rw [h1] at h2; exact key c' c hca'.1 hca.1 hc' hc h2
      · exfalso; rw [h2] at h1; exact key c c' hca.1 hca'.1 hc hc' h1
      · rcases Anc.chain h1 h2 with h | h | h
        · exact h
        · exact (key c c' hca.1 hca'.1 hc hc' h).elim
        · exact (key c' c hca'.1 hca.1 hc' hc h).elim

/-! ### stabilisation (set level) -/

/-- additional chart data and well-formedness used by default entry -/
structure Defaults (T : Tree) where
  initial : Name → Option Name
  /-- W4: compound states declare an initial child -/
  w4 : ∀ z, T.kind z = some .compound → ∃ i, initial z = some i ∧ T.parent i = some z
  /-- W3: history, basic and final states have no children (every parent is composite) -/
  w3 : ∀ c z, T.parent c = some z → T.kind z = some .compound ∨ T.kind z = some .orthogonal

def IsHistory (T : Tree) (z : Name) : Prop :=
  T.kind z = some .shallowHistory ∨ T.kind z = some .deepHistory

def Leaf (T : Tree) (cfg : Cfg) (z : Name) : Prop := cfg z ∧ ∀ c, T.parent c = some z → ¬ cfg c

/-- no stabilisation step is available (repaired `_create_stabilization_step`), the
    "final child of the root" case being excluded separately -/
structure Stable (T : Tree) (D : Defaults T) (cfg : Cfg) : Prop where
  no_hist : ∀ z, Leaf T cfg z → ¬ IsHistory T z
  no_compound_leaf : ∀ z, Leaf T cfg z → T.kind z = some .compound → D.initial z = none
  orth_complete : ∀ z, cfg z → T.kind z = some .orthogonal → ∀ c, T.parent c = some z → cfg c

theorem semi_stable_legal (D : Defaults T) {cfg : Cfg} (hS : Semi T cfg) (hSt : Stable T D cfg) :
    Legal T cfg := by
  refine ⟨hS.root, hS.state, hS.up, ?_, hSt.orth_complete, ?_⟩
  · intro z hz hk
    -- there is an active child, otherwise z is a compound leaf with an initial state
    by_cases hex : ∃ c, T.parent c = some z ∧ cfg c
    · obtain ⟨c, hc, hca⟩ := hex
      exact ⟨c, hc, hca, fun c' hc' hca' => hS.compound z hz hk c' c hc' hc hca' hca⟩
    · exfalso
      have hleaf : Leaf T cfg z := ⟨hz, fun c hc hca => hex ⟨c, hc, hca⟩⟩
      obtain ⟨i, hi, _⟩ := D.w4 z hk
      have := hSt.no_compound_leaf z hleaf hk
      rw [this] at hi; cases hi
  · intro s hs
    -- an active history state would be a leaf (history states have no children)
    have noch : IsHistory T s → False := by
      intro hh
      have hleaf : Leaf T cfg s := ⟨hs, fun c hc _ => by
        rcases D.w3 c s hc with h | h <;> rcases hh with h' | h' <;> rw [h] at h' <;> cases h'⟩
      exact hSt.no_hist s hleaf hh
    exact ⟨fun h => noch (Or.inl h), fun h => noch (Or.inr h)⟩

/-- default entry of the initial child of a compound leaf -/
theorem semi_enter_initial {cfg : Cfg} (hS : Semi T cfg) {z i : Name}
    (hleaf : Leaf T cfg z) (hi : T.parent i = some z) (hwf : WF T) :
    Semi T (fun y => cfg y ∨ y = i) := by
  refine ⟨Or.inl hS.root, ?_, ?_, ?_⟩
  · rintro y (hy | hy)
    · exact hS.state y hy
    · rw [hy]; exact (hwf.parent_state i z hi).1
  · rintro y p (hy | hy) hp
    · exact Or.inl (hS.up y p hy hp)
    · rw [hy, hi] at hp; cases hp; exact Or.inl hleaf.1
  · intro w hw hk c c' hc hc' hca hca'
    have hwc : cfg w := by
      rcases hw with h | h
      · exact h
      · -- w = i is freshly entered: its children are not active (their parent i was not)
        exfalso
        rw [h] at hc
        rcases hca with h1 | h1
        · exact hleaf.2 i hi (hS.up c i h1 hc)
        · rw [h1] at hc; exact Anc.irrefl hwf (Anc.base hc)
    rcases hca with h1 | h1 <;> rcases hca' with h2 | h2
    · exact hS.compound w hwc hk c c' hc hc' h1 h2
    · -- c active before, c' = i : then w = z, but z was a leaf
      rw [h2, hi] at hc'; cases hc'
      exact absurd h1 (hleaf.2 c hc)
    · rw [h1, hi] at hc; cases hc
      exact absurd h2 (hleaf.2 c' hc')
    · rw [h1, h2]

/-- entering (some of) the children of an active orthogonal state -/
theorem semi_enter_regions {cfg : Cfg} (hS : Semi T cfg) {z : Name} (hz : cfg z)
    (hk : T.kind z = some .orthogonal) (hwf : WF T) (R : Name → Prop)
    (hR : ∀ c, R c → T.parent c = some z) :
    Semi T (fun y => cfg y ∨ R y) := by
  refine ⟨Or.inl hS.root, ?_, ?_, ?_⟩
  · rintro y (hy | hy)
    · exact hS.state y hy
    · exact (hwf.parent_state y z (hR y hy)).1
  · rintro y p (hy | hy) hp
    · exact Or.inl (hS.up y p hy hp)
    · rw [hR y hy] at hp; cases hp; exact Or.inl hz
  · intro w hw hkw c c' hc hc' hca hca'
    -- a child of a compound state `w` cannot be one of the regions of the orthogonal `z`
    have notR : ∀ d, T.parent d = some w → ¬ R d := by
      intro d hd hRd
      rw [hR d hRd] at hd; cases hd
      rw [hk] at hkw; cases hkw
    have h1 : cfg c := hca.resolve_right (notR c hc)
    have h2 : cfg c' := hca'.resolve_right (notR c' hc')
    have hwc : cfg w := hS.up c w h1 hc
    exact hS.compound w hwc hkw c c' hc hc' h1 h2

end LG
