/-! Prototype: flat chart, ancestors with fuel, Anc relation -/
namespace Proto

abbrev Name := String

structure Chart where
  names  : List Name
  parent : Name → Option Name

/-- ancestors, nearest first, with fuel -/
def ancF (c : Chart) : Nat → Name → List Name
  | 0, _ => []
  | f+1, s => match c.parent s with
    | some p => p :: ancF c f p
    | none => []

def Chart.ancestors (c : Chart) (s : Name) : List Name := ancF c c.names.length s

inductive Anc (c : Chart) : Name → Name → Prop
  | base {a s} : c.parent s = some a → Anc c a s
  | step {a p s} : c.parent s = some p → Anc c a p → Anc c a s

structure WF (c : Chart) : Prop where
  rank : ∃ r : Name → Nat, (∀ s p, c.parent s = some p → r p < r s) ∧ (∀ s, r s < c.names.length)

theorem ancF_sound (c : Chart) : ∀ f s a, a ∈ ancF c f s → Anc c a s := by
  intro f
  induction f with
  | zero => intro s a h; simp [ancF] at h
  | succ f ih =>
    intro s a h
    unfold ancF at h
    split at h
    · next p hp =>
      simp at h
      rcases h with h | h
      · subst h; exact Anc.base hp
      · exact Anc.step hp (ih p a h)
    · simp at h

theorem ancF_complete (c : Chart) (r : Name → Nat)
    (hr : ∀ s p, c.parent s = some p → r p < r s) :
    ∀ f s a, Anc c a s → r s < f → a ∈ ancF c f s := by
  intro f
  induction f with
  | zero => intro s a _ h; omega
  | succ f ih =>
    intro s a h hf
    cases h with
    | base hp => simp [ancF, hp]
    | step hp h' =>
      rename_i p
      simp only [ancF, hp, List.mem_cons]
      right
      exact ih p a h' (by have := hr s p hp; omega)

theorem mem_ancestors (c : Chart) (h : WF c) (s a : Name) :
    a ∈ c.ancestors s ↔ Anc c a s := by
  obtain ⟨r, hr, hb⟩ := h.rank
  constructor
  · exact ancF_sound c _ s a
  · intro ha; exact ancF_complete c r hr _ s a ha (hb s)

theorem Anc.trans {c : Chart} {a b s : Name} (h1 : Anc c a b) (h2 : Anc c b s) : Anc c a s := by
  induction h2 with
  | base hp => exact Anc.step hp h1
  | step hp _ ih => exact Anc.step hp ih

/-- ancestors of a state are linearly ordered -/
theorem Anc.chain {c : Chart} {a b s : Name} (h1 : Anc c a s) (h2 : Anc c b s) :
    a = b ∨ Anc c a b ∨ Anc c b a := by
  induction h1 generalizing b with
  | base hp =>
    cases h2 with
    | base hp' => left; simp_all
    | step hp' h' => right; right; simp_all
  | step hp h ih =>
    cases h2 with
    | base hp' => right; left; simp_all
    | step hp' h' =>
      rw [hp] at hp'
      cases hp'
      exact ih h'

end Proto
