/-! Prototype skeleton of the step layer (pure functions over a configuration).
    Mirrors sismic/model/statechart.py tree queries and
    Interpreter._select_transitions/_sort_transitions/_create_steps/_create_stabilization_step. -/
namespace SM

abbrev Name := String

inductive Kind | basic | compound | orthogonal | shallowHistory | deepHistory | final
  deriving DecidableEq, Repr, Inhabited

def Kind.history : Kind → Bool
  | .shallowHistory | .deepHistory => true
  | _ => false

structure StateDef where
  name : Name
  kind : Kind
  initial : Option Name := none
  memory : Option Name := none
  deriving Repr, Inhabited

structure Trans where
  id : Nat                       -- position in Statechart._transitions (object identity)
  source : Name
  target : Option Name
  event : Option String
  hasGuard : Bool
  priority : Int
  deriving Repr, Inhabited, DecidableEq

structure Chart where
  states : List StateDef                       -- dict insertion order
  parent : List (Name × Option Name)
  children : List (Option Name × List Name)
  transitions : List Trans
  deriving Repr, Inhabited

namespace Chart
variable (c : Chart)

def stateFor (n : Name) : Option StateDef := c.states.find? (·.name == n)
def kindOf (n : Name) : Option Kind := (c.stateFor n).map (·.kind)
def parentFor (n : Name) : Option Name := ((c.parent.find? (·.1 == n)).map (·.2)).join
def childrenFor (n : Name) : List Name := ((c.children.find? (·.1 == some n)).map (·.2)).getD []
def root : Option Name := (c.parent.find? (·.2 == none)).map (·.1)

/-- `ancestors_for`: nearest first. Fuel = number of states (enough for an acyclic parent map). -/
def ancF : Nat → Name → List Name
  | 0, _ => []
  | f+1, s => match c.parentFor s with
    | some p => p :: ancF f p
    | none => []
def ancestors (s : Name) : List Name := c.ancF c.states.length s
def depth (s : Name) : Nat := (c.ancestors s).length + 1

/-- `descendants_for` in BFS order (children list order), fuel-bounded. -/
def descF : Nat → List Name → List Name
  | 0, _ => []
  | _, [] => []
  | f+1, n :: rest =>
    let ch := c.childrenFor n
    ch ++ descF f (rest ++ ch)
def descendants (s : Name) : List Name := c.descF (c.states.length + 1) [s]

/-- `least_common_ancestor` (proper ancestors only, like the Python code). -/
def lca (a b : Name) : Option Name :=
  let bs := c.ancestors b
  (c.ancestors a).find? (fun x => bs.contains x)

/-- `leaf_for`. -/
def leafFor (names : List Name) : List Name :=
  names.filter (fun n => !(c.descendants n).any (fun d => names.contains d))

end Chart

/-! ### sorted_groupby -/
section
variable {α κ : Type} [DecidableEq κ]
def insKey (le : κ → κ → Bool) (k : κ) : List κ → List κ
  | [] => [k]
  | k' :: ks => if k = k' then k' :: ks else if le k k' then k :: k' :: ks else k' :: insKey le k ks
def sortedGroupBy (le : κ → κ → Bool) (key : α → κ) (xs : List α) : List (κ × List α) :=
  (xs.foldl (fun acc x => insKey le (key x) acc) []).map (fun k => (k, xs.filter (fun x => key x = k)))
end

/-! ### _select_transitions (eventless first, inner first) -/
structure SelState where
  selected : List Trans := []
  ignored : List Name := []
  guardCalls : List (Nat × Bool) := []   -- (transition id, event exposed?) in evaluation order

def selectSource (c : Chart) (guard : Trans → Bool → Bool) (hasEv : Bool)
    (st : SelState) (src : Name) (ts : List Trans) : SelState :=
  if st.ignored.contains src then st else
  -- priority classes, highest first; stop after the first class in which something is enabled
  let classes := sortedGroupBy (fun a b : Int => decide (b ≤ a)) (·.priority) ts
  let rec go (st : SelState) : List (Int × List Trans) → SelState
    | [] => st
    | (_, cls) :: rest =>
      let (st', found) := cls.foldl (fun (acc : SelState × Bool) t =>
        let ok := if t.hasGuard then guard t hasEv else true
        let calls := if t.hasGuard then acc.1.guardCalls ++ [(t.id, hasEv)] else acc.1.guardCalls
        if ok then ({ acc.1 with selected := acc.1.selected ++ [t], guardCalls := calls }, true)
        else ({ acc.1 with guardCalls := calls }, acc.2)) (st, false)
      if found then { st' with ignored := st'.ignored ++ c.ancestors src ++ [src] } else go st' rest
  go st classes

def selectTransitions (c : Chart) (config : List Name) (evName : Option String)
    (guard : Trans → Bool → Bool) : SelState :=
  let considered := c.transitions.filter (fun t =>
    config.contains t.source && (t.event.isNone || t.event == evName))
  let groups := sortedGroupBy (fun a b : Bool => decide (a ≤ b)) (fun t => t.event.isSome) considered
  groups.foldl (fun st (hasEv, ts) =>
    if !st.selected.isEmpty then st else
    let byDepth := sortedGroupBy (fun a b : Nat => decide (b ≤ a)) (fun t => c.depth t.source) ts
    byDepth.foldl (fun st (_, ts) =>
      let bySrc := sortedGroupBy (fun a b : String => decide (a ≤ b)) (·.source) ts
      bySrc.foldl (fun st (src, ts) => selectSource c guard hasEv st src ts) st) st) {}

inductive StepErr | nonDeterminism (t1 t2 : Nat) | conflicting (t1 t2 : Nat) | statechart (msg : String)
  deriving Repr, DecidableEq

def lastBefore (c : Chart) (s : Name) (l : Option Name) : Name :=
  let rec go (cur : Name) : List Name → Name
    | [] => cur
    | x :: xs => if some x == l then cur else go x xs
  go s (c.ancestors s)

def pairs {α} : List α → List (α × α)
  | [] => []
  | x :: xs => xs.map (fun y => (x, y)) ++ pairs xs

/-- `_sort_transitions` as it is in the pinned source (before any repair). -/
def sortTransitions (c : Chart) (ts : List Trans) : Except StepErr (List Trans) :=
  if ts.length ≤ 1 then .ok ts else do
    for (t1, t2) in pairs ts do
      match c.lca t1.source t2.source with
      | none => throw (.statechart "State None does not exist")
      | some l =>
        if c.kindOf l != some .orthogonal then throw (.nonDeterminism t1.id t2.id)
        for t in [t1, t2] do
          let lb := lastBefore c t.source (some l)
          match t.target with
          | some tg => if !(lb :: c.descendants lb).contains tg then throw (.conflicting t1.id t2.id)
          | none => pure ()
    -- sorted(key=(-depth, source)) is stable
    let key (t : Trans) : Int × String := (-(c.depth t.source : Int), t.source)
    pure (ts.mergeSort (fun a b => decide ((key a).1 < (key b).1 ∨ ((key a).1 = (key b).1 ∧ (key a).2 ≤ (key b).2))))

structure Micro where
  event : Option String := none
  transition : Option Nat := none
  entered : List Name := []
  exited : List Name := []
  deriving Repr, DecidableEq

def createStep (c : Chart) (config : List Name) (ev : Option String) (t : Trans) : Micro :=
  match t.target with
  | none => { event := ev, transition := some t.id }
  | some tg =>
    let l := c.lca t.source tg
    let lb := lastBefore c t.source l
    let exited := ((c.descendants lb).reverse.filter config.contains) ++ (if config.contains lb then [lb] else [])
    let entered := ((c.ancestors tg).takeWhile (fun x => some x != l)).reverse ++ [tg]
    { event := ev, transition := some t.id, entered := entered, exited := exited }

def leKey (c : Chart) (a b : Name) : Bool :=
  decide (c.depth a < c.depth b ∨ (c.depth a = c.depth b ∧ a ≤ b))

def stabilizationStep (c : Chart) (memory : List (Name × List Name)) (config : List Name) : Option Micro :=
  let leaves := (c.leafFor config).mergeSort (fun a b =>
    decide (c.depth b < c.depth a ∨ (c.depth a = c.depth b ∧ a ≤ b)))
  leaves.findSome? (fun leaf =>
    match c.stateFor leaf with
    | none => none
    | some s =>
      if s.kind == .final && c.parentFor leaf == c.root then
        some { exited := [leaf] ++ c.root.toList }
      else if s.kind.history then
        let m := ((memory.find? (·.1 == leaf)).map (·.2)).getD s.memory.toList
        some { entered := m.mergeSort (leKey c), exited := [leaf] }
      else if s.kind == .orthogonal && !(c.childrenFor leaf).isEmpty then
        some { entered := (c.childrenFor leaf).mergeSort (fun a b => decide (a ≤ b)) }
      else if s.kind == .compound && s.initial.isSome then
        some { entered := s.initial.toList }
      else none)

end SM
