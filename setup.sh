#!/bin/sh
# Offline build of the verification framework: the Lean development (model, proofs, driver).
set -e
HERE="$(cd "$(dirname "$0")" && pwd)"
cd "$HERE/lean"
lake build Sismic driver
echo '{"kind":"ping"}' | .lake/build/bin/driver
