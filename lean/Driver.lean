import Sismic.Json
import Sismic.Cases
/-!
# Driver — one JSON case per line on stdin, one JSON observation per line on stdout
-/
open Lean (Json)
open Sismic

partial def loop (h : IO.FS.Stream) (out : IO.FS.Stream) : IO Unit := do
  let line ← h.getLine
  if line.isEmpty then return ()
  let line := line.trimAscii.toString
  if line.isEmpty then
    loop h out
  else
    let res : Json :=
      match Json.parse line with
      | .error e => Json.mkObj [("error", .str s!"parse: {e}")]
      | .ok j =>
        match Cases.run j with
        | .ok r => r
        | .error e => Json.mkObj [("error", .str e)]
    out.putStrLn res.compress
    out.flush
    loop h out

def main : IO Unit := do
  loop (← IO.getStdin) (← IO.getStdout)
