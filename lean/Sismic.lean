import Sismic.Model.Basic
import Sismic.Model.Select
import Sismic.Model.Plan
import Sismic.Model.Interp
import Sismic.Model.Py
import Sismic.Model.World
