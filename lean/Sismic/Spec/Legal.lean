import Sismic.Model.Basic
/-!
# Sismic.Spec.Legal — the legal configurations of C02, as a proposition and as a decision procedure
-/
namespace Sismic

/-- a legal configuration (statement of C02) -/
structure Legal (c : Chart) (cfg : List Name) : Prop where
  root : ∀ r, c.root = some r → r ∈ cfg
  state : ∀ s ∈ cfg, c.hasState s = true
  up : ∀ s ∈ cfg, ∀ p, c.parentFor s = some p → p ∈ cfg
  compound : ∀ z ∈ cfg, ∀ sd, c.stateFor z = some sd → sd.kind = .compound →
      ((c.childrenFor z).filter cfg.contains).length ≤ 1 ∧
      (sd.initial.isSome → ((c.childrenFor z).filter cfg.contains).length = 1)
  orth : ∀ z ∈ cfg, c.kindOf z = some .orthogonal → ∀ ch ∈ c.childrenFor z, ch ∈ cfg
  nohist : ∀ s ∈ cfg, ∀ k, c.kindOf s = some k → k.isHistory = false
  nodup : cfg.Nodup

/-- the executable version, evaluated by the driver after every step (`legal` in the observations) -/
def legalB (c : Chart) (cfg : List Name) : Bool :=
  (match c.root with | some r => cfg.contains r | none => true) &&
  cfg.all (fun s => c.hasState s) &&
  cfg.all (fun s => match c.parentFor s with | some p => cfg.contains p | none => true) &&
  cfg.all (fun z => match c.stateFor z with
    | some sd => if sd.kind == .compound then
        decide (((c.childrenFor z).filter cfg.contains).length ≤ 1) &&
        (!sd.initial.isSome || decide (((c.childrenFor z).filter cfg.contains).length = 1))
      else if sd.kind == .orthogonal then (c.childrenFor z).all cfg.contains
      else !sd.kind.isHistory
    | none => false)

end Sismic
