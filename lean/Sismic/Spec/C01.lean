import Sismic.Spec.WF
import Sismic.Model.Select
/-!
# Sismic.Spec.C01 — the documented step semantics as a declarative relation

`ok t exposed` is the truth value of `t`'s guard (true when it has none) when it is shown the
pending event (`exposed = true`) or no event (`exposed = false`).
-/
namespace Sismic

variable (c : Chart) (cfg : List Name) (evName : Option String) (ok : Trans → Bool → Bool)

/-- source active, trigger matches, guard holds (eventless guards never see the event) -/
def Enabled (t : Trans) : Prop :=
  t ∈ c.transitions ∧ t.source ∈ cfg ∧
  ((t.event = none ∧ ok t false = true) ∨ (t.event ≠ none ∧ t.event = evName ∧ ok t true = true))

/-- eventless transitions pre-empt event-triggered ones -/
def Competes (t : Trans) : Prop :=
  Enabled c cfg evName ok t ∧ (t.event = none ∨ ¬ ∃ u, Enabled c cfg evName ok u ∧ u.event = none)

/-- inner-first, then priority among the transitions of one state -/
def Fires (t : Trans) : Prop :=
  Competes c cfg evName ok t ∧
  (∀ u, Competes c cfg evName ok u → ¬ Anc c t.source u.source) ∧
  (∀ u, Competes c cfg evName ok u → u.source = t.source → u.priority ≤ t.priority)

end Sismic
