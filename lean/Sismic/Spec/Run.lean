import Sismic.Model.Interp
/-!
# Sismic.Spec.Run — what a macro step that returns normally must have done, as pure functions of
the returned `MacroStep`: the effect log (code fragments, contract evaluations, meta-events, in
order) and the evolution of configuration and history memory.
-/
namespace Sismic

def Chart.stateD (c : Chart) (n : Name) : StateDef :=
  match c.stateFor n with
  | some s => s
  | none => { name := n, kind := .basic }

/-- evaluations (all true) of the conditions `codes`, numbered from `i` -/
def condsLogFrom (kind : CondKind) (obj : Obj) (ev : Option Event) : Nat → List Code → List Effect
  | _, [] => []
  | i, _ :: cs => .cond kind obj.id i ev (some true) :: condsLogFrom kind obj ev (i + 1) cs

/-- what `_evaluate_contract_conditions` logs when every condition holds -/
def contractLog (ignore : Bool) (kind : CondKind) (obj : Obj) (ev : Option Event) : List Effect :=
  if ignore then [] else condsLogFrom kind obj ev 0 (obj.conds kind)

def metaSent (e : Event) : Event := { name := "event sent", data := [("event", e.toVal)] }
def metaDelayed (e : Event) : Event := { name := "delayed event sent", data := [("event", e.toVal)] }
def metaExited (n : Name) : Event := { name := "state exited", data := [("state", .str n)] }
def metaEntered (n : Name) : Event := { name := "state entered", data := [("state", .str n)] }
def metaProcessed (t : Trans) (ev : Option Event) : Event :=
  { name := "transition processed",
    data := [("source", .str t.source), ("target", optNameVal t.target), ("event", optEventVal ev)] }
def metaStarted (clock : Int) : Event := { name := "step started", data := [("time", .int clock)] }
def metaConsumed (e : Option Event) : Event := { name := "event consumed", data := [("event", optEventVal e)] }
def metaEnded : Event := { name := "step ended", data := [] }

def sentLog : Sent → List Effect
  | .notify m => [.metaEv m]
  | .internal e => .metaEv (metaSent e) :: (if e.hasDelay then [.metaEv (metaDelayed e)] else [])

def exitLog (ignore : Bool) (ev : Option Event) (s : StateDef) : List Effect :=
  [.onExit s.name] ++ contractLog ignore .post (.state s) ev ++ [.metaEv (metaExited s.name)]

def enterLog (ignore : Bool) (ev : Option Event) (s : StateDef) : List Effect :=
  contractLog ignore .pre (.state s) ev ++ [.onEntry s.name] ++ [.metaEv (metaEntered s.name)]

def transLog (ignore : Bool) (ev : Option Event) (t : Trans) : List Effect :=
  contractLog ignore .pre (.trans t) ev ++ contractLog ignore .inv (.trans t) ev ++ [.action t.id ev] ++
  contractLog ignore .post (.trans t) ev ++ contractLog ignore .inv (.trans t) ev ++
  [.metaEv (metaProcessed t ev)]

/-- the log of one applied micro step -/
def microLog (c : Chart) (ignore : Bool) (m : Micro) : List Effect :=
  (m.exited.flatMap (fun n => exitLog ignore m.event (c.stateD n))) ++
  (match m.transition with
   | some t => transLog ignore m.event t
   | none => []) ++
  (m.entered.flatMap (fun n => enterLog ignore m.event (c.stateD n))) ++
  m.sent.flatMap sentLog

/-- state invariants of the active states at the end of a macro step -/
def finishLog (c : Chart) (ignore : Bool) (cfg : List Name) (ev : Option Event) : List Effect :=
  ((c.sortConfig cfg).flatMap (fun n => contractLog ignore .inv (.state (c.stateD n)) ev)) ++
  [.metaEv metaEnded]

/-! ### configuration and memory -/

/-- memory written when the compound state `s` is exited from configuration `cfg0` -/
def saveMem (c : Chart) (cfg0 : List Name) (s : StateDef) (mem : List (Name × List Name)) :
    List Name → List (Name × List Name)
  | [] => mem
  | ch :: rest =>
    match memoryOf c cfg0 s ch with
    | .ok (some a) => saveMem c cfg0 s (assocSet ch a mem) rest
    | _ => saveMem c cfg0 s mem rest

def exitPure (c : Chart) (cfg0 : List Name) (cm : List Name × List (Name × List Name)) (n : Name) :
    List Name × List (Name × List Name) :=
  let s := c.stateD n
  (cm.1.filter (fun x => x != n),
   if s.kind == .compound then saveMem c cfg0 s cm.2 (c.childrenFor n) else cm.2)

def enterPure (cfg : List Name) (n : Name) : List Name := if cfg.contains n then cfg else cfg ++ [n]

/-- configuration and memory after applying micro step `m` -/
def applyMicro (c : Chart) (cm : List Name × List (Name × List Name)) (m : Micro) :
    List Name × List (Name × List Name) :=
  let cm1 := m.exited.foldl (exitPure c cm.1) cm
  (m.entered.foldl enterPure cm1.1, cm1.2)

def applyMicros (c : Chart) (cm : List Name × List (Name × List Name)) (ms : List Micro) :
    List Name × List (Name × List Name) :=
  ms.foldl (applyMicro c) cm

/-- two micro steps agree on everything but the sent events -/
def Micro.sameShape (a b : Micro) : Prop :=
  a.event = b.event ∧ a.transition = b.transition ∧ a.entered = b.entered ∧ a.exited = b.exited

/-- `ms` is the sequence of stabilisation steps from `cm` until nothing is left to stabilise -/
def StabChain (c : Chart) : List Name × List (Name × List Name) → List Micro → Prop
  | cm, [] => stabilizationStep c cm.2 cm.1 = none
  | cm, m :: ms => ∃ s, stabilizationStep c cm.2 cm.1 = some s ∧ m.sameShape s ∧ StabChain c (applyMicro c cm s) ms

/-- `ex` = for each planned step: the step itself, then the stabilisation steps it makes necessary -/
def RunChain (c : Chart) : List Name × List (Name × List Name) → List Micro → List Micro → Prop
  | _, [], ex => ex = []
  | cm, p :: ps, ex => ∃ a stab rest, ex = a :: stab ++ rest ∧ a.sameShape p ∧
      StabChain c (applyMicro c cm p) stab ∧
      RunChain c (applyMicros c (applyMicro c cm p) stab) ps rest

/-- guard evaluations of the selection, as logged -/
def guardLog {σ : Type} (E : Evaluator σ) (st : IState σ) (ev : Option Event) (calls : List (Trans × Bool)) : List Effect :=
  calls.map (fun p => .guard p.1.id (if p.2 then ev else none) (E.guard st p.1 (if p.2 then ev else none)))

/-- the micro steps `_compute_steps` plans in an initialised interpreter (pure mirror) -/
def planOf {σ : Type} (c : Chart) (E : Evaluator σ) (st : IState σ) : Except PlanErr (List Micro) :=
  let ev := peekEvent st
  let sel := selectTransitions c st.config (ev.map (·.name)) (guardOk E st ev)
  if sel.selected.isEmpty then
    match ev with
    | none => .ok []
    | some e => .ok [{ event := some e }]
  else
    match sortTransitions c sel.selected with
    | .error e => .error e
    | .ok ts =>
      let ev' := match ts.head? with
        | some t => if t.event.isNone then none else ev
        | none => ev
      .ok (createSteps c st.config ev' ts)

def selCalls {σ : Type} (c : Chart) (E : Evaluator σ) (st : IState σ) : List (Trans × Bool) :=
  (selectTransitions c st.config ((peekEvent st).map (·.name)) (guardOk E st (peekEvent st))).calls

/-! ### reading the log -/

def Effect.isExec : Effect → Bool
  | .onExit _ | .action _ _ | .onEntry _ => true
  | _ => false
def Effect.isMeta : Effect → Bool
  | .metaEv _ => true
  | _ => false
def Effect.isCond : Effect → Bool
  | .cond .. => true
  | _ => false
def Effect.isGuard : Effect → Bool
  | .guard .. => true
  | _ => false

/-- the code fragments a micro step promises, in order (C03) -/
def replayMicro (m : Micro) : List Effect :=
  m.exited.map Effect.onExit ++
  (match m.transition with
   | some t => [Effect.action t.id m.event]
   | none => []) ++
  m.entered.map Effect.onEntry

def replay (ms : MacroStep) : List Effect := ms.steps.flatMap replayMicro

/-- meta-events announcing what code sent -/
def sentMeta : Sent → List Event
  | .notify e => [e]
  | .internal e => metaSent e :: (if e.hasDelay then [metaDelayed e] else [])

/-- the meta-events a micro step promises, in order (C10) -/
def metaMicro (m : Micro) : List Event :=
  m.exited.map metaExited ++
  (match m.transition with
   | some t => [metaProcessed t m.event]
   | none => []) ++
  m.entered.map metaEntered ++
  m.sent.flatMap sentMeta

/-- the documented points of contract evaluation of a micro step, interleaved with its code (C08) -/
def pointsMicro (c : Chart) (m : Micro) : List Effect :=
  (m.exited.flatMap (fun n => Effect.onExit n :: condsLogFrom .post (.state (c.stateD n)) m.event 0 (c.stateD n).post)) ++
  (match m.transition with
   | some t => condsLogFrom .pre (.trans t) m.event 0 t.pre ++ condsLogFrom .inv (.trans t) m.event 0 t.inv ++
               [Effect.action t.id m.event] ++
               condsLogFrom .post (.trans t) m.event 0 t.post ++ condsLogFrom .inv (.trans t) m.event 0 t.inv
   | none => []) ++
  (m.entered.flatMap (fun n => condsLogFrom .pre (.state (c.stateD n)) m.event 0 (c.stateD n).pre ++ [Effect.onEntry n]))

/-- state invariants at the end of the macro step -/
def pointsEnd (c : Chart) (cfg : List Name) (ev : Option Event) : List Effect :=
  (c.sortConfig cfg).flatMap (fun n => condsLogFrom .inv (.state (c.stateD n)) ev 0 (c.stateD n).inv)

end Sismic
