import Sismic.Model.Plan
/-!
# Sismic.Spec.WF — structural notions the properties quantify over (DESIGN.md §2)
-/
namespace Sismic

/-- `Anc c a s`: `a` is a proper ancestor of `s` (transitive closure of the parent map). -/
inductive Anc (c : Chart) : Name → Name → Prop
  | base {a s} : c.parentFor s = some a → Anc c a s
  | step {a p s} : c.parentFor s = some p → Anc c a p → Anc c a s

/-- W2 (tree): the parent map is acyclic, witnessed by a rank bounded by the number of states
    (that bound is the fuel `ancestors_for`'s loop gets in the model). -/
structure TreeOK (c : Chart) : Prop where
  rank : ∃ r : Name → Nat, (∀ s p, c.parentFor s = some p → r p < r s) ∧ (∀ s, r s < c.states.length)

/-- `Sub c x y`: `y` is `x` or one of its descendants. -/
def Sub (c : Chart) (x y : Name) : Prop := y = x ∨ Anc c x y

end Sismic

namespace Sismic

/-- **Well-formed statecharts** (DESIGN.md §2, W1–W8), as far as the interpreter theorems need them.
    `wfB` (below) decides it; the driver reports `wfB` for every chart it is given. -/
structure WFChart (c : Chart) : Prop where
  /-- W2: the parent map is a forest -/
  tree : TreeOK c
  /-- W1: state names are unique -/
  names : (c.states.map (·.name)).Nodup
  /-- W2: there is a root, it has no parent and it is a state -/
  root : ∃ r, c.root = some r ∧ c.parentFor r = none ∧ c.hasState r = true
  /-- W2: parents and children are states -/
  parentState : ∀ s p, c.parentFor s = some p → c.hasState s = true ∧ c.hasState p = true
  /-- W2: every state but the root has a parent -/
  nonroot : ∀ s, c.hasState s = true → c.root ≠ some s → ∃ p, c.parentFor s = some p
  /-- W2: the children lists are the inverse of the parent map, without repetition -/
  children : ∀ p ch, ch ∈ c.childrenFor p ↔ c.parentFor ch = some p
  childrenNodup : ∀ p, (c.childrenFor p).Nodup
  /-- W3: only composite states have children -/
  composite : ∀ s p, c.parentFor s = some p → c.kindOf p = some .compound ∨ c.kindOf p = some .orthogonal
  /-- W4: a compound state declares an initial state, one of its children -/
  initial : ∀ z sd, c.stateFor z = some sd → sd.kind = .compound →
    ∃ i, sd.initial = some i ∧ c.parentFor i = some z
  /-- W5: the regions of an orthogonal state are basic, compound or orthogonal states -/
  regions : ∀ z ch k, c.kindOf z = some .orthogonal → c.parentFor ch = some z → c.kindOf ch = some k →
    k.ownsTransitions = true
  /-- W6: a history state lives in a compound state and has a default memory among its siblings -/
  history : ∀ h sd, c.stateFor h = some sd → sd.kind.isHistory = true →
    ∃ p m, c.parentFor h = some p ∧ c.kindOf p = some .compound ∧ sd.memory = some m ∧
      c.parentFor m = some p ∧ m ≠ h
  /-- W7: transitions connect states -/
  transitions : ∀ t ∈ c.transitions, c.hasState t.source = true ∧ ∀ tg, t.target = some tg → c.hasState tg = true
  /-- W7: only basic, compound and orthogonal states own transitions -/
  sourceKind : ∀ t ∈ c.transitions, ∀ k, c.kindOf t.source = some k → k.ownsTransitions = true
  /-- W8: no transition crosses between sibling regions of an orthogonal state -/
  noCross : ∀ t ∈ c.transitions, ∀ tg l, t.target = some tg → c.lca t.source tg = some l →
    c.kindOf l = some .orthogonal → lastBefore c t.source (some l) = lastBefore c tg (some l)

end Sismic
