import Sismic.Model.Basic
/-!
# Sismic.Spec.WF — structural notions the properties quantify over (DESIGN.md §2)
-/
namespace Sismic

/-- `Anc c a s`: `a` is a proper ancestor of `s` (transitive closure of the parent map). -/
inductive Anc (c : Chart) : Name → Name → Prop
  | base {a s} : c.parentFor s = some a → Anc c a s
  | step {a p s} : c.parentFor s = some p → Anc c a p → Anc c a s

/-- W2 (tree): the parent map is acyclic, witnessed by a rank bounded by the number of states
    (that bound is the fuel `ancestors_for`'s loop gets in the model). -/
structure TreeOK (c : Chart) : Prop where
  rank : ∃ r : Name → Nat, (∀ s p, c.parentFor s = some p → r p < r s) ∧ (∀ s, r s < c.states.length)

/-- `Sub c x y`: `y` is `x` or one of its descendants. -/
def Sub (c : Chart) (x y : Name) : Prop := y = x ∨ Anc c x y

end Sismic
