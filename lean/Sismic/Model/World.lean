import Sismic.Model.Py
/-!
# Sismic.Model.World — several interpreters, `bind`, `bind_property_statechart`, `attach`/`detach`

A world is an array of interpreters plus the listeners that connect them
(`InternalEventListener`, `PropertyStatechartListener`, plain recording callables).
`execute_once` of interpreter `i` runs the generic `executeOnce` with `deliver` interpreting the
listener table; a property listener runs the nested interpreter to quiescence (`execute()`), which
is the only recursion — bounded by `fuel`.
-/
namespace Sismic

inductive ListenerSpec where
  | bindInterp (j : Nat)       -- `i.bind(world[j])`
  | bindCallback (k : Nat)     -- `i.bind(callable_k)`
  | property (j : Nat)         -- `i.bind_property_statechart(...)`, interpreter in slot `j`
  | recorder (k : Nat)         -- `i.attach(callable_k)`
  deriving Repr, Inhabited

structure Slot where
  chart : Chart
  ignoreContract : Bool := false
  st : IState PyCtx
  deriving Inhabited

structure World where
  slots : Array Slot := #[]
  listeners : Array ListenerSpec := #[]
  /-- what each recording callable received, in order -/
  callbacks : Array (List Event) := #[]
  deriving Inhabited

def World.modifySlot (w : World) (j : Nat) (f : IState PyCtx → IState PyCtx) : World :=
  { w with slots := w.slots.modify j (fun s => { s with st := f s.st }) }

def World.record (w : World) (k : Nat) (e : Event) : World :=
  { w with callbacks := w.callbacks.modify k (fun l => l ++ [e]) }

def extQueue (e : Event) (st : IState PyCtx) : IState PyCtx :=
  { st with extQ := queueInsert (st.time + e.delay) e st.extQ }

abbrev WM := M PyCtx World

/-- result of running interpreter `j` of a world once -/
structure ExecResult where
  outcome : Except Err (Option MacroStep)
  world : World
  eff : List Effect

mutual
/-- `world[j].execute_once()` with the clock showing `clock` -/
def worldExecOnce : Nat → Nat → Int → World → ExecResult
  | 0, _, _, w => { outcome := .error .fuel, world := w, eff := [] }
  | fuel+1, j, clock, w =>
    match w.slots[j]? with
    | none => { outcome := .error .statechartError, world := w, eff := [] }
    | some slot =>
      let env : Env PyCtx World :=
        { chart := slot.chart, E := pyEvaluator, ignoreContract := slot.ignoreContract,
          deliver := fun l m time w => worldDeliver fuel j l m time w }
      let (r, rs) := executeOnce env clock { st := slot.st, world := w, eff := [] }
      { outcome := r, world := rs.world.modifySlot j (fun _ => rs.st), eff := rs.eff }

/-- `world[j].execute()` with a synchronized clock showing `clock` -/
def worldExecAll : Nat → Nat → Int → World → Except Err Unit × World
  | 0, _, _, w => (.error .fuel, w)
  | fuel+1, j, clock, w =>
    let r := worldExecOnce fuel j clock w
    match r.outcome with
    | .error e => (.error e, r.world)
    | .ok none => (.ok (), r.world)
    | .ok (some _) => worldExecAll fuel j clock r.world

/-- the listener with id `l`, attached to interpreter `i` (in flight: its slot in `w` is stale),
    called with meta-event `m` while `i`'s step time is `time` -/
def worldDeliver : Nat → Nat → Nat → Event → Int → World → Except Err Unit × World × List Event
  | fuel, i, l, m, time, w =>
    match w.listeners[l]? with
    | none => (.error (.listener l), w, [])
    | some (.recorder k) => (.ok (), w.record k m, [])
    | some (.bindCallback k) =>
      if m.name == "event sent" then
        match assocGet "event" m.data with
        | some (.ev n d) => (.ok (), w.record k { name := n, data := d }, [])
        | _ => (.error (.listener l), w, [])
      else (.ok (), w, [])
    | some (.bindInterp j) =>
      if m.name == "event sent" then
        match assocGet "event" m.data with
        | some (.ev n d) =>
          let e : Event := { name := n, data := d }
          if j == i then (.ok (), w, [e])
          else (.ok (), w.modifySlot j (extQueue e), [])
        | _ => (.error (.listener l), w, [])
      else (.ok (), w, [])
    | some (.property j) =>
      let w1 := w.modifySlot j (extQueue m)
      match fuel with
      | 0 => (.error .fuel, w1, [])
      | fuel'+1 =>
        let (r, w2) := worldExecAll fuel' j time w1
        match r with
        | .error e => (.error e, w2, [])
        | .ok () =>
          let fin := match w2.slots[j]? with
            | some s => s.st.initialized && s.st.config.isEmpty
            | none => false
          if fin then (.error (.propertyFailed l), w2, [])
          else (.ok (), w2, [])
end

/-- `Interpreter(chart, initial_context=ctx0, ignore_contract=…)` with a clock showing `time0` -/
def mkSlot (chart : Chart) (ignoreContract : Bool) (ctx0 : List (String × Val)) (time0 : Int) :
    Slot × Bool :=
  let (ctx, r) := pyPreamble chart time0 { vars := ctx0 }
  ({ chart := chart, ignoreContract := ignoreContract, st := { time := time0, ctx := ctx } }, r.isSome)

end Sismic
