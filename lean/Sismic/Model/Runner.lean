/-!
# Sismic.Model.Runner — `sismic.runner.AsyncRunner` against client threads, as a scheduled system

The runner thread (`_run`, `execute`) and any number of client threads (programs over `start`,
`queue`, `pause`, `unpause`, `stop`, `wait`) are sequential programs whose atomic actions are the
operations on the two `threading.Event` flags, the hooks, `execute_once`, `queue`, `sleep`, `join`.
A *schedule* is a list of thread ids; `step` runs the next atomic action of the chosen thread (a
blocked or finished thread does not move).  The theorems quantify over all schedules.
The interpreter is abstract: `exec` (`execute_once`), `enq` (`queue`), `fin` (`final`).
-/
namespace Sismic.Runner

/-- an abstract interpreter over event type `ε`, step type `μ` -/
structure Interp (ι ε μ : Type) where
  exec : ι → Option μ × ι
  enq : ε → ι → ι
  fin : ι → Bool

/-- program counter of the runner thread (`AsyncRunner._run` + `execute`) -/
inductive RPc
  | notStarted | beforeRun | waitA | readFinal | isSetStop | beforeExecute | execFirst | execMore
  | afterExecute | sleep | waitB | setStop | afterRun | done
  deriving DecidableEq, Repr, Inhabited

/-- atomic actions of a client -/
inductive CAct (ε : Type)
  | startIsSet | startSetUnpaused | startThread      -- `start()`
  | queue (e : ε)
  | pause | unpause
  | stopSetStop | stopSetUnpaused | join             -- `stop()` = set, set, join; `wait()` = join
  deriving Repr, Inhabited

structure St (ι ε μ : Type) where
  unpaused : Bool := false
  stop : Bool := false
  pc : RPc := .notStarted
  it : ι
  executeAll : Bool := false
  cycle : List μ := []                 -- `steps` of the running `execute()`
  executed : List μ := []              -- ghost: every macro step `execute_once` returned, in order
  reported : List (List μ) := []       -- what `after_execute` received, per cycle
  beforeRun : Nat := 0
  afterRun : Nat := 0
  cycles : Nat := 0                    -- number of `before_execute` calls
  clients : List (List (CAct ε)) := [] -- remaining program of each client
  startRaised : Bool := false          -- `start()` raised RuntimeError

variable {ι ε μ : Type}

/-- one atomic action of the runner thread; `none` = blocked / not running -/
def runnerStep (I : Interp ι ε μ) (s : St ι ε μ) : Option (St ι ε μ) :=
  match s.pc with
  | .notStarted | .done => none
  | .beforeRun => some { s with beforeRun := s.beforeRun + 1, pc := .waitA }
  | .waitA => if s.unpaused then some { s with pc := .readFinal } else none
  | .readFinal => some { s with pc := if I.fin s.it then .setStop else .isSetStop }
  | .isSetStop => some { s with pc := if s.stop then .setStop else .beforeExecute }
  | .beforeExecute => some { s with cycles := s.cycles + 1, cycle := [], pc := .execFirst }
  | .execFirst | .execMore =>
    match I.exec s.it with
    | (none, it') => some { s with it := it', pc := .afterExecute }
    | (some m, it') =>
      some { s with it := it', cycle := s.cycle ++ [m], executed := s.executed ++ [m],
                    pc := if s.executeAll then .execMore else .afterExecute }
  | .afterExecute => some { s with reported := s.reported ++ [s.cycle], cycle := [], pc := .sleep }
  | .sleep => some { s with pc := .waitB }
  | .waitB => if s.unpaused then some { s with pc := .readFinal } else none
  | .setStop => some { s with stop := true, pc := .afterRun }
  | .afterRun => some { s with afterRun := s.afterRun + 1, pc := .done }

/-- one atomic action of a client; `none` = blocked (in `join`) -/
def clientAct (I : Interp ι ε μ) (s : St ι ε μ) : CAct ε → Option (St ι ε μ)
  | .startIsSet => some (if s.stop then { s with startRaised := true } else s)
  | .startSetUnpaused => some { s with unpaused := true }
  | .startThread => some (if s.pc == .notStarted then { s with pc := .beforeRun } else s)
  | .queue e => some { s with it := I.enq e s.it }
  | .pause => some { s with unpaused := false }
  | .unpause => some { s with unpaused := true }
  | .stopSetStop => some { s with stop := true }
  | .stopSetUnpaused => some { s with unpaused := true }
  | .join => if s.pc == .done || s.pc == .notStarted then some s else none

def setNth {α} : List α → Nat → α → List α
  | [], _, _ => []
  | _ :: xs, 0, v => v :: xs
  | x :: xs, n+1, v => x :: setNth xs n v

/-- thread 0 = the runner, thread k+1 = client k -/
def step (I : Interp ι ε μ) (s : St ι ε μ) (tid : Nat) : St ι ε μ :=
  match tid with
  | 0 => (runnerStep I s).getD s
  | k+1 =>
    match s.clients[k]? with
    | some (a :: rest) =>
      (match clientAct I s a with
       | some s' => { s' with clients := setNth s'.clients k rest }
       | none => s)
    | _ => s

def run (I : Interp ι ε μ) (s : St ι ε μ) (sched : List Nat) : St ι ε μ := sched.foldl (step I) s

/-- is thread `tid` able to move? (used by the harness to pick schedules, and by liveness statements) -/
def enabled (I : Interp ι ε μ) (s : St ι ε μ) (tid : Nat) : Bool :=
  match tid with
  | 0 => (runnerStep I s).isSome
  | k+1 =>
    match s.clients[k]? with
    | some (a :: _) => (clientAct I s a).isSome
    | _ => false

/-! ### the concrete interpreter used by the tie: initialisation step, FIFO events, final on a marked event -/

structure QI where
  initialized : Bool := false
  final : Bool := false
  pending : List String := []
  deriving Repr, Inhabited

def qInterp (finalEvent : String) : Interp QI String String where
  exec q :=
    if !q.initialized then (some "<init>", { q with initialized := true })
    else match q.pending with
      | [] => (none, q)
      | e :: r => (some e, { q with pending := r, final := q.final || e == finalEvent })
  enq e q := { q with pending := q.pending ++ [e] }
  fin q := q.final

end Sismic.Runner
