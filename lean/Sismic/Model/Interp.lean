import Sismic.Model.Plan
/-!
# Sismic.Model.Interp — `sismic.interpreter.Interpreter`

`execute_once`, `_compute_steps`, `_apply_step`, `_stabilize`, `_evaluate_contract_conditions`,
`_queue_event`, `_raise_event`, `_select_event`, statement for statement.

* Every operation that can raise returns the state reached when it raised:
  `M α = RS → Except Err α × RS` (so "nothing changes on error" is a theorem, not a typing fact).
* The **effect log** `RS.eff` records, in order, everything observable from outside: guard and
  contract evaluations, executed code fragments, meta-events.  The real interpreter yields the same
  log through a logging `Evaluator` subclass and an attached listener (public extension points).
* Generic in the evaluator `E : Evaluator σ` (any code semantics; guards and contract conditions
  are pure, executed code may change `σ` and send events) and in the listeners (`deliver`, which
  may change an arbitrary outside world `ω`, raise, and queue events on the interpreter).
-/
namespace Sismic

inductive CondKind | pre | post | inv
  deriving DecidableEq, Repr, Inhabited

/-- identity of a contract owner -/
inductive ObjId | state (n : Name) | trans (id : Nat)
  deriving DecidableEq, Repr, Inhabited

inductive Obj | state (s : StateDef) | trans (t : Trans)
  deriving Inhabited

def Obj.id : Obj → ObjId
  | .state s => .state s.name
  | .trans t => .trans t.id
def Obj.conds : Obj → CondKind → List Code
  | .state s, .pre => s.pre
  | .state s, .post => s.post
  | .state s, .inv => s.inv
  | .trans t, .pre => t.pre
  | .trans t, .post => t.post
  | .trans t, .inv => t.inv

inductive Err where
  | nonDeterminism | conflicting
  | precondition (obj : ObjId) (cond : String)
  | postcondition (obj : ObjId) (cond : String)
  | invariant (obj : ObjId) (cond : String)
  | propertyFailed (listener : Nat)
  | listener (l : Nat)              -- any other exception raised by a listener
  | codeError                       -- CodeEvaluationError
  | statechartError                 -- StatechartError (unknown state …)
  | assertion                       -- `assert` in `_apply_step` / KeyError on `set.remove`
  | fuel                            -- model only: a Python `while` loop did not end within the fuel
  | unsupported                     -- model only: code outside the modelled subset
  deriving DecidableEq, Repr, Inhabited

def CondKind.err : CondKind → ObjId → String → Err
  | .pre => .precondition
  | .post => .postcondition
  | .inv => .invariant

inductive ExecKind | onEntry (s : StateDef) | onExit (s : StateDef) | action (t : Trans)
  deriving Inhabited

inductive Effect where
  | guard (tid : Nat) (exposed : Option Event) (result : Option Bool)     -- `none`: it raised
  | cond (kind : CondKind) (obj : ObjId) (idx : Nat) (event : Option Event) (result : Option Bool)
  | onExit (s : Name)
  | action (tid : Nat) (event : Option Event)
  | onEntry (s : Name)
  | metaEv (e : Event)
  deriving Inhabited

structure MacroStep where
  time : Int
  steps : List Micro
  deriving Inhabited

def MacroStep.event (m : MacroStep) : Option Event := m.steps.findSome? (·.event)
def MacroStep.transitions (m : MacroStep) : List Trans := m.steps.filterMap (·.transition)
def MacroStep.entered (m : MacroStep) : List Name := m.steps.flatMap (·.entered)
def MacroStep.exited (m : MacroStep) : List Name := m.steps.flatMap (·.exited)
def MacroStep.sent (m : MacroStep) : List Sent := m.steps.flatMap (·.sent)

/-- the mutable part of an `Interpreter` -/
structure IState (σ : Type) where
  initialized : Bool := false
  time : Int := 0
  memory : List (Name × List Name) := []
  config : List Name := []
  entryTime : List (Name × Int) := []
  idleTime : List (Name × Int) := []
  sentEvents : List Sent := []
  intQ : List (Int × Event) := []
  extQ : List (Int × Event) := []
  listeners : List Nat := []
  ctx : σ
  deriving Inhabited

/-- `sismic.code.Evaluator` as the interpreter uses it. `none` = the code raised. -/
structure Evaluator (σ : Type) where
  guard : IState σ → Trans → Option Event → Option Bool
  cond : IState σ → CondKind → Obj → Code → Option Event → Option Bool
  exec : IState σ → ExecKind → Option Event → σ × Option (List Sent)
  /-- `PythonEvaluator.evaluate_preconditions` stores `FrozenContext(context)` for `__old__` -/
  freeze : σ → Obj → σ

structure RS (σ ω : Type) where
  st : IState σ
  world : ω
  eff : List Effect := []

/-- state + error monad that keeps the state on error -/
def M (σ ω α : Type) := RS σ ω → Except Err α × RS σ ω

namespace M
variable {σ ω α β : Type}
@[inline] def pure (a : α) : M σ ω α := fun s => (.ok a, s)
@[inline] def bind (x : M σ ω α) (f : α → M σ ω β) : M σ ω β := fun s =>
  match x s with
  | (.ok a, s') => f a s'
  | (.error e, s') => (.error e, s')
instance : Monad (M σ ω) where
  pure := M.pure
  bind := M.bind
@[inline] def throw (e : Err) : M σ ω α := fun s => (.error e, s)
@[inline] def get : M σ ω (IState σ) := fun s => (.ok s.st, s)
@[inline] def modify (f : IState σ → IState σ) : M σ ω Unit := fun s => (.ok (), { s with st := f s.st })
@[inline] def emit (e : Effect) : M σ ω Unit := fun s => (.ok (), { s with eff := s.eff ++ [e] })
/-- `for x in xs: f x` -/
def forEach {γ : Type} (f : γ → M σ ω Unit) : List γ → M σ ω Unit
  | [] => pure ()
  | x :: xs => bind (f x) (fun _ => forEach f xs)
end M



def assocSet {κ ν} [BEq κ] (k : κ) (v : ν) : List (κ × ν) → List (κ × ν)
  | [] => [(k, v)]
  | (k', v') :: r => if k' == k then (k, v) :: r else (k', v') :: assocSet k v r

def assocGet {κ ν} [BEq κ] (k : κ) (l : List (κ × ν)) : Option ν :=
  (l.find? (fun p => p.1 == k)).map (·.2)

/-- `bisect_right` on the due time followed by `insert` -/
def queueInsert (due : Int) (e : Event) : List (Int × Event) → List (Int × Event)
  | [] => [(due, e)]
  | (d, x) :: r => if d ≤ due then (d, x) :: queueInsert due e r else (due, e) :: (d, x) :: r

def Event.delay (e : Event) : Int :=
  match assocGet "delay" e.data with
  | some (.int d) => d
  | some (.bool b) => if b then 1 else 0
  | _ => 0

def Event.hasDelay (e : Event) : Bool := (assocGet "delay" e.data).isSome

def Event.toVal (e : Event) : Val := .ev e.name e.data
def optEventVal : Option Event → Val
  | some e => e.toVal
  | none => .none
def optNameVal : Option Name → Val
  | some n => .str n
  | none => .none

section
variable {σ ω : Type}

/-- parameters of one interpreter run -/
structure Env (σ ω : Type) where
  chart : Chart
  E : Evaluator σ
  ignoreContract : Bool := false
  /-- `listener(event)` for the listener with the given id: it sees the meta-event, the
      interpreter's step time and the outside world; it may raise, change the outside world and
      have events queued (as external events) on the interpreter itself — nothing else
      (DESIGN.md §2: code does not reach around the public API to mutate the interpreter). -/
  deliver : Nat → Event → Int → ω → Except Err Unit × ω × List Event
  stabFuel : Nat := 1000

variable (env : Env σ ω)

/-- `_queue_event` -/
def queueEvent (internal : Bool) (e : Event) : M σ ω Unit :=
  M.modify (fun st =>
    let due := st.time + e.delay
    if internal then { st with intQ := queueInsert due e st.intQ }
    else { st with extQ := queueInsert due e st.extQ })

/-- `_raise_event(MetaEvent(...))` -/
def callListener (m : Event) (l : Nat) : M σ ω Unit := fun rs =>
  let (r, w, qs) := env.deliver l m rs.st.time rs.world
  let st := qs.foldl (fun st e => { st with extQ := queueInsert (st.time + e.delay) e st.extQ }) rs.st
  (r, { rs with st := st, world := w })

def raiseMeta (m : Event) : M σ ω Unit := do
  M.emit (.metaEv m)
  let st ← M.get
  M.forEach (callListener env m) st.listeners

/-- `_raise_event(event)` for what code sent -/
def raiseSent : Sent → M σ ω Unit
  | .notify m => raiseMeta env m
  | .internal e => do
    queueEvent true e
    raiseMeta env { name := "event sent", data := [("event", e.toVal)] }
    if e.hasDelay then
      raiseMeta env { name := "delayed event sent", data := [("event", e.toVal)] }

/-- `_select_event(consume=False)` -/
def peekEvent (st : IState σ) : Option Event :=
  match st.intQ with
  | (d, e) :: _ => if d ≤ st.time then some e else
      (match st.extQ with
       | (d', e') :: _ => if d' ≤ st.time then some e' else none
       | [] => none)
  | [] =>
      (match st.extQ with
       | (d', e') :: _ => if d' ≤ st.time then some e' else none
       | [] => none)

/-- `_select_event(consume=True)` -/
def popEvent (st : IState σ) : Option Event × IState σ :=
  match st.intQ with
  | (d, e) :: r => if d ≤ st.time then (some e, { st with intQ := r }) else
      (match st.extQ with
       | (d', e') :: r' => if d' ≤ st.time then (some e', { st with extQ := r' }) else (none, st)
       | [] => (none, st))
  | [] =>
      (match st.extQ with
       | (d', e') :: r' => if d' ≤ st.time then (some e', { st with extQ := r' }) else (none, st)
       | [] => (none, st))

/-- `_evaluate_contract_conditions(obj, cond_type, step)`; `ev` = `getattr(step, 'event', None)` -/
def evalContract (kind : CondKind) (obj : Obj) (ev : Option Event) : M σ ω Unit := do
  if env.ignoreContract then return ()
  if kind == .pre && (!(obj.conds .inv).isEmpty || !(obj.conds .post).isEmpty) then
    M.modify (fun st => { st with ctx := env.E.freeze st.ctx obj })
  let rec go (i : Nat) : List Code → M σ ω Unit
    | [] => pure ()
    | code :: rest => do
      let st ← M.get
      let r := env.E.cond st kind obj code ev
      M.emit (.cond kind obj.id i ev r)
      match r with
      | none => M.throw .codeError
      | some false => M.throw (kind.err obj.id code.src)
      | some true => go (i + 1) rest
  go 0 (obj.conds kind)

def stateObj (n : Name) : M σ ω StateDef :=
  match env.chart.stateFor n with
  | some s => pure s
  | none => M.throw .statechartError

/-- run a piece of code through the evaluator and keep what it did to the context -/
def runCode (k : ExecKind) (ev : Option Event) : M σ ω (List Sent) := do
  let st ← M.get
  let (ctx', r) := env.E.exec st k ev
  M.modify (fun st => { st with ctx := ctx' })
  match r with
  | some sent => pure sent
  | none => M.throw .codeError

/-- history bookkeeping when a compound state is exited (inside `_apply_step`) -/
def saveMemory (cfg0 : List Name) (s : StateDef) : List Name → M σ ω Unit
  | [] => pure ()
  | ch :: rest => do
    match env.chart.kindOf ch with
    | some .deep =>
      let active := cfg0.filter (fun x => (env.chart.descendants s.name).contains x)
      if active.length < 1 then M.throw .assertion
      M.modify (fun st => { st with memory := assocSet ch active st.memory })
    | some .shallow =>
      let active := cfg0.filter (fun x => (env.chart.childrenFor s.name).contains x)
      if active.length != 1 then M.throw .assertion
      M.modify (fun st => { st with memory := assocSet ch active st.memory })
    | some _ => pure ()
    | none => M.throw .statechartError
    saveMemory cfg0 s rest

def exitState (cfg0 : List Name) (step : Micro) (s : StateDef) : M σ ω (List Sent) := do
  M.emit (.onExit s.name)
  let sent ← runCode env (.onExit s) none
  if s.kind == .compound then saveMemory env cfg0 s (env.chart.childrenFor s.name)
  let st ← M.get
  if !st.config.contains s.name then M.throw .assertion
  M.modify (fun st => { st with config := st.config.filter (fun x => x != s.name) })
  evalContract env .post (.state s) step.event
  raiseMeta env { name := "state exited", data := [("state", .str s.name)] }
  pure sent

def enterState (step : Micro) (s : StateDef) : M σ ω (List Sent) := do
  evalContract env .pre (.state s) step.event
  M.emit (.onEntry s.name)
  let sent ← runCode env (.onEntry s) none
  M.modify (fun st => { st with
    config := if st.config.contains s.name then st.config else st.config ++ [s.name],
    entryTime := assocSet s.name st.time st.entryTime,
    idleTime := assocSet s.name st.time st.idleTime })
  raiseMeta env { name := "state entered", data := [("state", .str s.name)] }
  pure sent

def fireTransition (step : Micro) (t : Trans) : M σ ω (List Sent) := do
  evalContract env .pre (.trans t) step.event
  evalContract env .inv (.trans t) step.event
  M.emit (.action t.id step.event)
  let sent ← runCode env (.action t) step.event
  evalContract env .post (.trans t) step.event
  evalContract env .inv (.trans t) step.event
  M.modify (fun st => { st with idleTime := assocSet t.source st.time st.idleTime })
  raiseMeta env { name := "transition processed",
                  data := [("source", .str t.source), ("target", optNameVal t.target),
                           ("event", optEventVal step.event)] }
  pure sent

def collect {γ : Type} (f : γ → M σ ω (List Sent)) : List γ → M σ ω (List Sent)
  | [] => pure []
  | x :: xs => do
    let a ← f x
    let b ← collect f xs
    pure (a ++ b)

/-- `_apply_step` -/
def applyStep (step : Micro) : M σ ω Micro := do
  let entered ← step.entered.mapM (stateObj env)
  let exited ← step.exited.mapM (stateObj env)
  let st0 ← M.get
  let cfg0 := st0.config
  let s1 ← collect (exitState env cfg0 step) exited
  let s2 ← match step.transition with
    | some t => fireTransition env step t
    | none => pure []
  let s3 ← collect (enterState env step) entered
  let sent := s1 ++ s2 ++ s3
  M.forEach (fun ev => do
    raiseSent env ev
    M.modify (fun st => { st with sentEvents := st.sentEvents ++ [ev] })) sent
  pure { step with sent := sent }

/-- `_stabilize` (the `while step is not None` loop, with fuel) -/
def stabilize : Nat → M σ ω (List Micro)
  | 0 => M.throw .fuel
  | n+1 => do
    let st ← M.get
    match stabilizationStep env.chart st.memory st.config with
    | none => pure []
    | some s => do
      let a ← applyStep env s
      let rest ← stabilize n
      pure (a :: rest)

/-- guard evaluations of `_select_transitions`: log them, stop at the first that raises -/
def logGuards (st : IState σ) (ev : Option Event) : List (Trans × Bool) → M σ ω Unit
  | [] => pure ()
  | (t, exposed) :: rest => do
    let e := if exposed then ev else none
    let r := env.E.guard st t e
    M.emit (.guard t.id e r)
    match r with
    | none => M.throw .codeError
    | some _ => logGuards st ev rest

/-- `_compute_steps` -/
def computeSteps : M σ ω (List Micro) := do
  let st ← M.get
  if !st.initialized then
    M.modify (fun st => { st with initialized := true })
    return [{ entered := env.chart.root.toList }]
  let ev := peekEvent st
  let ok := fun (t : Trans) (exposed : Bool) =>
    match t.guard with
    | none => true
    | some _ => (env.E.guard st t (if exposed then ev else none)) == some true
  let sel := selectTransitions env.chart st.config (ev.map (·.name)) ok
  logGuards env st ev sel.calls
  if sel.selected.isEmpty then
    match ev with
    | none => return []
    | some e => return [{ event := some e }]
  match sortTransitions env.chart sel.selected with
  | .error .nonDeterminism => M.throw .nonDeterminism
  | .error .conflicting => M.throw .conflicting
  | .ok ts =>
    let ev' := match ts.head? with
      | some t => if t.event.isNone then none else ev
      | none => ev
    return createSteps env.chart st.config ev' ts

def applyAll : List Micro → M σ ω (List Micro)
  | [] => pure []
  | s :: rest => do
    let a ← applyStep env s
    let stab ← stabilize env env.stabFuel
    let more ← applyAll rest
    pure (a :: stab ++ more)

/-- `execute_once`; `clock` is the value `self.clock.time` returns when it is read -/
def executeOnce (clock : Int) : M σ ω (Option MacroStep) := do
  M.modify (fun st => { st with time := clock, sentEvents := [] })
  raiseMeta env { name := "step started", data := [("time", .int clock)] }
  let computed ← computeSteps env
  let ms ← match computed with
    | [] => pure none
    | first :: _ => do
      if first.event.isSome then
        let st ← M.get
        let (e, st') := popEvent st
        M.modify (fun _ => st')
        raiseMeta env { name := "event consumed", data := [("event", optEventVal e)] }
      let executed ← applyAll env computed
      let st ← M.get
      pure (some { time := st.time, steps := executed })
  let st ← M.get
  M.forEach (fun n => do
    let s ← stateObj env n
    evalContract env .inv (.state s) (ms.bind (·.event))) (env.chart.sortConfig st.config)
  raiseMeta env { name := "step ended", data := [] }
  pure ms

/-- `execute(max_steps)`: loop with fuel (`maxSteps ≤ 0` = unbounded) -/
def executeLoop (clock : Unit → M σ ω Int) (maxSteps : Int) : Nat → Nat → M σ ω (List MacroStep)
  | 0, _ => M.throw .fuel
  | fuel+1, i => do
    let t ← clock ()
    let r ← executeOnce env t
    match r with
    | none => pure []
    | some m =>
      if 0 < maxSteps && maxSteps == (i + 1 : Nat) then pure [m]
      else do
        let rest ← executeLoop clock maxSteps fuel (i + 1)
        pure (m :: rest)

end
end Sismic
