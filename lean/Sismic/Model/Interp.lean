import Sismic.Model.Plan
/-!
# Sismic.Model.Interp — `sismic.interpreter.Interpreter`

`execute_once`, `_compute_steps`, `_apply_step`, `_stabilize`, `_evaluate_contract_conditions`,
`_queue_event`, `_raise_event`, `_select_event`, statement for statement.

* Every operation that can raise returns the state reached when it raised:
  `M α = RS → Except Err α × RS` (so "nothing changes on error" is a theorem, not a typing fact).
* The **effect log** `RS.eff` records, in order, everything observable from outside: guard and
  contract evaluations, executed code fragments, meta-events.  The real interpreter yields the same
  log through a logging `Evaluator` subclass and an attached listener (public extension points).
* Generic in the evaluator `E : Evaluator σ` (any code semantics; guards and contract conditions
  are pure, executed code may change `σ` and send events) and in the listeners (`deliver`, which
  may change an arbitrary outside world `ω`, raise, and queue events on the interpreter).
-/
namespace Sismic

inductive CondKind | pre | post | inv
  deriving DecidableEq, Repr, Inhabited

/-- identity of a contract owner -/
inductive ObjId | state (n : Name) | trans (id : Nat)
  deriving DecidableEq, Repr, Inhabited

inductive Obj | state (s : StateDef) | trans (t : Trans)
  deriving Inhabited

def Obj.id : Obj → ObjId
  | .state s => .state s.name
  | .trans t => .trans t.id
def Obj.conds : Obj → CondKind → List Code
  | .state s, .pre => s.pre
  | .state s, .post => s.post
  | .state s, .inv => s.inv
  | .trans t, .pre => t.pre
  | .trans t, .post => t.post
  | .trans t, .inv => t.inv

inductive Err where
  | nonDeterminism | conflicting
  | precondition (obj : ObjId) (cond : String)
  | postcondition (obj : ObjId) (cond : String)
  | invariant (obj : ObjId) (cond : String)
  | propertyFailed (listener : Nat)
  | listener (l : Nat)              -- any other exception raised by a listener
  | codeError                       -- CodeEvaluationError
  | statechartError                 -- StatechartError (unknown state …)
  | assertion                       -- `assert` in `_apply_step` / KeyError on `set.remove`
  | fuel                            -- model only: a Python `while` loop did not end within the fuel
  | unsupported                     -- model only: code outside the modelled subset
  deriving DecidableEq, Repr, Inhabited

def CondKind.err : CondKind → ObjId → String → Err
  | .pre => .precondition
  | .post => .postcondition
  | .inv => .invariant

inductive ExecKind | onEntry (s : StateDef) | onExit (s : StateDef) | action (t : Trans)
  deriving Inhabited

inductive Effect where
  | guard (tid : Nat) (exposed : Option Event) (result : Option Bool)     -- `none`: it raised
  | cond (kind : CondKind) (obj : ObjId) (idx : Nat) (event : Option Event) (result : Option Bool)
  | onExit (s : Name)
  | action (tid : Nat) (event : Option Event)
  | onEntry (s : Name)
  | metaEv (e : Event)
  deriving Inhabited

structure MacroStep where
  time : Int
  steps : List Micro
  deriving Inhabited

def MacroStep.event (m : MacroStep) : Option Event := m.steps.findSome? (·.event)
def MacroStep.transitions (m : MacroStep) : List Trans := m.steps.filterMap (·.transition)
def MacroStep.entered (m : MacroStep) : List Name := m.steps.flatMap (·.entered)
def MacroStep.exited (m : MacroStep) : List Name := m.steps.flatMap (·.exited)
def MacroStep.sent (m : MacroStep) : List Sent := m.steps.flatMap (·.sent)

/-- the mutable part of an `Interpreter` -/
structure IState (σ : Type) where
  initialized : Bool := false
  time : Int := 0
  memory : List (Name × List Name) := []
  config : List Name := []
  entryTime : List (Name × Int) := []
  idleTime : List (Name × Int) := []
  sentEvents : List Sent := []
  intQ : List (Int × Event) := []
  extQ : List (Int × Event) := []
  listeners : List Nat := []
  ctx : σ
  deriving Inhabited

/-- `sismic.code.Evaluator` as the interpreter uses it. `none` = the code raised. -/
structure Evaluator (σ : Type) where
  guard : IState σ → Trans → Option Event → Option Bool
  cond : IState σ → CondKind → Obj → Code → Option Event → Option Bool
  exec : IState σ → ExecKind → Option Event → σ × Option (List Sent)
  /-- `PythonEvaluator.evaluate_preconditions` stores `FrozenContext(context)` for `__old__` -/
  freeze : σ → Obj → σ

structure RS (σ ω : Type) where
  st : IState σ
  world : ω
  eff : List Effect := []

/-- state + error monad that keeps the state on error -/
def M (σ ω α : Type) := RS σ ω → Except Err α × RS σ ω

namespace M
variable {σ ω α β : Type}
@[inline] def pure (a : α) : M σ ω α := fun s => (.ok a, s)
@[inline] def bind (x : M σ ω α) (f : α → M σ ω β) : M σ ω β := fun s =>
  match x s with
  | (.ok a, s') => f a s'
  | (.error e, s') => (.error e, s')
instance : Monad (M σ ω) where
  pure := M.pure
  bind := M.bind
@[inline] def throw (e : Err) : M σ ω α := fun s => (.error e, s)
@[inline] def get : M σ ω (IState σ) := fun s => (.ok s.st, s)
@[inline] def modify (f : IState σ → IState σ) : M σ ω Unit := fun s => (.ok (), { s with st := f s.st })
@[inline] def emit (e : Effect) : M σ ω Unit := fun s => (.ok (), { s with eff := s.eff ++ [e] })
/-- `for x in xs: f x` -/
def forEach {γ : Type} (f : γ → M σ ω Unit) : List γ → M σ ω Unit
  | [] => pure ()
  | x :: xs => bind (f x) (fun _ => forEach f xs)
end M



def assocSet {κ ν} [BEq κ] (k : κ) (v : ν) : List (κ × ν) → List (κ × ν)
  | [] => [(k, v)]
  | (k', v') :: r => if k' == k then (k, v) :: r else (k', v') :: assocSet k v r

def assocGet {κ ν} [BEq κ] (k : κ) (l : List (κ × ν)) : Option ν :=
  (l.find? (fun p => p.1 == k)).map (·.2)

/-- `bisect_right` on the due time followed by `insert` -/
def queueInsert (due : Int) (e : Event) : List (Int × Event) → List (Int × Event)
  | [] => [(due, e)]
  | (d, x) :: r => if d ≤ due then (d, x) :: queueInsert due e r else (due, e) :: (d, x) :: r

def Event.delay (e : Event) : Int :=
  match assocGet "delay" e.data with
  | some (.int d) => d
  | some (.bool b) => if b then 1 else 0
  | _ => 0

def Event.hasDelay (e : Event) : Bool := (assocGet "delay" e.data).isSome

def Event.toVal (e : Event) : Val := .ev e.name e.data
def optEventVal : Option Event → Val
  | some e => e.toVal
  | none => .none
def optNameVal : Option Name → Val
  | some n => .str n
  | none => .none

section
variable {σ ω : Type}

/-- parameters of one interpreter run -/
structure Env (σ ω : Type) where
  chart : Chart
  E : Evaluator σ
  ignoreContract : Bool := false
  /-- `listener(event)` for the listener with the given id: it sees the meta-event, the
      interpreter's step time and the outside world; it may raise, change the outside world and
      have events queued (as external events) on the interpreter itself — nothing else
      (DESIGN.md §2: code does not reach around the public API to mutate the interpreter). -/
  deliver : Nat → Event → Int → ω → Except Err Unit × ω × List Event
  stabFuel : Nat := 1000

variable (env : Env σ ω)

/-- `_queue_event` -/
def queueEvent (internal : Bool) (e : Event) : M σ ω Unit :=
  M.modify (fun st =>
    let due := st.time + e.delay
    if internal then { st with intQ := queueInsert due e st.intQ }
    else { st with extQ := queueInsert due e st.extQ })

/-- `listener(event)`: the listener may raise, change the outside world, and have events queued
    (externally) on this interpreter -/
def callListener (m : Event) (l : Nat) : M σ ω Unit := fun rs =>
  let r := env.deliver l m rs.st.time rs.world
  let st := r.2.2.foldl (fun st e => { st with extQ := queueInsert (st.time + e.delay) e st.extQ }) rs.st
  (r.1, { rs with st := st, world := r.2.1 })

/-- `_raise_event(MetaEvent(...))` -/
def raiseMeta (m : Event) : M σ ω Unit :=
  M.bind (M.emit (.metaEv m)) (fun _ =>
    M.bind M.get (fun st => M.forEach (callListener env m) st.listeners))

/-- `_raise_event(event)` for what code sent -/
def raiseSent : Sent → M σ ω Unit
  | .notify m => raiseMeta env m
  | .internal e =>
    M.bind (queueEvent true e) (fun _ =>
      M.bind (raiseMeta env { name := "event sent", data := [("event", e.toVal)] }) (fun _ =>
        if e.hasDelay then
          raiseMeta env { name := "delayed event sent", data := [("event", e.toVal)] }
        else M.pure ()))

/-- `_select_event(consume=False)` -/
def peekEvent (st : IState σ) : Option Event :=
  match st.intQ with
  | (d, e) :: _ => if d ≤ st.time then some e else
      (match st.extQ with
       | (d', e') :: _ => if d' ≤ st.time then some e' else none
       | [] => none)
  | [] =>
      (match st.extQ with
       | (d', e') :: _ => if d' ≤ st.time then some e' else none
       | [] => none)

/-- `_select_event(consume=True)` -/
def popEvent (st : IState σ) : Option Event × IState σ :=
  match st.intQ with
  | (d, e) :: r => if d ≤ st.time then (some e, { st with intQ := r }) else
      (match st.extQ with
       | (d', e') :: r' => if d' ≤ st.time then (some e', { st with extQ := r' }) else (none, st)
       | [] => (none, st))
  | [] =>
      (match st.extQ with
       | (d', e') :: r' => if d' ≤ st.time then (some e', { st with extQ := r' }) else (none, st)
       | [] => (none, st))

/-- the loop over the (lazily evaluated) unsatisfied conditions: the first false one raises -/
def evalConds (kind : CondKind) (obj : Obj) (ev : Option Event) : Nat → List Code → M σ ω Unit
  | _, [] => M.pure ()
  | i, code :: rest =>
    M.bind M.get (fun st =>
      let r := env.E.cond st kind obj code ev
      M.bind (M.emit (.cond kind obj.id i ev r)) (fun _ =>
        match r with
        | none => M.throw .codeError
        | some false => M.throw (kind.err obj.id code.src)
        | some true => evalConds kind obj ev (i + 1) rest))

/-- `_evaluate_contract_conditions(obj, cond_type, step)`; `ev` = `getattr(step, 'event', None)` -/
def evalContract (kind : CondKind) (obj : Obj) (ev : Option Event) : M σ ω Unit :=
  if env.ignoreContract then M.pure () else
  M.bind (if kind == .pre && (!(obj.conds .inv).isEmpty || !(obj.conds .post).isEmpty)
          then M.modify (fun st => { st with ctx := env.E.freeze st.ctx obj }) else M.pure ())
    (fun _ => evalConds env kind obj ev 0 (obj.conds kind))

def stateObj (n : Name) : M σ ω StateDef :=
  match env.chart.stateFor n with
  | some s => pure s
  | none => M.throw .statechartError

/-- run a piece of code through the evaluator and keep what it did to the context -/
def runCode (k : ExecKind) (ev : Option Event) : M σ ω (List Sent) :=
  M.bind M.get (fun st =>
    M.bind (M.modify (fun st' => { st' with ctx := (env.E.exec st k ev).1 })) (fun _ =>
      match (env.E.exec st k ev).2 with
      | some sent => M.pure sent
      | none => M.throw .codeError))

/-- what exiting the compound state `s` (from configuration `cfg0`) stores for its child `ch`:
    `.ok none` = `ch` is not a history state; `.error` = the `assert` fails / unknown state -/
def memoryOf (c : Chart) (cfg0 : List Name) (s : StateDef) (ch : Name) : Except Err (Option (List Name)) :=
  match c.kindOf ch with
  | some .deep =>
    if (cfg0.filter (fun x => (c.descendants s.name).contains x)).length < 1 then .error .assertion
    else .ok (some (cfg0.filter (fun x => (c.descendants s.name).contains x)))
  | some .shallow =>
    if (cfg0.filter (fun x => (c.childrenFor s.name).contains x)).length != 1 then .error .assertion
    else .ok (some (cfg0.filter (fun x => (c.childrenFor s.name).contains x)))
  | some _ => .ok none
  | none => .error .statechartError

/-- history bookkeeping when a compound state is exited (inside `_apply_step`) -/
def saveMemory (cfg0 : List Name) (s : StateDef) : List Name → M σ ω Unit
  | [] => M.pure ()
  | ch :: rest =>
    match memoryOf env.chart cfg0 s ch with
    | .error e => M.throw e
    | .ok none => saveMemory cfg0 s rest
    | .ok (some a) =>
      M.bind (M.modify (fun st => { st with memory := assocSet ch a st.memory }))
        (fun _ => saveMemory cfg0 s rest)

def exitState (cfg0 : List Name) (step : Micro) (s : StateDef) : M σ ω (List Sent) :=
  M.bind (M.emit (.onExit s.name)) (fun _ =>
  M.bind (runCode env (.onExit s) none) (fun sent =>
  M.bind (if s.kind == .compound then saveMemory env cfg0 s (env.chart.childrenFor s.name) else M.pure ()) (fun _ =>
  M.bind M.get (fun st =>
  M.bind (if !st.config.contains s.name then M.throw .assertion else M.pure ()) (fun _ =>
  M.bind (M.modify (fun st => { st with config := st.config.filter (fun x => x != s.name) })) (fun _ =>
  M.bind (evalContract env .post (.state s) step.event) (fun _ =>
  M.bind (raiseMeta env { name := "state exited", data := [("state", .str s.name)] }) (fun _ =>
  M.pure sent))))))))

def enterState (step : Micro) (s : StateDef) : M σ ω (List Sent) :=
  M.bind (evalContract env .pre (.state s) step.event) (fun _ =>
  M.bind (M.emit (.onEntry s.name)) (fun _ =>
  M.bind (runCode env (.onEntry s) none) (fun sent =>
  M.bind (M.modify (fun st => { st with
      config := if st.config.contains s.name then st.config else st.config ++ [s.name],
      entryTime := assocSet s.name st.time st.entryTime,
      idleTime := assocSet s.name st.time st.idleTime })) (fun _ =>
  M.bind (raiseMeta env { name := "state entered", data := [("state", .str s.name)] }) (fun _ =>
  M.pure sent)))))

def fireTransition (step : Micro) (t : Trans) : M σ ω (List Sent) :=
  M.bind (evalContract env .pre (.trans t) step.event) (fun _ =>
  M.bind (evalContract env .inv (.trans t) step.event) (fun _ =>
  M.bind (M.emit (.action t.id step.event)) (fun _ =>
  M.bind (runCode env (.action t) step.event) (fun sent =>
  M.bind (evalContract env .post (.trans t) step.event) (fun _ =>
  M.bind (evalContract env .inv (.trans t) step.event) (fun _ =>
  M.bind (M.modify (fun st => { st with idleTime := assocSet t.source st.time st.idleTime })) (fun _ =>
  M.bind (raiseMeta env { name := "transition processed",
                          data := [("source", .str t.source), ("target", optNameVal t.target),
                                   ("event", optEventVal step.event)] }) (fun _ =>
  M.pure sent))))))))

/-- `list(map(self._statechart.state_for, names))` -/
def stateObjs : List Name → M σ ω (List StateDef)
  | [] => M.pure []
  | n :: ns => M.bind (stateObj env n) (fun s => M.bind (stateObjs ns) (fun ss => M.pure (s :: ss)))

def collect {γ : Type} (f : γ → M σ ω (List Sent)) : List γ → M σ ω (List Sent)
  | [] => M.pure []
  | x :: xs => M.bind (f x) (fun a => M.bind (collect f xs) (fun b => M.pure (a ++ b)))

/-- the loop `for event in sent_events: self._raise_event(event); self._sent_events.append(event)` -/
def raiseAll (sent : List Sent) : M σ ω Unit :=
  M.forEach (fun ev =>
    M.bind (raiseSent env ev) (fun _ =>
      M.modify (fun st => { st with sentEvents := st.sentEvents ++ [ev] }))) sent

/-- `_apply_step` -/
def applyStep (step : Micro) : M σ ω Micro :=
  M.bind (stateObjs env step.entered) (fun entered =>
  M.bind (stateObjs env step.exited) (fun exited =>
  M.bind M.get (fun st0 =>
  M.bind (collect (exitState env st0.config step) exited) (fun s1 =>
  M.bind (match step.transition with
          | some t => fireTransition env step t
          | none => M.pure []) (fun s2 =>
  M.bind (collect (enterState env step) entered) (fun s3 =>
  M.bind (raiseAll env (s1 ++ s2 ++ s3)) (fun _ =>
  M.pure { step with sent := s1 ++ s2 ++ s3 })))))))

/-- `_stabilize` (the `while step is not None` loop, with fuel) -/
def stabilize : Nat → M σ ω (List Micro)
  | 0 => M.throw .fuel
  | n+1 =>
    M.bind M.get (fun st =>
      match stabilizationStep env.chart st.memory st.config with
      | none => M.pure []
      | some s =>
        M.bind (applyStep env s) (fun a =>
          M.bind (stabilize n) (fun rest => M.pure (a :: rest))))

/-- guard evaluations of `_select_transitions`: log them, stop at the first that raises -/
def logGuards (st : IState σ) (ev : Option Event) : List (Trans × Bool) → M σ ω Unit
  | [] => M.pure ()
  | (t, exposed) :: rest =>
    M.bind (M.emit (.guard t.id (if exposed then ev else none) (env.E.guard st t (if exposed then ev else none)))) (fun _ =>
      match env.E.guard st t (if exposed then ev else none) with
      | none => M.throw .codeError
      | some _ => logGuards st ev rest)

/-- the truth value `_select_transitions` uses for a transition:
    `transition.guard is None or evaluate_guard(transition, exposed_event)` -/
def guardOk {σ : Type} (E : Evaluator σ) (st : IState σ) (ev : Option Event) (t : Trans) (exposed : Bool) : Bool :=
  match t.guard with
  | none => true
  | some _ => (E.guard st t (if exposed then ev else none)) == some true

/-- `_compute_steps` -/
def computeSteps : M σ ω (List Micro) :=
  M.bind M.get (fun st =>
    if !st.initialized then
      M.bind (M.modify (fun st => { st with initialized := true }))
        (fun _ => M.pure [{ entered := env.chart.root.toList }])
    else
      let ev := peekEvent st
      let sel := selectTransitions env.chart st.config (ev.map (·.name)) (guardOk env.E st ev)
      M.bind (logGuards env st ev sel.calls) (fun _ =>
        if sel.selected.isEmpty then
          match ev with
          | none => M.pure []
          | some e => M.pure [{ event := some e }]
        else
          match sortTransitions env.chart sel.selected with
          | .error .nonDeterminism => M.throw .nonDeterminism
          | .error .conflicting => M.throw .conflicting
          | .ok ts =>
            let ev' := match ts.head? with
              | some t => if t.event.isNone then none else ev
              | none => ev
            M.pure (createSteps env.chart st.config ev' ts)))

def applyAll : List Micro → M σ ω (List Micro)
  | [] => M.pure []
  | s :: rest =>
    M.bind (applyStep env s) (fun a =>
      M.bind (stabilize env env.stabFuel) (fun stab =>
        M.bind (applyAll rest) (fun more => M.pure (a :: stab ++ more))))

/-- the end of `execute_once`: state invariants of the active states, then `step ended` -/
def finishStep (ms : Option MacroStep) : M σ ω (Option MacroStep) :=
  M.bind M.get (fun st =>
  M.bind (M.forEach (fun n =>
      M.bind (stateObj env n) (fun s => evalContract env .inv (.state s) (ms.bind (·.event))))
    (env.chart.sortConfig st.config)) (fun _ =>
  M.bind (raiseMeta env { name := "step ended", data := [] }) (fun _ =>
  M.pure ms)))

/-- consume the event that triggers the step (if any), apply the computed steps -/
def runSteps (computed : List Micro) : M σ ω (Option MacroStep) :=
  match computed with
  | [] => M.pure none
  | first :: _ =>
    M.bind (if first.event.isSome then
              M.bind M.get (fun st =>
                M.bind (M.modify (fun st' => (popEvent st').2)) (fun _ =>
                  raiseMeta env { name := "event consumed", data := [("event", optEventVal (popEvent st).1)] }))
            else M.pure ()) (fun _ =>
    M.bind (applyAll env computed) (fun executed =>
    M.bind M.get (fun st =>
    M.pure (some { time := st.time, steps := executed }))))

/-- `execute_once`; `clock` is the value `self.clock.time` returns when it is read -/
def executeOnce (clock : Int) : M σ ω (Option MacroStep) :=
  M.bind (M.modify (fun st => { st with time := clock, sentEvents := [] })) (fun _ =>
  M.bind (raiseMeta env { name := "step started", data := [("time", .int clock)] }) (fun _ =>
  M.bind (computeSteps env) (fun computed =>
  M.bind (runSteps env computed) (fun ms =>
  finishStep env ms))))

/-- `execute(max_steps)`: loop with fuel (`maxSteps ≤ 0` = unbounded) -/
def executeLoop (clock : Unit → M σ ω Int) (maxSteps : Int) : Nat → Nat → M σ ω (List MacroStep)
  | 0, _ => M.throw .fuel
  | fuel+1, i =>
    M.bind (clock ()) (fun t =>
      M.bind (executeOnce env t) (fun r =>
        match r with
        | none => M.pure []
        | some m =>
          if 0 < maxSteps && maxSteps == (i + 1 : Nat) then M.pure [m]
          else M.bind (executeLoop clock maxSteps fuel (i + 1)) (fun rest => M.pure (m :: rest))))

end
end Sismic
