/-!
# Sismic.Model.Clock — `sismic.clock.SimulatedClock`, `SynchronizedClock`

Generic in the number type `α` (the Python code is duck-typed over `int`, `float`, `Fraction`; the
theorems hold over any linearly ordered commutative ring, the driver runs it over `Rat`).
Every operation takes, as arguments, the values the calls to `time.time()` it performs return
(`r`, `r₁`, `r₂` — real time): `speed.setter` and `time.setter` read the real time twice.
-/
namespace Sismic

structure SimClock (α : Type) where
  base : α            -- `_base`
  time : α            -- `_time`
  play : Bool         -- `_play`
  speed : α           -- `_speed`
  deriving Repr, Inhabited

namespace SimClock
variable {α : Type} [Add α] [Sub α] [Mul α] [OfNat α 0] [OfNat α 1] [LT α] [DecidableLT α]

/-- `SimulatedClock()` created when real time is `r` -/
def init (r : α) : SimClock α := { base := r, time := 0, play := false, speed := 1 }

/-- `_elapsed` -/
def elapsed (c : SimClock α) (r : α) : α := if c.play then (r - c.base) * c.speed else 0

/-- `clock.time` -/
def now (c : SimClock α) (r : α) : α := c.time + c.elapsed r

/-- `start()` -/
def start (c : SimClock α) (r : α) : SimClock α :=
  if !c.play then { c with base := r, play := true } else c

/-- `stop()` -/
def stop (c : SimClock α) (r : α) : SimClock α :=
  if c.play then { c with time := c.time + c.elapsed r, play := false } else c

/-- `clock.speed = s` -/
def setSpeed (c : SimClock α) (r₁ r₂ s : α) : SimClock α :=
  { c with time := c.time + c.elapsed r₁, base := r₂, speed := s }

/-- `clock.time = t`: `none` = `ValueError` (and the clock is unchanged) -/
def setTime (c : SimClock α) (r₁ r₂ t : α) : Option (SimClock α) :=
  if t < c.now r₁ then none else some { c with time := t, base := r₂ }

end SimClock

/-- operations of a clock script; each carries the real-time readings it consumes -/
inductive ClockOp (α : Type) where
  | start (r : α)
  | stop (r : α)
  | setSpeed (r₁ r₂ s : α)
  | setTime (r₁ r₂ t : α)
  | read (r : α)
  deriving Repr

/-- what a script step shows: the value read, or whether an assignment was accepted -/
inductive ClockOut (α : Type) where
  | none
  | value (v : α)
  | accepted (b : Bool)
  deriving Repr

namespace SimClock
variable {α : Type} [Add α] [Sub α] [Mul α] [OfNat α 0] [OfNat α 1] [LT α] [DecidableLT α]

def step (c : SimClock α) : ClockOp α → SimClock α × ClockOut α
  | .start r => (c.start r, .none)
  | .stop r => (c.stop r, .none)
  | .setSpeed r₁ r₂ s => (c.setSpeed r₁ r₂ s, .none)
  | .setTime r₁ r₂ t =>
    match c.setTime r₁ r₂ t with
    | some c' => (c', .accepted true)
    | none => (c, .accepted false)
  | .read r => (c, .value (c.now r))

def run (c : SimClock α) : List (ClockOp α) → SimClock α × List (ClockOut α)
  | [] => (c, [])
  | op :: ops =>
    let (c', o) := c.step op
    let (c'', os) := run c' ops
    (c'', o :: os)

end SimClock
end Sismic
