import Sismic.Model.Select
/-!
# Sismic.Model.Plan — `_sort_transitions`, `_create_steps`, `_create_stabilization_step`

Pure functions of (chart, configuration, history memory).  They follow the source of `/repo` *after*
the `fix:` commits recorded in `/verif/known_findings.json` (D1, D2, D3, D7, D12).
-/
namespace Sismic

structure Micro where
  event : Option Event := none
  transition : Option Trans := none
  entered : List Name := []
  exited : List Name := []
  sent : List Sent := []
  deriving Inhabited

inductive PlanErr | nonDeterminism | conflicting
  deriving DecidableEq, Repr, Inhabited

def pairs {α} : List α → List (α × α)
  | [] => []
  | x :: xs => xs.map (fun y => (x, y)) ++ pairs xs

/-- the loop `last_before_lca = source; for state in ancestors: if state == lca: break; last = state` -/
def lastBeforeGo (l : Option Name) (cur : Name) : List Name → Name
  | [] => cur
  | x :: xs => if some x == l then cur else lastBeforeGo l x xs

def lastBefore (c : Chart) (s : Name) (l : Option Name) : Name :=
  lastBeforeGo l s (c.ancestors s)

/-- check (1) of `_sort_transitions` for one pair -/
def nonDetPair (c : Chart) (a b : Trans) : Bool :=
  a.source == b.source ||
  (match c.lca a.source b.source with
   | some l => c.kindOf l != some Kind.orthogonal
   | none => true)

/-- check (2) for one transition of a pair -/
def leavesRegion (c : Chart) (l : Option Name) (t : Trans) : Bool :=
  match t.target with
  | none => false
  | some tg =>
    let lb := lastBefore c t.source l
    !((lb :: c.descendants lb).contains tg)

def conflictPair (c : Chart) (a b : Trans) : Bool :=
  let l := c.lca a.source b.source
  leavesRegion c l a || leavesRegion c l b

def leTrans (c : Chart) (a b : Trans) : Bool := c.leRevDepthName a.source b.source

/-- `_sort_transitions` -/
def sortTransitions (c : Chart) (ts : List Trans) : Except PlanErr (List Trans) :=
  if ts.length ≤ 1 then .ok ts
  else if (pairs ts).any (fun p => nonDetPair c p.1 p.2) then .error .nonDeterminism
  else if (pairs ts).any (fun p => conflictPair c p.1 p.2) then .error .conflicting
  else .ok (isort (leTrans c) ts)

/-- one iteration of the loop of `_create_steps` -/
def createStep (c : Chart) (cfg : List Name) (ev : Option Event) (t : Trans) : Micro :=
  match t.target with
  | none => { event := ev, transition := some t }
  | some tg =>
    let l := c.lca t.source tg
    let lb := lastBefore c t.source l
    let exited := ((isort c.leRevDepthName (c.descendants lb)).filter cfg.contains)
                  ++ (if cfg.contains lb then [lb] else [])
    let entered := ((c.ancestors tg).takeWhile (fun x => some x != l)).reverse ++ [tg]
    { event := ev, transition := some t, entered := entered, exited := exited }

def createSteps (c : Chart) (cfg : List Name) (ev : Option Event) (ts : List Trans) : List Micro :=
  ts.map (createStep c cfg ev)

def leName (a b : Name) : Bool := decide (a ≤ b)

/-- what one leaf of the configuration asks for (first loop of `_create_stabilization_step`) -/
def leafStep (c : Chart) (memory : List (Name × List Name)) (leaf : Name) : Option Micro :=
  match c.stateFor leaf with
  | none => none
  | some s =>
    if s.kind == .final && c.parentFor leaf == c.root then
      some { exited := leaf :: c.root.toList }
    else if s.kind.isHistory then
      let m := match memory.find? (fun p => p.1 == leaf) with
        | some (_, l) => l
        | none => s.memory.toList
      some { entered := isort c.leDepthName m, exited := [leaf] }
    else if s.kind == .orthogonal && !(c.childrenFor leaf).isEmpty then
      some { entered := isort leName (c.childrenFor leaf) }
    else if s.kind == .compound && s.initial.isSome then
      some { entered := s.initial.toList }
    else none

/-- second loop (added by the D1 repair): an active orthogonal state some of whose children are
    not active yet -/
def completeStep (c : Chart) (cfg : List Name) (n : Name) : Option Micro :=
  if c.kindOf n == some .orthogonal then
    let missing := isort leName ((c.childrenFor n).filter (fun x => !cfg.contains x))
    if missing.isEmpty then none else some { entered := missing }
  else none

/-- `_create_stabilization_step(names)` -/
def stabilizationStep (c : Chart) (memory : List (Name × List Name)) (cfg : List Name) : Option Micro :=
  match (isort c.leRevDepthName (c.leafFor cfg)).findSome? (leafStep c memory) with
  | some m => some m
  | none => (isort c.leDepthName cfg).findSome? (completeStep c cfg)

end Sismic
