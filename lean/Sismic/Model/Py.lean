import Sismic.Model.Interp
/-!
# Sismic.Model.Py — `sismic.code.PythonEvaluator` over a Python subset

What each kind of code sees (name lookup order: context first, then the exposed names), the
`__old__` store, `send`/`notify`/`setdefault`, `after`/`idle`/`active`/`sent`/`received`, and a
big-step evaluator for the subset of Python the harness ships as JSON (obtained with Python's own
`ast.parse` from the very strings given to sismic).  Used by the driver only; the theorems are
generic in the evaluator.
-/
namespace Sismic

structure PyCtx where
  vars : List (String × Val) := []
  /-- `PythonEvaluator._memory` (keyed by owner after the D8 repair) -/
  old : List (ObjId × List (String × Val)) := []
  /-- code outside the subset was reached: the model's answer is meaningless from here on -/
  unsupported : Bool := false
  deriving Inhabited

/-- what is exposed to one piece of code -/
structure PyEnv where
  time : Int
  config : List Name
  event : Option (Option Event) := none       -- `none`: the name `event` is not defined
  old : Option Val := none                     -- `__old__`
  entryT : Option (Option Int) := none         -- `none`: `after` not exposed; `some none`: KeyError
  idleT : Option (Option Int) := none
  sentNames : Option (List String) := none     -- `sent(...)`
  received : Option (Option String) := none    -- `received(...)`
  canSend : Bool := false                      -- `send`, `notify`, `setdefault`

structure PySt where
  vars : List (String × Val)
  sent : List Sent := []
  unsupported : Bool := false
  deriving Inhabited

def Val.truthy : Val → Bool
  | .none => false
  | .nothing => false
  | .bool b => b
  | .int i => i != 0
  | .str s => s != ""
  | .ev _ _ => true
  | .old d => !d.isEmpty

def Val.asInt? : Val → Option Int
  | .int i => some i
  | .bool b => some (if b then 1 else 0)
  | _ => Option.none

def pyEq (a b : Val) : Bool :=
  match a.asInt?, b.asInt? with
  | some x, some y => x == y
  | _, _ => Val.beq a b

def pyCmp (op : CmpOp) (a b : Val) : Option Bool :=
  match op with
  | .eq => some (pyEq a b)
  | .ne => some (!pyEq a b)
  | _ =>
    match a.asInt?, b.asInt? with
    | some x, some y =>
      some (match op with
        | .lt => x < y | .le => x ≤ y | .gt => x > y | .ge => x ≥ y | _ => false)
    | _, _ =>
      match a, b with
      | .str x, .str y =>
        some (match op with
          | .lt => x < y | .le => x ≤ y | .gt => x > y | .ge => x ≥ y | _ => false)
      | _, _ => none

def pyBin (op : BinOp) (a b : Val) : Option Val :=
  match a, b with
  | .str x, .str y => if op == .add then some (.str (x ++ y)) else none
  | _, _ =>
    match a.asInt?, b.asInt? with
    | some x, some y =>
      match op with
      | .add => some (.int (x + y))
      | .sub => some (.int (x - y))
      | .mul => some (.int (x * y))
      | .floordiv => if y == 0 then none else some (.int (Int.fdiv x y))
      | .mod => if y == 0 then none else some (.int (Int.fmod x y))
    | _, _ => none

def lookupName (env : PyEnv) (st : PySt) (n : String) : Option Val :=
  match assocGet n st.vars with
  | some v => some v
  | none =>
    if n == "time" then some (.int env.time)
    else if n == "event" then env.event.map optEventVal
    else if n == "__old__" then env.old
    else none

/-- the functions exposed to code (`active`, `after`, `idle`, `sent`, `received`, `send`, `notify`,
    `setdefault`) and the few builtins of the subset -/
def callFn (env : PyEnv) (st : PySt) (f : String) (args : List Val)
    (kws : List (String × Val)) : Option Val × PySt :=
  match f, args, kws with
  | "active", [.str n], [] => (some (.bool (env.config.contains n)), st)
  | "active", [_], [] => (some (.bool false), st)
  | "after", [d], [] =>
    (match env.entryT, d.asInt? with
     | some (some t0), some d => (some (.bool (env.time - d ≥ t0)), st)
     | _, _ => (none, st))
  | "idle", [d], [] =>
    (match env.idleT, d.asInt? with
     | some (some t0), some d => (some (.bool (env.time - d ≥ t0)), st)
     | _, _ => (none, st))
  | "sent", [v], [] =>
    (match env.sentNames, v with
     | some ns, .str n => (some (.bool (ns.contains n)), st)
     | some _, _ => (some (.bool false), st)
     | none, _ => (none, st))
  | "received", [v], [] =>
    (match env.received with
     | some r => (some (.bool (match v, r with
                              | .str n, some m => n == m
                              | .none, none => true
                              | _, _ => false)), st)
     | none => (none, st))
  | "send", [.str n], kws =>
    if env.canSend then (some .none, { st with sent := st.sent ++ [.internal { name := n, data := kws }] })
    else (none, st)
  | "notify", [.str n], kws =>
    if env.canSend then (some .none, { st with sent := st.sent ++ [.notify { name := n, data := kws }] })
    else (none, st)
  | "setdefault", [.str n, v], [] =>
    if env.canSend then
      (match assocGet n st.vars with
       | some x => (some x, st)
       | none => (some v, { st with vars := st.vars ++ [(n, v)] }))
    else (none, st)
  | "abs", [v], [] => ((v.asInt?).map (fun i => Val.int (if i < 0 then -i else i)), st)
  | "min", [a, b], [] =>
    (match a.asInt?, b.asInt? with
     | some x, some y => (some (if y < x then b else a), st)
     | _, _ => (none, st))
  | "max", [a, b], [] =>
    (match a.asInt?, b.asInt? with
     | some x, some y => (some (if y > x then b else a), st)
     | _, _ => (none, st))
  | _, _, _ => (none, { st with unsupported := true })

mutual
def evalExpr (env : PyEnv) (st : PySt) : Expr → Option Val × PySt
  | .const v => (some v, st)
  | .name n => (lookupName env st n, st)
  | .binop op l r =>
    match evalExpr env st l with
    | (some a, st) =>
      (match evalExpr env st r with
       | (some b, st) => (pyBin op a b, st)
       | (none, st) => (none, st))
    | (none, st) => (none, st)
  | .and es => evalAnd env st es
  | .or es => evalOr env st es
  | .not e =>
    match evalExpr env st e with
    | (some a, st) => (some (.bool (!a.truthy)), st)
    | (none, st) => (none, st)
  | .neg e =>
    match evalExpr env st e with
    | (some a, st) => ((a.asInt?).map (fun i => Val.int (-i)), st)
    | (none, st) => (none, st)
  | .cmp l rest =>
    match evalExpr env st l with
    | (some a, st) => evalCmp env st a rest
    | (none, st) => (none, st)
  | .attr e a =>
    match evalExpr env st e with
    | (some (.ev n d), st) => if a == "name" then (some (.str n), st) else (assocGet a d, st)
    | (some (.old d), st) => (assocGet a d, st)
    | (_, st) => (none, st)
  | .ite c t e =>
    match evalExpr env st c with
    | (some v, st) => if v.truthy then evalExpr env st t else evalExpr env st e
    | (none, st) => (none, st)
  | .call f args kwargs =>
    match evalArgs env st args with
    | (none, st) => (none, st)
    | (some as, st) =>
      match evalKw env st kwargs with
      | (none, st) => (none, st)
      | (some kws, st) => callFn env st f as kws

def evalAnd (env : PyEnv) (st : PySt) : List Expr → Option Val × PySt
  | [] => (some (.bool true), st)
  | [e] => evalExpr env st e
  | e :: es =>
    match evalExpr env st e with
    | (some v, st) => if v.truthy then evalAnd env st es else (some v, st)
    | (none, st) => (none, st)

def evalOr (env : PyEnv) (st : PySt) : List Expr → Option Val × PySt
  | [] => (some (.bool false), st)
  | [e] => evalExpr env st e
  | e :: es =>
    match evalExpr env st e with
    | (some v, st) => if v.truthy then (some v, st) else evalOr env st es
    | (none, st) => (none, st)

def evalCmp (env : PyEnv) (st : PySt) (a : Val) : List (CmpOp × Expr) → Option Val × PySt
  | [] => (some (.bool true), st)
  | (op, e) :: rest =>
    match evalExpr env st e with
    | (some b, st) =>
      (match pyCmp op a b with
       | some true => if rest.isEmpty then (some (.bool true), st) else evalCmp env st b rest
       | some false => (some (.bool false), st)
       | none => (none, st))
    | (none, st) => (none, st)

def evalArgs (env : PyEnv) (st : PySt) : List Expr → Option (List Val) × PySt
  | [] => (some [], st)
  | e :: es =>
    match evalExpr env st e with
    | (some v, st) =>
      (match evalArgs env st es with
       | (some vs, st) => (some (v :: vs), st)
       | (none, st) => (none, st))
    | (none, st) => (none, st)

def evalKw (env : PyEnv) (st : PySt) : List (String × Expr) → Option (List (String × Val)) × PySt
  | [] => (some [], st)
  | (k, e) :: es =>
    match evalExpr env st e with
    | (some v, st) =>
      (match evalKw env st es with
       | (some vs, st) => (some ((k, v) :: vs), st)
       | (none, st) => (none, st))
    | (none, st) => (none, st)

end

mutual
def execStmt (env : PyEnv) (st : PySt) : Stmt → Bool × PySt
  | .pass => (true, st)
  | .expr e =>
    (match evalExpr env st e with
     | (some _, st) => (true, st)
     | (none, st) => (false, st))
  | .assign n e =>
    (match evalExpr env st e with
     | (some v, st) => (true, { st with vars := assocSet n v st.vars })
     | (none, st) => (false, st))
  | .aug n op e =>
    (match lookupName env st n with
     | none => (false, st)
     | some a =>
       match evalExpr env st e with
       | (some b, st) =>
         (match pyBin op a b with
          | some v => (true, { st with vars := assocSet n v st.vars })
          | none => (false, st))
       | (none, st) => (false, st))
  | .ite c t e =>
    (match evalExpr env st c with
     | (some v, st) => if v.truthy then execStmts env st t else execStmts env st e
     | (none, st) => (false, st))

def execStmts (env : PyEnv) (st : PySt) : List Stmt → Bool × PySt
  | [] => (true, st)
  | s :: rest =>
    match execStmt env st s with
    | (true, st) => execStmts env st rest
    | (false, st) => (false, st)
end

/-- `_evaluate_code`: `bool(eval(code, exposed, context))`; `none` = CodeEvaluationError -/
def pyEval (env : PyEnv) (ctx : PyCtx) (code : Code) : Option Bool :=
  if code.unsupported then none else
  match code.expr with
  | none => none
  | some e => ((evalExpr env { vars := ctx.vars } e).1).map Val.truthy

def viewEnv (st : IState PyCtx) : PyEnv := { time := st.time, config := st.config }

def sentNames (st : IState PyCtx) : List String := st.sentEvents.map (·.event.name)

def ownerOf : Obj → Name
  | .state s => s.name
  | .trans t => t.source

def pyGuard (st : IState PyCtx) (t : Trans) (ev : Option Event) : Option Bool :=
  match t.guard with
  | none => some true
  | some code =>
    pyEval { viewEnv st with
             event := some ev,
             entryT := some (assocGet t.source st.entryTime),
             idleT := some (assocGet t.source st.idleTime) } st.ctx code

def pyCond (st : IState PyCtx) (kind : CondKind) (obj : Obj) (code : Code) (ev : Option Event) :
    Option Bool :=
  let base : PyEnv := { viewEnv st with
    event := some ev, sentNames := some (sentNames st), received := some (ev.map (·.name)) }
  match kind with
  | .pre => pyEval base st.ctx code
  | _ =>
    let o := ownerOf obj
    pyEval { base with
      old := some (match assocGet obj.id st.ctx.old with
                   | some d => Val.old d
                   | none => Val.nothing),
      entryT := some (assocGet o st.entryTime),
      idleT := some (assocGet o st.idleTime) } st.ctx code

def pyExec (st : IState PyCtx) (k : ExecKind) (ev : Option Event) : PyCtx × Option (List Sent) :=
  let (code, event) : Option Code × Option (Option Event) :=
    match k with
    | .onEntry s => (s.onEntry, none)
    | .onExit s => (s.onExit, none)
    | .action t => (t.action, some ev)
  match code with
  | none => (st.ctx, some [])
  | some code =>
    if code.unsupported then ({ st.ctx with unsupported := true }, none) else
    let env : PyEnv := { viewEnv st with event := event, canSend := true }
    let (ok, r) := execStmts env { vars := st.ctx.vars } code.body
    let ctx' := { st.ctx with vars := r.vars, unsupported := st.ctx.unsupported || r.unsupported }
    (ctx', if ok then some r.sent else none)

def pyFreeze (ctx : PyCtx) (obj : Obj) : PyCtx :=
  { ctx with old := assocSet obj.id ctx.vars ctx.old }

def pyEvaluator : Evaluator PyCtx where
  guard := pyGuard
  cond := pyCond
  exec := pyExec
  freeze := pyFreeze

/-- `Evaluator.execute_statechart`: run the preamble -/
def pyPreamble (c : Chart) (time : Int) (ctx : PyCtx) : PyCtx × Option Unit :=
  match c.preamble with
  | none => (ctx, some ())
  | some code =>
    if code.unsupported then ({ ctx with unsupported := true }, none) else
    let env : PyEnv := { time := time, config := [], canSend := true }
    let (ok, r) := execStmts env { vars := ctx.vars } code.body
    let ctx' := { ctx with vars := r.vars, unsupported := ctx.unsupported || r.unsupported }
    (ctx', if ok && r.sent.isEmpty then some () else none)

end Sismic
