import Sismic.Model.Basic
/-!
# Sismic.Model.Edit — the structural editing operations of `sismic.model.Statechart`

`add_state`, `remove_state`, `rename_state`, `move_state`, `add_transition`, `remove_transition`,
`rotate_transition`, `validate`, statement for statement on the dict/list representation
(association lists in insertion order).  Every operation returns the chart *reached when it
raised*: "a failed edit changes nothing" is a theorem about these functions, not a typing fact.
-/
namespace Sismic

inductive EditErr | statechart | value
  deriving DecidableEq, Repr, Inhabited

abbrev EditRes := Except EditErr Unit × Chart

/-- value equality of transitions (`Transition.__eq__`): everything but object identity -/
def Trans.valEq (a b : Trans) : Bool :=
  a.source == b.source && a.target == b.target && a.event == b.event &&
  a.guard.map (·.src) == b.guard.map (·.src) && a.action.map (·.src) == b.action.map (·.src) &&
  a.priority == b.priority && a.pre.map (·.src) == b.pre.map (·.src) &&
  a.post.map (·.src) == b.post.map (·.src) && a.inv.map (·.src) == b.inv.map (·.src)

def eraseFirst {α} (p : α → Bool) : List α → List α
  | [] => []
  | x :: xs => if p x then xs else x :: eraseFirst p xs

/-- `d.pop(k)` on an association list -/
def assocErase {κ ν} [BEq κ] (k : κ) (l : List (κ × ν)) : List (κ × ν) := eraseFirst (fun p => p.1 == k) l

/-- `d[k] = f(d[k])` for an existing key -/
def assocModify {κ ν} [BEq κ] (k : κ) (f : ν → ν) : List (κ × ν) → List (κ × ν)
  | [] => []
  | (k', v) :: r => if k' == k then (k', f v) :: r else (k', v) :: assocModify k f r

namespace Chart

def mapStates (c : Chart) (f : StateDef → StateDef) : Chart := { c with states := c.states.map f }

/-- `add_state(state, parent)` -/
def addState (c : Chart) (s : StateDef) (parent : Option Name) : EditRes :=
  if c.hasState s.name then (.error .statechart, c) else
  match parent with
  | none =>
    if c.root.isSome then (.error .statechart, c)
    else if s.kind.isHistory then (.error .statechart, c)
    else (.ok (), { c with
      states := c.states ++ [s], parent := c.parent ++ [(s.name, none)],
      children := assocModify none (· ++ [s.name]) (c.children ++ [(some s.name, [])]) })
  | some p =>
    match c.stateFor p with
    | none => (.error .statechart, c)
    | some ps =>
      if !ps.kind.isComposite then (.error .statechart, c)
      else if s.kind.isHistory && ps.kind != .compound then (.error .statechart, c)
      else (.ok (), { c with
        states := c.states ++ [s], parent := c.parent ++ [(s.name, some p)],
        children := assocModify (some p) (· ++ [s.name]) (c.children ++ [(some s.name, [])]) })

/-- `add_transition(t)` -/
def addTransition (c : Chart) (t : Trans) : EditRes :=
  match c.stateFor t.source with
  | none => (.error .statechart, c)
  | some s =>
    if !s.kind.ownsTransitions then (.error .statechart, c)
    else match t.target with
      | some tg => if !c.hasState tg then (.error .statechart, c)
                   else (.ok (), { c with transitions := c.transitions ++ [t] })
      | none => (.ok (), { c with transitions := c.transitions ++ [t] })

/-- `remove_transition(t)`: removes the first transition equal (by value) to `t` -/
def removeTransition (c : Chart) (t : Trans) : EditRes :=
  if c.transitions.any (·.valEq t) then
    (.ok (), { c with transitions := eraseFirst (·.valEq t) c.transitions })
  else (.error .statechart, c)

/-- the body of `remove_state` after the recursive removal of the children -/
def removeLeaf (c : Chart) (name : Name) : Chart :=
  let ts := c.transitions.filter (fun t => !(t.source == name || t.target == some name))
  let c1 := { c with transitions := ts }
  let c2 := c1.mapStates (fun s =>
    if s.kind == .compound && s.initial == some name then { s with initial := none }
    else if s.kind.isHistory && s.memory == some name then { s with memory := none }
    else s)
  let par := c2.parentFor name
  { c2 with states := c2.states.filter (fun s => s.name != name),
            parent := assocErase name c2.parent,
            children := assocModify par (fun l => l.erase name) (assocErase (some name) c2.children) }

/-- `remove_state(name)` (recursion on the tree, with fuel) -/
def removeStateF : Nat → Chart → Name → EditRes
  | 0, c, _ => (.error .statechart, c)
  | f+1, c, name =>
    if !c.hasState name then (.error .statechart, c) else
    let rec go (c : Chart) : List Name → EditRes
      | [] => (.ok (), c)
      | ch :: rest =>
        match removeStateF f c ch with
        | (.ok (), c') => go c' rest
        | (.error e, c') => (.error e, c')
    match go c (c.childrenFor name) with
    | (.ok (), c') => (.ok (), removeLeaf c' name)
    | r => r

def removeState (c : Chart) (name : Name) : EditRes := removeStateF (c.states.length + 1) c name

def renameIn (old new : Name) (x : Name) : Name := if x == old then new else x

/-- `rename_state(old, new)` -/
def renameState (c : Chart) (old new : Name) : EditRes :=
  if old == new then (.ok (), c)
  else if c.hasState new then (.error .statechart, c)
  else if !c.hasState old then (.error .statechart, c)
  else
    let ts := c.transitions.map (fun t =>
      { t with source := renameIn old new t.source, target := t.target.map (renameIn old new) })
    let sts := c.states.map (fun s =>
      let s1 := if s.kind == .compound && s.initial == some old then { s with initial := some new } else s
      if s1.kind.isHistory && s1.memory == some old then { s1 with memory := some new } else s1)
    let par := c.parent.map (fun p => (p.1, if p.2 == some old then some new else p.2))
    let pn := match par.find? (fun p => p.1 == old) with
      | some (_, q) => q
      | none => none
    let ch1 := assocModify pn (fun l => l.erase old ++ [new]) c.children
    let st := sts.find? (fun s => s.name == old)
    let sts' := sts.filter (fun s => s.name != old) ++ (st.map (fun s => { s with name := new })).toList
    let par' := assocErase old par ++ [(new, pn)]
    let chOld := match ch1.find? (fun p => p.1 == some old) with
      | some (_, l) => l
      | none => []
    let ch' := assocErase (some old) ch1 ++ [(some new, chOld)]
    (.ok (), { c with states := sts', parent := par', children := ch', transitions := ts })

/-- `move_state(name, new_parent)` -/
def moveState (c : Chart) (name newParent : Name) : EditRes :=
  match c.stateFor name with
  | none => (.error .statechart, c)
  | some st =>
    if !c.hasState newParent then (.error .statechart, c)
    else if (name :: c.descendants name).contains newParent then (.error .statechart, c)
    else
      let oldp := c.parentFor name
      let par := assocSetP name (some newParent) c.parent
      let ch := assocModify (some newParent) (· ++ [name]) (assocModify oldp (fun l => l.erase name) c.children)
      let sts := c.states.map (fun s =>
        let s0 := if s.name == name && st.kind.isHistory then { s with memory := none } else s
        if s0.kind == .compound && s0.initial == some name then { s0 with initial := none }
        else if s0.kind.isHistory && s0.memory == some name then { s0 with memory := none }
        else s0)
      (.ok (), { c with states := sts, parent := par, children := ch })
where
  assocSetP (k : Name) (v : Option Name) : List (Name × Option Name) → List (Name × Option Name)
    | [] => [(k, v)]
    | (k', v') :: r => if k' == k then (k, v) :: r else (k', v') :: assocSetP k v r

/-- the new source of `rotate_transition` is not a state that may own transitions -/
def rotSrcErr (c : Chart) (newSource : Option Name) : Bool :=
  match newSource with
  | some s => match c.stateFor s with
    | none => true
    | some st => !st.kind.ownsTransitions
  | none => false

/-- the new target of `rotate_transition` does not exist -/
def rotTgtErr (c : Chart) (newTarget : Option (Option Name)) : Bool :=
  match newTarget with
  | some (some tg) => !c.hasState tg
  | _ => false

/-- the rotated transition -/
def rotApply (newSource : Option Name) (newTarget : Option (Option Name)) (t : Trans) : Trans :=
  let t1 := match newSource with
    | some s => { t with source := s }
    | none => t
  match newTarget with
  | some tg => { t1 with target := tg }
  | none => t1

/-- `rotate_transition(transitions[i], new_source=…, new_target=…)`.
    `newSource = none` / `newTarget = none`: argument not given (`''`);
    `newTarget = some none`: make the transition internal. `i = none`: a transition that is not in
    the statechart. -/
def rotateTransition (c : Chart) (i : Option Nat) (newSource : Option Name)
    (newTarget : Option (Option Name)) : EditRes :=
  if newSource.isNone && newTarget.isNone then (.error .value, c) else
  match i.bind (fun i => c.transitions[i]?) with
  | none => (.error .statechart, c)
  | some _ =>
    -- checks first (after the D10 repair)
    if rotSrcErr c newSource then (.error .statechart, c) else
    if rotTgtErr c newTarget then (.error .statechart, c) else
    (.ok (), { c with transitions := c.transitions.mapIdx (fun j t =>
      if j == i.getD 0 then rotApply newSource newTarget t else t) })

/-- `validate()`: `true` = passes, `false` = raises `StatechartError` -/
def validate (c : Chart) : Bool :=
  c.states.all (fun s =>
    if s.kind == .compound then
      match s.initial with
      | some i => c.hasState i && (c.childrenFor s.name).contains i
      | none => true
    else true) &&
  c.states.all (fun s =>
    if s.kind.isHistory then
      match s.memory with
      | none => true
      | some m =>
        m != s.name && c.hasState m &&
        (match c.parentFor s.name with
         | some p => (c.childrenFor p).contains m
         | none => false)
    else true)

end Chart
end Sismic
