import Sismic.Model.Basic
/-!
# Sismic.Model.Select — `sorted_groupby`, `Interpreter._select_transitions`

`_select_transitions` (eventless-first, inner-first) is four nested `sorted_groupby` loops:
eventness → depth (descending) → source name → priority (descending), with the `ignored_states`
set and the `break` after the first priority class in which a guard held.  The depth and source
loops visit the distinct sources in (−depth, name) order; the model makes that one pass
(`keysSorted (leSrc c)`), everything else is loop for loop.

Guards are pure here (`ok : Trans → Bool`); the list of guard evaluations, in evaluation order,
is returned next to the selection so that (a) the interpreter can truncate at the first guard that
raises and (b) the correspondence check can compare it with the calls the real evaluator received.
-/
namespace Sismic

section GroupBy
variable {α κ : Type} [DecidableEq κ]

def insKey (le : κ → κ → Bool) (k : κ) : List κ → List κ
  | [] => [k]
  | k' :: ks => if k = k' then k' :: ks else if le k k' then k :: k' :: ks else k' :: insKey le k ks

/-- the distinct keys of `xs`, sorted (the labels `sorted_groupby` iterates over) -/
def keysSorted (le : κ → κ → Bool) (key : α → κ) (xs : List α) : List κ :=
  xs.foldl (fun acc x => insKey le (key x) acc) []

/-- `sismic.utilities.sorted_groupby` -/
def sortedGroupBy (le : κ → κ → Bool) (key : α → κ) (xs : List α) : List (κ × List α) :=
  (keysSorted le key xs).map (fun k => (k, xs.filter (fun x => key x = k)))
end GroupBy

/-- processing order of sources: depth descending, then name ascending -/
def leSrc (c : Chart) (a b : Name) : Bool :=
  decide (c.depth b < c.depth a ∨ (c.depth a = c.depth b ∧ a ≤ b))

def lePrio (a b : Int) : Bool := decide (b ≤ a)

structure SelSt where
  selected : List Trans := []
  ignored : List Name := []
  evaluated : List Trans := []        -- transitions reached by the innermost loop, in order
  deriving Inhabited

/-- priority classes of one source, highest first; stop at the first class with an enabled transition -/
def goClasses (ok : Trans → Bool) (G : List Trans) : List Int → Option (List Trans)
  | [] => none
  | p :: ps =>
    let cls := G.filter (fun t => t.priority = p)
    if cls.any ok then some (cls.filter ok) else goClasses ok G ps

/-- the transitions whose guard the loop of `goClasses` reaches, in order -/
def goEvaluated (ok : Trans → Bool) (G : List Trans) : List Int → List Trans
  | [] => []
  | p :: ps =>
    let cls := G.filter (fun t => t.priority = p)
    if cls.any ok then cls else cls ++ goEvaluated ok G ps

def stepSrc (c : Chart) (ok : Trans → Bool) (G : List Trans) (st : SelSt) (src : Name) : SelSt :=
  if src ∈ st.ignored then st else
  let ts := G.filter (fun t => t.source = src)
  let prios := keysSorted lePrio (·.priority) ts
  let ev := st.evaluated ++ goEvaluated ok ts prios
  match goClasses ok ts prios with
  | some sel => { selected := st.selected ++ sel, ignored := st.ignored ++ c.ancestors src ++ [src],
                  evaluated := ev }
  | none => { st with evaluated := ev }

/-- selection inside one eventness group -/
def selectGroup (c : Chart) (ok : Trans → Bool) (G : List Trans) : SelSt :=
  (keysSorted (leSrc c) (·.source) G).foldl (stepSrc c ok G) {}

structure SelResult where
  selected : List Trans
  /-- guard evaluations in order: transition and whether the event was exposed -/
  calls : List (Trans × Bool)
  deriving Inhabited

def guardCalls (st : SelSt) (exposed : Bool) : List (Trans × Bool) :=
  (st.evaluated.filter (fun t => t.guard.isSome)).map (fun t => (t, exposed))

/-- `_select_transitions(event, states)` with `eventless_first=True, inner_first=True`.
    `ok t exposed` = "`t.guard is None or evaluate_guard(t, event if exposed else None)`". -/
def selectTransitions (c : Chart) (cfg : List Name) (evName : Option String)
    (ok : Trans → Bool → Bool) : SelResult :=
  let considered := c.transitions.filter (fun t =>
    cfg.contains t.source && (t.event.isNone || t.event == evName))
  let r0 := selectGroup c (fun t => ok t false) (considered.filter (fun t => t.event.isNone))
  if !r0.selected.isEmpty then { selected := r0.selected, calls := guardCalls r0 false } else
  let r1 := selectGroup c (fun t => ok t true) (considered.filter (fun t => t.event.isSome))
  { selected := r1.selected, calls := guardCalls r0 false ++ guardCalls r1 true }

end Sismic
