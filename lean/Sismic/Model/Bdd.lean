import Sismic.Model.World
/-!
# Sismic.Model.Bdd — `sismic.bdd` (environment hooks + predefined steps) on top of the interpreter model

`before_scenario` creates the interpreter, `before_step` / `after_step` maintain `monitored_trace`
(given: execute unmonitored; when: execute and append to the trace, a new block starts after a
`then`), the predefined `then` steps are `sismic.testing` predicates over that trace or over the
interpreter's current state.  behave itself is modelled by: a failing step skips the rest of the
scenario; a hook that raises is a `hook_error`; a step that raises something else than
`AssertionError` is an `error`.
-/
namespace Sismic.Bdd

inductive Kw | given | when_ | then_
  deriving DecidableEq, Repr, Inhabited

/-- bodies of the predefined given/when steps -/
inductive Act where
  | doNothing
  | send (name : String) (params : List (String × Val))
  | wait (seconds : Int)
  | repeat_ (inner : Act) (n : Nat)
  /-- `I reproduce "scenario"`: the given / when steps of that scenario, in order (resolved by
      the harness from the feature file) -/
  | seq (inner : List Act)
  /-- `I reproduce` of a scenario the feature does not contain (`assert False`) -/
  | unknownScenario
  deriving Inhabited

/-- the predefined `then` steps -/
inductive Assertion where
  | entered (s : Name) | notEntered (s : Name)
  | exited (s : Name) | notExited (s : Name)
  | active (s : Name) | notActive (s : Name)
  | fired (name : String) (params : List (String × Val)) | notFired (name : String)
  | noEventFired
  | varEquals (v : String) (val : Val) | varNotEquals (v : String) (val : Val)
  | exprHolds (code : Code) | exprNotHolds (code : Code)
  | final | notFinal
  deriving Inhabited

inductive Step where
  | act (kw : Kw) (a : Act)          -- kw ∈ {given, when_}
  | check (a : Assertion)
  | undefined_                       -- a step text no pattern matches
  deriving Inhabited

inductive Status | passed | failed | error | hookError | undefined_ | skipped
  deriving DecidableEq, Repr, Inhabited

/-- `context` -/
structure Ctx where
  world : World                      -- slot 0 = `context.interpreter`
  clock : Int := 0                   -- `context.interpreter.clock.time`
  monitoring : Bool := false
  trace : Option (List MacroStep) := none
  deriving Inhabited

def fuel : Nat := 300

/-- `context.interpreter.execute()`: the macro steps and whether it raised -/
def execute (c : Ctx) : Nat → List MacroStep → (List MacroStep × Bool × Ctx)
  | 0, acc => (acc, true, c)
  | n+1, acc =>
    let r := worldExecOnce fuel 0 c.clock c.world
    let c' := { c with world := r.world }
    match r.outcome with
    | .error _ => (acc, true, c')
    | .ok none => (acc, false, c')
    | .ok (some m) => execute c' n (acc ++ [m])

/-- `after_step` for given / when; `true` = the hook raised -/
def afterStep (kw : Kw) (c : Ctx) : Ctx × Bool :=
  match kw with
  | .given =>
    let (_, err, c') := execute c fuel []
    (c', err)
  | .when_ =>
    let (ms, err, c') := execute c fuel []
    let c'' := if !c'.monitoring then { c' with monitoring := true, trace := some [] } else c'
    ({ c'' with trace := c''.trace.map (· ++ ms) }, err)
  | .then_ => (c, false)

mutual
/-- run the body of a given/when step; sub-steps run through `context.execute_steps`, i.e. with
    their own `after_step` hook; when a sub-step does not pass, `execute_steps` raises
    `AssertionError` and the enclosing step is *failed*. `true` = it failed -/
def runAct (kw : Kw) : Act → Ctx → Ctx × Bool
  | .doNothing, c => (c, false)
  | .send n ps, c => ({ c with world := c.world.modifySlot 0 (extQueue { name := n, data := ps }) }, false)
  | .wait s, c => ({ c with clock := c.clock + s }, false)
  | .repeat_ inner n, c => runRepeat kw inner n c
  | .seq inner, c => runSeq kw inner c
  | .unknownScenario, c => (c, true)
/-- `for _ in range(n): context.execute_steps(keyword + step)` -/
def runRepeat (kw : Kw) (inner : Act) : Nat → Ctx → Ctx × Bool
  | 0, c => (c, false)
  | k+1, c =>
    match runAct kw inner c with
    | (c1, true) => (c1, true)
    | (c1, false) =>
      match afterStep kw c1 with
      | (c2, true) => (c2, true)
      | (c2, false) => runRepeat kw inner k c2
/-- `for step in scenario.steps: context.execute_steps(keyword + step.name)` — every replayed step
    runs under the keyword of the `I reproduce` step -/
def runSeq (kw : Kw) : List Act → Ctx → Ctx × Bool
  | [], c => (c, false)
  | a :: rest, c =>
    match runAct kw a c with
    | (c1, true) => (c1, true)
    | (c1, false) =>
      match afterStep kw c1 with
      | (c2, true) => (c2, true)
      | (c2, false) => runSeq kw rest c2
end

def paramsMatch (e : Event) (ps : List (String × Val)) : Bool :=
  ps.all (fun p => match assocGet p.1 e.data with
    | some v => pyEq v p.2
    | none => if p.1 == "name" then pyEq (.str e.name) p.2 else pyEq .none p.2)

/-- does the asserted fact hold?  `none` = the step raises something else than AssertionError
    (unknown state → StatechartError, expression that cannot be evaluated) -/
def holds (c : Ctx) (a : Assertion) : Option Bool :=
  match c.world.slots[0]? with
  | none => none
  | some slot =>
    let trace := c.trace.getD []
    let known (s : Name) := slot.chart.hasState s
    let sent := trace.flatMap (fun m => m.sent)
    match a with
    | .entered s => if known s then some (trace.any (fun m => m.entered.contains s)) else none
    | .notEntered s => if known s then some (!trace.any (fun m => m.entered.contains s)) else none
    | .exited s => if known s then some (trace.any (fun m => m.exited.contains s)) else none
    | .notExited s => if known s then some (!trace.any (fun m => m.exited.contains s)) else none
    | .active s => if known s then some (slot.st.config.contains s) else none
    | .notActive s => if known s then some (!slot.st.config.contains s) else none
    | .fired n ps => some (sent.any (fun e => e.event.name == n && paramsMatch e.event ps))
    | .notFired n => some (!sent.any (fun e => e.event.name == n))
    | .noEventFired => some (trace.all (fun m => m.sent.isEmpty))
    | .varEquals v val =>
      match assocGet v slot.st.ctx.vars with
      | some x => some (pyEq x val)
      | none => some false
    | .varNotEquals v val =>
      match assocGet v slot.st.ctx.vars with
      | some x => some (!pyEq x val)
      | none => some false
    | .exprHolds code => pyEval (viewEnv slot.st) slot.st.ctx code
    | .exprNotHolds code => (pyEval (viewEnv slot.st) slot.st.ctx code).map (!·)
    | .final => some (slot.st.initialized && slot.st.config.isEmpty)
    | .notFinal => some (!(slot.st.initialized && slot.st.config.isEmpty))

/-- one scenario step (with its hooks): status and new context -/
def runStep (c : Ctx) : Step → Status × Ctx
  | .undefined_ => (.undefined_, c)
  | .act kw a =>
    match runAct kw a c with
    | (c1, true) =>
      -- the step failed; its `after_step` hook still runs, and a raising hook wins
      (match afterStep kw c1 with
       | (c2, true) => (.hookError, c2)
       | (c2, false) => (.failed, c2))
    | (c1, false) =>
      match afterStep kw c1 with
      | (c2, true) => (.hookError, c2)
      | (c2, false) => (.passed, c2)
  | .check a =>
    -- before_step: stop monitoring; a `then` before any `when` is an error of the hook
    let c1 := { c with monitoring := false }
    match c1.trace with
    | none => (.hookError, c1)
    | some _ =>
      match holds c1 a with
      | some true => (.passed, c1)
      | some false => (.failed, c1)
      | none => (.error, c1)

/-- a scenario: every step after the first that does not pass is skipped -/
def runScenario (c : Ctx) : List Step → List Status
  | [] => []
  | s :: rest =>
    match runStep c s with
    | (.passed, c') => .passed :: runScenario c' rest
    | (st, _) => st :: rest.map (fun _ => .skipped)

/-- `before_scenario` -/
def initCtx (chart : Chart) : Ctx :=
  let (slot, _) := mkSlot chart false [] 0
  { world := { slots := #[slot] } }

end Sismic.Bdd
