import Sismic.Model.Edit
/-!
# Sismic.Model.IO — `sismic.io.datadict` and the `SCHEMA` of `sismic.io.yaml`

`Data` is what the YAML loader returns (the text layer itself is not modelled).  `schemaValidate`
gives the semantics of the `schema` library for the shapes `SCHEMA` uses (`Use(str)`, `Use(int)`,
`Or`, `Optional`, list and dict schemas); `importDict` is `import_from_dict` *without* assuming that
its input was validated — accesses that are not inside a `try` can raise other exceptions (`.other`),
so "never another exception type" is a theorem about what the schema makes safe.
-/
namespace Sismic

inductive Data where
  | null
  | bool (b : Bool)
  | int (i : Int)
  | str (s : String)
  | list (l : List Data)
  | map (m : List (String × Data))
  deriving Repr, Inhabited

inductive IOErr | statechart | other
  deriving DecidableEq, Repr, Inhabited

namespace Data

def get? (d : Data) (k : String) : Option Data :=
  match d with
  | .map m => (m.find? (fun p => p.1 == k)).map (·.2)
  | _ => none

/-- Python truthiness -/
def truthy : Data → Bool
  | .null => false
  | .bool b => b
  | .int i => i != 0
  | .str s => s != ""
  | .list l => !l.isEmpty
  | .map m => !m.isEmpty

end Data

/-! ## `schema` -/

def intToStr (i : Int) : String := if i < 0 then "-" ++ toString i.natAbs else toString i.natAbs

/-- `str(x)` for the scalars a YAML document contains; `none`: not modelled (floats, collections) -/
def pyStr : Data → Option String
  | .null => some "None"
  | .bool b => some (if b then "True" else "False")
  | .int i => some (intToStr i)
  | .str s => some s
  | _ => none

def isAsciiSpace (c : Char) : Bool := c == ' ' || c == '\t' || c == '\n' || c == '\r' || c == '\x0b' || c == '\x0c'

def digitsVal (cs : List Char) : Option Nat :=
  if cs.isEmpty then none
  else cs.foldl (fun acc c => acc.bind (fun n => if c.isDigit then some (n * 10 + (c.toNat - '0'.toNat)) else none)) (some 0)

/-- `int(s)` for `[ws][+-]digits[ws]` (ASCII); other spellings Python accepts are outside the model -/
def parseInt (s : String) : Option Int :=
  let cs := (s.toList.dropWhile isAsciiSpace).reverse.dropWhile isAsciiSpace |>.reverse
  match cs with
  | '-' :: r => (digitsVal r).map (fun n => -(n : Int))
  | '+' :: r => (digitsVal r).map (fun n => (n : Int))
  | r => (digitsVal r).map (fun n => (n : Int))

/-- `int(x)`; `none` = it raises (→ `SchemaError`) -/
def pyInt : Data → Option Int
  | .int i => some i
  | .bool b => some (if b then 1 else 0)
  | .str s => parseInt s
  | _ => none

abbrev V := Option     -- `none` = SchemaError

def vUseStr (d : Data) : V Data := (pyStr d).map Data.str

def vPriority (d : Data) : V Data :=
  match pyInt d with
  | some i => some (.int i)
  | none => match d with
    | .str "high" => some d
    | .str "low" => some d
    | _ => none

def vType (d : Data) : V Data :=
  match d with
  | .str "final" => some d
  | .str "shallow history" => some d
  | .str "deep history" => some d
  | _ => none

/-- one key/value pair of the data against a dict schema -/
def vDictStep (spec : List (String × Bool × (Data → V Data))) (acc : V (List (String × Data)))
    (p : String × Data) : V (List (String × Data)) :=
  acc.bind (fun l =>
    match spec.find? (fun s => s.1 == p.1) with
    | none => none                                  -- wrong key
    | some (_, _, vs) => (vs p.2).map (fun v => l ++ [(p.1, v)]))

/-- a dict schema: `spec` lists (key, optional?, value schema); every data key must be in `spec`,
    every required key must be present -/
def vDict (spec : List (String × Bool × (Data → V Data))) (d : Data) : V Data :=
  match d with
  | .map m =>
    match m.foldl (vDictStep spec) (some []) with
    | none => none
    | some l =>
      if spec.all (fun s => s.2.1 || l.any (fun p => p.1 == s.1)) then some (.map l) else none
  | _ => none

def vList (vs : Data → V Data) (d : Data) : V Data :=
  match d with
  | .list l => (l.mapM vs).map Data.list
  | _ => none

/-- `SCHEMA.contract`: `{Or('before','after','always'): Use(str)}` -/
def vContract (d : Data) : V Data :=
  match d with
  | .map m =>
    if m.isEmpty then none else
    (m.mapM (fun p => if p.1 == "before" || p.1 == "after" || p.1 == "always"
                      then (vUseStr p.2).map (fun v => (p.1, v)) else none)).map Data.map
  | _ => none

def vTransition : Data → V Data :=
  vDict [("target", true, vUseStr), ("event", true, vUseStr), ("guard", true, vUseStr),
         ("action", true, vUseStr), ("contract", true, vList vContract), ("priority", true, vPriority)]

/-- `SCHEMA.state` (recursive through `states` / `parallel states`), with fuel = nesting depth -/
def vState : Nat → Data → V Data
  | 0, _ => none
  | f+1, d =>
    vDict [("name", false, vUseStr), ("type", true, vType), ("on entry", true, vUseStr),
           ("on exit", true, vUseStr), ("transitions", true, vList vTransition),
           ("contract", true, vList vContract), ("initial", true, vUseStr),
           ("parallel states", true, vList (vState f)), ("states", true, vList (vState f)),
           ("memory", true, vUseStr)] d

/-- `Schema(SCHEMA.statechart).validate(data)` -/
def schemaValidate (fuel : Nat) (d : Data) : V Data :=
  vDict [("statechart", false,
    vDict [("name", false, vUseStr), ("description", true, vUseStr), ("preamble", true, vUseStr),
           ("root state", false, vState fuel)])] d

/-! ## `import_from_dict` -/

/-- `x.strip()`; Python strips every Unicode whitespace character, the model the ASCII ones and
    U+0085, U+00A0, U+1680, U+2000–U+200A, U+2028, U+2029, U+202F, U+205F, U+3000, U+001C–U+001F -/
def isPySpace (c : Char) : Bool :=
  isAsciiSpace c || c.toNat == 0x85 || c.toNat == 0xa0 || c.toNat == 0x1680 ||
  (0x2000 ≤ c.toNat && c.toNat ≤ 0x200a) || c.toNat == 0x2028 || c.toNat == 0x2029 ||
  c.toNat == 0x202f || c.toNat == 0x205f || c.toNat == 0x3000 || (0x1c ≤ c.toNat && c.toNat ≤ 0x1f)

def pyStrip (s : String) : String :=
  String.ofList ((s.toList.dropWhile isPySpace).reverse.dropWhile isPySpace).reverse

def mkCode (s : String) : Code := { src := s }

/-- `d.get(k)` then `x.strip() if x else None`; `.error` = AttributeError/TypeError -/
def getStripped (d : Data) (k : String) : Except Unit (Option Code) :=
  match d.get? k with
  | none => .ok none
  | some v =>
    if !v.truthy then .ok none else
    match v with
    | .str s => .ok (some (mkCode (pyStrip s)))
    | _ => .error ()

/-- `c.get(k)` when truthy must be a string (it is `.strip()`ped) -/
def contractPick (c : Data) (k : String) : Except Unit (Option String) :=
  match c.get? k with
  | some v => if v.truthy then (match v with | .str s => .ok (some s) | _ => .error ()) else .ok none
  | none => .ok none

/-- one element of `d.get('contract', [])` -/
def contractStep (acc : List Code × List Code × List Code) (c : Data) :
    Except Unit (List Code × List Code × List Code) :=
  match c with
  | .map _ =>
    match contractPick c "before" with
    | .error e => .error e
    | .ok (some s) => .ok (acc.1 ++ [mkCode (pyStrip s)], acc.2.1, acc.2.2)
    | .ok none =>
      match contractPick c "after" with
      | .error e => .error e
      | .ok (some s) => .ok (acc.1, acc.2.1 ++ [mkCode (pyStrip s)], acc.2.2)
      | .ok none =>
        match contractPick c "always" with
        | .error e => .error e
        | .ok (some s) => .ok (acc.1, acc.2.1, acc.2.2 ++ [mkCode (pyStrip s)])
        | .ok none => .ok acc
  | _ => .error ()

def contractLoop : List Data → List Code × List Code × List Code → Except Unit (List Code × List Code × List Code)
  | [], acc => .ok acc
  | c :: cs, acc =>
    match contractStep acc c with
    | .error e => .error e
    | .ok acc' => contractLoop cs acc'

/-- the loops over `d.get('contract', [])` -/
def importContract (d : Data) : Except Unit (List Code × List Code × List Code) :=
  match d.get? "contract" with
  | none => .ok ([], [], [])
  | some (.list l) => contractLoop l ([], [], [])
  | some _ => .error ()

def importPriority (d : Data) : Except Unit Int :=
  match d.get? "priority" with
  | none => .ok 0
  | some .null => .ok 0
  | some (.str "low") => .ok (-1)
  | some (.str "high") => .ok 1
  | some (.int i) => .ok i
  | some _ => .error ()         -- outside the model (a non-int priority object)

def importTarget (d : Data) : Except Unit (Option Name) :=
  match d.get? "target" with
  | none => .ok none
  | some .null => .ok none
  | some (.str s) => .ok (some s)
  | some _ => .error ()

/-- `_import_transition_from_dict(state_name, transition_d)`; `.error ()` = any exception
    (the caller turns it into `StatechartError`) -/
def importTransition (src : Name) (d : Data) : Except Unit Trans :=
  match d with
  | .map _ => do
    let event ← getStripped d "event"
    let guard ← getStripped d "guard"
    let action ← getStripped d "action"
    let prio ← importPriority d
    let target ← importTarget d
    let (pre, post, inv) ← importContract d
    pure { id := 0, source := src, target := target, event := event.map (·.src), guard := guard,
           action := action, priority := prio, pre := pre, post := post, inv := inv }
  | _ => .error ()

/-- `getStripped` inside `_import_state_from_dict`: an exception there is not a `StatechartError` -/
def stripField (d : Data) (k : String) : Except IOErr (Option Code) :=
  match getStripped d k with
  | .ok v => .ok v
  | .error _ => .error .other

/-- `state_d.get(k, None)` used as a state name -/
def optNameAt (d : Data) (k : String) : Except IOErr (Option String) :=
  match d.get? k with
  | none => .ok none
  | some .null => .ok none
  | some (.str s) => .ok (some s)
  | some _ => .error .other

def truthyAt (d : Data) (k : String) : Bool :=
  match d.get? k with
  | some v => v.truthy
  | none => false

/-- `state_d.get(k, None) is not None` -/
def presentAt (d : Data) (k : String) : Bool :=
  match d.get? k with
  | some .null => false
  | some _ => true
  | none => false

/-- the `if`/`elif` chain choosing the class of the state -/
def importKind (d : Data) (name : Name) (onEntry onExit : Option Code) : Except IOErr StateDef :=
  match d.get? "type" with
  | some (.str "final") => .ok { name := name, kind := .final, onEntry := onEntry, onExit := onExit }
  | some (.str "shallow history") =>
    match optNameAt d "memory" with
    | .error e => .error e
    | .ok m => .ok { name := name, kind := .shallow, onEntry := onEntry, onExit := onExit, memory := m }
  | some (.str "deep history") =>
    match optNameAt d "memory" with
    | .error e => .error e
    | .ok m => .ok { name := name, kind := .deep, onEntry := onEntry, onExit := onExit, memory := m }
  | none | some .null =>
    if presentAt d "states" && !truthyAt d "parallel states" then
      match optNameAt d "initial" with
      | .error e => .error e
      | .ok i => .ok { name := name, kind := .compound, onEntry := onEntry, onExit := onExit, initial := i }
    else if presentAt d "parallel states" then
      .ok { name := name, kind := .orthogonal, onEntry := onEntry, onExit := onExit }
    else .ok { name := name, kind := .basic, onEntry := onEntry, onExit := onExit }
  | some _ => .error .statechart                     -- unknown type

/-- `_import_state_from_dict(state_d)`: `.error .statechart` is raised as such, `.error .other`
    is any other exception (wrapped into `StatechartError` by the caller) -/
def importState (d : Data) : Except IOErr StateDef :=
  match d with
  | .map _ =>
    match d.get? "name" with
    | some (.str name) =>
      match stripField d "on entry" with
      | .error e => .error e
      | .ok onEntry =>
        match stripField d "on exit" with
        | .error e => .error e
        | .ok onExit =>
          if truthyAt d "states" && truthyAt d "parallel states" then .error .statechart else
          match importKind d name onEntry onExit with
          | .error e => .error e
          | .ok st =>
            match importContract d with
            | .ok (pre, post, inv) => .ok { st with pre := pre, post := post, inv := inv }
            | .error _ => .error .other
    | _ => .error .other                                      -- KeyError / not a string
  | _ => .error .other

/-- sub-states: `state_data['states']` / `['parallel states']` (not inside a `try`) -/
def importSubs (d : Data) (st : StateDef) : Except IOErr (List Data) :=
  if st.kind == .compound then
    match d.get? "states" with
    | some (.list l) => .ok l
    | _ => .error .other
  else if st.kind == .orthogonal then
    match d.get? "parallel states" with
    | some (.list l) => .ok l
    | _ => .error .other
  else .ok []

/-- `state_data.get('transitions', [])` -/
def importTds (d : Data) : Except IOErr (List Data) :=
  match d.get? "transitions" with
  | none => .ok []
  | some (.list l) => .ok l
  | some _ => .error .other

/-- the work list of `import_from_dict` (`data_to_consider.pop()` takes the *last* element) -/
def importLoop : Nat → List (Data × Option Name) → List (StateDef × Option Name) → List Trans →
    Except IOErr (List (StateDef × Option Name) × List Trans)
  | 0, _, _, _ => .error .other
  | f+1, todo, sts, ts =>
    match todo.getLast? with
    | none => .ok (sts, ts)
    | some (d, par) =>
      match importState d with
      | .error _ => .error .statechart                -- raised as such, or `except Exception → StatechartError`
      | .ok st =>
        match importSubs d st with
        | .error e => .error e
        | .ok subs =>
          match importTds d with
          | .error e => .error e
          | .ok tds =>
            match tds.mapM (importTransition st.name) with
            | .error _ => .error .statechart
            | .ok new =>
              importLoop f (todo.dropLast ++ subs.map (fun s => (s, some st.name))) (sts ++ [(st, par)]) (ts ++ new)

mutual
/-- number of nodes of a document (fuel for the work-list loop: one state per iteration) -/
def Data.nodes : Data → Nat
  | .list l => 1 + nodesList l
  | .map m => 1 + nodesMap m
  | _ => 1
def nodesList : List Data → Nat
  | [] => 0
  | x :: xs => x.nodes + nodesList xs
def nodesMap : List (String × Data) → Nat
  | [] => 0
  | (_, v) :: r => v.nodes + nodesMap r
end

def addStateStep (c : Chart) (p : StateDef × Option Name) : Except IOErr Chart :=
  match c.addState p.1 p.2 with
  | (.ok _, c') => .ok c'
  | (.error _, _) => .error .statechart

def addTransStep (c : Chart) (t : Trans) : Except IOErr Chart :=
  match c.addTransition { t with id := c.transitions.length } with
  | (.ok _, c') => .ok c'
  | (.error _, _) => .error .statechart

/-- registering the collected states and transitions in an empty chart, then `validate()` -/
def buildChart (c0 : Chart) (sts : List (StateDef × Option Name)) (ts : List Trans) : Except IOErr Chart :=
  match sts.foldl (fun (acc : Except IOErr Chart) p => acc.bind (fun c => addStateStep c p)) (.ok c0) with
  | .error e => .error e
  | .ok c1 =>
    match ts.foldl (fun (acc : Except IOErr Chart) t => acc.bind (fun c => addTransStep c t)) (.ok c1) with
    | .error e => .error e
    | .ok c2 => if c2.validate then .ok c2 else .error .statechart

def docString (sc : Data) (k : String) : Option String :=
  match sc.get? k with | some (.str s) => some s | _ => none

/-- `import_from_dict(data)` followed by `validate()` -/
def importDict (fuel : Nat) (d : Data) : Except IOErr Chart :=
  match d.get? "statechart" with
  | none => .error .other
  | some sc =>
    match sc.get? "name", sc.get? "root state" with
    | some (.str name), some root =>
      match importLoop fuel [(root, none)] [] [] with
      | .error e => .error e
      | .ok (sts, ts) =>
        buildChart { name := name, description := docString sc "description",
                     preamble := (docString sc "preamble").map mkCode, children := [(none, [])] } sts ts
    | _, _ => .error .other

/-- `import_from_yaml` after the YAML text has been loaded into `d` -/
def importYamlData (fuel : Nat) (d : Data) : Except IOErr Chart :=
  match schemaValidate fuel d with
  | none => .error .statechart
  | some d' => importDict (d'.nodes + 2) d'

/-! ## `export_to_dict` -/

def optField (k : String) (v : Option String) : List (String × Data) :=
  match v with
  | some s => if s != "" then [(k, .str s)] else []
  | none => []

def exportContract (pre post inv : List Code) : List (String × Data) :=
  if pre.isEmpty && post.isEmpty && inv.isEmpty then [] else
  [("contract", .list (pre.map (fun c => Data.map [("before", .str c.src)]) ++
                       post.map (fun c => Data.map [("after", .str c.src)]) ++
                       inv.map (fun c => Data.map [("always", .str c.src)])))]

def exportPriority (p : Int) : List (String × Data) :=
  if p != 0 then
    [("priority", if p == -1 then .str "low" else if p == 1 then .str "high" else .int p)]
  else []

def exportTransition (t : Trans) : Data :=
  .map (optField "event" t.event ++ optField "guard" (t.guard.map (·.src)) ++ optField "target" t.target ++
        optField "action" (t.action.map (·.src)) ++ exportPriority t.priority ++
        exportContract t.pre t.post t.inv)

/-- `_export_state_to_dict` (recursion on the tree, with fuel) -/
def exportState (c : Chart) : Nat → Name → Data
  | 0, n => .map [("name", .str n)]
  | f+1, n =>
    match c.stateFor n with
    | none => .map [("name", .str n)]
    | some s =>
      let ty : List (String × Data) := match s.kind with
        | .shallow => [("type", .str "shallow history")] ++ optField "memory" s.memory
        | .deep => [("type", .str "deep history")] ++ optField "memory" s.memory
        | .final => [("type", .str "final")]
        | _ => []
      let ts := c.transitionsFrom n
      let kids := (c.childrenFor n).map (exportState c f)
      .map ([("name", .str s.name)] ++ ty ++ optField "on entry" (s.onEntry.map (·.src)) ++
            optField "on exit" (s.onExit.map (·.src)) ++
            (if s.kind == .compound then optField "initial" s.initial else []) ++
            exportContract s.pre s.post s.inv ++
            (if s.kind.ownsTransitions && !ts.isEmpty then [("transitions", .list (ts.map exportTransition))] else []) ++
            (if s.kind == .compound then [("states", .list kids)]
             else if s.kind == .orthogonal then [("parallel states", .list kids)] else []))

def exportDict (c : Chart) : Data :=
  .map [("statechart", .map ([("name", .str c.name)] ++ optField "description" c.description ++
        optField "preamble" (c.preamble.map (·.src)) ++
        [("root state", exportState c (c.states.length + 1) (c.root.getD ""))]))]

end Sismic
