/-!
# Sismic.Model.Basic — values, events, code ASTs, states, transitions, the `Statechart` container

Mirrors `sismic/model/elements.py`, `sismic/model/events.py` and the read-only part of
`sismic/model/statechart.py`.  Core Lean only (the driver links this natively).

Representation follows the code: `Statechart._states/_parent/_children` are association lists in
dict-insertion order, `_transitions` is a list.  Python `set`s are lists without duplicates.
-/
namespace Sismic

abbrev Name := String

/-! ## Values and events -/

/-- Values of the modelled Python subset. `old` is a `FrozenContext` (`__old__`). -/
inductive Val where
  | none
  | bool (b : Bool)
  | int (i : Int)
  | str (s : String)
  | ev (name : String) (data : List (String × Val))      -- an `Event` object
  | old (ctx : List (String × Val))                      -- a `FrozenContext`
  | nothing                                              -- `__old__` when nothing was stored (`None`)
  deriving Repr, Inhabited

partial def Val.beq : Val → Val → Bool
  | .none, .none => true
  | .nothing, .nothing => true
  | .bool a, .bool b => a == b
  | .int a, .int b => a == b
  | .str a, .str b => a == b
  | .ev n d, .ev n' d' => n == n' && d.length == d'.length &&
      (d.zip d').all (fun (p : (String × Val) × (String × Val)) => p.1.1 == p.2.1 && Val.beq p.1.2 p.2.2)
  | .old d, .old d' => d.length == d'.length &&
      (d.zip d').all (fun (p : (String × Val) × (String × Val)) => p.1.1 == p.2.1 && Val.beq p.1.2 p.2.2)
  | _, _ => false

/-- `sismic.model.Event` (name + keyword data, in keyword order). -/
structure Event where
  name : String
  data : List (String × Val) := []
  deriving Repr, Inhabited

/-- What a piece of executed code can send: `send(...)` → internal event, `notify(...)` → meta-event. -/
inductive Sent where
  | internal (e : Event)
  | notify (e : Event)
  deriving Repr, Inhabited

def Sent.event : Sent → Event
  | .internal e => e
  | .notify e => e

def Sent.isInternal : Sent → Bool
  | .internal _ => true
  | .notify _ => false

/-! ## Code: the Python subset shipped by the harness as `ast` → JSON -/

inductive BinOp | add | sub | mul | floordiv | mod
  deriving Repr, DecidableEq, Inhabited
inductive CmpOp | eq | ne | lt | le | gt | ge
  deriving Repr, DecidableEq, Inhabited

inductive Expr where
  | const (v : Val)
  | name (n : String)
  | binop (op : BinOp) (l r : Expr)
  | and (es : List Expr)
  | or (es : List Expr)
  | not (e : Expr)
  | neg (e : Expr)
  | cmp (l : Expr) (rest : List (CmpOp × Expr))        -- chained comparison
  | attr (e : Expr) (a : String)
  | call (f : String) (args : List Expr) (kwargs : List (String × Expr))
  | ite (c t e : Expr)
  deriving Repr, Inhabited

inductive Stmt where
  | assign (n : String) (e : Expr)
  | aug (n : String) (op : BinOp) (e : Expr)
  | expr (e : Expr)
  | pass
  | ite (c : Expr) (t e : List Stmt)
  deriving Repr, Inhabited

/-- A code fragment: the original text (identity of contract conditions, `ContractError.condition`)
    plus its parsed form. `unsupported` = outside the subset (the model then reports `.unsupported`). -/
structure Code where
  src : String
  body : List Stmt := []          -- for executable code
  expr : Option Expr := none      -- for evaluable code
  unsupported : Bool := false
  deriving Repr, Inhabited

/-! ## States and transitions -/

inductive Kind | basic | compound | orthogonal | shallow | deep | final
  deriving DecidableEq, Repr, Inhabited

def Kind.isHistory : Kind → Bool
  | .shallow | .deep => true
  | _ => false
/-- `CompositeStateMixin` -/
def Kind.isComposite : Kind → Bool
  | .compound | .orthogonal => true
  | _ => false
/-- `TransitionStateMixin` -/
def Kind.ownsTransitions : Kind → Bool
  | .basic | .compound | .orthogonal => true
  | _ => false

structure StateDef where
  name : Name
  kind : Kind
  initial : Option Name := none      -- CompoundState.initial
  memory : Option Name := none       -- HistoryStateMixin.memory
  onEntry : Option Code := none
  onExit : Option Code := none
  pre : List Code := []
  post : List Code := []
  inv : List Code := []
  deriving Repr, Inhabited

structure Trans where
  id : Nat                           -- object identity: position in `Statechart._transitions` when built
  source : Name
  target : Option Name := none
  event : Option String := none
  guard : Option Code := none
  action : Option Code := none
  priority : Int := 0
  pre : List Code := []
  post : List Code := []
  inv : List Code := []
  deriving Repr, Inhabited

structure Chart where
  name : String := ""
  description : Option String := none
  preamble : Option Code := none
  states : List StateDef := []                        -- `_states` (dict order)
  parent : List (Name × Option Name) := []            -- `_parent`
  children : List (Option Name × List Name) := []     -- `_children` (key `None` = roots)
  transitions : List Trans := []
  deriving Repr, Inhabited

namespace Chart
variable (c : Chart)

def stateFor (n : Name) : Option StateDef := c.states.find? (fun s => s.name == n)
def hasState (n : Name) : Bool := (c.stateFor n).isSome
def kindOf (n : Name) : Option Kind := (c.stateFor n).map (·.kind)
/-- `_parent[n]` (`none` both for the root and for an unknown name; callers check existence). -/
def parentFor (n : Name) : Option Name :=
  match c.parent.find? (fun p => p.1 == n) with
  | some (_, p) => p
  | none => none
def childrenFor (n : Name) : List Name :=
  match c.children.find? (fun p => p.1 == some n) with
  | some (_, l) => l
  | none => []
/-- `Statechart.root`: first state whose parent is `None`. -/
def root : Option Name := (c.parent.find? (fun p => p.2 == none)).map (·.1)

/-- `ancestors_for`: nearest first. The Python `while parent:` loop, with fuel. -/
def ancF : Nat → Name → List Name
  | 0, _ => []
  | f+1, s => match c.parentFor s with
    | some p => p :: ancF f p
    | none => []
def ancestors (s : Name) : List Name := c.ancF c.states.length s
def depth (s : Name) : Nat := (c.ancestors s).length + 1

/-- `descendants_for`: BFS in children-list order, with fuel. -/
def descF : Nat → List Name → List Name
  | 0, _ => []
  | _, [] => []
  | f+1, n :: rest =>
    let ch := c.childrenFor n
    ch ++ descF f (rest ++ ch)
def descendants (s : Name) : List Name := c.descF (c.states.length + 1) [s]

/-- `least_common_ancestor` (proper ancestors only). -/
def lca (a b : Name) : Option Name :=
  let bs := c.ancestors b
  (c.ancestors a).find? (fun x => bs.contains x)

/-- `leaf_for`. -/
def leafFor (names : List Name) : List Name :=
  names.filter (fun n => !(c.descendants n).any (fun d => names.contains d))

def transitionsFrom (s : Name) : List Trans := c.transitions.filter (fun t => t.source == s)
def transitionsTo (s : Name) : List Trans :=
  c.transitions.filter (fun t => t.target == some s || (t.target.isNone && t.source == s))
def transitionsWith (e : String) : List Trans := c.transitions.filter (fun t => t.event == some e)

end Chart

/-! ## Sorting helpers (stable insertion sort = Python's `sorted` on the keys used by sismic) -/

def insSorted {α} (le : α → α → Bool) (x : α) : List α → List α
  | [] => [x]
  | y :: ys => if le x y then x :: y :: ys else y :: insSorted le x ys

/-- Stable: equal elements keep their original order. -/
def isort {α} (le : α → α → Bool) (xs : List α) : List α :=
  xs.foldr (insSorted le) []

/-- key order (depth, name) used by `Interpreter.configuration` and the restore step. -/
def Chart.leDepthName (c : Chart) (a b : Name) : Bool :=
  decide (c.depth a < c.depth b ∨ (c.depth a = c.depth b ∧ a ≤ b))
/-- key order (-depth, name) used for transitions, leaves and exits. -/
def Chart.leRevDepthName (c : Chart) (a b : Name) : Bool :=
  decide (c.depth b < c.depth a ∨ (c.depth a = c.depth b ∧ a ≤ b))

/-- `Interpreter.configuration` (sorted view of the set). -/
def Chart.sortConfig (c : Chart) (cfg : List Name) : List Name := isort c.leDepthName cfg

end Sismic
