import Sismic.Proofs.C03
import Sismic.Proofs.Order
/-!
# Property C03 — steps run to completion in documented order and the trace tells the truth

`executeOnce` is the model of `Interpreter.execute_once` (Model/Interp.lean), generic in the
evaluator (arbitrary code semantics) and in the listeners.  `rs.eff` is the log of everything the
interpreter asks the evaluator to run or evaluate and of every meta-event it raises.
-/
namespace Sismic.C03
open M

variable {σ ω : Type} (env : Env σ ω)

/-- **The trace tells the truth about the code that ran.**  When `execute_once` returns a macro
    step, the code fragments executed during the call — exit code, transition actions, entry code,
    in order — are exactly the replay of the returned `MacroStep`: per micro step the exits, then
    the action, then the entries. -/
theorem code_ran_is_replay (clock : Int) (rs rs' : RS σ ω) (ms : MacroStep)
    (h : executeOnce env clock rs = (.ok (some ms), rs')) :
    ∃ new, rs'.eff = rs.eff ++ new ∧ new.filter Effect.isExec = replay ms := by
  obtain ⟨st1, computed, _, _, _, _, _, _, _, _, hnil, hcons⟩ := executeOnce_ok env clock rs rs' _ h
  cases computed with
  | nil => exact absurd (hnil rfl).1 (by simp)
  | cons first tail =>
    obtain ⟨steps, hr, _, _, heff⟩ := hcons first tail rfl
    obtain rfl : ms = { time := clock, steps := steps } := Option.some.inj hr
    simp only [List.append_assoc] at heff
    refine ⟨_, heff, ?_⟩
    simp only [List.filter_append, exec_finishLog, List.append_nil]
    have hg : (planGuards env rs.st.initialized st1).filter Effect.isExec = [] := by
      unfold planGuards; split
      · exact exec_guardLog _ _ _ _
      · rfl
    rw [hg]
    have hm : (steps.flatMap (microLog env.chart env.ignoreContract)).filter Effect.isExec
        = steps.flatMap replayMicro :=
      filter_flatMap' _ _ _ (exec_microLog env.chart env.ignoreContract) steps
    rw [hm]
    split <;> simp [List.filter_cons, replay]

/-- **No macro step, no code.** When `execute_once` returns `None`, no code fragment ran and the
    configuration is unchanged. -/
theorem nothing_ran (clock : Int) (rs rs' : RS σ ω)
    (h : executeOnce env clock rs = (.ok none, rs')) :
    rs'.st.config = rs.st.config ∧ ∃ new, rs'.eff = rs.eff ++ new ∧ new.filter Effect.isExec = [] := by
  obtain ⟨st1, computed, _, _, _, _, _, _, _, _, hnil, hcons⟩ := executeOnce_ok env clock rs rs' _ h
  cases computed with
  | cons first tail =>
    obtain ⟨steps, hr, _⟩ := hcons first tail rfl
    exact absurd hr (by simp)
  | nil =>
    obtain ⟨_, hc, _, heff⟩ := hnil rfl
    simp only [List.append_assoc] at heff
    refine ⟨hc, _, heff, ?_⟩
    simp only [List.filter_append, exec_finishLog, List.append_nil]
    have hg : (planGuards env rs.st.initialized st1).filter Effect.isExec = [] := by
      unfold planGuards; split
      · exact exec_guardLog _ _ _ _
      · rfl
    rw [hg]; simp [List.filter_cons]

/-- **The trace tells the truth about the configuration.**  The configuration (and the history
    memory) after the call are the exited/entered lists of the returned micro steps applied, in
    order, to the configuration before. -/
theorem configuration_is_trace_applied (clock : Int) (rs rs' : RS σ ω) (ms : MacroStep)
    (h : executeOnce env clock rs = (.ok (some ms), rs')) :
    (rs'.st.config, rs'.st.memory) = applyMicros env.chart (rs.st.config, rs.st.memory) ms.steps := by
  obtain ⟨st1, computed, _, _, _, _, _, _, _, _, hnil, hcons⟩ := executeOnce_ok env clock rs rs' _ h
  cases computed with
  | nil => exact absurd (hnil rfl).1 (by simp)
  | cons first tail =>
    obtain ⟨steps, hr, _, hcm, _⟩ := hcons first tail rfl
    obtain rfl : ms = { time := clock, steps := steps } := Option.some.inj hr
    exact hcm

/-- **Run to completion.**  The returned micro steps are, for each planned step in order (the
    initialisation step, the empty step consuming an unhandled event, or the sorted transitions'
    steps), that step followed by the stabilisation steps it makes necessary — each computed from
    the configuration reached so far — and only then the next planned step (`RunChain`); when the
    call returns nothing is left to stabilise. -/
theorem run_to_completion (clock : Int) (rs rs' : RS σ ω) (ms : MacroStep)
    (h : executeOnce env clock rs = (.ok (some ms), rs')) :
    ∃ computed, computed ≠ [] ∧
      RunChain env.chart (rs.st.config, rs.st.memory) computed ms.steps ∧
      stabilizationStep env.chart rs'.st.memory rs'.st.config = none := by
  obtain ⟨st1, computed, _, _, _, _, _, _, _, _, hnil, hcons⟩ := executeOnce_ok env clock rs rs' _ h
  cases computed with
  | nil => exact absurd (hnil rfl).1 (by simp)
  | cons first tail =>
    obtain ⟨steps, hr, hchain, hcm, _⟩ := hcons first tail rfl
    obtain rfl : ms = { time := clock, steps := steps } := Option.some.inj hr
    refine ⟨first :: tail, by simp, hchain, ?_⟩
    have := runChain_stable env.chart (first :: tail) steps _ (by simp) hchain
    rw [← hcm] at this
    exact this

/-- **Exit order of a transition step: innermost first.**  The states `_create_steps` makes a
    transition exit are the active descendants of the exited subtree, by decreasing depth (ties by
    name), and last the top of that subtree. -/
theorem exits_innermost_first (c : Chart) (cfg : List Name) (ev : Option Event) (t : Trans) (tg : Name)
    (htg : t.target = some tg) :
    ∃ inner top, (createStep c cfg ev t).exited = inner ++ top ∧ top.length ≤ 1 ∧
      inner.Pairwise (fun a b => c.depth b < c.depth a ∨ (c.depth a = c.depth b ∧ a ≤ b)) := by
  simp only [createStep, htg]
  exact ⟨_, _, rfl, by split <;> simp, exited_sorted c cfg _⟩

/-- **Entry order of a transition step: outermost first.**  Each entered state is the parent of the
    next one; the last one is the target. -/
theorem entries_outermost_first (c : Chart) (hT : TreeOK c) (cfg : List Name) (ev : Option Event)
    (t : Trans) (tg : Name) (htg : t.target = some tg) :
    DownChain c (createStep c cfg ev t).entered ∧ (createStep c cfg ev t).entered.getLast? = some tg := by
  simp only [createStep, htg]
  exact ⟨enteredPath_downChain c hT tg _, by simp⟩

end Sismic.C03
