import Sismic.Proofs.C15
import Sismic.Props.C10
/-!
# Property C15 — bound statecharts: sent events reach every bound target once, in order

The chain: code sends an internal event → `_raise_event` queues it internally and raises one
`event sent` meta-event (`raiseSent`); every raised meta-event is handed once to each attached
listener in attachment order (`deliveries_once_in_order`); a listener created by `bind` forwards
`Event(name, **data)` for `event sent` meta-events and nothing else (`bind_forwards_*`).
-/
namespace Sismic.C15
open M

variable {σ ω : Type} (env : Env σ ω)

/-- what `InternalEventListener` reacts to -/
def isSentMeta (m : Event) : Bool := m.name == "event sent"

/-- the `event sent` meta-events a sent item produces: one per internal event (a user `notify`
    is forwarded only if the user named it `event sent` themself) -/
def forwarded : Sent → List Event
  | .internal e => [metaSent e]
  | .notify m => if isSentMeta m then [m] else []

theorem filter_sentMeta (s : Sent) : (sentMeta s).filter isSentMeta = forwarded s := by
  cases s with
  | notify m => simp only [sentMeta, forwarded, List.filter]; split <;> simp_all
  | internal e =>
    simp only [sentMeta, forwarded]
    split <;> simp [isSentMeta, metaSent, metaDelayed, List.filter]

theorem filter_metaMicro (m : Micro) : (metaMicro m).filter isSentMeta = m.sent.flatMap forwarded := by
  have h1 : (m.exited.map metaExited).filter isSentMeta = [] := by
    rw [List.filter_eq_nil_iff]; intro a ha; obtain ⟨n, _, rfl⟩ := List.mem_map.mp ha; simp [isSentMeta, metaExited]
  have h2 : (m.entered.map metaEntered).filter isSentMeta = [] := by
    rw [List.filter_eq_nil_iff]; intro a ha; obtain ⟨n, _, rfl⟩ := List.mem_map.mp ha; simp [isSentMeta, metaEntered]
  have h4 : (m.sent.flatMap sentMeta).filter isSentMeta = m.sent.flatMap forwarded := by
    induction m.sent with
    | nil => rfl
    | cons s ss ih => simp only [List.flatMap_cons, List.filter_append, ih, filter_sentMeta]
  simp only [metaMicro, List.filter_append, h1, h2, h4, List.nil_append, List.append_nil]
  cases m.transition <;> simp [isSentMeta, metaProcessed]

/-- **Sent events and `event sent` meta-events agree, in order.**  For a call that returns a macro
    step, the `event sent` meta-events raised during the call are exactly one per internal event
    listed in `MacroStep.sent_events`, in that order; `step started`, `event consumed`, `state …`,
    `transition processed`, `delayed event sent` and `step ended` are never of that kind. -/
theorem announced_are_the_sent_events (clock : Int) (rs rs' : RS σ ω) (ms : MacroStep)
    (h : executeOnce env clock rs = (.ok (some ms), rs')) :
    ∃ new, rs'.eff = rs.eff ++ new ∧
      (metaOfEffects new).filter isSentMeta = ms.steps.flatMap (fun m => m.sent.flatMap forwarded) := by
  obtain ⟨new, consumed, heff, _, hm⟩ := C10.meta_stream env clock rs rs' ms h
  refine ⟨new, heff, ?_⟩
  rw [hm]
  have hc : (consumed.map metaConsumed).filter isSentMeta = [] := by
    rw [List.filter_eq_nil_iff]; intro a ha; obtain ⟨n, _, rfl⟩ := List.mem_map.mp ha; simp [isSentMeta, metaConsumed]
  have hf : (ms.steps.flatMap metaMicro).filter isSentMeta = ms.steps.flatMap (fun m => m.sent.flatMap forwarded) := by
    induction ms.steps with
    | nil => rfl
    | cons m ms ih => simp only [List.flatMap_cons, List.filter_append, ih, filter_metaMicro]
  simp only [List.filter_cons, List.filter_append, hc, hf]
  simp [isSentMeta, metaStarted, metaEnded]

/-- **Each listener, each meta-event, exactly once, in order — whatever the outcome of the call.**
    With listeners that record what they are handed, the record after `execute_once` is the
    record before plus, for each meta-event raised during the call (in order), one entry per
    attached listener (in attachment order). -/
theorem deliveries_once_in_order (env : Env σ (List (Nat × Event))) (hd : env.deliver = recDeliver)
    (clock : Int) (rs : RS σ (List (Nat × Event))) :
    ∃ new, (executeOnce env clock rs).2.eff = rs.eff ++ new ∧
      (executeOnce env clock rs).2.world =
        rs.world ++ (metaOfEffects new).flatMap (fun m => rs.st.listeners.map (fun k => (k, m))) :=
  deliveries_recorded env hd clock rs

/-- **Nothing after detach**: a listener that is not attached when the call starts is handed nothing. -/
theorem detached_gets_nothing (env : Env σ (List (Nat × Event))) (hd : env.deliver = recDeliver)
    (clock : Int) (rs : RS σ (List (Nat × Event))) (k : Nat) (hk : k ∉ rs.st.listeners) :
    ∃ added, (executeOnce env clock rs).2.world = rs.world ++ added ∧ ∀ p ∈ added, p.1 ≠ k := by
  obtain ⟨new, _, hw⟩ := deliveries_recorded env hd clock rs
  refine ⟨_, hw, ?_⟩
  intro p hp
  simp only [deliveries, List.mem_flatMap, List.mem_map] at hp
  obtain ⟨m, _, k', hk', rfl⟩ := hp
  exact fun h => hk (h ▸ hk')

/-- **Still queued for the sender itself**, whatever the listeners do (they can raise, change the
    outside world or queue *external* events on the sender, never touch its internal queue):
    after `_raise_event(InternalEvent e)` the internal queue holds `e`, due at step time + delay,
    behind the events due no later. -/
theorem sent_is_queued_internally (e : Event) (rs : RS σ ω) :
    (raiseSent env (.internal e) rs).2.st.intQ = queueInsert (rs.st.time + e.delay) e rs.st.intQ ∧
    (raiseSent env (.internal e) rs).2.st.time = rs.st.time := by
  have hcl : ∀ (m : Event) (ls : List Nat) (r : RS σ ω),
      (M.forEach (callListener env m) ls r).2.st.intQ = r.st.intQ ∧
      (M.forEach (callListener env m) ls r).2.st.time = r.st.time := by
    intro m ls
    induction ls with
    | nil => intro r; exact ⟨rfl, rfl⟩
    | cons l ls ih =>
      intro r
      have hf : ∀ (qs : List Event) (st : IState σ),
          (qs.foldl (fun st e => { st with extQ := queueInsert (st.time + e.delay) e st.extQ }) st).intQ = st.intQ ∧
          (qs.foldl (fun st e => { st with extQ := queueInsert (st.time + e.delay) e st.extQ }) st).time = st.time := by
        intro qs
        induction qs with
        | nil => intro st; exact ⟨rfl, rfl⟩
        | cons q qs ihq => intro st; simp only [List.foldl_cons]; rw [(ihq _).1, (ihq _).2]; exact ⟨rfl, rfl⟩
      simp only [M.forEach, M.bind]
      cases hc : callListener env m l r with
      | mk res r1 =>
        have h1 : r1.st.intQ = r.st.intQ ∧ r1.st.time = r.st.time := by
          unfold callListener at hc
          simp only [Prod.mk.injEq] at hc
          obtain ⟨_, rfl⟩ := hc
          exact hf _ _
        cases res with
        | error err => exact h1
        | ok u => simp only; rw [(ih r1).1, (ih r1).2]; exact h1
  have hrm : ∀ (m : Event) (r : RS σ ω),
      (raiseMeta env m r).2.st.intQ = r.st.intQ ∧ (raiseMeta env m r).2.st.time = r.st.time := by
    intro m r
    unfold raiseMeta
    simp only [M.bind, M.emit, M.get]
    exact hcl m _ _
  unfold raiseSent
  simp only [M.bind, queueEvent, M.modify, if_true]
  generalize hq : ({ rs with st := { rs.st with intQ := queueInsert (rs.st.time + e.delay) e rs.st.intQ } } : RS σ ω) = r0
  have h0 : r0.st.intQ = queueInsert (rs.st.time + e.delay) e rs.st.intQ ∧ r0.st.time = rs.st.time := by
    subst hq; exact ⟨rfl, rfl⟩
  cases h1 : raiseMeta env { name := "event sent", data := [("event", e.toVal)] } r0 with
  | mk res r1 =>
    have e1 := hrm { name := "event sent", data := [("event", e.toVal)] } r0
    rw [h1] at e1
    cases res with
    | error err => simp only; rw [e1.1, e1.2]; exact h0
    | ok u =>
      simp only
      split
      · rw [(hrm _ r1).1, (hrm _ r1).2, e1.1, e1.2]; exact h0
      · simp only [M.pure]; rw [e1.1, e1.2]; exact h0

/-- **What `bind` forwards to a callable**: `Event(name, **data)` of the sent event for an
    `event sent` meta-event; nothing for any other meta-event (`notify`, `event consumed`, …). -/
theorem bind_forwards_to_callable (fuel i l k : Nat) (m : Event) (time : Int) (w : World)
    (hl : w.listeners[l]? = some (.bindCallback k)) :
    worldDeliver fuel i l m time w =
      if m.name == "event sent" then
        match assocGet "event" m.data with
        | some (.ev n d) => (.ok (), w.record k { name := n, data := d }, [])
        | _ => (.error (.listener l), w, [])
      else (.ok (), w, []) :=
  bindCallback_forwards fuel i l k m time w hl

/-- **What `bind` forwards to an interpreter**: the same event, queued as an *external* event of
    the target (of the sender itself for a self-binding). -/
theorem bind_forwards_to_interpreter (fuel i l j : Nat) (m : Event) (time : Int) (w : World)
    (hl : w.listeners[l]? = some (.bindInterp j)) :
    worldDeliver fuel i l m time w =
      if m.name == "event sent" then
        match assocGet "event" m.data with
        | some (.ev n d) =>
          if j == i then (.ok (), w, [{ name := n, data := d }])
          else (.ok (), w.modifySlot j (extQueue { name := n, data := d }), [])
        | _ => (.error (.listener l), w, [])
      else (.ok (), w, []) :=
  bindInterp_forwards fuel i l j m time w hl

/-- the forwarded event carries the name and parameters (delay included) of the event sent -/
theorem forwarded_payload (e : Event) :
    assocGet "event" (metaSent e).data = some e.toVal ∧ (metaSent e).name = "event sent" := by
  simp [metaSent, assocGet]

end Sismic.C15
