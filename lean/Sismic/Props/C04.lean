import Sismic.Proofs.C04
import Sismic.Proofs.LegalMulti
/-!
# Property C04 — non-determinism and conflicts are reported, never silently resolved

`sortTransitions` models `_sort_transitions`; `nonDetPair c a b` = "`a` and `b` have the same
source, or the deepest common proper ancestor of their sources is not an orthogonal state";
`conflictPair c a b` = "the target of `a` or of `b` lies outside the region (child of that common
ancestor) its source is in".
-/
namespace Sismic.C04

/-- **NonDeterminismError iff** some pair of the selected transitions is a non-deterministic pair —
    whatever the order of the pairs and whether or not another pair conflicts. -/
theorem nonDeterminism_iff (c : Chart) (ts : List Trans) :
    sortTransitions c ts = .error .nonDeterminism ↔
      1 < ts.length ∧ ∃ p ∈ pairs ts, nonDetPair c p.1 p.2 = true :=
  sortTransitions_nonDet c ts

/-- **ConflictingTransitionsError iff** no pair is non-deterministic and some pair conflicts. -/
theorem conflicting_iff (c : Chart) (ts : List Trans) :
    sortTransitions c ts = .error .conflicting ↔
      1 < ts.length ∧ (¬ ∃ p ∈ pairs ts, nonDetPair c p.1 p.2 = true) ∧
      ∃ p ∈ pairs ts, conflictPair c p.1 p.2 = true :=
  sortTransitions_conflict c ts

/-- **No error iff** the selected transitions are pairwise in distinct regions and stay inside
    them; they are then processed by decreasing source depth, ties by source name. -/
theorem no_error_iff (c : Chart) (ts ts' : List Trans) :
    sortTransitions c ts = .ok ts' ↔
      (ts.length ≤ 1 ∧ ts' = ts) ∨
      (1 < ts.length ∧ (¬ ∃ p ∈ pairs ts, nonDetPair c p.1 p.2 = true) ∧
        (¬ ∃ p ∈ pairs ts, conflictPair c p.1 p.2 = true) ∧ ts' = isort (leTrans c) ts) :=
  sortTransitions_ok c ts ts'

/-- **Two transitions of the same state are always non-deterministic** (also under an orthogonal
    parent, also on the root). -/
theorem same_state_is_nonDeterministic (c : Chart) (a b : Trans) (rest : List Trans)
    (h : a.source = b.source) : sortTransitions c (a :: b :: rest) = .error .nonDeterminism := by
  rw [nonDeterminism_iff]
  refine ⟨by simp, (a, b), ?_, same_source_nonDet c a b h⟩
  simp [pairs]

/-- **What "no error" means in terms of the statechart's structure.**  For a well-formed chart: if
    several fired transitions (none of whose sources is an ancestor of another's: inner-first
    selection) are accepted, they are pairwise *separated* — there is an orthogonal state with two
    distinct regions, each containing the source *and* the target of one of the two — and they are
    processed in the documented order. -/
theorem accepted_are_separated (c : Chart) (h : WFChart c) (sel ts : List Trans)
    (hs : sortTransitions c sel = .ok ts) (hlen : 2 ≤ sel.length)
    (hna : ∀ a ∈ sel, ∀ b ∈ sel, ¬ Anc c a.source b.source) :
    ts.Pairwise (Separated c) ∧ ts = isort (leTrans c) sel := by
  refine ⟨(sort_separated c h sel ts hs hlen hna).1, ?_⟩
  rcases (no_error_iff c sel ts).mp hs with ⟨h1, _⟩ | ⟨_, _, _, h2⟩
  · omega
  · exact h2

variable {σ ω : Type} (env : Env σ ω)

/-- **Nothing is exited, entered, executed or consumed.**  If `execute_once` raises one of the two
    errors, the interpreter is as before (apart from the sampled step time, the reset list of sent
    events and what listeners of `step started` queued), and only `step started` and guard
    evaluations were logged. -/
theorem nothing_happens (hd : ListenerErrs env) (clock : Int) (rs rs' : RS σ ω) (e : Err)
    (h : executeOnce env clock rs = (.error e, rs')) (he : e = .nonDeterminism ∨ e = .conflicting) :
    (∃ q, rs'.st = { rs.st with time := clock, sentEvents := [], extQ := q }) ∧
    ∃ calls st1, rs'.eff = rs.eff ++ .metaEv (metaStarted clock) :: guardLog env.E st1 (peekEvent st1) calls :=
  Sismic.nothing_happens env hd clock rs rs' e h he

end Sismic.C04
