import Sismic.Proofs.C01
/-!
# Property C01 — transition selection follows the documented step semantics

Only property statements live here; the proofs are in `Sismic/Proofs`.
`selectTransitions` is the model of `Interpreter._select_transitions` (Model/Select.lean), which
`execute_once` calls with the active configuration and the name of the pending event; `ok t exposed`
is the truth value of the guard of `t` (true if it has none) when shown the event / no event.
-/
namespace Sismic.C01

/-- **Fired = documented.** For every chart whose parent map is a tree, *every* set of active
    states, every pending event and every truth assignment to the guards, the selected transitions
    are exactly those the documented semantics fires: enabled; eventless pre-empt event-triggered;
    no competing transition on a descendant of the source; none of higher priority on the source. -/
theorem fires_iff (c : Chart) (hT : TreeOK c) (cfg : List Name) (evName : Option String)
    (ok : Trans → Bool → Bool) (t : Trans) :
    t ∈ (selectTransitions c cfg evName ok).selected ↔ Fires c cfg evName ok t :=
  select_iff_fires c cfg evName ok hT t

/-- **Exposure.** Every guard evaluation made during the selection concerns a transition of the
    chart whose source is active; an eventless transition's guard is shown no event, an
    event-triggered one's guard is shown the pending event, whose name it names. -/
theorem exposure (c : Chart) (cfg : List Name) (evName : Option String)
    (ok : Trans → Bool → Bool) (t : Trans) (exposed : Bool)
    (h : (t, exposed) ∈ (selectTransitions c cfg evName ok).calls) :
    t ∈ c.transitions ∧ t.source ∈ cfg ∧ t.guard.isSome = true ∧
      (exposed = false → t.event = none) ∧ (exposed = true → t.event ≠ none ∧ t.event = evName) :=
  calls_exposure c cfg evName ok t exposed h

/-- **Eventless transitions pre-empt.** If some eventless transition is enabled, no event-triggered
    transition is selected (so `execute_once` consumes no event: `_compute_steps` drops the event
    when the first sorted transition is eventless, and all selected ones are). -/
theorem eventless_preempt (c : Chart) (hT : TreeOK c) (cfg : List Name) (evName : Option String)
    (ok : Trans → Bool → Bool) (u : Trans) (hu : Enabled c cfg evName ok u) (hue : u.event = none)
    (t : Trans) (ht : t ∈ (selectTransitions c cfg evName ok).selected) : t.event = none := by
  have := (fires_iff c hT cfg evName ok t).mp ht
  rcases this.1.2 with h | h
  · exact h
  · exact absurd ⟨u, hu, hue⟩ h

/-- **No event, no event-triggered transition.** -/
theorem no_event_only_eventless (c : Chart) (hT : TreeOK c) (cfg : List Name)
    (ok : Trans → Bool → Bool) (t : Trans)
    (ht : t ∈ (selectTransitions c cfg none ok).selected) : t.event = none := by
  have := (fires_iff c hT cfg none ok t).mp ht
  rcases this.1.1.2.2 with h | h
  · exact h.1
  · exact absurd h.2.1 h.1

/-! ### non-vacuity: a concrete chart meets the hypothesis and the relation is inhabited -/

def exChart : Chart :=
  { states := [{ name := "r", kind := .compound, initial := some "a" },
               { name := "a", kind := .basic }, { name := "b", kind := .basic }],
    parent := [("r", none), ("a", some "r"), ("b", some "r")],
    children := [(none, ["r"]), (some "r", ["a", "b"]), (some "a", []), (some "b", [])],
    transitions := [{ id := 0, source := "a", target := some "b", event := some "e" },
                    { id := 1, source := "r", target := some "a", event := some "e", priority := 1 }] }

theorem exChart_tree : TreeOK exChart :=
  treeOK_of_check exChart [("r", 0), ("a", 1), ("b", 1)] (by decide)

example : ((selectTransitions exChart ["r", "a"] (some "e") (fun _ _ => true)).selected.map (·.id)) = [0] := by
  decide

end Sismic.C01
