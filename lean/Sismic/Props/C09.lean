import Sismic.Proofs.C09
import Sismic.Proofs.Sim
import Sismic.Proofs.PyBlind
/-!
# Property C09 — contract checking is transparent

Proved here: with `ignore_contract=True` no contract condition is evaluated at all and no
`ContractError` is ever raised; and **the run that ignores contracts simulates the run that checks
them** as long as no condition fails or errs (`ignoring_simulates_checking`, `…_run`): same macro
steps (transitions, entered/exited states, sent events), same configuration, queues, memory and
times, same outside world, same log of executed code and meta-events — the contexts agree up to
any relation `eqv` the evaluator's guards and code cannot see through (`Blind`; for
`PythonEvaluator`: "equal except for the frozen `__old__` contexts", which only contract
conditions can read).  The tie runs every history under both settings, including the shipped
elevator / microwave contract charts.
-/
namespace Sismic.C09
open M

variable {σ ω : Type} (env : Env σ ω)

/-- **No contract condition is evaluated** when contracts are ignored — for every outcome of the call. -/
theorem no_evaluation_when_ignored (hi : env.ignoreContract = true) (clock : Int) (rs : RS σ ω) :
    ∃ l, (executeOnce env clock rs).2.eff = rs.eff ++ l ∧ ∀ e ∈ l, e.isCond = false :=
  ignored_no_evaluation env hi clock rs

/-- **No `ContractError` is ever raised** when contracts are ignored. -/
theorem no_contract_error_when_ignored (hi : env.ignoreContract = true) (hd : ListenerErrs env)
    (clock : Int) (rs rs' : RS σ ω) (o : ObjId) (c : String) :
    executeOnce env clock rs ≠ (.error (.precondition o c), rs') ∧
    executeOnce env clock rs ≠ (.error (.postcondition o c), rs') ∧
    executeOnce env clock rs ≠ (.error (.invariant o c), rs') := by
  refine ⟨?_, ?_, ?_⟩ <;> intro h <;> exact ignored_no_contract_error env hi hd clock rs rs' _ h

/-- **The micro step log differs only by the evaluations**: for the same micro step, what is logged
    with contract checking, minus the contract evaluations, is what is logged when ignoring them. -/
theorem log_differs_only_by_evaluations (c : Chart) (m : Micro) :
    (microLog c false m).filter (fun e => !e.isCond) = microLog c true m := by
  have hc : ∀ (kind : CondKind) (obj : Obj) (ev : Option Event),
      (contractLog false kind obj ev).filter (fun e => !e.isCond) = [] := by
    intro kind obj ev
    unfold contractLog
    simp only [Bool.false_eq_true, if_false]
    exact filter_condsLogFrom _ (fun _ _ _ _ _ => rfl) _ _ _ _ _
  unfold microLog
  simp only [List.filter_append]
  have h1 : (m.exited.flatMap (fun n => exitLog false m.event (c.stateD n))).filter (fun e => !e.isCond)
      = m.exited.flatMap (fun n => exitLog true m.event (c.stateD n)) := by
    apply filter_flatMap'
    intro n
    simp [exitLog, List.filter_cons, List.filter_append, hc, contractLog_true]
  have h2 : (m.entered.flatMap (fun n => enterLog false m.event (c.stateD n))).filter (fun e => !e.isCond)
      = m.entered.flatMap (fun n => enterLog true m.event (c.stateD n)) := by
    apply filter_flatMap'
    intro n
    simp [enterLog, List.filter_cons, List.filter_append, hc, contractLog_true]
  have h3 : (m.sent.flatMap sentLog).filter (fun e => !e.isCond) = m.sent.flatMap sentLog := by
    apply filter_flatMap'
    intro s
    cases s <;> simp [sentLog, List.filter_cons] <;> split <;> simp [List.filter_cons]
  rw [h1, h2, h3]
  cases m.transition with
  | none => simp
  | some t => simp [transLog, List.filter_cons, List.filter_append, hc, contractLog_true]

/-- **Transparency.**  If the evaluator's guards and code are blind to `eqv`, a call of
    `execute_once` that checks contracts and returns normally (no condition failed or raised) is
    matched, from every `Sim`-related state, by the same call ignoring contracts: same returned
    macro step, and again `Sim`-related states — i.e. equal configuration, memory, queues, times,
    listeners, sent events and outside world, `eqv`-related contexts, and the same log minus the
    condition evaluations. -/
theorem ignoring_simulates_checking (eqv : σ → σ → Prop) (hE : Blind env.E eqv)
    (hig : env.ignoreContract = false) (clock : Int) (rs₁ rs₂ rs₁' : RS σ ω) (r : Option MacroStep)
    (hs : Sim eqv rs₁ rs₂) (h : executeOnce env clock rs₁ = (.ok r, rs₁')) :
    ∃ rs₂', executeOnce env.ignoring clock rs₂ = (.ok r, rs₂') ∧ Sim eqv rs₁' rs₂' := by
  obtain ⟨r', rs₂', h2, hr, hs'⟩ := sim_executeOnce eqv env hE hig clock rs₁ rs₂ r rs₁' hs h
  exact ⟨rs₂', hr ▸ h2, hs'⟩

/-- what `Sim` says, spelled out -/
theorem sim_spelled_out (eqv : σ → σ → Prop) (rs₁ rs₂ : RS σ ω) (h : Sim eqv rs₁ rs₂) :
    rs₂.st.config = rs₁.st.config ∧ rs₂.st.memory = rs₁.st.memory ∧ rs₂.st.intQ = rs₁.st.intQ ∧
    rs₂.st.extQ = rs₁.st.extQ ∧ rs₂.st.time = rs₁.st.time ∧ rs₂.st.sentEvents = rs₁.st.sentEvents ∧
    rs₂.st.entryTime = rs₁.st.entryTime ∧ rs₂.st.idleTime = rs₁.st.idleTime ∧
    rs₂.world = rs₁.world ∧ eqv rs₁.st.ctx rs₂.st.ctx ∧
    rs₂.eff = rs₁.eff.filter Effect.notCond := by
  obtain ⟨x, rfl, hx⟩ := h
  exact ⟨rfl, rfl, rfl, rfl, rfl, rfl, rfl, rfl, rfl, hx, rfl⟩

/-- a run: successive calls of `execute_once` that all return normally, with what they returned -/
inductive RunOK (env : Env σ ω) : List Int → RS σ ω → List (Option MacroStep) → RS σ ω → Prop
  | nil (rs) : RunOK env [] rs [] rs
  | cons {t ts rs rs1 rs' r out} : executeOnce env t rs = (.ok r, rs1) → RunOK env ts rs1 out rs' →
      RunOK env (t :: ts) rs (r :: out) rs'

/-- **… for whole runs**: a run in which no contract condition fails or errs is reproduced, macro
    step by macro step, by the run that ignores contracts. -/
theorem ignoring_simulates_checking_run (eqv : σ → σ → Prop) (hE : Blind env.E eqv)
    (hig : env.ignoreContract = false) (clocks : List Int) (rs₁ rs₁' : RS σ ω)
    (out : List (Option MacroStep)) (hrun : RunOK env clocks rs₁ out rs₁') :
    ∀ rs₂, Sim eqv rs₁ rs₂ → ∃ rs₂', RunOK env.ignoring clocks rs₂ out rs₂' ∧ Sim eqv rs₁' rs₂' := by
  induction hrun with
  | nil rs => intro rs₂ hs; exact ⟨rs₂, RunOK.nil rs₂, hs⟩
  | cons hx _ ih =>
    intro rs₂ hs
    obtain ⟨rs2, h2, hs'⟩ := ignoring_simulates_checking env eqv hE hig _ _ rs₂ _ _ hs hx
    obtain ⟨rs₂', hr, hs''⟩ := ih rs2 hs'
    exact ⟨rs₂', RunOK.cons h2 hr, hs''⟩

/-- **… and the modelled `PythonEvaluator` satisfies the hypothesis**: guards and executed code read
    the context variables only, the frozen `__old__` contexts are read by postconditions and
    invariants alone.  So for the evaluator the tie runs, the transparency theorem holds
    unconditionally, with "contexts equal as sets of variables" as the relation. -/
theorem python_evaluator_transparent {ω : Type} (env : Env PyCtx ω) (hE : env.E = pyEvaluator)
    (hig : env.ignoreContract = false) (clocks : List Int) (rs₁ rs₁' : RS PyCtx ω)
    (out : List (Option MacroStep)) (hrun : RunOK env clocks rs₁ out rs₁') :
    ∀ rs₂, Sim sameVars rs₁ rs₂ →
      ∃ rs₂', RunOK env.ignoring clocks rs₂ out rs₂' ∧ Sim sameVars rs₁' rs₂' ∧
        rs₂'.st.ctx.vars = rs₁'.st.ctx.vars :=  by
  intro rs₂ hs
  obtain ⟨rs₂', h1, h2⟩ := ignoring_simulates_checking_run env sameVars (hE ▸ pyEvaluator_blind) hig
    clocks rs₁ rs₁' out hrun rs₂ hs
  refine ⟨rs₂', h1, h2, ?_⟩
  obtain ⟨x, rfl, hx⟩ := h2
  exact hx.1.symm

end Sismic.C09
