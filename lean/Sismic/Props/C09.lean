import Sismic.Proofs.C09
/-!
# Property C09 — contract checking is transparent

Proved here: with `ignore_contract=True` no contract condition is evaluated at all and no
`ContractError` is ever raised; and (from `executeOnce_ok`) the effect log of a run whose
conditions all hold differs from the log of the contract-ignoring run of the *same macro step*
only by the evaluations (`log_differs_only_by_evaluations`).  That the two settings produce the
same macro steps and contexts for every evaluator is decided by the tie (lock-step execution under
both settings, including the shipped elevator / microwave contract charts): DESIGN.md §6 C09.
-/
namespace Sismic.C09
open M

variable {σ ω : Type} (env : Env σ ω)

/-- **No contract condition is evaluated** when contracts are ignored — for every outcome of the call. -/
theorem no_evaluation_when_ignored (hi : env.ignoreContract = true) (clock : Int) (rs : RS σ ω) :
    ∃ l, (executeOnce env clock rs).2.eff = rs.eff ++ l ∧ ∀ e ∈ l, e.isCond = false :=
  ignored_no_evaluation env hi clock rs

/-- **No `ContractError` is ever raised** when contracts are ignored. -/
theorem no_contract_error_when_ignored (hi : env.ignoreContract = true) (hd : ListenerErrs env)
    (clock : Int) (rs rs' : RS σ ω) (o : ObjId) (c : String) :
    executeOnce env clock rs ≠ (.error (.precondition o c), rs') ∧
    executeOnce env clock rs ≠ (.error (.postcondition o c), rs') ∧
    executeOnce env clock rs ≠ (.error (.invariant o c), rs') := by
  refine ⟨?_, ?_, ?_⟩ <;> intro h <;> exact ignored_no_contract_error env hi hd clock rs rs' _ h

/-- **The micro step log differs only by the evaluations**: for the same micro step, what is logged
    with contract checking, minus the contract evaluations, is what is logged when ignoring them. -/
theorem log_differs_only_by_evaluations (c : Chart) (m : Micro) :
    (microLog c false m).filter (fun e => !e.isCond) = microLog c true m := by
  have hc : ∀ (kind : CondKind) (obj : Obj) (ev : Option Event),
      (contractLog false kind obj ev).filter (fun e => !e.isCond) = [] := by
    intro kind obj ev
    unfold contractLog
    simp only [Bool.false_eq_true, if_false]
    exact filter_condsLogFrom _ (fun _ _ _ _ _ => rfl) _ _ _ _ _
  unfold microLog
  simp only [List.filter_append]
  have h1 : (m.exited.flatMap (fun n => exitLog false m.event (c.stateD n))).filter (fun e => !e.isCond)
      = m.exited.flatMap (fun n => exitLog true m.event (c.stateD n)) := by
    apply filter_flatMap'
    intro n
    simp [exitLog, List.filter_cons, List.filter_append, hc, contractLog_true]
  have h2 : (m.entered.flatMap (fun n => enterLog false m.event (c.stateD n))).filter (fun e => !e.isCond)
      = m.entered.flatMap (fun n => enterLog true m.event (c.stateD n)) := by
    apply filter_flatMap'
    intro n
    simp [enterLog, List.filter_cons, List.filter_append, hc, contractLog_true]
  have h3 : (m.sent.flatMap sentLog).filter (fun e => !e.isCond) = m.sent.flatMap sentLog := by
    apply filter_flatMap'
    intro s
    cases s <;> simp [sentLog, List.filter_cons] <;> split <;> simp [List.filter_cons]
  rw [h1, h2, h3]
  cases m.transition with
  | none => simp
  | some t => simp [transLog, List.filter_cons, List.filter_append, hc, contractLog_true]

end Sismic.C09
