import Sismic.Proofs.LogFilters
import Sismic.Proofs.ErrSpec
/-!
# Property C08 — contracts are checked at the documented points; failures raise the right error

`executeOnce` with `ignoreContract = false`; `rs.eff` logs every executed code fragment and every
evaluation of a contract condition (kind, owner, index in declaration order, event shown, result).
-/
namespace Sismic.C08
open M

variable {σ ω : Type} (env : Env σ ω)

/-- **Documented points, each once, in declaration order.**  When `execute_once` returns a macro
    step and contracts are checked, the interleaving of executed code and condition evaluations
    is exactly: per micro step — for each exited state its exit code then its postconditions; for a
    transition its preconditions, its invariants, its action, its postconditions, its invariants;
    for each entered state its preconditions then its entry code — and finally the invariants of
    every active state in (depth, name) order.  Every evaluation yields true. -/
theorem evaluated_at_documented_points (hc : env.ignoreContract = false) (clock : Int) (rs rs' : RS σ ω)
    (ms : MacroStep) (h : executeOnce env clock rs = (.ok (some ms), rs')) :
    ∃ new, rs'.eff = rs.eff ++ new ∧
      new.filter Effect.isPoint =
        ms.steps.flatMap (pointsMicro env.chart) ++ pointsEnd env.chart rs'.st.config ((some ms).bind (·.event)) := by
  obtain ⟨st1, computed, _, _, _, _, _, _, _, _, hnil, hcons⟩ := executeOnce_ok env clock rs rs' _ h
  cases computed with
  | nil => exact absurd (hnil rfl).1 (by simp)
  | cons first tail =>
    obtain ⟨steps, hr, _, _, heff⟩ := hcons first tail rfl
    obtain rfl : ms = { time := clock, steps := steps } := Option.some.inj hr
    simp only [List.append_assoc] at heff
    refine ⟨_, heff, ?_⟩
    rw [hc]
    simp only [List.filter_append, point_finishLog]
    have hg : (planGuards env rs.st.initialized st1).filter Effect.isPoint = [] := by
      unfold planGuards; split
      · exact point_guardLog _ _ _ _
      · rfl
    have hm : (steps.flatMap (microLog env.chart false)).filter Effect.isPoint
        = steps.flatMap (pointsMicro env.chart) :=
      filter_flatMap' _ _ _ (point_microLog env.chart) steps
    rw [hg, hm]
    split <;> simp [List.filter_cons]

/-- **Also for an empty step**: when nothing happens, the invariants of every active state are
    still evaluated (and nothing else). -/
theorem invariants_even_without_step (hc : env.ignoreContract = false) (clock : Int) (rs rs' : RS σ ω)
    (h : executeOnce env clock rs = (.ok none, rs')) :
    ∃ new, rs'.eff = rs.eff ++ new ∧ new.filter Effect.isPoint = pointsEnd env.chart rs.st.config none := by
  obtain ⟨st1, computed, _, _, _, _, _, _, _, _, hnil, hcons⟩ := executeOnce_ok env clock rs rs' _ h
  cases computed with
  | cons first tail =>
    obtain ⟨steps, hr, _⟩ := hcons first tail rfl
    exact absurd hr (by simp)
  | nil =>
    obtain ⟨_, _, _, heff⟩ := hnil rfl
    simp only [List.append_assoc] at heff
    refine ⟨_, heff, ?_⟩
    rw [hc]
    simp only [List.filter_append, point_finishLog]
    have hg : (planGuards env rs.st.initialized st1).filter Effect.isPoint = [] := by
      unfold planGuards; split
      · exact point_guardLog _ _ _ _
      · rfl
    rw [hg]; simp [List.filter_cons]

/-- **A failed precondition raises `PreconditionError` for that object at once**: the last thing
    logged before the exception is the evaluation, as false, of a precondition of the object the
    error carries — no code, no evaluation, no meta-event after it.
    (Listeners are assumed not to leak contract errors of nested interpreters, `ListenerErrs`.) -/
theorem precondition_failure_is_immediate (hd : ListenerErrs env) (clock : Int) (rs rs' : RS σ ω)
    (o : ObjId) (c : String) (h : executeOnce env clock rs = (.error (.precondition o c), rs')) :
    ∃ i ev, rs'.eff.getLast? = some (.cond .pre o i ev (some false)) :=
  executeOnce_raisedAt env hd clock rs rs' _ h

theorem postcondition_failure_is_immediate (hd : ListenerErrs env) (clock : Int) (rs rs' : RS σ ω)
    (o : ObjId) (c : String) (h : executeOnce env clock rs = (.error (.postcondition o c), rs')) :
    ∃ i ev, rs'.eff.getLast? = some (.cond .post o i ev (some false)) :=
  executeOnce_raisedAt env hd clock rs rs' _ h

theorem invariant_failure_is_immediate (hd : ListenerErrs env) (clock : Int) (rs rs' : RS σ ω)
    (o : ObjId) (c : String) (h : executeOnce env clock rs = (.error (.invariant o c), rs')) :
    ∃ i ev, rs'.eff.getLast? = some (.cond .inv o i ev (some false)) :=
  executeOnce_raisedAt env hd clock rs rs' _ h

end Sismic.C08
