import Sismic.Proofs.LogFilters
import Sismic.Proofs.ErrSpec
import Sismic.Proofs.OldStore
/-!
# Property C08 — contracts are checked at the documented points; failures raise the right error

`executeOnce` with `ignoreContract = false`; `rs.eff` logs every executed code fragment and every
evaluation of a contract condition (kind, owner, index in declaration order, event shown, result).
-/
namespace Sismic.C08
open M

variable {σ ω : Type} (env : Env σ ω)

/-- **Documented points, each once, in declaration order.**  When `execute_once` returns a macro
    step and contracts are checked, the interleaving of executed code and condition evaluations
    is exactly: per micro step — for each exited state its exit code then its postconditions; for a
    transition its preconditions, its invariants, its action, its postconditions, its invariants;
    for each entered state its preconditions then its entry code — and finally the invariants of
    every active state in (depth, name) order.  Every evaluation yields true. -/
theorem evaluated_at_documented_points (hc : env.ignoreContract = false) (clock : Int) (rs rs' : RS σ ω)
    (ms : MacroStep) (h : executeOnce env clock rs = (.ok (some ms), rs')) :
    ∃ new, rs'.eff = rs.eff ++ new ∧
      new.filter Effect.isPoint =
        ms.steps.flatMap (pointsMicro env.chart) ++ pointsEnd env.chart rs'.st.config ((some ms).bind (·.event)) := by
  obtain ⟨st1, computed, _, _, _, _, _, _, _, _, hnil, hcons⟩ := executeOnce_ok env clock rs rs' _ h
  cases computed with
  | nil => exact absurd (hnil rfl).1 (by simp)
  | cons first tail =>
    obtain ⟨steps, hr, _, _, heff⟩ := hcons first tail rfl
    obtain rfl : ms = { time := clock, steps := steps } := Option.some.inj hr
    simp only [List.append_assoc] at heff
    refine ⟨_, heff, ?_⟩
    rw [hc]
    simp only [List.filter_append, point_finishLog]
    have hg : (planGuards env rs.st.initialized st1).filter Effect.isPoint = [] := by
      unfold planGuards; split
      · exact point_guardLog _ _ _ _
      · rfl
    have hm : (steps.flatMap (microLog env.chart false)).filter Effect.isPoint
        = steps.flatMap (pointsMicro env.chart) :=
      filter_flatMap' _ _ _ (point_microLog env.chart) steps
    rw [hg, hm]
    split <;> simp [List.filter_cons]

/-- **Also for an empty step**: when nothing happens, the invariants of every active state are
    still evaluated (and nothing else). -/
theorem invariants_even_without_step (hc : env.ignoreContract = false) (clock : Int) (rs rs' : RS σ ω)
    (h : executeOnce env clock rs = (.ok none, rs')) :
    ∃ new, rs'.eff = rs.eff ++ new ∧ new.filter Effect.isPoint = pointsEnd env.chart rs.st.config none := by
  obtain ⟨st1, computed, _, _, _, _, _, _, _, _, hnil, hcons⟩ := executeOnce_ok env clock rs rs' _ h
  cases computed with
  | cons first tail =>
    obtain ⟨steps, hr, _⟩ := hcons first tail rfl
    exact absurd hr (by simp)
  | nil =>
    obtain ⟨_, _, _, heff⟩ := hnil rfl
    simp only [List.append_assoc] at heff
    refine ⟨_, heff, ?_⟩
    rw [hc]
    simp only [List.filter_append, point_finishLog]
    have hg : (planGuards env rs.st.initialized st1).filter Effect.isPoint = [] := by
      unfold planGuards; split
      · exact point_guardLog _ _ _ _
      · rfl
    rw [hg]; simp [List.filter_cons]

/-- **A failed precondition raises `PreconditionError` for that object at once**: the last thing
    logged before the exception is the evaluation, as false, of a precondition of the object the
    error carries — no code, no evaluation, no meta-event after it.
    (Listeners are assumed not to leak contract errors of nested interpreters, `ListenerErrs`.) -/
theorem precondition_failure_is_immediate (hd : ListenerErrs env) (clock : Int) (rs rs' : RS σ ω)
    (o : ObjId) (c : String) (h : executeOnce env clock rs = (.error (.precondition o c), rs')) :
    ∃ i ev, rs'.eff.getLast? = some (.cond .pre o i ev (some false)) :=
  executeOnce_raisedAt env hd clock rs rs' _ h

theorem postcondition_failure_is_immediate (hd : ListenerErrs env) (clock : Int) (rs rs' : RS σ ω)
    (o : ObjId) (c : String) (h : executeOnce env clock rs = (.error (.postcondition o c), rs')) :
    ∃ i ev, rs'.eff.getLast? = some (.cond .post o i ev (some false)) :=
  executeOnce_raisedAt env hd clock rs rs' _ h

theorem invariant_failure_is_immediate (hd : ListenerErrs env) (clock : Int) (rs rs' : RS σ ω)
    (o : ObjId) (c : String) (h : executeOnce env clock rs = (.error (.invariant o c), rs')) :
    ∃ i ev, rs'.eff.getLast? = some (.cond .inv o i ev (some false)) :=
  executeOnce_raisedAt env hd clock rs rs' _ h

/-! ### `__old__` shows the variables as they were when the state was entered / the transition started

For the modelled `PythonEvaluator` (`env.E = pyEvaluator`); `PyCtx.old` is the store behind
`__old__`, one entry per state / transition. -/

section Old
variable {ω : Type} (env : Env PyCtx ω)

/-- what a postcondition or an invariant of `obj` sees under the name `__old__` is the entry of
    `obj` in the store (nothing when there is none) -/
theorem shown_old_is_the_entry (st : IState PyCtx) (kind : CondKind) (hk : kind ≠ .pre) (obj : Obj) (code : Code)
    (ev : Option Event) :
    pyCond st kind obj code ev =
      pyEval { viewEnv st with
        event := some ev, sentNames := some (sentNames st), received := some (ev.map (·.name)),
        old := some (match assocGet obj.id st.ctx.old with
                     | some d => Val.old d
                     | none => Val.nothing),
        entryT := some (assocGet (ownerOf obj) st.entryTime),
        idleT := some (assocGet (ownerOf obj) st.idleTime) } st.ctx code :=
  Sismic.shown_old_is_the_entry st kind hk obj code ev

/-- **the transition started**: when a transition that has postconditions or invariants has been
    processed, its entry holds the variables as they were when its processing began (before its
    preconditions were evaluated and its action ran) -/
theorem old_is_the_start_of_the_transition (hE : env.E = pyEvaluator) (hc : env.ignoreContract = false)
    (step : Micro) (t : Trans) (ht : (!t.inv.isEmpty || !t.post.isEmpty) = true) (rs rs' : RS PyCtx ω)
    (sent : List Sent) (h : fireTransition env step t rs = (.ok sent, rs')) :
    assocGet (.trans t.id) rs'.st.ctx.old = some rs.st.ctx.vars :=
  start_snapshot env hE hc step t ht rs rs' sent h

/-- **the state was entered**: when a state that has postconditions or invariants has been entered,
    its entry holds the variables as they were just before (before its entry code ran) -/
theorem old_is_the_entry_of_the_state (hE : env.E = pyEvaluator) (hc : env.ignoreContract = false)
    (step : Micro) (s : StateDef) (hs : (!s.inv.isEmpty || !s.post.isEmpty) = true) (rs rs' : RS PyCtx ω)
    (sent : List Sent) (h : enterState env step s rs = (.ok sent, rs')) :
    assocGet (.state s.name) rs'.st.ctx.old = some rs.st.ctx.vars :=
  entry_snapshot env hE hc step s hs rs rs' sent h

/-- conditions that are not preconditions are evaluated without any change of the interpreter's
    state (in particular of the variables and of the store): what the conditions evaluated after
    the action / at the end of later steps are shown is what the two theorems above describe -/
theorem evaluating_conditions_changes_nothing (kind : CondKind) (hk : kind ≠ .pre) (obj : Obj) (ev : Option Event)
    (rs : RS PyCtx ω) : (evalContract env kind obj ev rs).2.st = rs.st :=
  evalContract_st env kind hk obj ev rs

/-- the interpreter run over a list of clock readings, whatever each call does (returns or raises) -/
def runClocks : List Int → RS PyCtx ω → RS PyCtx ω
  | [], rs => rs
  | c :: cs, rs => runClocks cs (executeOnce env c rs).2

/-- **… and nothing else ever changes it**: over any number of calls of `execute_once`, returning
    or raising, the entry of a state / transition is what it was unless the log says that the
    state was entered / the transition processed meanwhile (its entry code or action ran, or one of
    its preconditions — for a transition also its invariants before the action — was evaluated).
    So the invariants of a state evaluated at the end of every macro step, and its postconditions
    evaluated when it is left, see the variables of its *last entry*. -/
theorem old_changes_only_when_entered (hE : env.E = pyEvaluator) (k : ObjId) (clocks : List Int) (rs : RS PyCtx ω) :
    ∃ l, (runClocks env clocks rs).eff = rs.eff ++ l ∧
      (l.any (marks k) = false → assocGet k (runClocks env clocks rs).st.ctx.old = assocGet k rs.st.ctx.old) := by
  induction clocks generalizing rs with
  | nil => exact (OldRel_pre k).refl rs
  | cons c cs ih =>
    exact (OldRel_pre k).trans _ _ _ (old_executeOnce env hE k c rs) (ih _)

/-- non-vacuity: freezing a context stores its variables under the object's identity -/
example : assocGet (ObjId.trans 3)
    (pyFreeze { vars := [("x", .int 1)] } (.trans { id := 3, source := "a", post := [{ src := "x >= __old__.x" }] })).old =
      some [("x", .int 1)] :=
  pyFreeze_old { vars := [("x", .int 1)] } (.trans { id := 3, source := "a", post := [{ src := "x >= __old__.x" }] })

end Old

end Sismic.C08
