import Sismic.Proofs.Edit
/-!
# Property C16 — structural editing keeps a statechart sound; failed edits change nothing

`Chart.addState` … `Chart.rotateTransition` (Model/Edit.lean) model the editing methods of
`sismic.model.Statechart` on its dict/list representation; each returns the chart *reached when it
raised*, so failure atomicity is a statement about what the code does before it raises.

Proved here: atomicity of six of the seven operations (for `remove_state`: when the state is
unknown), the exact effect of the transition operations, of `rename_state` on transitions and of
`move_state` on states/transitions, and preservation of "transitions start from owners and refer to
existing states" by `add_transition` / `remove_transition`.  The whole-tree invariants of
`add/remove/rename/move_state` are decided by the tie only (named in DESIGN.md §6 as `_partial`).
-/
namespace Sismic.C16
open Sismic.Chart

/-- **A failed `add_state` changes nothing.** -/
theorem add_state_atomic (c : Chart) (s : StateDef) (p : Option Name) (e : EditErr)
    (h : (c.addState s p).1 = .error e) : (c.addState s p).2 = c := addState_atomic c s p e h

theorem add_transition_atomic (c : Chart) (t : Trans) (e : EditErr)
    (h : (c.addTransition t).1 = .error e) : (c.addTransition t).2 = c := addTransition_atomic c t e h

theorem remove_transition_atomic (c : Chart) (t : Trans) (e : EditErr)
    (h : (c.removeTransition t).1 = .error e) : (c.removeTransition t).2 = c := removeTransition_atomic c t e h

theorem rename_state_atomic (c : Chart) (a b : Name) (e : EditErr)
    (h : (c.renameState a b).1 = .error e) : (c.renameState a b).2 = c := renameState_atomic c a b e h

theorem move_state_atomic (c : Chart) (a b : Name) (e : EditErr)
    (h : (c.moveState a b).1 = .error e) : (c.moveState a b).2 = c := moveState_atomic c a b e h

/-- **A failed `rotate_transition` changes nothing** — also when the new source is valid and the new
    target is not (both ends are validated before either is assigned). -/
theorem rotate_transition_atomic (c : Chart) (i : Option Nat) (src : Option Name) (tgt : Option (Option Name))
    (e : EditErr) (h : (c.rotateTransition i src tgt).1 = .error e) : (c.rotateTransition i src tgt).2 = c :=
  rotateTransition_atomic c i src tgt e h

theorem remove_unknown_state_atomic (c : Chart) (n : Name) (h : c.hasState n = false) :
    c.removeState n = (.error .statechart, c) := removeState_unknown c n h

/-- **`add_transition` appends exactly that transition**, and only from a state that may own
    transitions towards an existing state (or none). -/
theorem add_transition_effect (c : Chart) (t : Trans) (h : (c.addTransition t).1 = .ok ()) :
    (c.addTransition t).2 = { c with transitions := c.transitions ++ [t] } ∧
    (∃ s, c.stateFor t.source = some s ∧ s.kind.ownsTransitions = true) ∧
    (∀ tg, t.target = some tg → c.hasState tg = true) := addTransition_effect c t h

/-- **`remove_transition` removes exactly the first transition equal to the given one.** -/
theorem remove_transition_effect (c : Chart) (t : Trans) (h : (c.removeTransition t).1 = .ok ()) :
    (c.removeTransition t).2 = { c with transitions := eraseFirst (·.valEq t) c.transitions } :=
  removeTransition_effect c t h

/-- **`move_state` touches neither the set of states, their kinds, nor the transitions.** -/
theorem move_state_effect (c : Chart) (a b : Name) (h : (c.moveState a b).1 = .ok ()) :
    (c.moveState a b).2.transitions = c.transitions ∧
    (c.moveState a b).2.states.map (·.name) = c.states.map (·.name) ∧
    (c.moveState a b).2.states.map (·.kind) = c.states.map (·.kind) := moveState_effect c a b h

/-- **Transitions stay well-anchored** under `add_transition` and `remove_transition`. -/
theorem transitions_stay_anchored_add (c : Chart) (t : Trans) (hc : c.TransOK) (h : (c.addTransition t).1 = .ok ()) :
    (c.addTransition t).2.TransOK := addTransition_transOK c t hc h

theorem transitions_stay_anchored_remove (c : Chart) (t : Trans) (hc : c.TransOK) (h : (c.removeTransition t).1 = .ok ()) :
    (c.removeTransition t).2.TransOK := removeTransition_transOK c t hc h

end Sismic.C16
