import Sismic.Proofs.Edit
import Sismic.Proofs.EditInv
import Sismic.Proofs.EditTree
import Sismic.Proofs.EditRefs
import Sismic.Proofs.EditValid
import Sismic.Proofs.EditAddIff
import Sismic.Proofs.EditAcyclic
import Sismic.Proofs.EditRemove
import Sismic.Props.C02
/-!
# Property C16 — structural editing keeps a statechart sound; failed edits change nothing

`Chart.addState` … `Chart.rotateTransition` (Model/Edit.lean) model the editing methods of
`sismic.model.Statechart` on its dict/list representation; each returns the chart *reached when it
raised*, so failure atomicity is a statement about what the code does before it raises.

Proved here: atomicity of six of the seven operations (for `remove_state`: when the state is
unknown), the exact effect of the transition operations, of `rename_state` on transitions and of
`move_state` on states/transitions, and — for **all seven** operations, whether they succeed or
raise, and for every sequence of them starting from an empty `Statechart` — preservation of
"every transition starts from a state that may own transitions and refers to existing states"
(`TransOK`, the part of validity that makes `Interpreter` lookups total) and of the mutual
consistency of the three dictionaries `_states`, `_parent`, `_children` (`Tidy`: no duplicate
keys, keys are exactly the states, `x ∈ children(p) ⇔ parent(x) = p`, no repetition among
children, at most one root, nobody is its own parent), and of "no `initial` of a compound state
and no `memory` of a history state dangles" (`RefsOK`: `remove_state` with its cascade,
`move_state` and `rename_state` reset or rewrite the references; `add_state` is the one way to
bring a dangling reference in, and does so only if the client hands it one), and of
**`validate()` itself**: on a statechart with consistent dictionaries `validate()` passes iff every
`initial` is a child of its compound state and every `memory` another child of the history state's
parent (`validate_iff`), and `remove_state` (cascade included, also when it raises half-way),
`move_state`, `rename_state`, the transition operations, and `add_state` of a state without
`initial` / `memory` keep that true — so does every session of them.  And the statechart stays **one
tree**: the parent relation stays acyclic (`Ranked`: a rank decreases from every state to its
parent; with the consistency above — one root, every state a child of its parent — that is a
tree) under all seven operations and every session; for `move_state` this is exactly what its check
`new_parent in [name] + descendants_for(name)` is for, `descendants_for` (breadth-first, as the code
computes it) being complete on a consistent acyclic statechart (DESIGN.md §7).  And the effect of
`remove_state` is exactly the documented one: the subtree of the state and the transitions touching
it disappear, nothing else changes (`remove_state_removes_exactly_the_subtree`).
-/
namespace Sismic.C16
open Sismic.Chart

/-- **A failed `add_state` changes nothing.** -/
theorem add_state_atomic (c : Chart) (s : StateDef) (p : Option Name) (e : EditErr)
    (h : (c.addState s p).1 = .error e) : (c.addState s p).2 = c := addState_atomic c s p e h

theorem add_transition_atomic (c : Chart) (t : Trans) (e : EditErr)
    (h : (c.addTransition t).1 = .error e) : (c.addTransition t).2 = c := addTransition_atomic c t e h

theorem remove_transition_atomic (c : Chart) (t : Trans) (e : EditErr)
    (h : (c.removeTransition t).1 = .error e) : (c.removeTransition t).2 = c := removeTransition_atomic c t e h

theorem rename_state_atomic (c : Chart) (a b : Name) (e : EditErr)
    (h : (c.renameState a b).1 = .error e) : (c.renameState a b).2 = c := renameState_atomic c a b e h

theorem move_state_atomic (c : Chart) (a b : Name) (e : EditErr)
    (h : (c.moveState a b).1 = .error e) : (c.moveState a b).2 = c := moveState_atomic c a b e h

/-- **A failed `rotate_transition` changes nothing** — also when the new source is valid and the new
    target is not (both ends are validated before either is assigned). -/
theorem rotate_transition_atomic (c : Chart) (i : Option Nat) (src : Option Name) (tgt : Option (Option Name))
    (e : EditErr) (h : (c.rotateTransition i src tgt).1 = .error e) : (c.rotateTransition i src tgt).2 = c :=
  rotateTransition_atomic c i src tgt e h

theorem remove_unknown_state_atomic (c : Chart) (n : Name) (h : c.hasState n = false) :
    c.removeState n = (.error .statechart, c) := removeState_unknown c n h

/-- **`add_transition` appends exactly that transition**, and only from a state that may own
    transitions towards an existing state (or none). -/
theorem add_transition_effect (c : Chart) (t : Trans) (h : (c.addTransition t).1 = .ok ()) :
    (c.addTransition t).2 = { c with transitions := c.transitions ++ [t] } ∧
    (∃ s, c.stateFor t.source = some s ∧ s.kind.ownsTransitions = true) ∧
    (∀ tg, t.target = some tg → c.hasState tg = true) := addTransition_effect c t h

/-- **`remove_transition` removes exactly the first transition equal to the given one.** -/
theorem remove_transition_effect (c : Chart) (t : Trans) (h : (c.removeTransition t).1 = .ok ()) :
    (c.removeTransition t).2 = { c with transitions := eraseFirst (·.valEq t) c.transitions } :=
  removeTransition_effect c t h

/-- **`move_state` touches neither the set of states, their kinds, nor the transitions.** -/
theorem move_state_effect (c : Chart) (a b : Name) (h : (c.moveState a b).1 = .ok ()) :
    (c.moveState a b).2.transitions = c.transitions ∧
    (c.moveState a b).2.states.map (·.name) = c.states.map (·.name) ∧
    (c.moveState a b).2.states.map (·.kind) = c.states.map (·.kind) := moveState_effect c a b h

/-- **Transitions stay well-anchored** under `add_transition` and `remove_transition`. -/
theorem transitions_stay_anchored_add (c : Chart) (t : Trans) (hc : c.TransOK) (h : (c.addTransition t).1 = .ok ()) :
    (c.addTransition t).2.TransOK := addTransition_transOK c t hc h

theorem transitions_stay_anchored_remove (c : Chart) (t : Trans) (hc : c.TransOK) (h : (c.removeTransition t).1 = .ok ()) :
    (c.removeTransition t).2.TransOK := removeTransition_transOK c t hc h

theorem transitions_stay_anchored_add_state (c : Chart) (s : StateDef) (p : Option Name) (hc : c.TransOK)
    (h : (c.addState s p).1 = .ok ()) : (c.addState s p).2.TransOK := addState_transOK c s p hc h

/-- `remove_state` drops the transitions from and to the removed subtree, so none dangles -/
theorem transitions_stay_anchored_remove_state (c : Chart) (n : Name) (hc : c.TransOK)
    (h : (c.removeState n).1 = .ok ()) : (c.removeState n).2.TransOK := removeState_transOK c n hc h

/-- `rename_state` rewrites both ends of every transition along with the state -/
theorem transitions_stay_anchored_rename (c : Chart) (a b : Name) (hc : c.TransOK)
    (h : (c.renameState a b).1 = .ok ()) : (c.renameState a b).2.TransOK := renameState_transOK c a b hc h

theorem transitions_stay_anchored_move (c : Chart) (a b : Name) (hc : c.TransOK)
    (h : (c.moveState a b).1 = .ok ()) : (c.moveState a b).2.TransOK := moveState_transOK c a b hc h

/-- `rotate_transition` only accepts a new source that may own transitions and a new target that exists -/
theorem transitions_stay_anchored_rotate (c : Chart) (i : Option Nat) (src : Option Name) (tgt : Option (Option Name))
    (hc : c.TransOK) (h : (c.rotateTransition i src tgt).1 = .ok ()) :
    (c.rotateTransition i src tgt).2.TransOK := rotateTransition_transOK c i src tgt hc h

/-- **Whatever a client does with the editing API** — any sequence of the seven operations, each
    succeeding or raising `StatechartError` and being caught — **transitions stay anchored.** -/
theorem any_edit_session_keeps_transitions_anchored (ops : List EditOp) (c : Chart) (hc : c.TransOK) :
    (c.applyEdits ops).TransOK := applyEdits_transOK ops c hc

/-- …in particular in every statechart built from `Statechart(name)` by the API alone. -/
theorem built_charts_have_anchored_transitions (nm : String) (ops : List EditOp) :
    (({ name := nm } : Chart).applyEdits ops).TransOK :=
  applyEdits_transOK ops _ (by intro t ht; simp at ht)

/-! ### parent / children stay mutually consistent -/

theorem dictionaries_stay_consistent_add (c : Chart) (s : StateDef) (p : Option Name) (ht : Tidy c)
    (h : (c.addState s p).1 = .ok ()) : Tidy (c.addState s p).2 := addState_tidy c s p ht h

/-- also when the recursive removal raises half-way -/
theorem dictionaries_stay_consistent_remove (c : Chart) (n : Name) (ht : Tidy c) : Tidy (c.removeState n).2 :=
  removeState_tidy c n ht

theorem dictionaries_stay_consistent_rename (c : Chart) (a b : Name) (ht : Tidy c)
    (h : (c.renameState a b).1 = .ok ()) : Tidy (c.renameState a b).2 := renameState_tidy c a b ht h

theorem dictionaries_stay_consistent_move (c : Chart) (a b : Name) (ht : Tidy c)
    (h : (c.moveState a b).1 = .ok ()) : Tidy (c.moveState a b).2 := moveState_tidy c a b ht h

/-- **Whatever a client does with the editing API** — any sequence of the seven operations, each
    succeeding or raising — **`_states`, `_parent` and `_children` stay mutually consistent**: every
    state has exactly one entry in `_parent` and one in `_children` and nothing else has; `x` is in
    the children list of `p` iff `p` is the parent of `x`; no list mentions a state twice; at most
    one state has no parent; nobody is its own parent. -/
theorem any_edit_session_keeps_dictionaries_consistent (ops : List EditOp) (c : Chart) (ht : Tidy c) :
    Tidy (c.applyEdits ops) := applyEdits_tidy ops c ht

/-- …in particular in every statechart built from `Statechart(name)` by the API alone. -/
theorem built_charts_have_consistent_dictionaries (nm : String) (ops : List EditOp) :
    Tidy (({ name := nm, children := [(none, [])] } : Chart).applyEdits ops) :=
  applyEdits_tidy ops _ (empty_tidy nm)

/-! ### no `initial` / `memory` reference dangles -/

/-- **`remove_state` leaves no dangling reference** — the `initial` / `memory` that named the removed
    state or one of its descendants are reset; also when the recursive removal raises half-way. -/
theorem no_reference_dangles_after_remove (c : Chart) (n : Name) (hc : c.RefsOK) : (c.removeState n).2.RefsOK :=
  removeState_refsOK c n hc

/-- `move_state` resets the references to the moved state and touches no other -/
theorem no_reference_dangles_after_move (c : Chart) (a b : Name) (hc : c.RefsOK) (h : (c.moveState a b).1 = .ok ()) :
    (c.moveState a b).2.RefsOK := moveState_refsOK c a b hc h

/-- `rename_state` rewrites the references along with the name -/
theorem no_reference_dangles_after_rename (c : Chart) (a b : Name) (hc : c.RefsOK) (h : (c.renameState a b).1 = .ok ()) :
    (c.renameState a b).2.RefsOK := renameState_refsOK c a b hc h

/-- `add_state` breaks no reference, and brings in those of the new state only -/
theorem no_reference_dangles_after_add (c : Chart) (s : StateDef) (p : Option Name) (hc : c.RefsOK)
    (hs : c.StateRefsIn s) (h : (c.addState s p).1 = .ok ()) : (c.addState s p).2.RefsOK :=
  addState_refsOK c s p hc hs h

/-- **Whatever a client does with the editing API** — any sequence of the seven operations, each
    succeeding or raising — **no `initial` and no `memory` dangles**, as long as the states handed to
    `add_state` refer to states that exist when they are added (or to themselves). -/
theorem any_edit_session_leaves_no_dangling_reference (ops : List EditOp) (c : Chart) (hc : c.RefsOK)
    (hops : c.SessionRefsIn ops) : (c.applyEdits ops).RefsOK := applyEdits_refsOK ops c hc hops

/-! ### `validate()` still passes -/

/-- what `validate()` means on a statechart with consistent dictionaries -/
theorem validate_means (c : Chart) (ht : Tidy c) : c.validate = true ↔ c.SoundRefs := validate_iff c ht

/-- **`remove_state` on a valid statechart leaves a valid statechart** — whatever it removed, and
    also when the recursive removal raised half-way. -/
theorem validate_passes_after_remove (c : Chart) (n : Name) (ht : Tidy c) (hv : c.validate = true) :
    (c.removeState n).2.validate = true := removeState_validate c n ht hv

theorem validate_passes_after_move (c : Chart) (a b : Name) (ht : Tidy c) (hv : c.validate = true)
    (h : (c.moveState a b).1 = .ok ()) : (c.moveState a b).2.validate = true := moveState_validate c a b ht hv h

theorem validate_passes_after_rename (c : Chart) (a b : Name) (ht : Tidy c) (hv : c.validate = true)
    (h : (c.renameState a b).1 = .ok ()) : (c.renameState a b).2.validate = true := renameState_validate c a b ht hv h

/-- `add_state` of a state whose `initial` / `memory` is not set yet -/
theorem validate_passes_after_add (c : Chart) (s : StateDef) (p : Option Name) (ht : Tidy c) (hv : c.validate = true)
    (hb : s.Bare) (h : (c.addState s p).1 = .ok ()) : (c.addState s p).2.validate = true :=
  addState_validate c s p ht hv hb h

/-- **Whatever a client does with the editing API** to a valid statechart — any sequence of the seven
    operations, each succeeding or raising, the added states coming without `initial` / `memory` —
    **`validate()` passes afterwards.** -/
theorem any_edit_session_keeps_validate_passing (ops : List EditOp) (c : Chart) (ht : Tidy c) (hv : c.validate = true)
    (hops : ∀ op ∈ ops, op.Bare) : (c.applyEdits ops).validate = true := applyEdits_validate ops c ht hv hops

/-- **`add_state` and `validate()`, exactly.**  After a successful `add_state(s, p)` on a consistent
    statechart on which `validate()` passes, `validate()` passes **iff** `s` fits under `p`: a compound
    state comes without `initial` (it has no child yet), a history state without `memory` or with a
    memory that already is another child of `p`.  The hypothesis of `validate_passes_after_add` is thus
    weakened to the condition that is necessary as well. -/
theorem validate_after_add_iff (c : Chart) (s : StateDef) (p : Option Name) (ht : Tidy c) (hv : c.validate = true)
    (h : (c.addState s p).1 = .ok ()) : (c.addState s p).2.validate = true ↔ s.FitsUnder c p :=
  addState_validate_iff c s p ht hv h

/-- **Any session whose added states fit where they are put** (decided against the statechart each
    `add_state` is applied to; bare states always fit) **keeps `validate()` passing** — every
    operation succeeding or raising. -/
theorem any_fitting_edit_session_keeps_validate_passing (ops : List EditOp) (c : Chart) (ht : Tidy c)
    (hv : c.validate = true) (hops : FitsSession ops c) : (c.applyEdits ops).validate = true :=
  applyEdits_validate_fits ops c ht hv hops

/-! non-vacuity: on the example statechart of C02, a deep history state remembering `y` fits under `p1`
(and is accepted there), a history state remembering a state of another region does not, and a compound
state that arrives with an `initial` never does -/
example : ({ name := "h2", kind := .deep, memory := some "y" } : StateDef).FitsUnder C02.exChart (some "p1") := by
  constructor
  · intro h; cases h
  · intro _ m hm
    cases hm
    exact ⟨by decide, "p1", rfl, by decide⟩
example : (C02.exChart.addState { name := "h2", kind := .deep, memory := some "y" } (some "p1")).1 = .ok () := by rfl
example : ¬ ({ name := "h2", kind := .deep, memory := some "u" } : StateDef).FitsUnder C02.exChart (some "p1") := by
  intro h
  obtain ⟨_, par, hp, hm⟩ := h.2 rfl "u" rfl
  cases hp
  revert hm
  decide
example : ¬ ({ name := "k", kind := .compound, initial := some "a" } : StateDef).FitsUnder C02.exChart (some "r") :=
  fun h => by have := h.1 rfl; cases this

/-! ### still one tree -/

/-- **`move_state` cannot close a cycle**: the new parent is outside the subtree that moves — which
    is what `descendants_for`, complete on a consistent acyclic statechart, is asked for. -/
theorem still_a_tree_after_move (c : Chart) (a b : Name) (ht : Tidy c) (hc : c.Ranked) (h : (c.moveState a b).1 = .ok ()) :
    (c.moveState a b).2.Ranked := moveState_ranked c a b ht hc h

theorem still_a_tree_after_add (c : Chart) (s : StateDef) (p : Option Name) (ht : Tidy c) (hc : c.Ranked)
    (h : (c.addState s p).1 = .ok ()) : (c.addState s p).2.Ranked := addState_ranked c s p ht hc h

theorem still_a_tree_after_rename (c : Chart) (a b : Name) (ht : Tidy c) (hc : c.Ranked)
    (h : (c.renameState a b).1 = .ok ()) : (c.renameState a b).2.Ranked := renameState_ranked c a b ht hc h

/-- whatever `remove_state` leaves, also when it raises half-way -/
theorem still_a_tree_after_remove (c : Chart) (n : Name) (ht : Tidy c) (hc : c.Ranked) : (c.removeState n).2.Ranked :=
  (removeState_rankedE c n (hc.rankedE ht)).ranked

/-- **Whatever a client does with the editing API** — any sequence of the seven operations, each
    succeeding or raising — **the parent relation stays acyclic**; together with
    `any_edit_session_keeps_dictionaries_consistent` (one root, children ⇔ parent): still one tree. -/
theorem any_edit_session_keeps_the_tree (ops : List EditOp) (c : Chart) (ht : Tidy c) (hc : c.Ranked) :
    Tidy (c.applyEdits ops) ∧ (c.applyEdits ops).Ranked :=
  ⟨applyEdits_tidy ops c ht, (applyEdits_rankedE ops c ht (hc.rankedE ht)).ranked⟩

/-- …in particular every statechart built from `Statechart(name)` by the API alone is a tree. -/
theorem built_charts_are_trees (nm : String) (ops : List EditOp) :
    (({ name := nm, children := [(none, [])] } : Chart).applyEdits ops).Ranked :=
  (applyEdits_rankedE ops _ (empty_tidy nm) ⟨fun _ => 0, by intro e he; simp at he⟩).ranked

/-! ### what `remove_state` removes -/

/-- **`remove_state(n)` removes its descendants and every transition touching them — and nothing
    else**: afterwards the states are those that were not in the subtree of `n` (`Sub c n`: `n` or a
    descendant), each with the parent it had; the transitions are, in their old order, those whose
    source and target are outside that subtree. -/
theorem remove_state_removes_exactly_the_subtree (c : Chart) (n : Name) (ht : Tidy c) (hc : c.Ranked)
    (h : (c.removeState n).1 = .ok ()) :
    (∀ x, (c.removeState n).2.hasState x = true ↔ (c.hasState x = true ∧ ¬ Sub c n x)) ∧
    (∀ x, ¬ Sub c n x → (c.removeState n).2.parentFor x = c.parentFor x) ∧
    (c.removeState n).2.transitions.Sublist c.transitions ∧
    (∀ t, t ∈ (c.removeState n).2.transitions ↔
      (t ∈ c.transitions ∧ ¬ Sub c n t.source ∧ ∀ tg, t.target = some tg → ¬ Sub c n tg)) := by
  have hw := removeState_without c n ht hc h
  have one : ∀ x, (∀ k ∈ [n], ¬ Sub c k x) ↔ ¬ Sub c n x := by
    intro x
    constructor
    · exact fun hx => hx n (List.mem_singleton.2 rfl)
    · intro hx k hk
      rw [List.mem_singleton] at hk
      rw [hk]; exact hx
  refine ⟨fun x => by rw [hw.states x, one x], fun x hx => hw.parent x ((one x).2 hx), ?_, ?_⟩
  · rw [hw.transitions]; exact List.filter_sublist
  · intro t
    rw [hw.transitions, List.mem_filter, keepOutside_iff, one t.source]
    constructor
    · exact fun ⟨a, b, d⟩ => ⟨a, b, fun tg e => (one tg).1 (d tg e)⟩
    · exact fun ⟨a, b, d⟩ => ⟨a, b, fun tg e => (one tg).2 (d tg e)⟩

/-- **Every well-formed statechart** (W1–W8, duplicate-free dictionaries) **meets the hypotheses of the
    session theorems above**: its dictionaries are consistent, its parent relation is acyclic, and
    `validate()` passes — so after any editing session that adds bare states only it is still a tree
    with consistent dictionaries, anchored transitions and a passing `validate()`. -/
theorem edited_well_formed_statecharts_stay_sound (c : Chart) (h : WFChart c) (hx : tidyExtraB c = true)
    (ops : List EditOp) (hops : ∀ op ∈ ops, op.Bare) :
    Tidy (c.applyEdits ops) ∧ (c.applyEdits ops).Ranked ∧ (c.applyEdits ops).validate = true ∧
      (c.applyEdits ops).TransOK := by
  obtain ⟨ht, hv⟩ := validate_of_wf c h hx
  obtain ⟨r, hr, _⟩ := h.tree.rank
  have hrk : c.Ranked := ⟨r, hr⟩
  have htr : c.TransOK := by
    intro t hm
    obtain ⟨hs, htg⟩ := h.transitions t hm
    refine ⟨?_, htg⟩
    simp only [Chart.hasState, Option.isSome_iff_exists] at hs
    obtain ⟨sd, hsd⟩ := hs
    refine ⟨sd, hsd, ?_⟩
    exact h.sourceKind t hm sd.kind (by simp [Chart.kindOf, hsd])
  exact ⟨applyEdits_tidy ops c ht, (any_edit_session_keeps_the_tree ops c ht hrk).2,
    applyEdits_validate ops c ht hv hops, applyEdits_transOK ops c htr⟩

/-! non-vacuity: the example statechart of C02 is acyclic -/
example : C02.exChart.Ranked := by
  obtain ⟨r, hr, _⟩ := (wfB_sound C02.exChart (by decide)).tree.rank
  exact ⟨r, hr⟩

/-! non-vacuity: the example statechart of C02 is tidy and valid -/
example : Tidy C02.exChart ∧ C02.exChart.validate = true :=
  ⟨tidy_of_wf _ (wfB_sound _ (by decide)) (by decide), by decide⟩

/-! non-vacuity: the example statechart of C02 (compound states with `initial`, a history state with
`memory`) has no dangling reference; removing the remembered state and moving its sibling is a session that qualifies -/
example : C02.exChart.RefsOK := refsOKB_sound _ (by decide)
example : C02.exChart.SessionRefsIn [.removeState "x", .moveState "y" "p2"] := ⟨trivial, trivial, trivial⟩

end Sismic.C16
