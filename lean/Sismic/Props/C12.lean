import Sismic.Proofs.Import
import Sismic.Proofs.ImportErr
/-!
# Property C12 — YAML import accepts only structurally sound statecharts

`importYamlData` models `import_from_yaml` after the YAML text was loaded (`Data`): schema
validation (`schemaValidate`, the semantics of the `schema` library on the shapes `SCHEMA` uses),
`import_from_dict` (`importDict`: work list, `add_state`, `add_transition`) and `validate()`.

Proved: whatever is accepted is `Sound` (every rule listed in the property), nothing of the
document is dropped on the way, the named faults are rejected with `StatechartError`, and
**no document at all** makes the import raise anything but `StatechartError`
(`never_another_exception`: the schema makes every uncaught access of `import_from_dict` safe,
and the work list terminates).
-/
namespace Sismic.C12

/-- **Accepted ⇒ sound.**  Unique state names; every state has one parent entry; a parent is a
    composite state registered before its child, compound if the child is a history state; one
    root, not a history state (one tree); children lists list children; transitions start from
    states that may own transitions and point to existing states; `validate()` holds. -/
theorem accepted_is_sound (fuel : Nat) (d : Data) (c : Chart) (h : importYamlData fuel d = .ok c) :
    Sound c := by
  unfold importYamlData at h
  split at h
  · exact absurd h (by simp)
  · exact importDict_sound _ _ c h

/-- `validate()`, spelled out: **every declared initial state is a direct child** … -/
theorem initial_is_direct_child (c : Chart) (h : Sound c) (s : StateDef) (hs : s ∈ c.states)
    (hk : s.kind = .compound) (i : Name) (hi : s.initial = some i) :
    c.hasState i = true ∧ c.parentFor i = some s.name := by
  have hv := h.valid
  simp only [Chart.validate, Bool.and_eq_true, List.all_eq_true] at hv
  have := hv.1 s hs
  simp only [hk, beq_self_eq_true, if_true, hi, Bool.and_eq_true] at this
  exact ⟨this.1, h.tree.children s.name i (by simpa using this.2)⟩

/-- … **and every history memory a sibling other than the history state itself**. -/
theorem memory_is_other_sibling (c : Chart) (h : Sound c) (s : StateDef) (hs : s ∈ c.states)
    (hk : s.kind.isHistory = true) (m : Name) (hm : s.memory = some m) :
    m ≠ s.name ∧ c.hasState m = true ∧ ∃ p, c.parentFor s.name = some p ∧ c.parentFor m = some p := by
  have hv := h.valid
  simp only [Chart.validate, Bool.and_eq_true, List.all_eq_true] at hv
  have := hv.2 s hs
  simp only [hk, if_true, hm, Bool.and_eq_true, bne_iff_ne, ne_eq] at this
  obtain ⟨⟨h1, h2⟩, h3⟩ := this
  refine ⟨h1, h2, ?_⟩
  cases hp : c.parentFor s.name with
  | none => rw [hp] at h3; exact absurd h3 (by simp)
  | some p =>
    rw [hp] at h3
    exact ⟨p, rfl, h.tree.children p m (by simpa using h3)⟩

/-- **Never another exception type.**  For every loaded document `d` — valid, faulty in any
    combination of ways, or arbitrary — the outcome is a statechart or `StatechartError`. -/
theorem never_another_exception (fuel : Nat) (d : Data) :
    (∃ c, importYamlData fuel d = .ok c) ∨ importYamlData fuel d = .error .statechart := by
  have h := importYamlData_not_other fuel d
  cases hr : importYamlData fuel d with
  | ok c => exact Or.inl ⟨c, rfl⟩
  | error e =>
    cases e with
    | statechart => exact Or.inr rfl
    | other => exact absurd hr h

/-- **A schema violation is a `StatechartError`** (unknown keys, wrong types, unknown `type` or
    `priority`, missing `name`/`root state`: whatever `schemaValidate` rejects). -/
theorem schema_violation_is_statechart_error (fuel : Nat) (d : Data) (h : schemaValidate fuel d = none) :
    importYamlData fuel d = .error .statechart := by
  simp [importYamlData, h]

/-- unknown keys are schema violations, at every dict of the schema -/
theorem unknown_key_rejected (spec : List (String × Bool × (Data → V Data))) (m : List (String × Data))
    (k : String) (v : Data) (hk : (k, v) ∈ m) (hs : spec.find? (fun s => s.1 == k) = none) :
    vDict spec (.map m) = none := by
  have hfold : ∀ (l : List (String × Data)) (acc : V (List (String × Data))),
      (k, v) ∈ l ∨ acc = none → l.foldl (vDictStep spec) acc = none := by
    intro l
    induction l with
    | nil => intro acc h; rcases h with h | h; exact absurd h (by simp); exact h
    | cons p ps ih =>
      intro acc h
      simp only [List.foldl_cons]
      apply ih
      rcases h with h | h
      · rcases List.mem_cons.mp h with h | h
        · right
          cases acc with
          | none => rfl
          | some l => subst h; simp [vDictStep, Option.bind, hs]
        · exact Or.inl h
      · right; rw [h]; rfl
  simp only [vDict]
  rw [hfold m (some []) (Or.inl hk)]

/-- **Both `states` and `parallel states`** (non-empty) in one state: `StatechartError`. -/
theorem both_child_kinds_rejected (m : List (String × Data)) (name : String) (a b : Data)
    (hn : (Data.map m).get? "name" = some (.str name))
    (ha : (Data.map m).get? "states" = some a) (hb : (Data.map m).get? "parallel states" = some b)
    (hat : a.truthy = true) (hbt : b.truthy = true)
    (he : getStripped (.map m) "on entry" ≠ .error ()) (hx : getStripped (.map m) "on exit" ≠ .error ()) :
    importState (.map m) = .error .statechart := by
  have e1 : ∃ v, stripField (.map m) "on entry" = .ok v := by
    unfold stripField
    cases h1 : getStripped (.map m) "on entry" with
    | error e => exact absurd h1 he
    | ok v => exact ⟨v, rfl⟩
  have e2 : ∃ v, stripField (.map m) "on exit" = .ok v := by
    unfold stripField
    cases h2 : getStripped (.map m) "on exit" with
    | error e => exact absurd h2 hx
    | ok v => exact ⟨v, rfl⟩
  obtain ⟨v1, e1⟩ := e1
  obtain ⟨v2, e2⟩ := e2
  simp [importState, hn, e1, e2, truthyAt, ha, hb, hat, hbt]

/-- whatever `_import_state_from_dict` raises surfaces as `StatechartError` -/
theorem state_errors_are_statechart_errors (f : Nat) (d : Data) (par : Option Name)
    (todo : List (Data × Option Name)) (sts : List (StateDef × Option Name)) (ts : List Trans) (e : IOErr)
    (h : importState d = .error e) :
    importLoop (f + 1) (todo ++ [(d, par)]) sts ts = .error .statechart := by
  unfold importLoop
  have : (todo ++ [(d, par)]).getLast? = some (d, par) := by simp
  rw [this]
  simp only [h]

/-- **Nothing is dropped**: an accepted chart contains exactly the states and transitions the
    work list collected, in that order (so a rule broken anywhere in the document is seen by
    `add_state` / `add_transition` / `validate`). -/
theorem all_registered (c0 c : Chart) (sts : List (StateDef × Option Name)) (ts : List Trans)
    (h : buildChart c0 sts ts = .ok c) :
    c.states = c0.states ++ sts.map (·.1) ∧
    c.transitions.map (fun t => { t with id := 0 }) =
      (c0.transitions ++ ts).map (fun t => { t with id := 0 }) := by
  unfold buildChart at h
  split at h
  · exact absurd h (by simp)
  next c1 h1 =>
  split at h
  · exact absurd h (by simp)
  next c2 h2 =>
  split at h
  · simp only [Except.ok.injEq] at h
    subst h
    have s1 : ∀ (l : List (StateDef × Option Name)) (a b : Chart),
        l.foldl (fun (acc : Except IOErr Chart) p => acc.bind (fun c => addStateStep c p)) (.ok a) = .ok b →
        b.states = a.states ++ l.map (·.1) ∧ b.transitions = a.transitions := by
      intro l
      induction l with
      | nil => intro a b hab; simp only [List.foldl_nil, Except.ok.injEq] at hab; subst hab; simp
      | cons p ps ih =>
        intro a b hab
        simp only [List.foldl_cons] at hab
        have e0 : ((Except.ok a : Except IOErr Chart).bind fun c => addStateStep c p) = addStateStep a p := rfl
        rw [e0] at hab
        unfold addStateStep at hab
        split at hab
        · next u c' heq =>
          have hok : (a.addState p.1 p.2).1 = .ok () := by rw [heq]
          obtain ⟨_, hst, _, _, htr, _⟩ := Chart.addState_effect a p.1 p.2 hok
          have e2 : (a.addState p.1 p.2).2 = c' := by rw [heq]
          rw [e2] at hst htr
          obtain ⟨i1, i2⟩ := ih c' b hab
          rw [i1, i2, hst, htr]
          simp
        · rw [foldl_bind_error] at hab; exact absurd hab (by simp)
    have s2 : ∀ (l : List Trans) (a b : Chart),
        l.foldl (fun (acc : Except IOErr Chart) t => acc.bind (fun c => addTransStep c t)) (.ok a) = .ok b →
        b.states = a.states ∧
        b.transitions.map (fun t => { t with id := 0 }) = (a.transitions ++ l).map (fun t => { t with id := 0 }) := by
      intro l
      induction l with
      | nil => intro a b hab; simp only [List.foldl_nil, Except.ok.injEq] at hab; subst hab; simp
      | cons t ts ih =>
        intro a b hab
        simp only [List.foldl_cons] at hab
        have e0 : ((Except.ok a : Except IOErr Chart).bind fun c => addTransStep c t) = addTransStep a t := rfl
        rw [e0] at hab
        unfold addTransStep at hab
        split at hab
        · next u c' heq =>
          have hok : (a.addTransition { t with id := a.transitions.length }).1 = .ok () := by rw [heq]
          obtain ⟨he, _, _⟩ := Chart.addTransition_effect a _ hok
          have e2 : (a.addTransition { t with id := a.transitions.length }).2 = c' := by rw [heq]
          rw [e2] at he
          obtain ⟨i1, i2⟩ := ih c' b hab
          rw [i1, i2, he]
          simp
        · rw [foldl_bind_error] at hab; exact absurd hab (by simp)
    obtain ⟨a1, a2⟩ := s1 sts c0 c1 h1
    obtain ⟨b1, b2⟩ := s2 ts c1 c2 h2
    rw [b1, a1, b2, a2]
    exact ⟨rfl, rfl⟩
  · exact absurd h (by simp)

end Sismic.C12
