import Sismic.Proofs.C07
import Sismic.Proofs.Equiv
import Sismic.Model.Py
/-!
# Property C07 — execution is deterministic and independent of declaration order

`execute_once` is a function of (chart, interpreter state, clock value, evaluator) in the model, and
the tie (`./check C07`: permuted declaration orders, several `PYTHONHASHSEED`s, same model run)
shows the implementation is that function.  Declaration order enters the model through three
lists: `Chart.transitions`, the children lists and (via set iteration) the configuration and the
history memory.  The theorems below show that each place where the interpreter turns such a list
into an *order of execution* sorts it by a key that is injective on the elements present, so that
the result depends on the elements only.

**The whole run** (`declaration_order_free`, `…_run`): two interpreters whose statecharts differ
only in the order in which states and transitions were declared or registered (`ChartPerm`:
the lists of states, parent entries, children and transitions are permutations of each other), started
from related states, return the same macro step — consumed event, transitions, exit/entry order,
sent events — and reach related states (equal configuration, queues, times, context, outside world;
history memories equal as maps), or fail with the same exception; by a relational Hoare logic over
the interpreter (`Proofs/Equiv.lean`) on top of the invariance of every tree query and planning
function (`Proofs/ChartPerm.lean`, `Proofs/SelectPerm.lean`).  Hypotheses: the chart is
well-formed (`WFChart`) and the evaluator does not read the interpreter's history memory
(`MemBlind`, proved for the modelled `PythonEvaluator`).  Not compared: the order in which guards
of one priority class were evaluated (it follows the declaration order; guards have no side
effects).
-/
namespace Sismic.C07

/-- **Which transitions fire does not depend on the order they were declared in.** -/
theorem selection_order_free (c : Chart) (hT : TreeOK c) (ts' : List Trans) (hp : ts'.Perm c.transitions)
    (cfg : List Name) (evName : Option String) (ok : Trans → Bool → Bool) (t : Trans) :
    t ∈ (selectTransitions { c with transitions := ts' } cfg evName ok).selected ↔
    t ∈ (selectTransitions c cfg evName ok).selected := by
  have hT' : TreeOK { c with transitions := ts' } := ⟨hT.rank⟩
  rw [select_iff_fires _ cfg evName ok hT' t, select_iff_fires c cfg evName ok hT t]
  have en : ∀ u, Enabled { c with transitions := ts' } cfg evName ok u ↔ Enabled c cfg evName ok u := by
    intro u; simp only [Enabled]; rw [hp.mem_iff]
  have co : ∀ u, Competes { c with transitions := ts' } cfg evName ok u ↔ Competes c cfg evName ok u := by
    intro u; simp only [Competes, en]
  have an : ∀ a b, Anc { c with transitions := ts' } a b ↔ Anc c a b := by
    intro a b
    constructor
    · intro h
      induction h with
      | base h => exact Anc.base h
      | step h _ ih => exact Anc.step h ih
    · intro h
      induction h with
      | base h => exact Anc.base h
      | step h _ ih => exact Anc.step h ih
  simp only [Fires, co, an]

/-- **The order in which the fired transitions are processed does not depend on the order they
    were found in**: when `_sort_transitions` accepts both lists, it returns the same list. -/
theorem processing_order_free (c : Chart) (ts ts' r r' : List Trans) (hp : ts.Perm ts')
    (h : sortTransitions c ts = .ok r) (h' : sortTransitions c ts' = .ok r') : r = r' := by
  by_cases hlen : ts.length ≤ 1
  · have hlen' : ts'.length ≤ 1 := hp.length_eq ▸ hlen
    simp only [sortTransitions, hlen, hlen', if_true, Except.ok.injEq] at h h'
    subst h; subst h'
    match ts, ts', hp, hlen with
    | [], _, hp, _ => exact hp.nil_eq
    | [a], _, hp, _ => exact (List.perm_singleton.mp hp.symm).symm
  · have hlen' : ¬ ts'.length ≤ 1 := hp.length_eq ▸ hlen
    have anti := sortTransitions_anti c ts r h (by omega)
    unfold sortTransitions at h h'
    rw [if_neg hlen] at h
    rw [if_neg hlen'] at h'
    split at h
    · exact absurd h (by simp)
    split at h
    · exact absurd h (by simp)
    split at h'
    · exact absurd h' (by simp)
    split at h'
    · exact absurd h' (by simp)
    simp only [Except.ok.injEq] at h h'
    subst h; subst h'
    exact isort_canonical (leTrans c)
      (fun a b => leRevDepthName_total c _ _) (fun a b d => leRevDepthName_trans c _ _ _) ts ts' anti hp

/-- **The configuration view, the restore order of a deep history** (both sorted by depth, name)
    depend on the set of names only. -/
theorem depth_name_order_free (c : Chart) (l l' : List Name) (hp : l.Perm l') :
    isort c.leDepthName l = isort c.leDepthName l' :=
  isort_canonical _ (leDepthName_total c) (leDepthName_trans c) l l' (fun a b _ _ => leDepthName_anti c a b) hp

/-- **The exit order, the order in which leaves are stabilised** (deepest first, then by name). -/
theorem revdepth_name_order_free (c : Chart) (l l' : List Name) (hp : l.Perm l') :
    isort c.leRevDepthName l = isort c.leRevDepthName l' :=
  isort_canonical _ (leRevDepthName_total c) (leRevDepthName_trans c) l l' (fun a b _ _ => leRevDepthName_anti c a b) hp

/-- **The default entry order of the children of an orthogonal state** (by name). -/
theorem name_order_free (l l' : List Name) (hp : l.Perm l') : isort leName l = isort leName l' :=
  isort_canonical _ leName_total leName_trans l l' (fun a b _ _ => leName_anti a b) hp

/-- hence: the states a transition exits, and their order, depend on the *set* of descendants of
    the exited subtree, not on the order `descendants_for` lists them in -/
theorem exit_list_order_free (c : Chart) (cfg ds ds' : List Name) (hp : ds.Perm ds') :
    (isort c.leRevDepthName ds).filter cfg.contains = (isort c.leRevDepthName ds').filter cfg.contains := by
  rw [revdepth_name_order_free c ds ds' hp]

variable {σ ω : Type} {env env' : Env σ ω}

/-- **One call.**  From related states, `execute_once` on the two statecharts ends the same way:
    both return the same result and reach related states, or both raise the same exception. -/
theorem declaration_order_free (h : EnvPerm env env') (hE : MemBlind env.E) (hw : WFChart env.chart)
    (clock : Int) (rs₁ rs₂ : RS σ ω) (hr : Rel rs₁ rs₂) :
    (∃ r rs₁' rs₂', executeOnce env clock rs₁ = (.ok r, rs₁') ∧ executeOnce env' clock rs₂ = (.ok r, rs₂') ∧
      Rel rs₁' rs₂') ∨
    (∃ e rs₁' rs₂', executeOnce env clock rs₁ = (.error e, rs₁') ∧ executeOnce env' clock rs₂ = (.error e, rs₂')) := by
  rcases (simb_executeOnce h hE hw clock).cases rs₁ rs₂ hr with ⟨a₁, a₂, r₁, r₂, h1, h2, rfl, h4⟩ | h'
  · exact Or.inl ⟨a₁, r₁, r₂, h1, h2, h4⟩
  · exact Or.inr h'

/-- what `Rel` says, spelled out -/
theorem rel_spelled_out (rs₁ rs₂ : RS σ ω) (h : Rel rs₁ rs₂) :
    rs₂.st.config = rs₁.st.config ∧ rs₂.st.intQ = rs₁.st.intQ ∧ rs₂.st.extQ = rs₁.st.extQ ∧
    rs₂.st.time = rs₁.st.time ∧ rs₂.st.ctx = rs₁.st.ctx ∧ rs₂.st.sentEvents = rs₁.st.sentEvents ∧
    rs₂.st.entryTime = rs₁.st.entryTime ∧ rs₂.st.idleTime = rs₁.st.idleTime ∧
    rs₂.st.initialized = rs₁.st.initialized ∧ rs₂.world = rs₁.world ∧
    MemEq rs₁.st.memory rs₂.st.memory := by
  obtain ⟨m, e, rfl, hm⟩ := h
  exact ⟨rfl, rfl, rfl, rfl, rfl, rfl, rfl, rfl, rfl, rfl, hm⟩

/-- a run: calls of `execute_once` with their outcomes, up to and including the first exception -/
inductive Run (env : Env σ ω) : List Int → RS σ ω → List (Except Err (Option MacroStep)) → Prop
  | nil (rs) : Run env [] rs []
  | ok {t ts rs rs1 r out} : executeOnce env t rs = (.ok r, rs1) → Run env ts rs1 out → Run env (t :: ts) rs (.ok r :: out)
  | error {t ts rs rs1 e} : executeOnce env t rs = (.error e, rs1) → Run env (t :: ts) rs [.error e]

/-- **Whole runs**: the same inputs produce the same sequence of macro steps, ending — if at all —
    with the same exception at the same step. -/
theorem declaration_order_free_run (h : EnvPerm env env') (hE : MemBlind env.E) (hw : WFChart env.chart)
    (clocks : List Int) (rs₁ : RS σ ω) (out : List (Except Err (Option MacroStep))) (hrun : Run env clocks rs₁ out) :
    ∀ rs₂, Rel rs₁ rs₂ → Run env' clocks rs₂ out := by
  induction hrun with
  | nil rs => intro rs₂ _; exact Run.nil rs₂
  | @ok t ts rs rs1 r out hx _ ih =>
    intro rs₂ hr
    rcases declaration_order_free h hE hw t rs rs₂ hr with ⟨r', a, b, h1, h2, h3⟩ | ⟨e, a, b, h1, _⟩
    · rw [hx] at h1
      simp only [Prod.mk.injEq, Except.ok.injEq] at h1
      obtain ⟨rfl, rfl⟩ := h1
      exact Run.ok h2 (ih b h3)
    · rw [hx] at h1; simp at h1
  | @error t ts rs rs1 e hx =>
    intro rs₂ hr
    rcases declaration_order_free h hE hw t rs rs₂ hr with ⟨r', a, b, h1, _, _⟩ | ⟨e', a, b, h1, h2⟩
    · rw [hx] at h1; simp at h1
    · rw [hx] at h1
      simp only [Prod.mk.injEq, Except.error.injEq] at h1
      obtain ⟨rfl, rfl⟩ := h1
      exact Run.error h2

/-- the modelled `PythonEvaluator` does not read the history memory -/
theorem pyEvaluator_memBlind : MemBlind pyEvaluator where
  guard := fun _ _ => rfl
  cond := fun _ _ => rfl
  exec := fun _ _ => rfl

end Sismic.C07
