import Sismic.Proofs.C07
/-!
# Property C07 — execution is deterministic and independent of declaration order

`execute_once` is a function of (chart, interpreter state, clock value, evaluator) in the model, and
the tie (`./check C07`: permuted declaration orders, several `PYTHONHASHSEED`s, same model run)
shows the implementation is that function.  Declaration order enters the model through three
lists: `Chart.transitions`, the children lists and (via set iteration) the configuration and the
history memory.  The theorems below show that each place where the interpreter turns such a list
into an *order of execution* sorts it by a key that is injective on the elements present, so that
the result depends on the elements only.

Not proved here (partial): the full equivariance statement "two charts equal up to declaration
order produce equal macro steps from equal states" — it needs the same argument threaded through
every tree query (`descendants`, `leafFor`, `lca`); the tie checks it on generated charts.
-/
namespace Sismic.C07

/-- **Which transitions fire does not depend on the order they were declared in.** -/
theorem selection_order_free (c : Chart) (hT : TreeOK c) (ts' : List Trans) (hp : ts'.Perm c.transitions)
    (cfg : List Name) (evName : Option String) (ok : Trans → Bool → Bool) (t : Trans) :
    t ∈ (selectTransitions { c with transitions := ts' } cfg evName ok).selected ↔
    t ∈ (selectTransitions c cfg evName ok).selected := by
  have hT' : TreeOK { c with transitions := ts' } := ⟨hT.rank⟩
  rw [select_iff_fires _ cfg evName ok hT' t, select_iff_fires c cfg evName ok hT t]
  have en : ∀ u, Enabled { c with transitions := ts' } cfg evName ok u ↔ Enabled c cfg evName ok u := by
    intro u; simp only [Enabled]; rw [hp.mem_iff]
  have co : ∀ u, Competes { c with transitions := ts' } cfg evName ok u ↔ Competes c cfg evName ok u := by
    intro u; simp only [Competes, en]
  have an : ∀ a b, Anc { c with transitions := ts' } a b ↔ Anc c a b := by
    intro a b
    constructor
    · intro h
      induction h with
      | base h => exact Anc.base h
      | step h _ ih => exact Anc.step h ih
    · intro h
      induction h with
      | base h => exact Anc.base h
      | step h _ ih => exact Anc.step h ih
  simp only [Fires, co, an]

/-- **The order in which the fired transitions are processed does not depend on the order they
    were found in**: when `_sort_transitions` accepts both lists, it returns the same list. -/
theorem processing_order_free (c : Chart) (ts ts' r r' : List Trans) (hp : ts.Perm ts')
    (h : sortTransitions c ts = .ok r) (h' : sortTransitions c ts' = .ok r') : r = r' := by
  by_cases hlen : ts.length ≤ 1
  · have hlen' : ts'.length ≤ 1 := hp.length_eq ▸ hlen
    simp only [sortTransitions, hlen, hlen', if_true, Except.ok.injEq] at h h'
    subst h; subst h'
    match ts, ts', hp, hlen with
    | [], _, hp, _ => exact hp.nil_eq
    | [a], _, hp, _ => exact (List.perm_singleton.mp hp.symm).symm
  · have hlen' : ¬ ts'.length ≤ 1 := hp.length_eq ▸ hlen
    have anti := sortTransitions_anti c ts r h (by omega)
    unfold sortTransitions at h h'
    rw [if_neg hlen] at h
    rw [if_neg hlen'] at h'
    split at h
    · exact absurd h (by simp)
    split at h
    · exact absurd h (by simp)
    split at h'
    · exact absurd h' (by simp)
    split at h'
    · exact absurd h' (by simp)
    simp only [Except.ok.injEq] at h h'
    subst h; subst h'
    exact isort_canonical (leTrans c)
      (fun a b => leRevDepthName_total c _ _) (fun a b d => leRevDepthName_trans c _ _ _) ts ts' anti hp

/-- **The configuration view, the restore order of a deep history** (both sorted by depth, name)
    depend on the set of names only. -/
theorem depth_name_order_free (c : Chart) (l l' : List Name) (hp : l.Perm l') :
    isort c.leDepthName l = isort c.leDepthName l' :=
  isort_canonical _ (leDepthName_total c) (leDepthName_trans c) l l' (fun a b _ _ => leDepthName_anti c a b) hp

/-- **The exit order, the order in which leaves are stabilised** (deepest first, then by name). -/
theorem revdepth_name_order_free (c : Chart) (l l' : List Name) (hp : l.Perm l') :
    isort c.leRevDepthName l = isort c.leRevDepthName l' :=
  isort_canonical _ (leRevDepthName_total c) (leRevDepthName_trans c) l l' (fun a b _ _ => leRevDepthName_anti c a b) hp

/-- **The default entry order of the children of an orthogonal state** (by name). -/
theorem name_order_free (l l' : List Name) (hp : l.Perm l') : isort leName l = isort leName l' :=
  isort_canonical _ leName_total leName_trans l l' (fun a b _ _ => leName_anti a b) hp

/-- hence: the states a transition exits, and their order, depend on the *set* of descendants of
    the exited subtree, not on the order `descendants_for` lists them in -/
theorem exit_list_order_free (c : Chart) (cfg ds ds' : List Name) (hp : ds.Perm ds') :
    (isort c.leRevDepthName ds).filter cfg.contains = (isort c.leRevDepthName ds').filter cfg.contains := by
  rw [revdepth_name_order_free c ds ds' hp]

end Sismic.C07
