import Sismic.Model.Bdd
/-!
# Property C19 — BDD verdicts are sound

`Sismic.Bdd` (Model/Bdd.lean) models `sismic/bdd/environment.py` (hooks) and the predefined steps
of `sismic/bdd/steps.py` on top of the interpreter model.  `holds c a` is the asserted fact,
computed from the monitored trace (`c.trace`) or from the interpreter's current state.
-/
namespace Sismic.C19
open Sismic.Bdd

/-- **A `then` step passes iff the asserted fact is true**, fails iff it is false, and is an
    error iff the fact cannot be evaluated (unknown state, expression raising) — provided some
    `when` step ran before. -/
theorem verdict_iff_fact (c : Ctx) (a : Assertion) (tr : List MacroStep) (h : c.trace = some tr) :
    ((runStep c (.check a)).1 = .passed ↔ holds { c with monitoring := false } a = some true) ∧
    ((runStep c (.check a)).1 = .failed ↔ holds { c with monitoring := false } a = some false) ∧
    ((runStep c (.check a)).1 = .error ↔ holds { c with monitoring := false } a = none) := by
  simp only [runStep, h]
  generalize holds _ a = r
  cases r with
  | none => exact ⟨by simp, by simp, by simp⟩
  | some b => cases b <;> exact ⟨by simp, by simp, by simp⟩

/-- a `then` step before any `when` step is an error of the `before_step` hook -/
theorem then_before_when (c : Ctx) (a : Assertion) (h : c.trace = none) :
    (runStep c (.check a)).1 = .hookError := by
  simp [runStep, h]

/-- a `then` step changes nothing but closes the current when-block -/
theorem then_only_closes_block (c : Ctx) (a : Assertion) :
    (runStep c (.check a)).2 = { c with monitoring := false } := by
  simp only [runStep]
  cases c.trace with
  | none => rfl
  | some tr => simp only; split <;> rfl

/-- **The monitored trace is the current when-block.**  After a `when` step: if a block is open
    (no `then` since the previous `when`) the macro steps it produced are appended; otherwise a new
    block starts with exactly them.  (The first block contains the initialisation step when no
    `given` ran before.) -/
theorem when_extends_or_starts_block (c : Ctx) :
    (afterStep .when_ c).1.trace =
      some ((if c.monitoring then c.trace.getD [] else []) ++ (execute c fuel []).1) ∨
    (c.monitoring = true ∧ c.trace = none) := by
  simp only [afterStep]
  cases hm : c.monitoring with
  | false => left; simp [execute_monitoring, hm]
  | true =>
    cases ht : c.trace with
    | none => right; exact ⟨rfl, rfl⟩
    | some tr => left; simp [execute_monitoring, execute_trace, hm, ht]
where
  execute_monitoring (c : Ctx) : ∀ (n : Nat) (acc : List MacroStep), (execute c n acc).2.2.monitoring = c.monitoring
    | 0, _ => rfl
    | n+1, acc => by
      simp only [execute]
      split
      · rfl
      · rfl
      · rw [execute_monitoring _ n]
  execute_trace (c : Ctx) : ∀ (n : Nat) (acc : List MacroStep), (execute c n acc).2.2.trace = c.trace
    | 0, _ => rfl
    | n+1, acc => by
      simp only [execute]
      split
      · rfl
      · rfl
      · rw [execute_trace _ n]

/-- a `given` step executes unmonitored: the trace and the open/closed state of the block are untouched -/
theorem given_is_unmonitored (c : Ctx) :
    (afterStep .given c).1.trace = c.trace ∧ (afterStep .given c).1.monitoring = c.monitoring := by
  simp only [afterStep]
  exact ⟨when_extends_or_starts_block.execute_trace c fuel [], when_extends_or_starts_block.execute_monitoring c fuel []⟩

/-- **The facts.** `state s is entered` ⇔ some macro step of the block entered `s` (for a known state) … -/
theorem fact_entered (c : Ctx) (slot : Slot) (s : Name) (h0 : c.world.slots[0]? = some slot)
    (hk : slot.chart.hasState s = true) :
    holds c (.entered s) = some ((c.trace.getD []).any (fun m => m.entered.contains s)) ∧
    holds c (.notEntered s) = some (!(c.trace.getD []).any (fun m => m.entered.contains s)) ∧
    holds c (.exited s) = some ((c.trace.getD []).any (fun m => m.exited.contains s)) ∧
    holds c (.notExited s) = some (!(c.trace.getD []).any (fun m => m.exited.contains s)) ∧
    holds c (.active s) = some (slot.st.config.contains s) ∧
    holds c (.notActive s) = some (!slot.st.config.contains s) := by
  simp [holds, h0, hk]

/-- … `event e is fired with p=v…` ⇔ some macro step of the block sent an event named `e` all of whose
    listed parameters have the listed values; `final` ⇔ the interpreter is in a final configuration. -/
theorem fact_fired_final (c : Ctx) (slot : Slot) (n : String) (ps : List (String × Val))
    (h0 : c.world.slots[0]? = some slot) :
    holds c (.fired n ps) = some (((c.trace.getD []).flatMap (fun m => m.sent)).any
      (fun e => e.event.name == n && paramsMatch e.event ps)) ∧
    holds c .noEventFired = some ((c.trace.getD []).all (fun m => m.sent.isEmpty)) ∧
    holds c .final = some (slot.st.initialized && slot.st.config.isEmpty) := by
  simp [holds, h0]

/-- **The first step that does not pass skips the rest of the scenario.** -/
theorem first_failure_skips (c : Ctx) (s : Step) (rest : List Step) (h : (runStep c s).1 ≠ .passed) :
    runScenario c (s :: rest) = (runStep c s).1 :: rest.map (fun _ => .skipped) := by
  simp only [runScenario]

end Sismic.C19
