import Sismic.Model.Bdd
/-!
# Property C19 — BDD verdicts are sound

`Sismic.Bdd` (Model/Bdd.lean) models `sismic/bdd/environment.py` (hooks) and the predefined steps
of `sismic/bdd/steps.py` on top of the interpreter model.  `holds c a` is the asserted fact,
computed from the monitored trace (`c.trace`) or from the interpreter's current state.
-/
namespace Sismic.C19
open Sismic.Bdd

/-- **A `then` step passes iff the asserted fact is true**, fails iff it is false, and is an
    error iff the fact cannot be evaluated (unknown state, expression raising) — provided some
    `when` step ran before. -/
theorem verdict_iff_fact (c : Ctx) (a : Assertion) (tr : List MacroStep) (h : c.trace = some tr) :
    ((runStep c (.check a)).1 = .passed ↔ holds { c with monitoring := false } a = some true) ∧
    ((runStep c (.check a)).1 = .failed ↔ holds { c with monitoring := false } a = some false) ∧
    ((runStep c (.check a)).1 = .error ↔ holds { c with monitoring := false } a = none) := by
  simp only [runStep, h]
  generalize holds _ a = r
  cases r with
  | none => exact ⟨by simp, by simp, by simp⟩
  | some b => cases b <;> exact ⟨by simp, by simp, by simp⟩

/-- a `then` step before any `when` step is an error of the `before_step` hook -/
theorem then_before_when (c : Ctx) (a : Assertion) (h : c.trace = none) :
    (runStep c (.check a)).1 = .hookError := by
  simp [runStep, h]

/-- a `then` step changes nothing but closes the current when-block -/
theorem then_only_closes_block (c : Ctx) (a : Assertion) :
    (runStep c (.check a)).2 = { c with monitoring := false } := by
  simp only [runStep]
  cases c.trace with
  | none => rfl
  | some tr => simp only; split <;> rfl

/-- **The monitored trace is the current when-block.**  After a `when` step: if a block is open
    (no `then` since the previous `when`) the macro steps it produced are appended; otherwise a new
    block starts with exactly them.  (The first block contains the initialisation step when no
    `given` ran before.) -/
theorem when_extends_or_starts_block (c : Ctx) :
    (afterStep .when_ c).1.trace =
      some ((if c.monitoring then c.trace.getD [] else []) ++ (execute c fuel []).1) ∨
    (c.monitoring = true ∧ c.trace = none) := by
  simp only [afterStep]
  cases hm : c.monitoring with
  | false => left; simp [execute_monitoring, hm]
  | true =>
    cases ht : c.trace with
    | none => right; exact ⟨rfl, rfl⟩
    | some tr => left; simp [execute_monitoring, execute_trace, hm, ht]
where
  execute_monitoring (c : Ctx) : ∀ (n : Nat) (acc : List MacroStep), (execute c n acc).2.2.monitoring = c.monitoring
    | 0, _ => rfl
    | n+1, acc => by
      simp only [execute]
      split
      · rfl
      · rfl
      · rw [execute_monitoring _ n]
  execute_trace (c : Ctx) : ∀ (n : Nat) (acc : List MacroStep), (execute c n acc).2.2.trace = c.trace
    | 0, _ => rfl
    | n+1, acc => by
      simp only [execute]
      split
      · rfl
      · rfl
      · rw [execute_trace _ n]

/-- a `given` step executes unmonitored: the trace and the open/closed state of the block are untouched -/
theorem given_is_unmonitored (c : Ctx) :
    (afterStep .given c).1.trace = c.trace ∧ (afterStep .given c).1.monitoring = c.monitoring := by
  simp only [afterStep]
  exact ⟨when_extends_or_starts_block.execute_trace c fuel [], when_extends_or_starts_block.execute_monitoring c fuel []⟩

/-- **The facts.** `state s is entered` ⇔ some macro step of the block entered `s` (for a known state) … -/
theorem fact_entered (c : Ctx) (slot : Slot) (s : Name) (h0 : c.world.slots[0]? = some slot)
    (hk : slot.chart.hasState s = true) :
    holds c (.entered s) = some ((c.trace.getD []).any (fun m => m.entered.contains s)) ∧
    holds c (.notEntered s) = some (!(c.trace.getD []).any (fun m => m.entered.contains s)) ∧
    holds c (.exited s) = some ((c.trace.getD []).any (fun m => m.exited.contains s)) ∧
    holds c (.notExited s) = some (!(c.trace.getD []).any (fun m => m.exited.contains s)) ∧
    holds c (.active s) = some (slot.st.config.contains s) ∧
    holds c (.notActive s) = some (!slot.st.config.contains s) := by
  simp [holds, h0, hk]

/-- … `event e is fired with p=v…` ⇔ some macro step of the block sent an event named `e` all of whose
    listed parameters have the listed values; `final` ⇔ the interpreter is in a final configuration. -/
theorem fact_fired_final (c : Ctx) (slot : Slot) (n : String) (ps : List (String × Val))
    (h0 : c.world.slots[0]? = some slot) :
    holds c (.fired n ps) = some (((c.trace.getD []).flatMap (fun m => m.sent)).any
      (fun e => e.event.name == n && paramsMatch e.event ps)) ∧
    holds c .noEventFired = some ((c.trace.getD []).all (fun m => m.sent.isEmpty)) ∧
    holds c .final = some (slot.st.initialized && slot.st.config.isEmpty) := by
  simp [holds, h0]

/-- **The first step that does not pass skips the rest of the scenario.** -/
theorem first_failure_skips (c : Ctx) (s : Step) (rest : List Step) (h : (runStep c s).1 ≠ .passed) :
    runScenario c (s :: rest) = (runStep c s).1 :: rest.map (fun _ => .skipped) := by
  simp only [runScenario]

/-- untouched trace and open/closed state of the block -/
def SameBlock (c c' : Ctx) : Prop := c'.trace = c.trace ∧ c'.monitoring = c.monitoring

theorem SameBlock.trans {a b c : Ctx} (h1 : SameBlock a b) (h2 : SameBlock b c) : SameBlock a c :=
  ⟨h2.1.trans h1.1, h2.2.trans h1.2⟩

mutual
theorem runAct_given (a : Act) (c : Ctx) : SameBlock c (runAct .given a c).1 := by
  cases a with
  | doNothing => simp only [runAct]; exact ⟨rfl, rfl⟩
  | send n ps => simp only [runAct]; exact ⟨rfl, rfl⟩
  | wait s => simp only [runAct]; exact ⟨rfl, rfl⟩
  | repeat_ inner n => simp only [runAct]; exact runRepeat_given inner n c
  | seq inner => simp only [runAct]; exact runSeq_given inner c
  | unknownScenario => simp only [runAct]; exact ⟨rfl, rfl⟩
theorem runRepeat_given (inner : Act) (n : Nat) (c : Ctx) : SameBlock c (runRepeat .given inner n c).1 := by
  cases n with
  | zero => simp only [runRepeat]; exact ⟨rfl, rfl⟩
  | succ k =>
    simp only [runRepeat]
    have h1 := runAct_given inner c
    obtain ⟨c1, b1, hx⟩ : ∃ c1 b1, runAct .given inner c = (c1, b1) := ⟨_, _, rfl⟩
    rw [hx] at h1
    simp only [hx]
    cases b1 with
    | true => exact h1
    | false =>
      have h2 : SameBlock c1 (afterStep .given c1).1 := given_is_unmonitored c1
      obtain ⟨c2, b2, hy⟩ : ∃ c2 b2, afterStep .given c1 = (c2, b2) := ⟨_, _, rfl⟩
      rw [hy] at h2
      simp only [hy]
      cases b2 with
      | true => exact h1.trans h2
      | false => exact (h1.trans h2).trans (runRepeat_given inner k c2)
theorem runSeq_given (l : List Act) (c : Ctx) : SameBlock c (runSeq .given l c).1 := by
  cases l with
  | nil => simp only [runSeq]; exact ⟨rfl, rfl⟩
  | cons a rest =>
    simp only [runSeq]
    have h1 := runAct_given a c
    obtain ⟨c1, b1, hx⟩ : ∃ c1 b1, runAct .given a c = (c1, b1) := ⟨_, _, rfl⟩
    rw [hx] at h1
    simp only [hx]
    cases b1 with
    | true => exact h1
    | false =>
      have h2 : SameBlock c1 (afterStep .given c1).1 := given_is_unmonitored c1
      obtain ⟨c2, b2, hy⟩ : ∃ c2 b2, afterStep .given c1 = (c2, b2) := ⟨_, _, rfl⟩
      rw [hy] at h2
      simp only [hy]
      cases b2 with
      | true => exact h1.trans h2
      | false => exact (h1.trans h2).trans (runSeq_given rest c2)
end

/-- **A whole `given` step — also `I repeat …` and `I reproduce "scenario"` with all the steps they
    replay — is unmonitored**: whatever the replayed steps were in their own scenario, under `Given`
    they neither open a block of when-steps nor add to the monitored trace. -/
theorem given_step_is_unmonitored (c : Ctx) (a : Act) :
    (runStep c (.act .given a)).2.trace = c.trace ∧ (runStep c (.act .given a)).2.monitoring = c.monitoring := by
  simp only [runStep]
  have h1 := runAct_given a c
  obtain ⟨c1, b1, hx⟩ : ∃ c1 b1, runAct .given a c = (c1, b1) := ⟨_, _, rfl⟩
  rw [hx] at h1
  simp only [hx]
  have h2 : SameBlock c1 (afterStep .given c1).1 := given_is_unmonitored c1
  obtain ⟨c2, b2, hy⟩ : ∃ c2 b2, afterStep .given c1 = (c2, b2) := ⟨_, _, rfl⟩
  rw [hy] at h2
  cases b1 <;> cases b2 <;> simp only [hy] <;> exact h1.trans h2

end Sismic.C19
