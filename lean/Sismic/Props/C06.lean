import Sismic.Proofs.C06
import Sismic.Proofs.OkSpec
import Sismic.Proofs.LogFilters
import Sismic.Spec.WF
/-!
# Property C06 — history states restore exactly what was active

The run of `execute_once` is `applyMicros` over the returned micro steps, each stabilisation step
being `stabilizationStep` of the configuration and memory reached (`executeOnce_ok`, `RunChain`,
`StabChain`).  So the property is about three pure functions: what exiting a compound state
records (`exitPure`/`saveMem`), what leaves a record untouched, and what the stabilisation step of
an active history state enters (`leafStep`).
-/
namespace Sismic.C06

/-- **Restore step.**  The stabilisation step asked for by an active history state `h` exits `h`
    and enters its recorded memory — the declared default memory if nothing was ever recorded —
    sorted by (depth, name). -/
theorem restore_step (c : Chart) (mem : List (Name × List Name)) (h : Name) (s : StateDef)
    (hs : c.stateFor h = some s) (hk : s.kind.isHistory = true) :
    leafStep c mem h = some
      { exited := [h],
        entered := isort c.leDepthName
          (((memGet mem h).map (·.2)).getD s.memory.toList) } := by
  have hf : (s.kind == .final) = false := by cases hkk : s.kind <;> simp_all [Kind.isHistory]
  simp only [leafStep, hs, hf, hk, Bool.false_and, if_true, memGet]
  cases mem.find? (fun p => p.1 == h) <;> simp

/-- **Exactly the memory, parents before children**: the states entered by the restore step are
    the recorded ones (each once: a permutation), never a deeper state before a shallower one,
    and by name among equals. -/
theorem restored_exactly_parents_first (c : Chart) (l : List Name) :
    (isort c.leDepthName l).Perm l ∧
    (isort c.leDepthName l).Pairwise (fun a b => c.depth a < c.depth b ∨ (c.depth a = c.depth b ∧ a ≤ b)) := by
  refine ⟨isort_perm _ _, ?_⟩
  have := isort_sorted c.leDepthName (leDepthName_total c) (leDepthName_trans c) l
  refine this.imp ?_
  intro a b hab
  simpa [Chart.leDepthName] using hab

/-- **What the exit of the parent records, shallow**: when the compound state `p` is exited in a
    micro step that started in configuration `cfg0`, its shallow history child `h` gets the direct
    child of `p` active in `cfg0` (the implementation asserts there is exactly one). -/
theorem exit_records_shallow (c : Chart) (cfg0 : List Name) (cm : List Name × List (Name × List Name))
    (p h : Name) (hp : (c.stateD p).kind = .compound) (hh : h ∈ c.childrenFor p)
    (hk : c.kindOf h = some .shallow)
    (h1 : (cfg0.filter (fun x => (c.childrenFor p).contains x)).length = 1) :
    memGet (exitPure c cfg0 cm p).2 h = some (h, cfg0.filter (fun x => (c.childrenFor p).contains x)) := by
  simp only [exitPure, hp, beq_self_eq_true, if_true]
  apply saveMem_hit c cfg0 _ h _ _ _ _ hh
  simp only [memoryOf, hk, stateD_name]
  rw [if_neg (by simp only [bne_iff_ne, ne_eq, Decidable.not_not]; exact h1)]

/-- **… deep**: its deep history child gets every descendant of `p` active in `cfg0`. -/
theorem exit_records_deep (c : Chart) (cfg0 : List Name) (cm : List Name × List (Name × List Name))
    (p h : Name) (hp : (c.stateD p).kind = .compound) (hh : h ∈ c.childrenFor p)
    (hk : c.kindOf h = some .deep)
    (h1 : 1 ≤ (cfg0.filter (fun x => (c.descendants p).contains x)).length) :
    memGet (exitPure c cfg0 cm p).2 h = some (h, cfg0.filter (fun x => (c.descendants p).contains x)) := by
  simp only [exitPure, hp, beq_self_eq_true, if_true]
  apply saveMem_hit c cfg0 _ h _ _ _ _ hh
  have : ¬ (cfg0.filter (fun x => (c.descendants p).contains x)).length < 1 := by omega
  simp only [memoryOf, hk, stateD_name]
  rw [if_neg this]

/-- **Whatever happens in between**: a micro step that does not exit a state having `h` among its
    children leaves the record of `h` alone (entries never touch the memory, nor do exits of other
    states). -/
theorem record_kept (c : Chart) (cm : List Name × List (Name × List Name)) (m : Micro) (h : Name)
    (hex : ∀ n ∈ m.exited, h ∉ c.childrenFor n) :
    memGet (applyMicro c cm m).2 h = memGet cm.2 h := by
  simp only [applyMicro]
  exact foldl_exitPure_other c cm.1 h m.exited cm hex

theorem record_kept_steps (c : Chart) (h : Name) : ∀ (ms : List Micro) (cm : List Name × List (Name × List Name)),
    (∀ m ∈ ms, ∀ n ∈ m.exited, h ∉ c.childrenFor n) →
    memGet (applyMicros c cm ms).2 h = memGet cm.2 h
  | [], _, _ => rfl
  | m :: ms, cm, hall => by
    simp only [applyMicros, List.foldl_cons]
    have ih := record_kept_steps c h ms (applyMicro c cm m) (fun m' hm' => hall m' (List.mem_cons_of_mem _ hm'))
    simp only [applyMicros] at ih
    rw [ih, record_kept c cm m h (hall m List.mem_cons_self)]

/-- **The interpreter does just that**: after a call that returns a macro step, configuration and
    memory are the old ones with the returned micro steps applied; every step after a planned one
    is the stabilisation step (`leafStep` of the deepest, first-by-name leaf that asks for one) of
    the configuration and memory reached, until none is asked for — so default entry continues
    below whatever a history state restored. -/
theorem run_applies_the_steps {σ ω : Type} (env : Env σ ω) (clock : Int) (rs rs' : RS σ ω) (ms : MacroStep)
    (h : executeOnce env clock rs = (.ok (some ms), rs')) :
    (rs'.st.config, rs'.st.memory) = applyMicros env.chart (rs.st.config, rs.st.memory) ms.steps ∧
    ∃ planned, RunChain env.chart (rs.st.config, rs.st.memory) planned ms.steps := by
  obtain ⟨st1, computed, _, _, _, _, _, _, _, _, hnil, hcons⟩ := executeOnce_ok env clock rs rs' _ h
  cases computed with
  | nil => exact absurd (hnil rfl).1 (by simp)
  | cons first tail =>
    obtain ⟨steps, hr, hchain, hcm, _⟩ := hcons first tail rfl
    obtain rfl : ms = { time := clock, steps := steps } := Option.some.inj hr
    exact ⟨hcm, _, hchain⟩

/-- a call that returns no macro step leaves the memory alone -/
theorem idle_keeps_memory {σ ω : Type} (env : Env σ ω) (clock : Int) (rs rs' : RS σ ω)
    (h : executeOnce env clock rs = (.ok none, rs')) : rs'.st.memory = rs.st.memory := by
  obtain ⟨st1, computed, _, _, _, _, _, _, _, _, hnil, hcons⟩ := executeOnce_ok env clock rs rs' _ h
  cases computed with
  | nil => exact (hnil rfl).2.2.1
  | cons first tail =>
    obtain ⟨steps, hr, _⟩ := hcons first tail rfl
    exact absurd hr (by simp)

/-- within one micro step: the record written when `p` is exited survives the other exits of the step -/
theorem record_written_in_step (c : Chart) (cfg0 : List Name) (p h : Name) (a : List Name)
    (hrec : ∀ cm, memGet (exitPure c cfg0 cm p).2 h = some (h, a))
    (hother : ∀ n, n ≠ p → h ∉ c.childrenFor n) :
    ∀ (ex : List Name) (cm : List Name × List (Name × List Name)), p ∈ ex →
      memGet (ex.foldl (exitPure c cfg0) cm).2 h = some (h, a)
  | [], _, hin => absurd hin (by simp)
  | n :: rest, cm, hin => by
    simp only [List.foldl_cons]
    by_cases hr : p ∈ rest
    · exact record_written_in_step c cfg0 p h a hrec hother rest _ hr
    · have hn : n = p := by
        rcases List.mem_cons.mp hin with e | e
        · exact e.symm
        · exact absurd e hr
      subst hn
      rw [foldl_exitPure_other c cfg0 h rest _ (fun m hm => hother m (fun e => hr (e ▸ hm)))]
      exact hrec cm

/-- **What a shallow history state holds is what was active when its parent was last exited.**
    Let the micro steps `pre ++ m :: post` be applied from `cm`; if `m` exits the compound state `p`
    (the parent of the shallow history state `h`), and no later step exits `p`, then the memory of
    `h` afterwards is the direct child of `p` that was active when `m` started — whatever happened
    before, in between and afterwards. -/
theorem shallow_memory_is_last_exit (c : Chart) (hwf : WFChart c) (p h : Name)
    (hp : c.parentFor h = some p) (hkp : (c.stateD p).kind = .compound) (hk : c.kindOf h = some .shallow)
    (pre post : List Micro) (m : Micro) (cm : List Name × List (Name × List Name))
    (hin : p ∈ m.exited)
    (hone : ((applyMicros c cm pre).1.filter (fun x => (c.childrenFor p).contains x)).length = 1)
    (hlater : ∀ m' ∈ post, p ∉ m'.exited) :
    memGet (applyMicros c cm (pre ++ m :: post)).2 h =
      some (h, (applyMicros c cm pre).1.filter (fun x => (c.childrenFor p).contains x)) := by
  have hother : ∀ n, n ≠ p → h ∉ c.childrenFor n := by
    intro n hn hmem
    have := (hwf.children n h).mp hmem
    rw [hp] at this
    exact hn (Option.some.inj this).symm
  have hh : h ∈ c.childrenFor p := (hwf.children p h).mpr hp
  have e1 : applyMicros c cm (pre ++ m :: post) = applyMicros c (applyMicro c (applyMicros c cm pre) m) post := by
    simp [applyMicros, List.foldl_append]
  rw [e1]
  rw [record_kept_steps c h post _ (fun m' hm' n hn => hother n (fun e => hlater m' hm' (e ▸ hn)))]
  simp only [applyMicro]
  exact record_written_in_step c _ p h _
    (fun cm' => exit_records_shallow c _ cm' p h hkp hh hk hone) hother m.exited _ hin

/-- … and a deep history state holds the whole active sub-configuration of that moment. -/
theorem deep_memory_is_last_exit (c : Chart) (hwf : WFChart c) (p h : Name)
    (hp : c.parentFor h = some p) (hkp : (c.stateD p).kind = .compound) (hk : c.kindOf h = some .deep)
    (pre post : List Micro) (m : Micro) (cm : List Name × List (Name × List Name))
    (hin : p ∈ m.exited)
    (hone : 1 ≤ ((applyMicros c cm pre).1.filter (fun x => (c.descendants p).contains x)).length)
    (hlater : ∀ m' ∈ post, p ∉ m'.exited) :
    memGet (applyMicros c cm (pre ++ m :: post)).2 h =
      some (h, (applyMicros c cm pre).1.filter (fun x => (c.descendants p).contains x)) := by
  have hother : ∀ n, n ≠ p → h ∉ c.childrenFor n := by
    intro n hn hmem
    have := (hwf.children n h).mp hmem
    rw [hp] at this
    exact hn (Option.some.inj this).symm
  have hh : h ∈ c.childrenFor p := (hwf.children p h).mpr hp
  have e1 : applyMicros c cm (pre ++ m :: post) = applyMicros c (applyMicro c (applyMicros c cm pre) m) post := by
    simp [applyMicros, List.foldl_append]
  rw [e1]
  rw [record_kept_steps c h post _ (fun m' hm' n hn => hother n (fun e => hlater m' hm' (e ▸ hn)))]
  simp only [applyMicro]
  exact record_written_in_step c _ p h _
    (fun cm' => exit_records_deep c _ cm' p h hkp hh hk hone) hother m.exited _ hin

end Sismic.C06
