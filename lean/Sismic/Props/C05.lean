import Sismic.Proofs.Queue
/-!
# Property C05 — event queues: one event per step, internal first, FIFO, delays respected

`queueInsert due e` is `_queue_event` on one queue (`bisect_right` on the due time, then `insert`),
with `due = interpreter.time + delay`; `peekEvent` / `popEvent` are `_select_event(consume=False/True)`.
The interpreter keeps the internal and the external events in two such queues.
-/
namespace Sismic.C05

/-- **Queues stay ordered by due time.** -/
theorem insert_keeps_order (d : Int) (e : Event) (q : List (Int × Event)) (h : QSorted q) :
    QSorted (queueInsert d e q) :=
  queueInsert_sorted d e q h

/-- **FIFO among equal due times, order by due time otherwise**: a newly queued event is placed
    behind every pending event that is due at the same time or earlier, and in front of every event
    due later. -/
theorem insert_position (d : Int) (e : Event) (q : List (Int × Event)) :
    queueInsert d e q =
      q.takeWhile (fun p => decide (p.1 ≤ d)) ++ (d, e) :: q.dropWhile (fun p => decide (p.1 ≤ d)) :=
  queueInsert_eq d e q

/-- **Nothing is lost or duplicated by queueing**: the queue afterwards is the queue before plus
    the new event (as multisets). -/
theorem insert_exactly_once (d : Int) (e : Event) (q : List (Int × Event)) :
    (queueInsert d e q).Perm ((d, e) :: q) :=
  queueInsert_perm d e q

/-- **The head of a queue is the event due first** (so, with `insert_position`, the oldest among
    those due first). -/
theorem head_is_due_first (q : List (Int × Event)) (h : QSorted q) (p : Int × Event) (r : List (Int × Event))
    (hq : q = p :: r) : ∀ x ∈ q, p.1 ≤ x.1 :=
  head_least q h p r hq

variable {σ : Type}

/-- **Selection: internal first, never early, never late.**  `_select_event` returns the head of the
    internal queue iff it is due (`due ≤ time`); otherwise the head of the external queue iff that
    one is due; otherwise nothing. -/
theorem selection_rule (st : IState σ) :
    peekEvent st =
      match st.intQ.head? with
      | some (d, e) => if d ≤ st.time then some e else
          (match st.extQ.head? with
           | some (d', e') => if d' ≤ st.time then some e' else none
           | none => none)
      | none =>
          (match st.extQ.head? with
           | some (d', e') => if d' ≤ st.time then some e' else none
           | none => none) :=
  peek_spec st

/-- **Consumption takes the selected event and removes exactly that one entry** — nothing when no
    event is due. -/
theorem consumption_removes_exactly_one (st : IState σ) :
    (popEvent st).1 = peekEvent st ∧
    ((peekEvent st = none ∧ (popEvent st).2 = st) ∨
     (∃ d e r, st.intQ = (d, e) :: r ∧ d ≤ st.time ∧ peekEvent st = some e ∧ (popEvent st).2 = { st with intQ := r }) ∨
     (∃ d e r, st.extQ = (d, e) :: r ∧ d ≤ st.time ∧ peekEvent st = some e ∧
       (∀ d' e' r', st.intQ = (d', e') :: r' → ¬ d' ≤ st.time) ∧ (popEvent st).2 = { st with extQ := r })) :=
  ⟨pop_fst_eq_peek st, pop_spec st⟩

/-- **Not late**: with ordered queues, if *any* pending internal event is due, an event is selected. -/
theorem due_event_is_selected (st : IState σ) (hs : QSorted st.intQ) (d : Int) (e : Event)
    (hm : (d, e) ∈ st.intQ) (hd : d ≤ st.time) : ∃ e', peekEvent st = some e' := by
  rw [peek_spec]
  cases hq : st.intQ with
  | nil => rw [hq] at hm; cases hm
  | cons p r =>
    obtain ⟨d0, e0⟩ := p
    have := head_least st.intQ hs (d0, e0) r hq (d, e) hm
    simp only at this
    have h0 : d0 ≤ st.time := Int.le_trans this hd
    exact ⟨e0, by simp [h0]⟩

/-! non-vacuity -/
example : (queueInsert 2 { name := "c" } [(1, { name := "a" }), (2, { name := "b" }), (3, { name := "d" })]).map
    (fun p => p.2.name) = ["a", "b", "c", "d"] := by decide

end Sismic.C05
