import Sismic.Proofs.Queue
import Sismic.Proofs.QueueInv
/-!
# Property C05 — event queues: one event per step, internal first, FIFO, delays respected

`queueInsert due e` is `_queue_event` on one queue (`bisect_right` on the due time, then `insert`),
with `due = interpreter.time + delay`; `peekEvent` / `popEvent` are `_select_event(consume=False/True)`.
The interpreter keeps the internal and the external events in two such queues.
-/
namespace Sismic.C05

/-- **Queues stay ordered by due time.** -/
theorem insert_keeps_order (d : Int) (e : Event) (q : List (Int × Event)) (h : QSorted q) :
    QSorted (queueInsert d e q) :=
  queueInsert_sorted d e q h

/-- **FIFO among equal due times, order by due time otherwise**: a newly queued event is placed
    behind every pending event that is due at the same time or earlier, and in front of every event
    due later. -/
theorem insert_position (d : Int) (e : Event) (q : List (Int × Event)) :
    queueInsert d e q =
      q.takeWhile (fun p => decide (p.1 ≤ d)) ++ (d, e) :: q.dropWhile (fun p => decide (p.1 ≤ d)) :=
  queueInsert_eq d e q

/-- **Nothing is lost or duplicated by queueing**: the queue afterwards is the queue before plus
    the new event (as multisets). -/
theorem insert_exactly_once (d : Int) (e : Event) (q : List (Int × Event)) :
    (queueInsert d e q).Perm ((d, e) :: q) :=
  queueInsert_perm d e q

/-- **The head of a queue is the event due first** (so, with `insert_position`, the oldest among
    those due first). -/
theorem head_is_due_first (q : List (Int × Event)) (h : QSorted q) (p : Int × Event) (r : List (Int × Event))
    (hq : q = p :: r) : ∀ x ∈ q, p.1 ≤ x.1 :=
  head_least q h p r hq

variable {σ : Type}

/-- **Selection: internal first, never early, never late.**  `_select_event` returns the head of the
    internal queue iff it is due (`due ≤ time`); otherwise the head of the external queue iff that
    one is due; otherwise nothing. -/
theorem selection_rule (st : IState σ) :
    peekEvent st =
      match st.intQ.head? with
      | some (d, e) => if d ≤ st.time then some e else
          (match st.extQ.head? with
           | some (d', e') => if d' ≤ st.time then some e' else none
           | none => none)
      | none =>
          (match st.extQ.head? with
           | some (d', e') => if d' ≤ st.time then some e' else none
           | none => none) :=
  peek_spec st

/-- **Consumption takes the selected event and removes exactly that one entry** — nothing when no
    event is due. -/
theorem consumption_removes_exactly_one (st : IState σ) :
    (popEvent st).1 = peekEvent st ∧
    ((peekEvent st = none ∧ (popEvent st).2 = st) ∨
     (∃ d e r, st.intQ = (d, e) :: r ∧ d ≤ st.time ∧ peekEvent st = some e ∧ (popEvent st).2 = { st with intQ := r }) ∨
     (∃ d e r, st.extQ = (d, e) :: r ∧ d ≤ st.time ∧ peekEvent st = some e ∧
       (∀ d' e' r', st.intQ = (d', e') :: r' → ¬ d' ≤ st.time) ∧ (popEvent st).2 = { st with extQ := r })) :=
  ⟨pop_fst_eq_peek st, pop_spec st⟩

/-- **Not late**: with ordered queues, if *any* pending internal event is due, an event is selected. -/
theorem due_event_is_selected (st : IState σ) (hs : QSorted st.intQ) (d : Int) (e : Event)
    (hm : (d, e) ∈ st.intQ) (hd : d ≤ st.time) : ∃ e', peekEvent st = some e' := by
  rw [peek_spec]
  cases hq : st.intQ with
  | nil => rw [hq] at hm; cases hm
  | cons p r =>
    obtain ⟨d0, e0⟩ := p
    have := head_least st.intQ hs (d0, e0) r hq (d, e) hm
    simp only at this
    have h0 : d0 ≤ st.time := Int.le_trans this hd
    exact ⟨e0, by simp [h0]⟩

variable {ω : Type} (env : Env σ ω)

/-- **What `execute_once` does to the queues, whatever it returns or raises** (listeners that do
    not raise): both queues stay ordered by due time; at most one entry is consumed and it was due
    (`due ≤ clock`); the internal queue afterwards plus what was consumed from it is the internal
    queue before plus one entry `(clock + delay, e)` for each internal event in `_sent_events`;
    the external queue changes only by the consumption of its head and by what listeners queue
    (nothing, when no listener is attached).  Nothing is lost, duplicated or invented. -/
theorem step_conserves_events (hq : Quiet env) (clock : Int) (rs : RS σ ω) :
    let rs' := (executeOnce env clock rs).2
    rs'.st.time = clock ∧ rs'.st.listeners = rs.st.listeners ∧
    (QSorted rs.st.intQ → QSorted rs'.st.intQ) ∧ (QSorted rs.st.extQ → QSorted rs'.st.extQ) ∧
    ∃ added pi pe,
      (rs'.st.intQ ++ pi).Perm (rs.st.intQ ++ entriesOf clock rs'.st.sentEvents) ∧
      (rs'.st.extQ ++ pe).Perm (rs.st.extQ ++ added) ∧ (rs.st.listeners = [] → added = []) ∧
      (pi ++ pe).length ≤ 1 ∧ ∀ p ∈ pi ++ pe, p.1 ≤ clock :=
  executeOnce_queues env hq clock rs

/-- **Every interleaving of `queue()` and `execute_once` calls** on an interpreter nothing is
    attached to: the queues stay ordered (so `head_is_due_first`, `due_event_is_selected` and the
    FIFO reading of `insert_position` apply in every reachable state), and the entries pending at
    the end together with the consumed ones — at most one per `execute_once` — are exactly the
    entries pending at the start together with one entry per `queue()` call and one per internal
    event sent.  (`pushed` lists those entries with their due times: time of the call + delay.) -/
theorem history_conserves_events (hq : Quiet env) (ops : List QOp) (rs : RS σ ω) (hl : rs.st.listeners = []) :
    (QSorted rs.st.intQ → QSorted (qrun env rs ops).st.intQ) ∧
    (QSorted rs.st.extQ → QSorted (qrun env rs ops).st.extQ) ∧
    ∃ consumed, consumed.length ≤ execCount ops ∧
      (((qrun env rs ops).st.intQ ++ (qrun env rs ops).st.extQ) ++ consumed).Perm
        ((rs.st.intQ ++ rs.st.extQ) ++ pushed env rs ops) :=
  (qrun_conserves env hq ops rs hl).2

/-- a fresh interpreter has ordered (empty) queues: the invariant is established -/
theorem fresh_queues_ordered (st : IState σ) (hi : st.intQ = []) (he : st.extQ = []) :
    QSorted st.intQ ∧ QSorted st.extQ := by
  rw [hi, he]; exact ⟨List.Pairwise.nil, List.Pairwise.nil⟩

/-! non-vacuity -/
example (ch : Chart) (E : Evaluator σ) :
    Quiet ({ chart := ch, E := E, deliver := fun _ _ _ w => (.ok (), w, []) } : Env σ Unit) := fun _ _ _ _ => rfl

example : (queueInsert 2 { name := "c" } [(1, { name := "a" }), (2, { name := "b" }), (3, { name := "d" })]).map
    (fun p => p.2.name) = ["a", "b", "c", "d"] := by decide

end Sismic.C05
