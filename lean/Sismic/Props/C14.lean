import Sismic.Proofs.Clock
/-!
# Property C14 — clocks are monotonic and faithful

`SimClock` (Model/Clock.lean) models `sismic.clock.SimulatedClock`; every operation receives the
values returned by the calls to `time.time()` it makes.  All statements hold over any linearly
ordered commutative ring `α` (ℤ, ℚ, ℝ …): Python's `int` and `Fraction` exactly, `float` up to rounding.
-/
namespace Sismic.C14
open SimClock

variable {α : Type} [CommRing α] [LinearOrder α] [IsStrictOrderedRing α]

/-- **Never backwards.** For every script of start/stop/speed/assignment/read operations whose
    real-time readings never decrease and whose speeds are non-negative, starting from a fresh
    clock, the successive values of `clock.time` never decrease. -/
theorem monotone (r₀ : α) (ops : List (ClockOp α)) (h : ChronoList r₀ ops) :
    (values ((SimClock.init r₀).run ops).2).Pairwise (· ≤ ·) :=
  (run_mono ops (SimClock.init r₀) r₀ ((SimClock.init r₀).now r₀)
    ⟨le_refl _, by simp [SimClock.init]⟩ (le_refl _) h).2

/-- **One operation never moves the clock backwards** (from any state satisfying the invariant). -/
theorem step_never_backwards (c : SimClock α) (op : ClockOp α) (r r' : α) (hI : Inv c r)
    (hs : speedOK op) (hc : Chrono r op r') : c.now r ≤ (c.step op).1.now r' :=
  (step_mono c op r r' hI hs hc).2

/-- **Assignment below the current time is rejected and changes nothing.** -/
theorem reject (c : SimClock α) (r₁ r₂ t : α) (h : t < c.now r₁) :
    c.step (.setTime r₁ r₂ t) = (c, .accepted false) := by
  have := (setTime_reject c r₁ r₂ t).mpr h
  simp [step, this]

/-- **An accepted assignment takes effect exactly.** -/
theorem assign_exact (c : SimClock α) (r₁ r₂ t : α) (h : ¬ t < c.now r₁) :
    ∃ c', c.step (.setTime r₁ r₂ t) = (c', .accepted true) ∧ c'.now r₂ = t := by
  cases hs : c.setTime r₁ r₂ t with
  | none => exact absurd ((setTime_reject c r₁ r₂ t).mp hs) h
  | some c' => exact ⟨c', by simp [step, hs], setTime_exact c r₁ r₂ t c' hs⟩

/-- **Stands still while stopped.** -/
theorem stopped_still (c : SimClock α) (h : c.play = false) (r r' : α) : c.now r = c.now r' :=
  now_stopped c h r r'

/-- **Advances by speed × elapsed real time while started.** -/
theorem rate (c : SimClock α) (h : c.play = true) (r r' : α) :
    c.now r' - c.now r = c.speed * (r' - r) :=
  now_rate c h r r'

/-- `stop()` freezes the value that `clock.time` showed at that instant. -/
theorem stop_freezes (c : SimClock α) (r r' : α) (h : c.play = true) :
    (c.stop r).now r' = c.now r := by
  simp [SimClock.stop, h, now, elapsed]

/-! non-vacuity: a concrete chronological script over ℤ -/
example : ChronoList (0 : Int) [.start 1, .read 3, .setSpeed 4 4 2, .read 6, .setTime 7 7 100, .stop 8, .read 9] := by
  simp [ChronoList, Chrono, speedOK]

example : values ((SimClock.init (0 : Int)).run
    [.start 1, .read 3, .setSpeed 4 4 2, .read 6, .setTime 7 7 100, .stop 8, .read 9]).2 = [2, 7, 102] := by
  decide

end Sismic.C14
