import Sismic.Proofs.Runner
/-!
# Property C20 — async runner: no step unreported, no event lost, orderly lifecycle

`Sismic.Runner` (Model/Runner.lean): the runner thread and any number of client threads as
sequential programs over atomic actions; `run I s sched` executes schedule `sched` (a list of
thread ids; thread 0 is the runner).  All statements hold for **every** schedule.
Granularity: one atomic action per flag operation, hook, `execute_once`, `queue`, `sleep`, `join`;
pre-emption inside one of these Python-level calls is not modelled.
-/
namespace Sismic.C20
open Sismic.Runner

variable {ι ε μ : Type} (I : Interp ι ε μ)

/-- **No step unreported.**  Under every schedule, at every moment, the macro steps handed to
    `after_execute` (in order, cycle by cycle) followed by those of the cycle under way are exactly
    the macro steps `execute_once` returned, in order. -/
theorem reported_plus_inflight_is_executed (it : ι) (all : Bool) (clients : List (List (CAct ε))) (sched : List Nat) :
    let s := run I ({ it := it, executeAll := all, clients := clients } : St ι ε μ) sched
    s.reported.flatten ++ s.cycle = s.executed :=
  (inv_run I sched _ (inv_init it all clients)).reported

/-- … so whenever no cycle is under way (in particular once the runner has finished) every executed
    macro step has been reported exactly once, in order. -/
theorem every_step_reported_once (it : ι) (all : Bool) (clients : List (List (CAct ε))) (sched : List Nat)
    (h : inCycle (run I ({ it := it, executeAll := all, clients := clients } : St ι ε μ) sched).pc = false) :
    let s := run I ({ it := it, executeAll := all, clients := clients } : St ι ε μ) sched
    s.reported.flatten = s.executed := by
  have hi := inv_run I sched _ (inv_init (μ := μ) it all clients)
  have := hi.reported
  rw [hi.idle h] at this
  simpa using this

/-- **One per cycle unless `execute_all`.** -/
theorem one_step_per_cycle (it : ι) (clients : List (List (CAct ε))) (sched : List Nat) :
    ∀ c ∈ (run I ({ it := it, executeAll := false, clients := clients } : St ι ε μ) sched).reported, c.length ≤ 1 := by
  have hi := inv_run I sched _ (inv_init (μ := μ) it false clients)
  have hall : (run I ({ it := it, executeAll := false, clients := clients } : St ι ε μ) sched).executeAll = false := by
    suffices ∀ (l : List Nat) (s : St ι ε μ), (run I s l).executeAll = s.executeAll from this sched _
    intro l
    induction l with
    | nil => intro s; rfl
    | cons t ts ih =>
      intro s
      simp only [run, List.foldl_cons]
      have := ih (step I s t)
      simp only [run] at this
      rw [this]
      exact step_executeAll I s t
  exact (hi.one hall).1
where
  step_executeAll (I : Interp ι ε μ) (s : St ι ε μ) (t : Nat) : (step I s t).executeAll = s.executeAll := by
    unfold step
    cases t with
    | zero =>
      simp only
      cases hr : runnerStep I s with
      | none => rfl
      | some s' =>
        simp only [Option.getD]
        unfold runnerStep at hr
        cases hpc : s.pc <;> simp only [hpc] at hr <;> (try split at hr) <;> (try cases hr) <;> (try rfl)
        all_goals (try (split at hr <;> cases hr <;> rfl))
        all_goals (cases he : I.exec s.it with | mk r it' => cases r <;> simp only [he] at hr <;> cases hr <;> rfl)
    | succ k =>
      simp only
      split
      · next a rest _ =>
        split
        · next s' hc =>
          cases a <;> simp only [clientAct] at hc <;> (try split at hc) <;> (try cases hc) <;> (try rfl)
          all_goals (try (split <;> rfl))
        · rfl
      · rfl

/-- **`before_run` and `after_run` run exactly once**: never twice, and once the runner thread has
    finished both have run. -/
theorem hooks_once (it : ι) (all : Bool) (clients : List (List (CAct ε))) (sched : List Nat) :
    let s := run I ({ it := it, executeAll := all, clients := clients } : St ι ε μ) sched
    s.beforeRun ≤ 1 ∧ s.afterRun ≤ 1 ∧ (s.pc = .done → s.beforeRun = 1 ∧ s.afterRun = 1) := by
  have hi := inv_run I sched _ (inv_init (μ := μ) it all clients)
  refine ⟨?_, ?_, ?_⟩
  · rw [hi.before]; split <;> omega
  · rw [hi.after]; split <;> omega
  · intro hd
    rw [hi.before, hi.after, hd]
    simp

/-- **Pause.**  Along any schedule during which nobody unpauses, starts or stops the runner, the
    number of cycles started (`before_execute` calls) grows by at most one, and by none unless the
    runner had already passed its wait and not yet called `before_execute` — i.e. at most the cycle
    already under way is executed. -/
theorem pause_bounds_cycles (s : St ι ε μ) (sched : List Nat) (h : StaysPaused I s sched) :
    (run I s sched).cycles ≤ s.cycles + canStart s.pc :=
  paused_cycles I sched s h

/-- **`stop()` returns.**  With both flags set (and no other thread clearing them), the runner is
    never blocked and each of its steps strictly decreases `rank` (≤ 9): it reaches its end. -/
theorem stop_always_progresses (s : St ι ε μ) (hstop : s.stop = true) (hun : s.unpaused = true)
    (hall : s.executeAll = false) (hpc : s.pc ≠ .done) (hpc' : s.pc ≠ .notStarted) :
    ∃ s', runnerStep I s = some s' ∧ rank s'.pc < rank s.pc ∧ s'.stop = true ∧ s'.unpaused = true ∧
      s'.executeAll = false :=
  stop_progress I s hstop hun hall hpc hpc'

/-- **Nothing executes after the runner has finished** (after `stop()` / `wait()` returned). -/
theorem nothing_after_done (s : St ι ε μ) (h : s.pc = .done) : runnerStep I s = none := by
  simp [runnerStep, h]

/-- **Exactly once, in order.**  With the FIFO interpreter, every runner step leaves
    "consumed events followed by pending events" unchanged: events are consumed in the order they
    were queued, each once, none lost. -/
theorem events_exactly_once_in_order (fin : String) (s s' : St QI String String)
    (hq : ∀ e ∈ s.it.pending, e ≠ "<init>") (hs : runnerStep (qInterp fin) s = some s') :
    consumedAndPending s' = consumedAndPending s :=
  (events_runnerStep fin s s' hq hs).1

end Sismic.C20
