import Sismic.Proofs.RoundTrip
import Sismic.Proofs.RoundTripTree
import Sismic.Proofs.RoundTripBuild
import Sismic.Proofs.RoundTripRun
import Sismic.Props.C17
/-!
# Property C11 — YAML export/import round-trip is lossless

`exportDict`/`exportState`/`exportTransition` model `export_to_dict`; `importState`,
`importTransition`, `importContract` model the per-element importers of `import_from_dict`.
The YAML text layer (ruamel dump/load, the `schema` coercions) is *not* modelled: it is covered
by the tie only (`./check C11` round-trips through the real `export_to_yaml`/`import_from_yaml`
and compares with the model's dict-level round trip and, field by field, with the original).

Proved here, for every element whose code strings are stripped and non-empty (`plain`: what the
importer itself produces; the `==` clause of the property is stated for exactly those):
each transition and each state is read back exactly as it was written.  *Partial*: the
chart-level statement (`importDict (exportDict c) = c` up to the order of registration) is not a
theorem; known findings K4/K5 (text layer) are listed in `known_findings.json`.
-/
namespace Sismic.C11

/-- **Transitions round-trip**: source, target, event, guard, action, priority (incl. the
    `high`/`low` spellings and arbitrary integers) and the three contract lists. -/
theorem transition_roundtrip (t : Trans) (h : t.plain) :
    importTransition t.source (exportTransition t) = .ok { t with id := 0 } :=
  importTransition_export t h

/-- … and the result compares equal (`Transition.__eq__`) to the original -/
theorem transition_roundtrip_eq (t t' : Trans) (h : t.plain)
    (h' : importTransition t.source (exportTransition t) = .ok t') : t'.valEq t = true := by
  rw [importTransition_export t h] at h'
  obtain rfl := Except.ok.inj h'
  simp [Trans.valEq]

/-- **States round-trip**: name, kind (basic / compound / orthogonal / final / shallow or deep
    history), entry and exit code, initial state, history memory and the three contract lists —
    for a state of the chart whose composite kinds have children (a childless "compound" state
    is written without `states:` and therefore read back as a basic state). -/
theorem state_roundtrip (c : Chart) (f : Nat) (n : Name) (s : StateDef)
    (hs : c.stateFor n = some s) (hn : s.name = n) (hp : s.plain c) :
    importState (exportState c (f+1) n) = .ok s :=
  importState_export c f n s hs hn hp

/-- **Contracts round-trip** wherever they are embedded. -/
theorem contract_roundtrip (front back : List (String × Data)) (pre post inv : List Code)
    (hf : (Data.map front).get? "contract" = none) (hb : (Data.map back).get? "contract" = none)
    (h1 : ∀ c ∈ pre, c.plain) (h2 : ∀ c ∈ post, c.plain) (h3 : ∀ c ∈ inv, c.plain) :
    importContract (.map (front ++ exportContract pre post inv ++ back)) = .ok (pre, post, inv) :=
  importContract_export front back pre post inv hf hb h1 h2 h3

/-- non-vacuity: a transition with every field set is `plain` -/
example : ({ id := 3, source := "a", target := some "b", event := some "e", guard := some (mkCode "x > 1"),
             action := some (mkCode "x = 2"), priority := 7, pre := [mkCode "x >= 0"] } : Trans).plain := by
  refine ⟨?_, ?_, ?_, ?_, ?_, ?_, ?_⟩ <;> intro a ha <;> simp at ha <;> subst ha <;>
    first | decide | exact ⟨rfl, by decide, by decide⟩ | exact ⟨by decide, by decide⟩

/-! ### the whole document -/

/-- **Importing the exported document registers the original tree.** For a statechart whose exported
    tree can be read back (`Covered`: every state below the root is there under its own name, code
    strings are stripped and non-empty), `import_from_dict(export_to_dict(c))` — with any fuel above
    the number of states of the tree — is `add_state` / `add_transition` applied to exactly the lists
    `flatS` (the `StateDef`s with their parents) and `flatT` (the transitions, identity reset) in an
    empty statechart with the name, description and preamble of `c`, followed by `validate()`. -/
theorem document_roundtrip (c : Chart) (r : Name) (hr : c.root = some r)
    (hcov : Covered c (c.states.length + 1) r)
    (hdesc : c.description ≠ some "") (hpre : ∀ p, c.preamble = some p → p = mkCode p.src ∧ p.src ≠ "")
    (fuel : Nat) (hfuel : sizeS c (c.states.length + 1) r < fuel) :
    importDict fuel (exportDict c) =
      buildChart { name := c.name, description := c.description, preamble := c.preamble, children := [(none, [])] }
        (flatS c (c.states.length + 1) r none) (flatT c (c.states.length + 1) r) :=
  importDict_export c r hr hcov hdesc hpre fuel hfuel

/-- **Nothing foreign is registered**: every registered state is a `StateDef` of `c` (same name,
    kind, code, initial / memory, contracts: the very value) under a parent in whose children list it
    stands, and every registered transition is a transition of `c` but for its identity. -/
theorem nothing_foreign_registered (c : Chart) (f : Nat) (r : Name) :
    (∀ x ∈ flatS c f r none, (c.stateFor r = some x.1 ∧ x.2 = none) ∨
      ∃ m q, c.stateFor m = some x.1 ∧ x.2 = some q ∧ m ∈ c.childrenFor q) ∧
    (∀ t' ∈ flatT c f r, ∃ t ∈ c.transitions, t' = { t with id := 0 }) :=
  ⟨fun x hx => flatS_sound c f r none x hx, fun t' ht => flatT_sound c f r t' ht⟩

/-- **Nothing is forgotten**: in a well-formed statechart every state is registered with the parent
    `c` records for it, and every transition is registered. -/
theorem nothing_forgotten (c : Chart) (hw : WFChart c) (r : Name) (hr : c.root = some r) (F : Nat)
    (hcov : Covered c F r) :
    (∀ m sd, c.stateFor m = some sd → (sd, c.parentFor m) ∈ flatS c F r none) ∧
    (∀ t ∈ c.transitions, { t with id := 0 } ∈ flatT c F r) :=
  flat_complete c hw r hr F hcov

/-- **The round trip succeeds and is lossless** (document level): for every well-formed statechart
    whose exported tree can be read back (`Covered`), `import_from_dict(export_to_dict(c))` returns a
    statechart — every `add_state`, every `add_transition` and `validate()` accept — with the same
    name, description and preamble, in which every lookup of a state (its `StateDef`: name, kind,
    entry / exit code, initial, memory, contracts), of its parent and of its children (up to the
    order of the list) gives what it gives in `c`, and whose transitions are those of `c` but for
    their identities, up to order. -/
theorem roundtrip_succeeds_and_is_lossless (c : Chart) (hw : WFChart c) (r : Name) (hr : c.root = some r)
    (hcov : Covered c (c.states.length + 1) r)
    (hdesc : c.description ≠ some "") (hpre : ∀ p, c.preamble = some p → p = mkCode p.src ∧ p.src ≠ "")
    (fuel : Nat) (hfuel : sizeS c (c.states.length + 1) r < fuel) :
    ∃ c', importDict fuel (exportDict c) = .ok c' ∧
      c'.name = c.name ∧ c'.description = c.description ∧ c'.preamble = c.preamble ∧
      (∀ n, c'.stateFor n = c.stateFor n) ∧ (∀ n, c'.parentFor n = c.parentFor n) ∧
      (∀ q m, m ∈ c'.childrenFor q ↔ m ∈ c.childrenFor q) ∧ (∀ q, (c'.childrenFor q).Nodup) ∧
      (c'.transitions.map (fun t => { t with id := 0 })).Perm (c.transitions.map (fun t => { t with id := 0 })) := by
  obtain ⟨c', h1, h2, h3, h4, h5, h6, h7, h8, h9, _, _⟩ := import_export_succeeds c hw r hr hcov hdesc hpre fuel hfuel
  exact ⟨c', h1, h2, h3, h4, h5, h6, h7, h8, h9⟩

/-! ### the re-imported statechart behaves identically -/

theorem inj_of_nodup_map {α β : Type} (f : α → β) : ∀ (l : List α), (l.map f).Nodup →
    ∀ x ∈ l, ∀ y ∈ l, f x = f y → x = y
  | [], _, x, hx, _, _, _ => by cases hx
  | a :: as, hn, x, hx, y, hy, hxy => by
    rw [List.map_cons] at hn
    obtain ⟨ha, hn'⟩ := List.nodup_cons.mp hn
    rcases List.mem_cons.1 hx with ex | hx'
    · rcases List.mem_cons.1 hy with ey | hy'
      · rw [ex, ey]
      · subst ex; exact absurd (List.mem_map.2 ⟨y, hy', hxy.symm⟩) ha
    · rcases List.mem_cons.1 hy with ey | hy'
      · subst ey; exact absurd (List.mem_map.2 ⟨x, hx', hxy⟩) ha
      · exact inj_of_nodup_map f as hn' x hx' y hy' hxy

/-- **Every input history produces the same run.**  For a well-formed statechart `c` whose exported
    tree can be read back (`Covered`), whose dictionaries hold no duplicate (`tidyExtraB`) and whose
    transitions have distinct identities: the statechart `c'` that `import_from_dict(export_to_dict(c))`
    returns, run by the modelled `PythonEvaluator` from a fresh state with the same listeners,
    produces call by call what `c` produces — the same macro steps (same consumed events, same
    states exited and entered in the same order, same events sent, same transitions but for their
    identities, which the importer assigns anew: `ι`) and, if the run ends with an exception, the
    same exception about the same object at the same call.
    (The proof goes through `c` with its transitions re-identified by `ι`: the relabelling theorem
    of C17 with `ρ = id`, then C07 — `c'` declares the same content in another order.) -/
theorem reimported_statechart_behaves_identically {ω : Type} (c : Chart) (hw : WFChart c) (hx : tidyExtraB c = true)
    (r : Name) (hr : c.root = some r) (hcov : Covered c (c.states.length + 1) r)
    (hdesc : c.description ≠ some "") (hpre : ∀ p, c.preamble = some p → p = mkCode p.src ∧ p.src ≠ "")
    (fuel : Nat) (hfuel : sizeS c (c.states.length + 1) r < fuel)
    (hids : (c.transitions.map (·.id)).Nodup) :
    ∃ c' ι, importDict fuel (exportDict c) = .ok c' ∧
      ∀ (env env' : Env PyCtx ω), env.chart = c → env'.chart = c' → env.E = pyEvaluator → env'.E = pyEvaluator →
        env'.ignoreContract = env.ignoreContract → env'.stabFuel = env.stabFuel → env'.deliver = env.deliver →
        ∀ (clocks : List Int) (rs : RS PyCtx ω) (out : List (Except Err (Option MacroStep))),
          C07.Run env clocks rs out → rs.eff = [] → rs.st.ctx.old = [] →
          ∃ out', C07.Run env' clocks rs out' ∧ List.Forall₂ (OutcomeR id ι) out out' := by
  obtain ⟨c', himp, _, _, _, F1, F2, F3, _, hT, htidy', hids'⟩ :=
    import_export_succeeds c hw r hr hcov hdesc hpre fuel hfuel
  have htidy : Tidy c := tidy_of_wf c hw hx
  obtain ⟨ι, hι⟩ := exists_reid c.transitions c'.transitions hids hT
  -- `ι` is injective on the identities of `c`
  have hinj : ∀ i j, i ∈ c.transitions.map (·.id) → j ∈ c.transitions.map (·.id) → ι i = ι j → i = j := by
    have hn : ((c.transitions.map (·.id)).map ι).Nodup := by
      have : (c'.transitions.map (·.id)).Perm ((c.transitions.map (fun t => t.reid (ι t.id))).map (·.id)) := hι.map _
      have e : (c.transitions.map (fun t => t.reid (ι t.id))).map (·.id) = (c.transitions.map (·.id)).map ι := by
        simp [List.map_map, Function.comp_def, Trans.reid]
      rw [e] at this
      exact this.nodup_iff.1 hids'
    exact fun i j hi hj e => inj_of_nodup_map ι _ hn i hi j hj e
  refine ⟨c', ι, himp, ?_⟩
  intro env env' hc hc' hE hE' hi hf hd clocks rs out hrun heff hold
  -- the statechart in between: `c` with its transitions re-identified
  obtain ⟨env1, henv1⟩ : ∃ e : Env PyCtx ω, e = { env' with chart := c.reid ι } := ⟨_, rfl⟩
  have hR : EnvR id ι (PyR ι env.chart) (fun _ => True) env env1 :=
    pyEnvR_reid ι env env1 (by rw [henv1, hc]) (by rw [hc]; exact hinj) hE (by rw [henv1]; exact hE')
      (by rw [henv1]; exact hi) (by rw [henv1]; exact hf) (by rw [henv1]; exact hd)
  have hrsr : RSR id ι (PyR ι env.chart) rs rs := by
    refine ⟨⟨rfl, rfl, (renameMemory_id _).symm, (List.map_id _).symm, (renKeys_id _).symm, (renKeys_id _).symm, rfl, rfl, rfl, rfl,
      ⟨rfl, rfl, ?_⟩⟩, rfl, by rw [heff]; exact List.Forall₂.nil⟩
    intro o _
    rw [hold]; rfl
  have hgood : GoodSt (fun _ => True) rs.st :=
    ⟨fun _ _ => trivial, fun _ _ => trivial, fun _ _ _ _ => trivial, fun _ _ => trivial, fun _ _ => trivial⟩
  obtain ⟨out', hrun1, hfa⟩ := C17.renaming_commutes_with_execution hR clocks rs out hrun rs hrsr hgood
  refine ⟨out', ?_, hfa⟩
  have hperm : EnvPerm env1 env' := by
    refine ⟨?_, by rw [henv1], by rw [henv1], by rw [henv1], by rw [henv1]⟩
    rw [henv1, hc']
    exact chartPerm_of_lookups c c' _ htidy htidy' F1 F2 F3 hι
  have hb : MemBlind env1.E := by rw [henv1]; show MemBlind env'.E; rw [hE']; exact C07.pyEvaluator_memBlind
  have hw1 : WFChart env1.chart := by rw [henv1]; exact wf_reid ι c hw
  exact C07.declaration_order_free_run hperm hb hw1 clocks rs out' hrun1 rs ⟨rs.st.memory, rs.eff, rfl, fun _ => rfl⟩

/-- non-vacuity: a compound root with a basic child and a transition is `Covered` -/
example : Covered
    { states := [{ name := "r", kind := .compound, initial := some "a" }, { name := "a", kind := .basic }],
      parent := [("r", none), ("a", some "r")], children := [(none, ["r"]), (some "r", ["a"]), (some "a", [])],
      transitions := [{ id := 0, source := "a", target := some "r", event := some "e" }] } 3 "r" := by
  refine ⟨{ name := "r", kind := .compound, initial := some "a" }, rfl, rfl, ?_, ?_, ?_⟩
  · refine ⟨?_, ?_, ?_, ?_, ?_, ?_, ?_⟩ <;> intro a ha <;> simp at ha
    subst ha; exact ⟨by decide, rfl⟩
  · intro t ht; simp [Chart.transitionsFrom] at ht
  · intro _ ch hch
    simp [Chart.childrenFor] at hch
    subst hch
    refine ⟨{ name := "a", kind := .basic }, rfl, rfl, ?_, ?_, ?_⟩
    · refine ⟨?_, ?_, ?_, ?_, ?_, ?_, ?_⟩ <;> intro a ha <;> simp at ha
    · intro t ht
      simp [Chart.transitionsFrom] at ht
      subst ht
      refine ⟨?_, ?_, ?_, ?_, ?_, ?_, ?_⟩ <;> intro a ha <;> simp at ha <;> subst ha <;>
        first | decide | exact ⟨by decide, by decide⟩
    · intro h; cases h

end Sismic.C11
