import Sismic.Proofs.RoundTrip
import Sismic.Proofs.RoundTripTree
import Sismic.Proofs.RoundTripBuild
/-!
# Property C11 — YAML export/import round-trip is lossless

`exportDict`/`exportState`/`exportTransition` model `export_to_dict`; `importState`,
`importTransition`, `importContract` model the per-element importers of `import_from_dict`.
The YAML text layer (ruamel dump/load, the `schema` coercions) is *not* modelled: it is covered
by the tie only (`./check C11` round-trips through the real `export_to_yaml`/`import_from_yaml`
and compares with the model's dict-level round trip and, field by field, with the original).

Proved here, for every element whose code strings are stripped and non-empty (`plain`: what the
importer itself produces; the `==` clause of the property is stated for exactly those):
each transition and each state is read back exactly as it was written.  *Partial*: the
chart-level statement (`importDict (exportDict c) = c` up to the order of registration) is not a
theorem; known findings K4/K5 (text layer) are listed in `known_findings.json`.
-/
namespace Sismic.C11

/-- **Transitions round-trip**: source, target, event, guard, action, priority (incl. the
    `high`/`low` spellings and arbitrary integers) and the three contract lists. -/
theorem transition_roundtrip (t : Trans) (h : t.plain) :
    importTransition t.source (exportTransition t) = .ok { t with id := 0 } :=
  importTransition_export t h

/-- … and the result compares equal (`Transition.__eq__`) to the original -/
theorem transition_roundtrip_eq (t t' : Trans) (h : t.plain)
    (h' : importTransition t.source (exportTransition t) = .ok t') : t'.valEq t = true := by
  rw [importTransition_export t h] at h'
  obtain rfl := Except.ok.inj h'
  simp [Trans.valEq]

/-- **States round-trip**: name, kind (basic / compound / orthogonal / final / shallow or deep
    history), entry and exit code, initial state, history memory and the three contract lists —
    for a state of the chart whose composite kinds have children (a childless "compound" state
    is written without `states:` and therefore read back as a basic state). -/
theorem state_roundtrip (c : Chart) (f : Nat) (n : Name) (s : StateDef)
    (hs : c.stateFor n = some s) (hn : s.name = n) (hp : s.plain c) :
    importState (exportState c (f+1) n) = .ok s :=
  importState_export c f n s hs hn hp

/-- **Contracts round-trip** wherever they are embedded. -/
theorem contract_roundtrip (front back : List (String × Data)) (pre post inv : List Code)
    (hf : (Data.map front).get? "contract" = none) (hb : (Data.map back).get? "contract" = none)
    (h1 : ∀ c ∈ pre, c.plain) (h2 : ∀ c ∈ post, c.plain) (h3 : ∀ c ∈ inv, c.plain) :
    importContract (.map (front ++ exportContract pre post inv ++ back)) = .ok (pre, post, inv) :=
  importContract_export front back pre post inv hf hb h1 h2 h3

/-- non-vacuity: a transition with every field set is `plain` -/
example : ({ id := 3, source := "a", target := some "b", event := some "e", guard := some (mkCode "x > 1"),
             action := some (mkCode "x = 2"), priority := 7, pre := [mkCode "x >= 0"] } : Trans).plain := by
  refine ⟨?_, ?_, ?_, ?_, ?_, ?_, ?_⟩ <;> intro a ha <;> simp at ha <;> subst ha <;>
    first | decide | exact ⟨rfl, by decide, by decide⟩ | exact ⟨by decide, by decide⟩

/-! ### the whole document -/

/-- **Importing the exported document registers the original tree.** For a statechart whose exported
    tree can be read back (`Covered`: every state below the root is there under its own name, code
    strings are stripped and non-empty), `import_from_dict(export_to_dict(c))` — with any fuel above
    the number of states of the tree — is `add_state` / `add_transition` applied to exactly the lists
    `flatS` (the `StateDef`s with their parents) and `flatT` (the transitions, identity reset) in an
    empty statechart with the name, description and preamble of `c`, followed by `validate()`. -/
theorem document_roundtrip (c : Chart) (r : Name) (hr : c.root = some r)
    (hcov : Covered c (c.states.length + 1) r)
    (hdesc : c.description ≠ some "") (hpre : ∀ p, c.preamble = some p → p = mkCode p.src ∧ p.src ≠ "")
    (fuel : Nat) (hfuel : sizeS c (c.states.length + 1) r < fuel) :
    importDict fuel (exportDict c) =
      buildChart { name := c.name, description := c.description, preamble := c.preamble, children := [(none, [])] }
        (flatS c (c.states.length + 1) r none) (flatT c (c.states.length + 1) r) :=
  importDict_export c r hr hcov hdesc hpre fuel hfuel

/-- **Nothing foreign is registered**: every registered state is a `StateDef` of `c` (same name,
    kind, code, initial / memory, contracts: the very value) under a parent in whose children list it
    stands, and every registered transition is a transition of `c` but for its identity. -/
theorem nothing_foreign_registered (c : Chart) (f : Nat) (r : Name) :
    (∀ x ∈ flatS c f r none, (c.stateFor r = some x.1 ∧ x.2 = none) ∨
      ∃ m q, c.stateFor m = some x.1 ∧ x.2 = some q ∧ m ∈ c.childrenFor q) ∧
    (∀ t' ∈ flatT c f r, ∃ t ∈ c.transitions, t' = { t with id := 0 }) :=
  ⟨fun x hx => flatS_sound c f r none x hx, fun t' ht => flatT_sound c f r t' ht⟩

/-- **Nothing is forgotten**: in a well-formed statechart every state is registered with the parent
    `c` records for it, and every transition is registered. -/
theorem nothing_forgotten (c : Chart) (hw : WFChart c) (r : Name) (hr : c.root = some r) (F : Nat)
    (hcov : Covered c F r) :
    (∀ m sd, c.stateFor m = some sd → (sd, c.parentFor m) ∈ flatS c F r none) ∧
    (∀ t ∈ c.transitions, { t with id := 0 } ∈ flatT c F r) :=
  flat_complete c hw r hr F hcov

/-- **The round trip succeeds and is lossless** (document level): for every well-formed statechart
    whose exported tree can be read back (`Covered`), `import_from_dict(export_to_dict(c))` returns a
    statechart — every `add_state`, every `add_transition` and `validate()` accept — with the same
    name, description and preamble, in which every lookup of a state (its `StateDef`: name, kind,
    entry / exit code, initial, memory, contracts), of its parent and of its children (up to the
    order of the list) gives what it gives in `c`, and whose transitions are those of `c` but for
    their identities, up to order. -/
theorem roundtrip_succeeds_and_is_lossless (c : Chart) (hw : WFChart c) (r : Name) (hr : c.root = some r)
    (hcov : Covered c (c.states.length + 1) r)
    (hdesc : c.description ≠ some "") (hpre : ∀ p, c.preamble = some p → p = mkCode p.src ∧ p.src ≠ "")
    (fuel : Nat) (hfuel : sizeS c (c.states.length + 1) r < fuel) :
    ∃ c', importDict fuel (exportDict c) = .ok c' ∧
      c'.name = c.name ∧ c'.description = c.description ∧ c'.preamble = c.preamble ∧
      (∀ n, c'.stateFor n = c.stateFor n) ∧ (∀ n, c'.parentFor n = c.parentFor n) ∧
      (∀ q m, m ∈ c'.childrenFor q ↔ m ∈ c.childrenFor q) ∧ (∀ q, (c'.childrenFor q).Nodup) ∧
      (c'.transitions.map (fun t => { t with id := 0 })).Perm (c.transitions.map (fun t => { t with id := 0 })) :=
  import_export_succeeds c hw r hr hcov hdesc hpre fuel hfuel

/-- non-vacuity: a compound root with a basic child and a transition is `Covered` -/
example : Covered
    { states := [{ name := "r", kind := .compound, initial := some "a" }, { name := "a", kind := .basic }],
      parent := [("r", none), ("a", some "r")], children := [(none, ["r"]), (some "r", ["a"]), (some "a", [])],
      transitions := [{ id := 0, source := "a", target := some "r", event := some "e" }] } 3 "r" := by
  refine ⟨{ name := "r", kind := .compound, initial := some "a" }, rfl, rfl, ?_, ?_, ?_⟩
  · refine ⟨?_, ?_, ?_, ?_, ?_, ?_, ?_⟩ <;> intro a ha <;> simp at ha
    subst ha; exact ⟨by decide, rfl⟩
  · intro t ht; simp [Chart.transitionsFrom] at ht
  · intro _ ch hch
    simp [Chart.childrenFor] at hch
    subst hch
    refine ⟨{ name := "a", kind := .basic }, rfl, rfl, ?_, ?_, ?_⟩
    · refine ⟨?_, ?_, ?_, ?_, ?_, ?_, ?_⟩ <;> intro a ha <;> simp at ha
    · intro t ht
      simp [Chart.transitionsFrom] at ht
      subst ht
      refine ⟨?_, ?_, ?_, ?_, ?_, ?_, ?_⟩ <;> intro a ha <;> simp at ha <;> subst ha <;>
        first | decide | exact ⟨by decide, by decide⟩
    · intro h; cases h

end Sismic.C11
