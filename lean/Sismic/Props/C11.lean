import Sismic.Proofs.RoundTrip
/-!
# Property C11 — YAML export/import round-trip is lossless

`exportDict`/`exportState`/`exportTransition` model `export_to_dict`; `importState`,
`importTransition`, `importContract` model the per-element importers of `import_from_dict`.
The YAML text layer (ruamel dump/load, the `schema` coercions) is *not* modelled: it is covered
by the tie only (`./check C11` round-trips through the real `export_to_yaml`/`import_from_yaml`
and compares with the model's dict-level round trip and, field by field, with the original).

Proved here, for every element whose code strings are stripped and non-empty (`plain`: what the
importer itself produces; the `==` clause of the property is stated for exactly those):
each transition and each state is read back exactly as it was written.  *Partial*: the
chart-level statement (`importDict (exportDict c) = c` up to the order of registration) is not a
theorem; known findings K4/K5 (text layer) are listed in `known_findings.json`.
-/
namespace Sismic.C11

/-- **Transitions round-trip**: source, target, event, guard, action, priority (incl. the
    `high`/`low` spellings and arbitrary integers) and the three contract lists. -/
theorem transition_roundtrip (t : Trans) (h : t.plain) :
    importTransition t.source (exportTransition t) = .ok { t with id := 0 } :=
  importTransition_export t h

/-- … and the result compares equal (`Transition.__eq__`) to the original -/
theorem transition_roundtrip_eq (t t' : Trans) (h : t.plain)
    (h' : importTransition t.source (exportTransition t) = .ok t') : t'.valEq t = true := by
  rw [importTransition_export t h] at h'
  obtain rfl := Except.ok.inj h'
  simp [Trans.valEq]

/-- **States round-trip**: name, kind (basic / compound / orthogonal / final / shallow or deep
    history), entry and exit code, initial state, history memory and the three contract lists —
    for a state of the chart whose composite kinds have children (a childless "compound" state
    is written without `states:` and therefore read back as a basic state). -/
theorem state_roundtrip (c : Chart) (f : Nat) (n : Name) (s : StateDef)
    (hs : c.stateFor n = some s) (hn : s.name = n) (hp : s.plain c) :
    importState (exportState c (f+1) n) = .ok s :=
  importState_export c f n s hs hn hp

/-- **Contracts round-trip** wherever they are embedded. -/
theorem contract_roundtrip (front back : List (String × Data)) (pre post inv : List Code)
    (hf : (Data.map front).get? "contract" = none) (hb : (Data.map back).get? "contract" = none)
    (h1 : ∀ c ∈ pre, c.plain) (h2 : ∀ c ∈ post, c.plain) (h3 : ∀ c ∈ inv, c.plain) :
    importContract (.map (front ++ exportContract pre post inv ++ back)) = .ok (pre, post, inv) :=
  importContract_export front back pre post inv hf hb h1 h2 h3

/-- non-vacuity: a transition with every field set is `plain` -/
example : ({ id := 3, source := "a", target := some "b", event := some "e", guard := some (mkCode "x > 1"),
             action := some (mkCode "x = 2"), priority := 7, pre := [mkCode "x >= 0"] } : Trans).plain := by
  refine ⟨?_, ?_, ?_, ?_, ?_, ?_, ?_⟩ <;> intro a ha <;> simp at ha <;> subst ha <;>
    first | decide | exact ⟨rfl, by decide, by decide⟩ | exact ⟨by decide, by decide⟩

end Sismic.C11
