import Sismic.Proofs.C03
import Sismic.Spec.Legal
import Sismic.Proofs.Legal
import Sismic.Proofs.LegalMulti
import Sismic.Proofs.WFCheck
/-!
# Property C02 — the active configuration is always a legal, stable statechart configuration

`Legal` is the property's notion of a legal configuration, over the model's `Chart`.
Proved here, for all inputs: **legality** as an invariant, **stability** (after every call that
returns a macro step nothing remains to be entered by default; a call that returns `None` leaves the
configuration alone) and **final stays final** (an initialised interpreter with an empty
configuration keeps it, whatever events arrive).

**Legality is an inductive invariant** (`legal_preserved`, `legal_always`): for every well-formed
chart (`WFChart`, DESIGN.md §2 W1–W8, decided by `wfB`), every evaluator and listener, and every
call of `execute_once` that returns — initialisation, an event consumed without transition, one
transition wherever its source and target lie (nested inside orthogonal regions, history states,
ancestors, self-loops, the root), or several transitions at once (one per orthogonal region) —
the invariant `LInv` (configuration empty or `Legal`, history memory re-enterable) is preserved;
it holds initially (`legal_initially`), hence in every reachable state (`legal_always`).
Proof (`Proofs/Legal.lean`, `Proofs/LegalMulti.lean`, `Proofs/Desc.lean`): every micro step keeps
the configuration *semi-legal* (`Semi`: legal up to pending default entry — `createStep_semi_gen`,
`stabilizationStep_semi`, with the memory invariant `MemOK` for history restoration and
`semi_final_only` for final states); a semi-legal configuration on which no stabilisation step is
pending is legal (`semi_stable_legal`); when several transitions fire, what `_sort_transitions`
accepts is pairwise `Separated` (different regions of an orthogonal state), the steps planned in
the original configuration are applied to a configuration that still agrees with it on the
subtree they exit (`Pending`), and neither the other transitions' steps (`pending_after_other`)
nor stabilisation (`stab_untouched`) touch that subtree (`runChain_multi`).
-/
namespace Sismic.C02
open M

variable {σ ω : Type} (env : Env σ ω)

/-- **Stable.** After a call that returns a macro step, no state of the configuration asks for a
    stabilisation step any more: no active compound state with an initial state but no active
    child to enter, no active orthogonal state with an inactive child, no active history state,
    no active final child of the root. -/
theorem stable_after_step (clock : Int) (rs rs' : RS σ ω) (ms : MacroStep)
    (h : executeOnce env clock rs = (.ok (some ms), rs')) :
    stabilizationStep env.chart rs'.st.memory rs'.st.config = none := by
  obtain ⟨st1, computed, _, _, _, _, _, _, _, _, hnil, hcons⟩ := executeOnce_ok env clock rs rs' _ h
  cases computed with
  | nil => exact absurd (hnil rfl).1 (by simp)
  | cons first tail =>
    obtain ⟨steps, _, hchain, hcm, _⟩ := hcons first tail rfl
    have := runChain_stable env.chart (first :: tail) steps _ (by simp) hchain
    rw [← hcm] at this
    exact this

/-- a call that returns `None` changes neither configuration nor memory (so stability is kept) -/
theorem idle_keeps_configuration (clock : Int) (rs rs' : RS σ ω)
    (h : executeOnce env clock rs = (.ok none, rs')) :
    rs'.st.config = rs.st.config ∧ rs'.st.memory = rs.st.memory := by
  obtain ⟨st1, computed, _, _, _, _, _, _, _, _, hnil, hcons⟩ := executeOnce_ok env clock rs rs' _ h
  cases computed with
  | nil => exact ⟨(hnil rfl).2.1, (hnil rfl).2.2.1⟩
  | cons first tail =>
    obtain ⟨steps, hr, _⟩ := hcons first tail rfl
    exact absurd hr (by simp)

theorem select_empty (c : Chart) (evName : Option String) (ok : Trans → Bool → Bool) :
    (selectTransitions c [] evName ok).selected = [] := by
  have hf : c.transitions.filter (fun t => ([] : List Name).contains t.source && (t.event.isNone || t.event == evName)) = [] := by
    simp
  simp only [selectTransitions, hf, List.filter_nil, selectGroup, keysSorted, List.foldl_nil]
  rfl

theorem stabilization_empty (c : Chart) (mem : List (Name × List Name)) : stabilizationStep c mem [] = none := by
  simp [stabilizationStep, Chart.leafFor, isort]

/-- **Once final it stays empty**: an initialised interpreter whose configuration is empty still
    has an empty configuration after any call that returns normally, whatever event is pending. -/
theorem final_stays_empty (clock : Int) (rs rs' : RS σ ω) (r : Option MacroStep)
    (h : executeOnce env clock rs = (.ok r, rs')) (hi : rs.st.initialized = true)
    (he : rs.st.config = []) : rs'.st.config = [] := by
  obtain ⟨st1, computed, _, hc1, _, _, _, hplan, _, _, hnil, hcons⟩ := executeOnce_ok env clock rs rs' _ h
  have hp := hplan hi
  rw [he] at hc1
  simp only [planOf, hc1, select_empty, List.isEmpty_nil, if_true] at hp
  cases computed with
  | nil => rw [(hnil rfl).2.1, he]
  | cons first tail =>
    obtain ⟨steps, _, hchain, hcm, _⟩ := hcons first tail rfl
    cases hpe : peekEvent st1 with
    | none => rw [hpe] at hp; simp at hp
    | some e =>
      rw [hpe] at hp
      simp only [Except.ok.injEq, List.cons.injEq] at hp
      obtain ⟨hf, ht⟩ := hp
      subst ht
      obtain ⟨a, stab, rest, rfl, hshape, hstab, hrest⟩ := hchain
      have hrest' : rest = [] := hrest
      subst hrest'
      have ha : applyMicro env.chart (rs.st.config, rs.st.memory) first = ([], rs.st.memory) := by
        rw [← hf, he]; rfl
      rw [ha] at hstab
      cases stab with
      | cons s ss =>
        obtain ⟨x, hx, _⟩ := hstab
        rw [stabilization_empty] at hx
        exact absurd hx (by simp)
      | nil =>
        have e1 : applyMicros env.chart (rs.st.config, rs.st.memory) (a :: [] ++ []) = ([], rs.st.memory) := by
          simp only [applyMicros, List.append_nil, List.foldl_cons, List.foldl_nil]
          rw [applyMicro_shape _ _ a first hshape, ha]
        rw [e1] at hcm
        exact (Prod.mk.inj hcm).1

/-- `legalB` decides `Legal` (for duplicate-free configurations, which is what the interpreter's
    set is) — so the `legal` bit the tie compares after every step is the property's predicate -/
theorem legalB_sound (c : Chart) (cfg : List Name) (hn : cfg.Nodup) (h : legalB c cfg = true) : Legal c cfg := by
  simp only [legalB, Bool.and_eq_true, List.all_eq_true] at h
  obtain ⟨⟨⟨h1, h2⟩, h3⟩, h4⟩ := h
  refine ⟨?_, ?_, ?_, ?_, ?_, ?_, hn⟩
  · intro r hr; rw [hr] at h1; simpa using h1
  · exact h2
  · intro s hs p hp; have := h3 s hs; rw [hp] at this; simpa using this
  · intro z hz sd hsd hk
    have := h4 z hz
    rw [hsd] at this
    simp only [hk, beq_self_eq_true, if_true, Bool.and_eq_true, decide_eq_true_eq, Bool.or_eq_true,
      Bool.not_eq_true'] at this
    refine ⟨this.1, fun hi => ?_⟩
    rcases this.2 with h' | h'
    · rw [h'] at hi; exact absurd hi (by simp)
    · exact h'
  · intro z hz hk ch hch
    have := h4 z hz
    simp only [Chart.kindOf] at hk
    cases hsd : c.stateFor z with
    | none => rw [hsd] at hk; simp at hk
    | some sd =>
      rw [hsd] at hk this
      have hk' : sd.kind = .orthogonal := by simpa using hk
      have h2 : (c.childrenFor z).all cfg.contains = true := by simpa [hk'] using this
      have := List.all_eq_true.mp h2 ch hch
      simpa using this
  · intro s hs k hk
    have := h4 s hs
    simp only [Chart.kindOf] at hk
    cases hsd : c.stateFor s with
    | none => rw [hsd] at hk; simp at hk
    | some sd =>
      rw [hsd] at hk this
      have hk' : sd.kind = k := by simpa using hk
      subst hk'
      cases hkk : sd.kind <;> simp_all [Kind.isHistory]

/-- what is carried from one call of `execute_once` to the next -/
structure LInv (c : Chart) (st : IState σ) : Prop where
  notStarted : st.initialized = false → st.config = []
  legal : st.config = [] ∨ Legal c st.config
  memory : MemOK c st.memory

/-- a fresh interpreter satisfies the invariant -/
theorem legal_initially (c : Chart) (st : IState σ) (hi : st.initialized = false) (hc : st.config = [])
    (hm : st.memory = []) : LInv c st :=
  ⟨fun _ => hc, Or.inl hc, by rw [hm]; intro hs k l hf; simp at hf⟩

/-- **Legality is an inductive invariant of `execute_once`**: for every well-formed statechart,
    every evaluator, every listener and every call that returns normally — whatever event is
    consumed, however many transitions fire (one per orthogonal region), wherever their targets
    lie — if the configuration was empty-or-legal with a re-enterable history memory before the
    call, it is afterwards. -/
theorem legal_preserved (hwf : WFChart env.chart) (clock : Int) (rs rs' : RS σ ω) (r : Option MacroStep)
    (h : executeOnce env clock rs = (.ok r, rs')) (hinv : LInv env.chart rs.st) :
    LInv env.chart rs'.st := by
  obtain ⟨st1, computed, _, hc1, hm1, _, hinit, hplan, hi', _, hnil, hcons⟩ := executeOnce_ok env clock rs rs' _ h
  cases computed with
  | nil =>
    obtain ⟨_, hc, hm, _⟩ := hnil rfl
    refine ⟨?_, ?_, ?_⟩
    · intro hf; rw [hi'] at hf; cases hf
    · rw [hc]; exact hinv.legal
    · rw [hm]; exact hinv.memory
  | cons p tail =>
    obtain ⟨steps, _, hchain, hcm, _⟩ := hcons p tail rfl
    have hfin : SInv env.chart (applyMicros env.chart (rs.st.config, rs.st.memory) steps) := by
      cases hin : rs.st.initialized with
      | false =>
        have := hinit hin
        simp only [List.cons.injEq] at this
        obtain ⟨hp, ht⟩ := this
        subst ht
        have hcfg := hinv.notStarted hin
        obtain ⟨r0, hr0, _, _⟩ := hwf.root
        have e : applyMicro env.chart (rs.st.config, rs.st.memory) p = ([r0], rs.st.memory) := by
          rw [hp, hcfg, hr0]; rfl
        apply runChain_single env.chart hwf _ p steps _ hchain
        rw [e]
        exact ⟨Or.inr (semi_root env.chart hwf r0 hr0), hinv.memory⟩
      | true =>
        have hp := hplan hin
        have := planned_chain_inv env.chart hwf env.E st1 (p :: tail) steps hp
          (by rw [hc1]; exact hinv.legal) (by rw [hm1]; exact hinv.memory) (by rw [hc1, hm1]; exact hchain)
        rw [hc1, hm1] at this
        exact this
    rw [← hcm] at hfin
    have hstable := runChain_stable env.chart (p :: tail) steps _ (by simp) hchain
    rw [← hcm] at hstable
    refine ⟨?_, ?_, hfin.2⟩
    · intro hf; rw [hi'] at hf; cases hf
    rcases hfin.1 with he | hS
    · exact Or.inl he
    · exact Or.inr (semi_stable_legal env.chart hwf hS hstable)

/-- what can happen to an interpreter: calls of `execute_once` that return normally, and anything
    else that leaves configuration, memory and the initialised flag alone (queueing events, moving
    the clock, attaching listeners, changing the context) -/
inductive Reach : RS σ ω → RS σ ω → Prop
  | refl (rs) : Reach rs rs
  | step {rs rs1 rs2} (clock : Int) (r : Option MacroStep) :
      executeOnce env clock rs = (.ok r, rs1) → Reach rs1 rs2 → Reach rs rs2
  | other {rs rs1 rs2} : rs1.st.config = rs.st.config → rs1.st.memory = rs.st.memory →
      rs1.st.initialized = rs.st.initialized → Reach rs1 rs2 → Reach rs rs2

/-- **The active configuration is always empty or legal**: in every state reachable from a fresh
    interpreter (`legal_initially`) by any history of events, clock moves and steps. -/
theorem legal_always (hwf : WFChart env.chart) (rs rs' : RS σ ω) (hr : Reach env rs rs')
    (hinv : LInv env.chart rs.st) : LInv env.chart rs'.st := by
  induction hr with
  | refl => exact hinv
  | step clock r hx _ ih => exact ih (legal_preserved env hwf clock _ _ r hx hinv)
  | other hc hm hi _ ih =>
    apply ih
    exact ⟨fun hf => by rw [hc]; exact hinv.notStarted (hi ▸ hf), by rw [hc]; exact hinv.legal,
      by rw [hm]; exact hinv.memory⟩

/-! ### non-vacuity: a statechart with an orthogonal state, a nested target and a history state is
    well-formed (by the decision procedure `wfB`, which the driver also evaluates on every generated
    chart — `wf` in the observations, compared with an independent Python implementation) -/

def exChart : Chart :=
  { states := [{ name := "r", kind := .compound, initial := some "a" },
               { name := "a", kind := .basic },
               { name := "p", kind := .orthogonal },
               { name := "p1", kind := .compound, initial := some "x" },
               { name := "p2", kind := .compound, initial := some "u" },
               { name := "x", kind := .basic }, { name := "y", kind := .basic },
               { name := "h", kind := .shallow, memory := some "x" },
               { name := "u", kind := .basic }, { name := "f", kind := .final }],
    parent := [("r", none), ("a", some "r"), ("p", some "r"), ("p1", some "p"), ("p2", some "p"),
               ("x", some "p1"), ("y", some "p1"), ("h", some "p1"), ("u", some "p2"), ("f", some "r")],
    children := [(none, ["r"]), (some "r", ["a", "p", "f"]), (some "a", []), (some "p", ["p1", "p2"]),
                 (some "p1", ["x", "y", "h"]), (some "p2", ["u"]), (some "x", []), (some "y", []),
                 (some "h", []), (some "u", []), (some "f", [])],
    transitions := [{ id := 0, source := "a", target := some "y", event := some "e" },
                    { id := 1, source := "p", target := some "a", event := some "back" },
                    { id := 2, source := "a", target := some "h", event := some "again" },
                    { id := 3, source := "x", target := some "y", event := some "n" },
                    { id := 4, source := "a", target := some "f", event := some "end" }] }

example : WFChart exChart := wfB_sound exChart (by decide)

example : Legal exChart ["r", "p", "p1", "p2", "y", "u"] := legalB_sound exChart _ (by decide) (by decide)

end Sismic.C02
