import Sismic.Proofs.LogFilters
import Sismic.Proofs.ErrSpec
/-!
# Property C10 — property-statechart monitoring: complete, ordered, fail-fast

`metaOfEffects` extracts the meta-events raised during a call from the effect log; every raised
meta-event is handed to every attached listener (`raiseMeta`: log, then call the listeners in
order).
-/
namespace Sismic.C10
open M

variable {σ ω : Type} (env : Env σ ω)

/-- **The documented meta-events, in the order things happened.**  For a call that returns a
    macro step: `step started(time)`, `event consumed(event)` if an event is consumed, then per
    micro step `state exited` for each exited state, `transition processed(source, target, event)`,
    `state entered` for each entered state, `event sent` (and `delayed event sent`) / the user's
    `notify` event for each event the code sent; finally `step ended`. -/
theorem meta_stream (clock : Int) (rs rs' : RS σ ω) (ms : MacroStep)
    (h : executeOnce env clock rs = (.ok (some ms), rs')) :
    ∃ (new : List Effect) (consumed : List (Option Event)), rs'.eff = rs.eff ++ new ∧ consumed.length ≤ 1 ∧
      metaOfEffects new = metaStarted clock :: (consumed.map metaConsumed ++
        (ms.steps.flatMap metaMicro ++ [metaEnded])) := by
  obtain ⟨st1, computed, _, _, _, _, _, _, _, _, hnil, hcons⟩ := executeOnce_ok env clock rs rs' _ h
  cases computed with
  | nil => exact absurd (hnil rfl).1 (by simp)
  | cons first tail =>
    obtain ⟨steps, hr, _, _, heff⟩ := hcons first tail rfl
    obtain rfl : ms = { time := clock, steps := steps } := Option.some.inj hr
    simp only [List.append_assoc] at heff
    have hg : metaOfEffects (planGuards env rs.st.initialized st1) = [] := by
      unfold planGuards; split
      · exact metaOf_guardLog _ _ _ _
      · rfl
    have hm : metaOfEffects (steps.flatMap (microLog env.chart env.ignoreContract)) = steps.flatMap metaMicro :=
      metaOf_flatMap _ _ (metaOf_microLog env.chart env.ignoreContract) steps
    by_cases hev : first.event.isSome = true
    · refine ⟨_, [(popEvent { st1 with initialized := true }).1], heff, by simp, ?_⟩
      simp [metaOf_append, hg, hm, metaOf_finishLog, hev]
    · refine ⟨_, [], heff, by simp, ?_⟩
      simp [metaOf_append, hg, hm, metaOf_finishLog, hev]

/-- for a call in which nothing happens: `step started`, `step ended` -/
theorem meta_stream_none (clock : Int) (rs rs' : RS σ ω)
    (h : executeOnce env clock rs = (.ok none, rs')) :
    ∃ new, rs'.eff = rs.eff ++ new ∧ metaOfEffects new = [metaStarted clock, metaEnded] := by
  obtain ⟨st1, computed, _, _, _, _, _, _, _, _, hnil, hcons⟩ := executeOnce_ok env clock rs rs' _ h
  cases computed with
  | cons first tail =>
    obtain ⟨steps, hr, _⟩ := hcons first tail rfl
    exact absurd hr (by simp)
  | nil =>
    obtain ⟨_, _, _, heff⟩ := hnil rfl
    simp only [List.append_assoc] at heff
    refine ⟨_, heff, ?_⟩
    have hg : metaOfEffects (planGuards env rs.st.initialized st1) = [] := by
      unfold planGuards; split
      · exact metaOf_guardLog _ _ _ _
      · rfl
    simp [metaOf_append, hg, metaOf_finishLog]

/-- **Fail-fast.**  When a listener raises (a property statechart became final), `execute_once`
    raises that exception and the last thing that happened in the monitored interpreter is the
    raising of the meta-event being delivered: no later code, contract evaluation or meta-event. -/
theorem property_failure_is_immediate (hd : ListenerErrs env) (clock : Int) (rs rs' : RS σ ω) (l : Nat)
    (h : executeOnce env clock rs = (.error (.propertyFailed l), rs')) :
    ∃ m, rs'.eff.getLast? = some (.metaEv m) :=
  executeOnce_raisedAt env hd clock rs rs' _ h

/-- **The property statechart's clock shows the monitored step time**: every listener call made
    during `execute_once` receives `clock`, the value sampled at the call (the interpreter's time
    never changes during the call, `executeOnce_time`). -/
theorem listeners_see_step_time (clock : Int) (rs : RS σ ω) :
    (executeOnce env clock rs).2.st.time = clock :=
  (executeOnce_time env clock rs).1

end Sismic.C10
