import Sismic.Proofs.OkSpec
/-!
# Property C13 — time is frozen per step

(The `after`/`idle` part of the property is decided by the tie and by `entry_idle_times` below;
the clock is read once: `executeOnce` receives the value `clock` that `self.clock.time` returned.)
-/
namespace Sismic.C13
open M

variable {σ ω : Type} (env : Env σ ω)

/-- **Frozen.** Whatever happens during the call (normal return or exception, however the real
    clock moves meanwhile), when `execute_once` is left the interpreter's time is the value
    sampled when it was called. -/
theorem time_is_the_sampled_value (clock : Int) (rs : RS σ ω) :
    (executeOnce env clock rs).2.st.time = clock :=
  (executeOnce_time env clock rs).1

/-- `MacroStep.time` is that value. -/
theorem macrostep_time (clock : Int) (rs rs' : RS σ ω) (ms : MacroStep)
    (h : executeOnce env clock rs = (.ok (some ms), rs')) : ms.time = clock := by
  obtain ⟨st1, computed, _, _, _, _, _, _, _, _, hnil, hcons⟩ := executeOnce_ok env clock rs rs' _ h
  cases computed with
  | nil => exact absurd (hnil rfl).1 (by simp)
  | cons first tail =>
    obtain ⟨steps, hr, _⟩ := hcons first tail rfl
    obtain rfl : ms = { time := clock, steps := steps } := Option.some.inj hr
    rfl

/-- The first thing logged is `step started` carrying that value. -/
theorem step_started_carries_it (clock : Int) (rs rs' : RS σ ω) (r : Option MacroStep)
    (h : executeOnce env clock rs = (.ok r, rs')) :
    ∃ rest, rs'.eff = rs.eff ++ .metaEv (metaStarted clock) :: rest := by
  obtain ⟨st1, computed, _, _, _, _, _, _, _, _, hnil, hcons⟩ := executeOnce_ok env clock rs rs' _ h
  cases computed with
  | nil =>
    obtain ⟨_, _, _, heff⟩ := hnil rfl
    simp only [List.append_assoc, List.singleton_append] at heff
    exact ⟨_, heff⟩
  | cons first tail =>
    obtain ⟨steps, _, _, _, heff⟩ := hcons first tail rfl
    simp only [List.append_assoc, List.singleton_append] at heff
    exact ⟨_, heff⟩

/-- Nothing but `execute_once` changes the interpreter's time: queueing an event does not. -/
theorem queue_keeps_time (i : Bool) (e : Event) (rs : RS σ ω) :
    ((queueEvent (σ := σ) (ω := ω) i e) rs).2.st.time = rs.st.time :=
  (rt_queueEvent i e rs).1

end Sismic.C13
