import Sismic.Proofs.OkSpec
import Sismic.Proofs.Times
import Sismic.Model.Py
/-!
# Property C13 — time is frozen per step

The clock is read once: `executeOnce` receives the value `clock` that `self.clock.time` returned.
`after(d)` / `idle(d)`: what the predicates compute (`after_semantics`, `idle_semantics`), which
times the guard of a transition is given (`guard_sees`), and when those times are written
(`entry_records_times`, `transition_records_idle_time`), and that nothing else writes them
(`times_written_only_by_steps`: for every outcome of `execute_once` a recorded time changes only to
the step time, and a state active afterwards either was active with the same entry time or has the
step time as entry time), so that every active state always has a recorded entry time
(`active_states_have_entry_time`: `after()` in a guard never meets a missing time).
-/
namespace Sismic.C13
open M

variable {σ ω : Type} (env : Env σ ω)

/-- **Frozen.** Whatever happens during the call (normal return or exception, however the real
    clock moves meanwhile), when `execute_once` is left the interpreter's time is the value
    sampled when it was called. -/
theorem time_is_the_sampled_value (clock : Int) (rs : RS σ ω) :
    (executeOnce env clock rs).2.st.time = clock :=
  (executeOnce_time env clock rs).1

/-- `MacroStep.time` is that value. -/
theorem macrostep_time (clock : Int) (rs rs' : RS σ ω) (ms : MacroStep)
    (h : executeOnce env clock rs = (.ok (some ms), rs')) : ms.time = clock := by
  obtain ⟨st1, computed, _, _, _, _, _, _, _, _, hnil, hcons⟩ := executeOnce_ok env clock rs rs' _ h
  cases computed with
  | nil => exact absurd (hnil rfl).1 (by simp)
  | cons first tail =>
    obtain ⟨steps, hr, _⟩ := hcons first tail rfl
    obtain rfl : ms = { time := clock, steps := steps } := Option.some.inj hr
    rfl

/-- The first thing logged is `step started` carrying that value. -/
theorem step_started_carries_it (clock : Int) (rs rs' : RS σ ω) (r : Option MacroStep)
    (h : executeOnce env clock rs = (.ok r, rs')) :
    ∃ rest, rs'.eff = rs.eff ++ .metaEv (metaStarted clock) :: rest := by
  obtain ⟨st1, computed, _, _, _, _, _, _, _, _, hnil, hcons⟩ := executeOnce_ok env clock rs rs' _ h
  cases computed with
  | nil =>
    obtain ⟨_, _, _, heff⟩ := hnil rfl
    simp only [List.append_assoc, List.singleton_append] at heff
    exact ⟨_, heff⟩
  | cons first tail =>
    obtain ⟨steps, _, _, _, heff⟩ := hcons first tail rfl
    simp only [List.append_assoc, List.singleton_append] at heff
    exact ⟨_, heff⟩

/-- Nothing but `execute_once` changes the interpreter's time: queueing an event does not. -/
theorem queue_keeps_time (i : Bool) (e : Event) (rs : RS σ ω) :
    ((queueEvent (σ := σ) (ω := ω) i e) rs).2.st.time = rs.st.time :=
  (rt_queueEvent i e rs).1

/-! ### `after` and `idle` -/

/-- `after(d)` is true iff at least `d` time units separate the step time from the recorded entry time -/
theorem after_semantics (penv : PyEnv) (st : PySt) (d t0 : Int) (h : penv.entryT = some (some t0)) :
    callFn penv st "after" [.int d] [] = (some (.bool (decide (penv.time - d ≥ t0))), st) := by
  simp [callFn, h, Val.asInt?]

/-- `idle(d)` likewise with the recorded idle time -/
theorem idle_semantics (penv : PyEnv) (st : PySt) (d t0 : Int) (h : penv.idleT = some (some t0)) :
    callFn penv st "idle" [.int d] [] = (some (.bool (decide (penv.time - d ≥ t0))), st) := by
  simp [callFn, h, Val.asInt?]

/-- the guard of a transition is evaluated with the interpreter's (frozen) step time and the entry
    and idle times recorded for the transition's *source* state -/
theorem guard_sees (st : IState PyCtx) (t : Trans) (ev : Option Event) (code : Code) (h : t.guard = some code) :
    pyGuard st t ev = pyEval { viewEnv st with
      event := some ev,
      entryT := some (assocGet t.source st.entryTime),
      idleT := some (assocGet t.source st.idleTime) } st.ctx code ∧
    (viewEnv st).time = st.time := by
  simp [pyGuard, h, viewEnv]

theorem raiseMeta_times (m : Event) (rs : RS σ ω) :
    (raiseMeta env m rs).2.st.entryTime = rs.st.entryTime ∧ (raiseMeta env m rs).2.st.idleTime = rs.st.idleTime ∧
    (raiseMeta env m rs).2.st.time = rs.st.time := by
  have hcl : ∀ (ls : List Nat) (r : RS σ ω),
      (M.forEach (callListener env m) ls r).2.st.entryTime = r.st.entryTime ∧
      (M.forEach (callListener env m) ls r).2.st.idleTime = r.st.idleTime ∧
      (M.forEach (callListener env m) ls r).2.st.time = r.st.time := by
    intro ls
    induction ls with
    | nil => intro r; exact ⟨rfl, rfl, rfl⟩
    | cons l ls ih =>
      intro r
      have hf : ∀ (qs : List Event) (st : IState σ),
          (qs.foldl (fun st e => { st with extQ := queueInsert (st.time + e.delay) e st.extQ }) st).entryTime = st.entryTime ∧
          (qs.foldl (fun st e => { st with extQ := queueInsert (st.time + e.delay) e st.extQ }) st).idleTime = st.idleTime ∧
          (qs.foldl (fun st e => { st with extQ := queueInsert (st.time + e.delay) e st.extQ }) st).time = st.time := by
        intro qs
        induction qs with
        | nil => intro st; exact ⟨rfl, rfl, rfl⟩
        | cons q qs ihq =>
          intro st; simp only [List.foldl_cons]
          rw [(ihq _).1, (ihq _).2.1, (ihq _).2.2]; exact ⟨rfl, rfl, rfl⟩
      simp only [M.forEach, M.bind]
      obtain ⟨res, r1, hc⟩ : ∃ res r1, callListener env m l r = (res, r1) := ⟨_, _, rfl⟩
      have h1 : r1.st.entryTime = r.st.entryTime ∧ r1.st.idleTime = r.st.idleTime ∧ r1.st.time = r.st.time := by
        unfold callListener at hc
        simp only [Prod.mk.injEq] at hc
        obtain ⟨_, rfl⟩ := hc
        exact hf _ _
      simp only [hc]
      cases res with
      | error err => exact h1
      | ok u => simp only; rw [(ih r1).1, (ih r1).2.1, (ih r1).2.2]; exact h1
  unfold raiseMeta
  simp only [M.bind, M.emit, M.get]
  exact hcl _ _

/-- **Entering a state records the step time** as its entry time and as its idle time. -/
theorem entry_records_times (step : Micro) (s : StateDef) (rs rs' : RS σ ω) (sent : List Sent)
    (h : enterState env step s rs = (.ok sent, rs')) :
    assocGet s.name rs'.st.entryTime = some rs'.st.time ∧ assocGet s.name rs'.st.idleTime = some rs'.st.time := by
  unfold enterState at h
  obtain ⟨_, r1, h1, h⟩ := bind_ok.mp h
  obtain ⟨_, r2, h2, h⟩ := bind_ok.mp h
  obtain ⟨_, r3, h3, h⟩ := bind_ok.mp h
  obtain ⟨_, r4, h4, h⟩ := bind_ok.mp h
  obtain ⟨_, r5, h5, h⟩ := bind_ok.mp h
  rw [pure_ok] at h
  obtain ⟨_, rfl⟩ := h
  rw [modify_ok] at h4
  subst h4
  have ht := raiseMeta_times env { name := "state entered", data := [("state", .str s.name)] } { r3 with st := { r3.st with
      config := if r3.st.config.contains s.name then r3.st.config else r3.st.config ++ [s.name],
      entryTime := assocSet s.name r3.st.time r3.st.entryTime,
      idleTime := assocSet s.name r3.st.time r3.st.idleTime } }
  rw [h5] at ht
  simp only at ht
  rw [ht.1, ht.2.1, ht.2.2]
  have key : ∀ (l : List (Name × Int)) (k : Name) (v : Int), assocGet k (assocSet k v l) = some v := by
    intro l k v
    induction l with
    | nil => simp [assocSet, assocGet]
    | cons p r ih =>
      obtain ⟨k', v'⟩ := p
      simp only [assocSet]
      split
      · simp [assocGet]
      · next hk =>
        simp only [assocGet, List.find?_cons, hk] at ih ⊢
        exact ih
  exact ⟨key _ _ _, key _ _ _⟩

/-- **Nothing else writes the recorded times** — for every outcome of `execute_once` (normal
    return or exception): an entry / idle time changes only to the step time, and every state active
    afterwards either was already active and kept its entry time, or has the step time as its entry
    time (it became active during this call). -/
theorem times_written_only_by_steps (clock : Int) (rs : RS σ ω) :
    let rs' := (executeOnce env clock rs).2
    (∀ s, assocGet s rs'.st.entryTime = assocGet s rs.st.entryTime ∨ assocGet s rs'.st.entryTime = some clock) ∧
    (∀ s, assocGet s rs'.st.idleTime = assocGet s rs.st.idleTime ∨ assocGet s rs'.st.idleTime = some clock) ∧
    (∀ s, s ∈ rs'.st.config →
      (s ∈ rs.st.config ∧ assocGet s rs'.st.entryTime = assocGet s rs.st.entryTime) ∨
      assocGet s rs'.st.entryTime = some clock) :=
  executeOnce_times env clock rs

/-- every active state has a recorded entry time -/
def Timed (st : IState σ) : Prop := ∀ s, s ∈ st.config → (assocGet s st.entryTime).isSome = true

/-- any history: calls of `execute_once` (whatever they return or raise) and anything that leaves
    configuration and recorded entry times alone (queueing, clock moves, context changes) -/
inductive Hist : RS σ ω → RS σ ω → Prop
  | refl (rs) : Hist rs rs
  | step {rs rs2} (clock : Int) : Hist (executeOnce env clock rs).2 rs2 → Hist rs rs2
  | other {rs rs1 rs2} : rs1.st.config = rs.st.config → rs1.st.entryTime = rs.st.entryTime → Hist rs1 rs2 → Hist rs rs2

/-- **Active states always have an entry time**, in every state reachable by any history from a
    fresh interpreter (whose configuration is empty): `after(d)` of a transition whose source is
    active never meets a missing entry time, also after steps that raised. -/
theorem active_states_have_entry_time (rs rs' : RS σ ω) (h : Hist env rs rs') (h0 : Timed rs.st) : Timed rs'.st := by
  induction h with
  | refl => exact h0
  | step clock _ ih =>
    apply ih
    intro s hs
    rcases (executeOnce_times env clock _).2.2 s hs with ⟨hb, he⟩ | he
    · rw [he]; exact h0 s hb
    · rw [he]; rfl
  | other hc he _ ih =>
    apply ih
    intro s hs
    rw [hc] at hs; rw [he]; exact h0 s hs

example (st : IState σ) (h : st.config = []) : Timed st := by intro s hs; rw [h] at hs; cases hs

end Sismic.C13
