import Sismic.Proofs.Frame
/-!
# Property C18 — a pickled or deep-copied interpreter continues exactly like the original

In the model an interpreter *is* a value: `(chart, ignore_contract, IState σ)` where `IState`
holds configuration, history memory, both event queues with their due times, entry/idle times,
step time, attached listeners and the evaluator's state `σ` (context and the frozen `__old__`
contexts).  `execute_once` is a function of that value, the clock reading and the outside world
(reached only through listeners).  "Snapshot and restore" is therefore the identity in the model,
and what the property claims of the *implementation* is that `pickle`/`deepcopy` preserve the
abstraction function — that is decided by the correspondence (`./check C18`: the restored
interpreter and the untouched twin are both compared, observation by observation, with the model
run in which the snapshot is the identity).  What can be proved in the model, and is used by that
argument, is that the value above is *all* the state: runs compose at every macro-step boundary,
and an interpreter without listeners neither reads nor writes anything else — so running a copy
cannot disturb the original.
-/
namespace Sismic.C18
open M

variable {σ ω : Type} (env : Env σ ω)

/-- a run of a step function at each of the given clock readings, stopping at the first exception -/
def runWith (f : Int → RS σ ω → Except Err (Option MacroStep) × RS σ ω) :
    List Int → RS σ ω → List (Except Err (Option MacroStep)) × RS σ ω
  | [], rs => ([], rs)
  | t :: ts, rs =>
    match f t rs with
    | (.error e, rs') => ([.error e], rs')
    | (.ok r, rs') => (.ok r :: (runWith f ts rs').1, (runWith f ts rs').2)

/-- `execute_once` at each of the given clock readings -/
def run : List Int → RS σ ω → List (Except Err (Option MacroStep)) × RS σ ω :=
  runWith (fun t rs => executeOnce env t rs)

def failed : List (Except Err (Option MacroStep)) → Bool
  | [] => false
  | .error _ :: _ => true
  | .ok _ :: r => failed r

theorem runWith_composes (f : Int → RS σ ω → Except Err (Option MacroStep) × RS σ ω) (a b : List Int) (rs : RS σ ω) :
    runWith f (a ++ b) rs =
      if failed (runWith f a rs).1 then runWith f a rs
      else ((runWith f a rs).1 ++ (runWith f b (runWith f a rs).2).1, (runWith f b (runWith f a rs).2).2) := by
  induction a generalizing rs with
  | nil => simp [runWith, failed]
  | cons t ts ih =>
    obtain ⟨res, rs', hx⟩ : ∃ res rs', f t rs = (res, rs') := ⟨_, _, rfl⟩
    cases res with
    | error e => simp [runWith, hx, failed]
    | ok r =>
      simp only [List.cons_append, runWith, hx, ih rs', failed]
      split <;> rfl

/-- **Every macro-step boundary is a valid snapshot point**: the run over `a ++ b` is the run over
    `a` followed — from the state then reached, and from nothing else — by the run over `b`. -/
theorem run_composes (a b : List Int) (rs : RS σ ω) :
    run env (a ++ b) rs =
      if failed (run env a rs).1 then run env a rs
      else ((run env a rs).1 ++ (run env b (run env a rs).2).1, (run env b (run env a rs).2).2) :=
  runWith_composes _ a b rs

/-- the listeners of the interpreter stay empty and the outside world is untouched -/
def Closed (rs rs' : RS σ ω) : Prop :=
  rs.st.listeners = [] → rs'.st.listeners = [] ∧ rs'.world = rs.world

theorem closed_pre : PreOrd (Closed : RS σ ω → RS σ ω → Prop) where
  refl _ := fun h => ⟨h, rfl⟩
  trans _ _ _ h1 h2 := fun h => ⟨(h2 (h1 h).1).1, ((h2 (h1 h).1).2).trans (h1 h).2⟩

theorem closed_respects : Respects env (Closed : RS σ ω → RS σ ω → Prop) where
  pre := closed_pre
  modify f hf := fun rs h => ⟨by simp only [M.modify]; rw [(hf rs.st).2]; exact h, rfl⟩
  emit e _ := fun rs h => ⟨h, rfl⟩
  raise m := by
    intro rs h
    simp [raiseMeta, M.bind, M.emit, M.get, h, M.forEach, M.pure]
  contract := contract_of_prims env closed_pre
    (fun f hf rs h => ⟨by simp only [M.modify]; rw [(hf rs.st).2.1]; exact h, rfl⟩)
    (fun k o i e r rs h => ⟨h, rfl⟩)

/-- **Running an interpreter that nothing is attached to touches nothing but itself** — whatever
    the outcome of the call.  (So executing a copy cannot disturb the original, and vice versa.) -/
theorem unobserved_step_is_local (clock : Int) (rs : RS σ ω) (h : rs.st.listeners = []) :
    (executeOnce env clock rs).2.world = rs.world ∧ (executeOnce env clock rs).2.st.listeners = [] := by
  unfold executeOnce
  have key := rel_executeOnce_tail (closed_respects env).toQ clock
    { rs with st := { rs.st with time := clock, sentEvents := [] } }
  simp only [M.bind, M.modify] at key ⊢
  have := key h
  exact ⟨this.2, this.1⟩

theorem unobserved_run_is_local (ts : List Int) (rs : RS σ ω) (h : rs.st.listeners = []) :
    (run env ts rs).2.world = rs.world := by
  induction ts generalizing rs with
  | nil => rfl
  | cons t ts ih =>
    have h1 := unobserved_step_is_local env t rs h
    obtain ⟨res, rs', hx⟩ : ∃ res rs', executeOnce env t rs = (res, rs') := ⟨_, _, rfl⟩
    rw [hx] at h1
    simp only [run] at ih
    cases res with
    | error e => simp only [run, runWith, hx]; exact h1.1
    | ok r => simp only [run, runWith, hx]; rw [ih rs' h1.2]; exact h1.1

end Sismic.C18
