import Sismic.Proofs.Edit
/-!
# Property C17 — renaming and copying states preserves behaviour

Proved here (structure): `rename_state` substitutes the name in both ends of every transition and
nothing else of a transition changes — in particular internal transitions stay internal — and
renaming a state to its own name is a no-op.  The behavioural part (the renamed statechart produces
the original run up to the renaming; a copied sub-statechart behaves like its source) is decided by
the tie (lock-step execution of original and renamed / host and guest against each other and
against the interpreter model), see DESIGN.md §6 C17 (`_partial`).
-/
namespace Sismic.C17
open Sismic.Chart

/-- **Nothing but the name changes in transitions.** -/
theorem rename_substitutes_transition_ends (c : Chart) (a b : Name) (h : (c.renameState a b).1 = .ok ()) (hne : a ≠ b) :
    (c.renameState a b).2.transitions =
      c.transitions.map (fun t => { t with source := renameIn a b t.source, target := t.target.map (renameIn a b) }) :=
  renameState_transitions c a b h hne

/-- **Internal transitions stay internal** (and external ones external). -/
theorem rename_keeps_internal (c : Chart) (a b : Name) (h : (c.renameState a b).1 = .ok ()) (hne : a ≠ b) :
    ((c.renameState a b).2.transitions.map (fun t => t.target.isNone)) = c.transitions.map (fun t => t.target.isNone) :=
  renameState_keeps_internal c a b h hne

theorem rename_to_itself (c : Chart) (a : Name) : c.renameState a a = (.ok (), c) := rename_same_is_noop c a

/-- a failed renaming (existing new name, unknown old name) changes nothing -/
theorem rename_atomic (c : Chart) (a b : Name) (e : EditErr)
    (h : (c.renameState a b).1 = .error e) : (c.renameState a b).2 = c := renameState_atomic c a b e h

end Sismic.C17
