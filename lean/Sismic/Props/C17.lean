import Sismic.Proofs.Edit
import Sismic.Proofs.Rename
import Sismic.Proofs.EquivPlan
import Sismic.Proofs.EquivRun
import Sismic.Proofs.PyRename
import Sismic.Props.C07
import Sismic.Props.C02
/-!
# Property C17 — renaming and copying states preserves behaviour

Proved here (structure): `rename_state` substitutes the name in both ends of every transition and
nothing else of a transition changes — in particular internal transitions stay internal — and
renaming a state to its own name is a no-op; and the whole statechart after `rename_state(a, b)` is
the statechart with `b` substituted for `a` everywhere (`Chart.mapNames`), declared in another
order (`rename_is_substitution`) — so, by C07, it *behaves* exactly as the substituted statechart
(`renamed_behaves_as_substituted`: same macro steps, same exception at the same step, for every
evaluator that does not read the history memory).  The interpreter itself is equivariant under the
substitution: every decision it takes from names and every effectful function commute with an
order-preserving relabelling (`renaming_commutes_with_execute_once`, `_with_execution`,
`rename_state_preserves_behaviour`) for evaluators and listeners that cannot tell the names apart
— a theorem for the modelled `PythonEvaluator` on statecharts whose code never calls `active`
(`python_runs_commute_with_renaming`, `rename_state_preserves_python_behaviour`).  What remains
for the tie (lock-step execution of host and guest against each other and against the interpreter
model) is `copy_from_statechart`; see DESIGN.md §7 C17 (`_partial`).
-/
namespace Sismic.C17
open Sismic.Chart

/-- **Nothing but the name changes in transitions.** -/
theorem rename_substitutes_transition_ends (c : Chart) (a b : Name) (h : (c.renameState a b).1 = .ok ()) (hne : a ≠ b) :
    (c.renameState a b).2.transitions =
      c.transitions.map (fun t => { t with source := renameIn a b t.source, target := t.target.map (renameIn a b) }) :=
  renameState_transitions c a b h hne

/-- **Internal transitions stay internal** (and external ones external). -/
theorem rename_keeps_internal (c : Chart) (a b : Name) (h : (c.renameState a b).1 = .ok ()) (hne : a ≠ b) :
    ((c.renameState a b).2.transitions.map (fun t => t.target.isNone)) = c.transitions.map (fun t => t.target.isNone) :=
  renameState_keeps_internal c a b h hne

theorem rename_to_itself (c : Chart) (a : Name) : c.renameState a a = (.ok (), c) := rename_same_is_noop c a

/-- a failed renaming (existing new name, unknown old name) changes nothing -/
theorem rename_atomic (c : Chart) (a b : Name) (e : EditErr)
    (h : (c.renameState a b).1 = .error e) : (c.renameState a b).2 = c := renameState_atomic c a b e h

/-- **`rename_state` changes nothing but the name**: on a statechart whose three dictionaries are
    consistent (`Tidy`: what well-formed statecharts with duplicate-free dictionaries satisfy,
    `tidy_of_wf`), the result is the statechart with `b` substituted for `a` in every state name,
    `initial`, `memory`, parent/children entry and transition end — up to the order in which
    states, entries and children are registered. -/
theorem rename_is_substitution (c : Chart) (a b : Name) (ht : Tidy c) (h : (c.renameState a b).1 = .ok ()) (hne : a ≠ b) :
    ChartPerm (c.mapNames (renameIn a b)) (c.renameState a b).2 :=
  Sismic.rename_is_substitution c a b ht h hne

variable {σ ω : Type}

/-- **The renamed statechart behaves as the substituted one** (declaration order is invisible,
    C07): same macro steps for the same clock values, ending — if at all — with the same exception
    at the same step, from any pair of states that differ in the order of the history memory only. -/
theorem renamed_behaves_as_substituted (env env' : Env σ ω) (c : Chart) (a b : Name) (ht : Tidy c)
    (h : (c.renameState a b).1 = .ok ()) (hne : a ≠ b)
    (h1 : env.chart = c.mapNames (renameIn a b)) (h2 : env'.chart = (c.renameState a b).2)
    (hE : env'.E = env.E) (hi : env'.ignoreContract = env.ignoreContract) (hd : env'.deliver = env.deliver)
    (hf : env'.stabFuel = env.stabFuel) (hb : MemBlind env.E) (hw : WFChart env.chart)
    (clocks : List Int) (rs₁ : RS σ ω) (out : List (Except Err (Option MacroStep)))
    (hrun : C07.Run env clocks rs₁ out) : ∀ rs₂, Rel rs₁ rs₂ → C07.Run env' clocks rs₂ out :=
  C07.declaration_order_free_run
    ⟨by rw [h1, h2]; exact Sismic.rename_is_substitution c a b ht h hne, hE, hi, hd, hf⟩ hb hw clocks rs₁ out hrun

/-! ### the interpreter's decisions commute with an order-preserving renaming

`ρ` is only assumed injective and order-preserving **on the names the statechart mentions**
(`RenOK S ρ`, `NamesIn S c`): renaming any subset of the states order-preservingly is covered.
Everything the interpreter decides from names — which transitions are selected (and which guards
are evaluated, in which order), whether the selection is non-deterministic or conflicting and in
which order it is processed, which states each transition exits and enters in which order, and what
stabilisation does next (default children, history restoration by depth and name, orthogonal
siblings in name order) — is, on the substituted statechart, the substituted decision. -/

/-- **same selection**: same transitions (substituted), same guard evaluations in the same order;
    `c'` is `c` with the names substituted by `ρ` and the transitions re-identified by `ι`
    (`IsRen`; `c.mapNames ρ` with `ι = id`: `isRen_mapNames`) -/
theorem selection_commutes_with_renaming {S : Name → Prop} {ρ : Name → Name} {ι : Nat → Nat} (hρ : RenOK S ρ)
    (c : Chart) (hc : NamesIn S c) {c' : Chart} (hr : IsRen ρ ι c c') (cfg : List Name) (hcfg : ∀ x ∈ cfg, S x)
    (evName : Option String) (ok ok' : Trans → Bool → Bool)
    (hok : ∀ t ∈ c.transitions, ∀ b, ok' (t.relabel ρ ι) b = ok t b) :
    selectTransitions c' (cfg.map ρ) evName ok' =
      (selectTransitions c cfg evName ok).rename ρ ι :=
  selectTransitions_rename hρ c hc hr cfg hcfg evName ok ok' hok

/-- **same verdict of `_sort_transitions`, same processing order** -/
theorem ordering_commutes_with_renaming {S : Name → Prop} {ρ : Name → Name} {ι : Nat → Nat} (hρ : RenOK S ρ)
    (c : Chart) (hc : NamesIn S c) {c' : Chart} (hr : IsRen ρ ι c c') (ts : List Trans) (hts : ∀ t ∈ ts, t ∈ c.transitions) :
    sortTransitions c' (ts.map (Trans.relabel ρ ι)) =
      (sortTransitions c ts).map (List.map (Trans.relabel ρ ι)) :=
  sortTransitions_rename hρ c hc hr ts hts

/-- **same exit and entry lists, in the same order** -/
theorem steps_commute_with_renaming {S : Name → Prop} {ρ : Name → Name} {ι : Nat → Nat} (hρ : RenOK S ρ)
    (c : Chart) (hc : NamesIn S c) {c' : Chart} (hr : IsRen ρ ι c c') (cfg : List Name) (hcfg : ∀ x ∈ cfg, S x)
    (ev : Option Event) (ts : List Trans) (hts : ∀ t ∈ ts, t ∈ c.transitions) :
    createSteps c' (cfg.map ρ) ev (ts.map (Trans.relabel ρ ι)) =
      (createSteps c cfg ev ts).map (Micro.rename ρ ι) :=
  createSteps_rename hρ c hc hr cfg hcfg ev ts hts

/-- **same stabilisation** (history memory substituted) -/
theorem stabilisation_commutes_with_renaming {S : Name → Prop} {ρ : Name → Name} {ι : Nat → Nat} (hρ : RenOK S ρ)
    (c : Chart) (hc : NamesIn S c) {c' : Chart} (hr : IsRen ρ ι c c') (memory : List (Name × List Name))
    (hmk : ∀ p ∈ memory, S p.1) (hmv : ∀ p ∈ memory, ∀ x ∈ p.2, S x) (cfg : List Name) (hcfg : ∀ x ∈ cfg, S x) :
    stabilizationStep c' (renameMemory ρ memory) (cfg.map ρ) =
      (stabilizationStep c memory cfg).map (Micro.rename ρ ι) :=
  stabilizationStep_rename hρ c hc hr memory hmk hmv cfg hcfg

/-- the substituted statechart is an instance -/
example (ρ : Name → Name) (c : Chart) : IsRen ρ id c (c.mapNames ρ) := isRen_mapNames ρ c

/-! ### … and so does the whole interpreter

`EnvR ρ ι C S env env'`: `env'` runs the relabelled statechart (`IsRen`), `ρ` is injective and
order-preserving on the names `S` the statechart mentions, and neither the evaluators nor the
listeners of the two runs can tell: asked about the relabelled object in the relabelled state they
answer what the others answer about the original (code that does not mention state names — what
the tie generates for this property; listeners that do not look at the `state` / `source` /
`target` of the built-in meta-events).  Related states (`RSR`): same queues, times, sent events,
listeners and outside world; configuration, history memory and recorded entry / idle times
substituted; evaluator states related by `C`; effect logs related entry by entry (`EffR`). -/

/-- **One call of `execute_once` on the relabelled statechart returns the relabelled result**: the
    same macro step with the names substituted and the transitions re-identified (or nothing), or
    the same exception about the relabelled object; related states afterwards. -/
theorem renaming_commutes_with_execute_once {S : Name → Prop} {ρ : Name → Name} {ι : Nat → Nat} {C : σ → σ → Prop}
    {env env' : Env σ ω} (h : EnvR ρ ι C S env env') (clock : Int) (rs rs' : RS σ ω)
    (hr : RSR ρ ι C rs rs') (hg : GoodSt S rs.st) :
    OutcomeR ρ ι (executeOnce env clock rs).1 (executeOnce env' clock rs').1 ∧
      RSR ρ ι C (executeOnce env clock rs).2 (executeOnce env' clock rs').2 ∧
      GoodSt S (executeOnce env clock rs).2.st :=
  equivariant_executeOnce h clock rs rs' hr hg

/-- **Whole runs**: for every input history the relabelled statechart produces the original run
    with the names substituted — call by call the relabelled outcome, ending, if at all, with the
    same exception at the same call. -/
theorem renaming_commutes_with_execution {S : Name → Prop} {ρ : Name → Name} {ι : Nat → Nat} {C : σ → σ → Prop}
    {env env' : Env σ ω} (h : EnvR ρ ι C S env env') (clocks : List Int) (rs : RS σ ω)
    (out : List (Except Err (Option MacroStep))) (hrun : C07.Run env clocks rs out) :
    ∀ rs', RSR ρ ι C rs rs' → GoodSt S rs.st →
      ∃ out', C07.Run env' clocks rs' out' ∧ List.Forall₂ (OutcomeR ρ ι) out out' := by
  induction hrun with
  | nil rs => intro rs' _ _; exact ⟨[], C07.Run.nil rs', List.Forall₂.nil⟩
  | @ok t ts rs rs1 r out hx _ ih =>
    intro rs' hr hg
    obtain ⟨ho, hs, hgd⟩ := equivariant_executeOnce h t rs rs' hr hg
    rw [hx] at ho hs hgd
    cases h2 : executeOnce env' t rs' with
    | mk r' s' =>
      rw [h2] at ho hs
      cases ho with
      | ok m =>
        obtain ⟨out', hrun', hf⟩ := ih s' hs hgd
        exact ⟨_ :: out', C07.Run.ok h2 hrun', List.Forall₂.cons (.ok r) hf⟩
  | @error t ts rs rs1 e hx =>
    intro rs' hr hg
    obtain ⟨ho, _, _⟩ := equivariant_executeOnce h t rs rs' hr hg
    rw [hx] at ho
    cases h2 : executeOnce env' t rs' with
    | mk r' s' =>
      rw [h2] at ho
      cases ho with
      | error e e' he =>
        exact ⟨[.error e'], C07.Run.error h2, List.Forall₂.cons (.error e e' he) List.Forall₂.nil⟩

/-- **`rename_state` preserves behaviour.**  `env` runs `c`; `env₂` runs the statechart
    `rename_state(a, b)` produced (in the order the code leaves it); in between stands `c` with `b`
    substituted for `a` everywhere (`mapNames`), which differs from the latter by declaration order
    only (`rename_is_substitution`, C07).  If `b` takes the place of `a` in the order of the names
    (`RenOK`, part of `EnvR`) and evaluator and listeners cannot tell the names apart, the renamed
    statechart produces, for every input history, the original run with the name substituted. -/
theorem rename_state_preserves_behaviour {S : Name → Prop} {C : σ → σ → Prop}
    (c : Chart) (a b : Name) (ht : Tidy c) (hren : (c.renameState a b).1 = .ok ()) (hne : a ≠ b)
    (env env₂ : Env σ ω) (h2 : env₂.chart = (c.renameState a b).2)
    (h : EnvR (renameIn a b) id C S env { env₂ with chart := c.mapNames (renameIn a b) })
    (hb : MemBlind env₂.E) (hw : WFChart (c.mapNames (renameIn a b)))
    (clocks : List Int) (rs : RS σ ω) (out : List (Except Err (Option MacroStep))) (hrun : C07.Run env clocks rs out)
    (rs₂ : RS σ ω) (hr : RSR (renameIn a b) id C rs rs₂) (hg : GoodSt S rs.st) :
    ∃ out', C07.Run env₂ clocks rs₂ out' ∧ List.Forall₂ (OutcomeR (renameIn a b) id) out out' := by
  obtain ⟨out', hrun1, hf⟩ := renaming_commutes_with_execution h clocks rs out hrun rs₂ hr hg
  refine ⟨out', ?_, hf⟩
  have hperm : EnvPerm ({ env₂ with chart := c.mapNames (renameIn a b) } : Env σ ω) env₂ :=
    ⟨by rw [h2]; exact Sismic.rename_is_substitution c a b ht hren hne, rfl, rfl, rfl, rfl⟩
  exact C07.declaration_order_free_run hperm hb hw clocks rs₂ out' hrun1 rs₂ ⟨rs₂.st.memory, rs₂.eff, rfl, fun _ => rfl⟩

/-! non-vacuity of `EnvR`: a two-state statechart, the renaming `a ↦ b` (which keeps `a < r`), an
evaluator that looks at nothing and no listeners -/
section Example
def exChart : Chart :=
  { states := [{ name := "r", kind := .compound, initial := some "a" }, { name := "a", kind := .basic }],
    parent := [("r", none), ("a", some "r")], children := [(none, ["r"]), (some "r", ["a"]), (some "a", [])],
    transitions := [{ id := 0, source := "a", target := some "r", event := some "e" }] }
def exS (n : Name) : Prop := n = "r" ∨ n = "a"
def exRho (n : Name) : Name := if n = "a" then "b" else n
def exE : Evaluator Unit :=
  { guard := fun _ _ _ => some true, cond := fun _ _ _ _ _ => some true, exec := fun st _ _ => (st.ctx, some []),
    freeze := fun c _ => c }
def exEnv (c : Chart) : Env Unit Unit := { chart := c, E := exE, deliver := fun _ _ _ w => (.ok (), w, []) }

example : EnvR exRho id (fun _ _ => True) exS (exEnv exChart) (exEnv (exChart.mapNames exRho)) where
  ok := by
    constructor
    · rintro x y (rfl | rfl) (rfl | rfl) <;> simp [exRho]
    · rintro x y (rfl | rfl) (rfl | rfl) <;> decide
  ren := isRen_mapNames exRho exChart
  names := by
    refine ⟨?_, ?_, ?_, ?_, ?_, ?_, ?_, ?_⟩ <;> simp [exChart, exEnv, exS]
  initial := by simp [exChart, exEnv, exS]
  ignore := rfl
  fuel := rfl
  guard := fun _ _ _ _ _ _ _ _ => rfl
  cond := fun _ _ _ _ _ _ _ _ _ _ => rfl
  exec := fun _ _ _ _ _ _ _ _ => ⟨rfl, trivial⟩
  freeze := fun _ _ _ _ _ => trivial
  deliver := fun _ _ _ _ _ _ => rfl
end Example

/-! ### the evaluator the library ships

The hypothesis "the evaluator cannot tell the names apart" of the theorems above, discharged for the
model of `PythonEvaluator` (`Sismic.Model.Py`): `active(...)` is the only thing exposed to the code
of a statechart that depends on state names; code which never calls it evaluates and executes the
same under every configuration (`eval_config`, `exec_config` — by induction over the evaluator, which
is a total function), and the entry / idle times and `__old__` snapshots are found under the
relabelled keys. -/

/-- **Statecharts run by the Python evaluator**: if no code of the statechart calls `active`, the
    relabelled statechart produces, for every input history, the original run with the names
    substituted — call by call, ending, if at all, with the same exception at the same call. -/
theorem python_runs_commute_with_renaming {S : Name → Prop} {ρ : Name → Name} (ι : Nat → Nat)
    (env env' : Env PyCtx ω) (hok : RenOK S ρ) (hren : IsRen ρ ι env.chart env'.chart) (hnames : NamesIn S env.chart)
    (hinit : ∀ s ∈ env.chart.states, ∀ i, s.initial = some i → S i)
    (hinj : ∀ i j, i ∈ env.chart.transitions.map (·.id) → j ∈ env.chart.transitions.map (·.id) → ι i = ι j → i = j)
    (hna : env.chart.NoActive)
    (hE : env.E = pyEvaluator) (hE' : env'.E = pyEvaluator) (hi : env'.ignoreContract = env.ignoreContract)
    (hf : env'.stabFuel = env.stabFuel)
    (hd : ∀ l m m' t w, MetaR ρ m m' → env'.deliver l m' t w = env.deliver l m t w)
    (clocks : List Int) (rs : RS PyCtx ω) (out : List (Except Err (Option MacroStep))) (hrun : C07.Run env clocks rs out)
    (rs' : RS PyCtx ω) (hr : RSR ρ ι (PyRen ρ ι S env.chart) rs rs') (hg : GoodSt S rs.st) :
    ∃ out', C07.Run env' clocks rs' out' ∧ List.Forall₂ (OutcomeR ρ ι) out out' :=
  renaming_commutes_with_execution
    (pyEnvR_rename ι env env' hok hren hnames hinit hinj hna hE hE' hi hf hd) clocks rs out hrun rs' hr hg

/-- **`rename_state` preserves the behaviour of statecharts run by the Python evaluator**: `env`
    runs `c`, `env₂` the statechart `rename_state(a, b)` left behind, both with `PythonEvaluator`
    and listeners that cannot tell the names apart.  If no code of `c` calls `active` and `b` takes
    the place of `a` in the order of the names, the renamed statechart produces, for every input
    history, the original run with `b` for `a`. -/
theorem rename_state_preserves_python_behaviour {S : Name → Prop}
    (c : Chart) (a b : Name) (ht : Tidy c) (hren : (c.renameState a b).1 = .ok ()) (hne : a ≠ b)
    (env env₂ : Env PyCtx ω) (h1 : env.chart = c) (h2 : env₂.chart = (c.renameState a b).2)
    (hok : RenOK S (renameIn a b)) (hnames : NamesIn S c)
    (hinit : ∀ s ∈ c.states, ∀ i, s.initial = some i → S i) (hna : c.NoActive)
    (hE : env.E = pyEvaluator) (hE₂ : env₂.E = pyEvaluator) (hi : env₂.ignoreContract = env.ignoreContract)
    (hf : env₂.stabFuel = env.stabFuel)
    (hd : ∀ l m m' t w, MetaR (renameIn a b) m m' → env₂.deliver l m' t w = env.deliver l m t w)
    (hw : WFChart (c.mapNames (renameIn a b)))
    (clocks : List Int) (rs : RS PyCtx ω) (out : List (Except Err (Option MacroStep))) (hrun : C07.Run env clocks rs out)
    (rs₂ : RS PyCtx ω) (hr : RSR (renameIn a b) id (PyRen (renameIn a b) id S c) rs rs₂) (hg : GoodSt S rs.st) :
    ∃ out', C07.Run env₂ clocks rs₂ out' ∧ List.Forall₂ (OutcomeR (renameIn a b) id) out out' := by
  subst h1
  refine rename_state_preserves_behaviour env.chart a b ht hren hne env env₂ h2 ?_ (hE₂ ▸ C07.pyEvaluator_memBlind) hw
    clocks rs out hrun rs₂ hr hg
  exact pyEnvR_rename id env { env₂ with chart := env.chart.mapNames (renameIn a b) } hok
    (isRen_mapNames _ _) hnames hinit (fun i j _ _ e => e) hna hE hE₂ hi hf hd

/-! non-vacuity of `Chart.NoActive`: a statechart with a guard, an action and a postcondition -/
section PyExample
def pyTrans : Trans :=
  { id := 0
    source := "a"
    target := some "r"
    event := some "e"
    guard := some { src := "x + 1 > 0", expr := some (.cmp (.binop .add (.name "x") (.const (.int 1))) [(.gt, .const (.int 0))]) }
    action := some { src := "x = x - 1", body := [.assign "x" (.binop .sub (.name "x") (.const (.int 1)))] }
    post := [{ src := "x <= __old__.x", expr := some (.cmp (.name "x") [(.le, .attr (.name "__old__") "x")]) }] }
def pyChart : Chart := { exChart with transitions := [pyTrans] }

example : pyChart.NoActive where
  guard := by
    intro t ht g hg
    simp only [pyChart, List.mem_singleton] at ht
    subst ht
    simp only [pyTrans, Option.some.injEq] at hg
    subst hg
    simp [Code.noActive, noActiveS, Expr.noActive, noActiveC]
  action := by
    intro t ht g hg
    simp only [pyChart, List.mem_singleton] at ht
    subst ht
    simp only [pyTrans, Option.some.injEq] at hg
    subst hg
    simp [Code.noActive, noActiveS, Stmt.noActive, Expr.noActive]
  onEntry := by
    intro s hs a ha
    simp only [pyChart, exChart, List.mem_cons, List.mem_nil_iff, or_false] at hs
    rcases hs with rfl | rfl <;> simp at ha
  onExit := by
    intro s hs a ha
    simp only [pyChart, exChart, List.mem_cons, List.mem_nil_iff, or_false] at hs
    rcases hs with rfl | rfl <;> simp at ha
  conds := by
    intro obj hobj k code hc
    cases obj with
    | state s =>
      simp only [ObjOf, pyChart, exChart, List.mem_cons, List.mem_nil_iff, or_false] at hobj
      rcases hobj with rfl | rfl <;> cases k <;> simp [Obj.conds] at hc
    | trans t =>
      simp only [ObjOf, pyChart, List.mem_singleton] at hobj
      subst hobj
      cases k <;> simp [Obj.conds, pyTrans] at hc
      subst hc
      simp [Code.noActive, noActiveS, Expr.noActive, noActiveC]
end PyExample

/-- non-vacuity: a renaming of two of the names of a statechart that keeps their order, and is not
    order-preserving on other strings (`"b" ↦ "zz"` jumps over `"c"`) -/
example : RenOK (fun n => n = "a" ∨ n = "b") (fun n => if n = "a" then "m" else if n = "b" then "zz" else n) := by
  constructor
  · rintro a b (rfl | rfl) (rfl | rfl) <;> simp
  · rintro a b (rfl | rfl) (rfl | rfl) <;> decide

/-! non-vacuity: the example statechart of C02 (orthogonal state, nested target, history state) is tidy -/
example : Tidy C02.exChart := tidy_of_wf _ (wfB_sound _ (by decide)) (by decide)

end Sismic.C17
