import Sismic.Json
import Sismic.Model.Clock
import Sismic.Model.Bdd
import Sismic.Model.Runner
import Sismic.Proofs.WFCheck
/-!
# Sismic.Cases — interpretation of protocol cases by the model (dispatch on `kind`)
-/
open Lean (Json)
namespace Sismic.Cases
open Sismic.J

def defaultFuel : Nat := 400

structure IS where
  charts : Array Chart
  world : World := {}
  fuel : Nat := defaultFuel

def obs (w : World) (r : Json) : Json := Json.mkObj [("r", r), ("world", ofWorld w)]

def ofOutcome (o : Except Err (Option MacroStep)) : Json :=
  match o with
  | .ok none => Json.mkObj [("outcome", .str "none")]
  | .ok (some m) => Json.mkObj [("outcome", .str "step"), ("step", ofMacro m)]
  | .error e => Json.mkObj [("outcome", .str "error"), ("err", ofErr e)]

def ensureCb (w : World) (k : Nat) : World :=
  if w.callbacks.size > k then w
  else { w with callbacks := w.callbacks ++ Array.replicate (k + 1 - w.callbacks.size) [] }

def addListener (w : World) (i : Nat) (spec : ListenerSpec) : World × Nat :=
  let id := w.listeners.size
  let w := { w with listeners := w.listeners.push spec }
  (w.modifySlot i (fun st => { st with listeners := st.listeners ++ [id] }), id)

/-- `execute(max_steps)` at top level -/
def execAll (fuel : Nat) (i : Nat) (clock : Int) (maxSteps : Int) :
    Nat → Nat → World → List MacroStep → List Effect → (List MacroStep × Option Err × World × List Effect)
  | 0, _, w, acc, eff => (acc, some .fuel, w, eff)
  | n+1, k, w, acc, eff =>
    let r := worldExecOnce fuel i clock w
    match r.outcome with
    | .error e => (acc, some e, r.world, eff ++ r.eff)
    | .ok none => (acc, none, r.world, eff ++ r.eff)
    | .ok (some m) =>
      if 0 < maxSteps && maxSteps == ((k + 1 : Nat) : Int) then (acc ++ [m], none, r.world, eff ++ r.eff)
      else execAll fuel i clock maxSteps n (k + 1) r.world (acc ++ [m]) (eff ++ r.eff)

def interpOp (s : IS) (op : Json) : P (IS × Json) := do
  let l ← arr op
  match l with
  | [.str "create", ci, ign, ctx0, t0] =>
    let ci ← ci.getNat?
    let some ch := s.charts[ci]? | throw "chart index"
    let ctx ← (← arr ctx0).mapM (fun p => do
      match (← arr p) with
      | [k, v] => do return ((← k.getStr?), (← val v))
      | _ => throw "bad ctx")
    let (slot, ok) := mkSlot ch (← ign.getBool?) ctx (← t0.getInt?)
    let w := { s.world with slots := s.world.slots.push slot }
    return ({ s with world := w }, obs w (Json.mkObj [("ok", .bool ok), ("wf", .bool (wfB ch))]))
  | [.str "queue", i, e] =>
    let i ← i.getNat?
    let e ← event e
    let w := s.world.modifySlot i (extQueue e)
    return ({ s with world := w }, obs w .null)
  | [.str "queuemany", i, .arr es, _] =>
    -- `queue(e₁, e₂, …, **parameters)`: the events (names already completed with the parameters) in the order given
    let i ← i.getNat?
    let mut w := s.world
    for e in es.toList do
      let e ← event e
      w := w.modifySlot i (extQueue e)
    return ({ s with world := w }, obs w .null)
  | [.str "setclock", _, _, _] =>
    -- (the interpreter is given another clock: its own time only changes when it executes)
    return (s, obs s.world .null)
  | [.str "setvar", i, n, v] =>
    let i ← i.getNat?
    let n ← n.getStr?
    let v ← val v
    let w := s.world.modifySlot i (fun st => { st with ctx := { st.ctx with vars := assocSet n v st.ctx.vars } })
    return ({ s with world := w }, obs w .null)
  | [.str "exec", i, clock] =>
    let r := worldExecOnce s.fuel (← i.getNat?) (← clock.getInt?) s.world
    let j := (ofOutcome r.outcome).mergeObj (Json.mkObj [("eff", .arr (r.eff.map ofEffect).toArray)])
    return ({ s with world := r.world }, obs r.world j)
  | [.str "execute", i, clock, maxSteps] =>
    let (steps, err, w, eff) :=
      execAll s.fuel (← i.getNat?) (← clock.getInt?) (← maxSteps.getInt?) s.fuel 0 s.world [] []
    let j := Json.mkObj [("steps", .arr (steps.map ofMacro).toArray),
                         ("err", match err with | some e => ofErr e | none => .null),
                         ("eff", .arr (eff.map ofEffect).toArray)]
    return ({ s with world := w }, obs w j)
  | [.str "bind", i, j] =>
    let (w, id) := addListener s.world (← i.getNat?) (.bindInterp (← j.getNat?))
    return ({ s with world := w }, obs w (ofInt id))
  | [.str "bindcb", i, k] =>
    let k ← k.getNat?
    let (w, id) := addListener (ensureCb s.world k) (← i.getNat?) (.bindCallback k)
    return ({ s with world := w }, obs w (ofInt id))
  | [.str "attach", i, k] =>
    let k ← k.getNat?
    let (w, id) := addListener (ensureCb s.world k) (← i.getNat?) (.recorder k)
    return ({ s with world := w }, obs w (ofInt id))
  | [.str "bindprop", i, ci] =>
    let i ← i.getNat?
    let some ch := s.charts[(← ci.getNat?)]? | throw "chart index"
    let t0 := match s.world.slots[i]? with
      | some sl => sl.st.time
      | none => 0
    let (slot, ok) := mkSlot ch false [] t0
    let j := s.world.slots.size
    let w := { s.world with slots := s.world.slots.push slot }
    let (w, id) := addListener w i (.property j)
    return ({ s with world := w }, obs w (Json.mkObj [("id", ofInt id), ("slot", ofInt j), ("ok", .bool ok)]))
  | [.str "detach", i, id] =>
    let id ← id.getNat?
    let w := s.world.modifySlot (← i.getNat?) (fun st => { st with listeners := st.listeners.erase id })
    return ({ s with world := w }, obs w .null)
  | [.str "snapshot", _, _] =>
    return (s, obs s.world .null)
  | [.str "setclock", _, _] =>
    -- the clock is outside the interpreter: its own time only changes when it executes
    return (s, obs s.world .null)
  | _ => throw s!"bad op {op.compress}"

def runInterp (j : Json) : P Json := do
  let charts ← (← arr (← fld j "charts")).mapM chart
  let fuel := match (fldD j "fuel").getNat? with
    | .ok n => n
    | .error _ => defaultFuel
  let ops ← arr (← fld j "ops")
  let rec go (s : IS) (acc : Array Json) : List Json → P (Array Json)
    | [] => pure acc
    | op :: rest => do
      let (s', o) ← interpOp s op
      go s' (acc.push o) rest
  let out ← go { charts := charts.toArray, fuel := fuel } #[] ops
  return Json.mkObj [("obs", .arr out)]

/-! ## edit cases -/

def ofEditErr : Except EditErr Unit → Json
  | .ok _ => .null
  | .error .statechart => .str "StatechartError"
  | .error .value => .str "ValueError"

def editOp (c : Chart) (op : Json) : P (Except EditErr Unit × Chart) := do
  match (← arr op) with
  | [.str "add_state", s, p] => return c.addState (← stateDef s) (← optStr p)
  | [.str "remove_state", n] => return c.removeState (← n.getStr?)
  | [.str "rename_state", a, b] => return c.renameState (← a.getStr?) (← b.getStr?)
  | [.str "move_state", a, b] => return c.moveState (← a.getStr?) (← b.getStr?)
  | [.str "add_transition", t] => return c.addTransition (← trans t)
  | [.str "remove_transition", t] => return c.removeTransition (← trans t)
  | [.str "rotate_transition", i, src, tgt] =>
    let i ← if i.isNull then pure none else some <$> i.getNat?
    let src ← optStr src
    let tgt : Option (Option Name) ← match tgt with
      | .str "<keep>" => pure none
      | .null => pure (some none)
      | t => do pure (some (some (← t.getStr?)))
    return c.rotateTransition i src tgt
  | [.str "validate"] => return (if c.validate then .ok () else .error .statechart, c)
  | _ => throw s!"bad edit op {op.compress}"

def runEdit (j : Json) : P Json := do
  let c ← chart (← fld j "chart")
  let ops ← arr (← fld j "ops")
  let rec go (c : Chart) (acc : Array Json) : List Json → P (Array Json)
    | [] => pure acc
    | op :: rest => do
      let (r, c') ← editOp c op
      go c' (acc.push (Json.mkObj [("err", ofEditErr r), ("chart", ofChartSnap c')])) rest
  return Json.mkObj [("obs", .arr (← go c #[] ops))]

/-! ## YAML data import / export -/

def ofImport : Except IOErr Chart → Json
  | .ok c => Json.mkObj [("outcome", .str "ok"), ("chart", ofChartSnap c),
                         ("name", .str c.name), ("description", ofOptStr c.description),
                         ("preamble", ofOptCode c.preamble)]
  | .error .statechart => Json.mkObj [("outcome", .str "StatechartError")]
  | .error .other => Json.mkObj [("outcome", .str "OTHER")]

def runIO (kind : String) (j : Json) : P Json := do
  match kind with
  | "io_import" =>
    let d ← data (← fld j "data")
    return ofImport (importYamlData 64 d)
  | "io_export" =>
    let c ← chart (← fld j "chart")
    return Json.mkObj [("data", ofData (exportDict c))]
  | _ =>
    let c ← chart (← fld j "chart")
    return ofImport (importYamlData 64 (exportDict c))

/-! ## BDD cases -/

def kvs (j : Json) : P (List (String × Val)) := do
  (← arr j).mapM (fun p => do
    match (← arr p) with
    | [k, v] => do return ((← k.getStr?), (← val v))
    | _ => throw "bad pair")

partial def bddAct (j : Json) : P Bdd.Act := do
  match (← arr j) with
  | [.str "nothing"] => return .doNothing
  | [.str "send", n, ps] => return .send (← n.getStr?) (← kvs ps)
  | [.str "wait", n] => return .wait (← n.getInt?)
  | [.str "repeat", a, n] => return .repeat_ (← bddAct a) (← n.getNat?)
  | [.str "reproduce", _, .null] => return .unknownScenario
  | [.str "reproduce", _, as] => return .seq (← (← arr as).mapM bddAct)
  | _ => throw s!"bad act {j.compress}"

def bddAssertion (j : Json) : P Bdd.Assertion := do
  match (← arr j) with
  | [.str "entered", s] => return .entered (← s.getStr?)
  | [.str "not_entered", s] => return .notEntered (← s.getStr?)
  | [.str "exited", s] => return .exited (← s.getStr?)
  | [.str "not_exited", s] => return .notExited (← s.getStr?)
  | [.str "active", s] => return .active (← s.getStr?)
  | [.str "not_active", s] => return .notActive (← s.getStr?)
  | [.str "fired", n, ps] => return .fired (← n.getStr?) (← kvs ps)
  | [.str "not_fired", n] => return .notFired (← n.getStr?)
  | [.str "no_event"] => return .noEventFired
  | [.str "var_eq", v, x] => return .varEquals (← v.getStr?) (← val x)
  | [.str "var_ne", v, x] => return .varNotEquals (← v.getStr?) (← val x)
  | [.str "expr", c] => return .exprHolds (← code c)
  | [.str "not_expr", c] => return .exprNotHolds (← code c)
  | [.str "final"] => return .final
  | [.str "not_final"] => return .notFinal
  | _ => throw s!"bad assertion {j.compress}"

def bddStep (j : Json) : P Bdd.Step := do
  match (← arr j) with
  | [.str "given", a] => return .act .given (← bddAct a)
  | [.str "when", a] => return .act .when_ (← bddAct a)
  | [.str "then", a] => return .check (← bddAssertion a)
  | [.str "undefined"] => return .undefined_
  | _ => throw s!"bad step {j.compress}"

def ofStatus : Bdd.Status → Json
  | .passed => .str "passed" | .failed => .str "failed" | .error => .str "error"
  | .hookError => .str "hook_error" | .undefined_ => .str "undefined" | .skipped => .str "skipped"

def runBdd (j : Json) : P Json := do
  let c ← chart (← fld j "chart")
  let scs ← (← arr (← fld j "scenarios")).mapM (fun s => do (← arr s).mapM bddStep)
  let outs := scs.map (fun steps => Json.arr ((Bdd.runScenario (Bdd.initCtx c) steps).map ofStatus).toArray)
  return Json.mkObj [("scenarios", .arr outs.toArray)]

/-! ## runner cases -/

def cact (j : Json) : P (List (Runner.CAct String)) := do
  match (← arr j) with
  | [.str "start"] => return [.startIsSet, .startSetUnpaused, .startThread]
  | [.str "queue", e] => return [.queue (← e.getStr?)]
  | [.str "pause"] => return [.pause]
  | [.str "unpause"] => return [.unpause]
  | [.str "stop"] => return [.stopSetStop, .stopSetUnpaused, .join]
  | [.str "wait"] => return [.join]
  | _ => throw s!"bad client op {j.compress}"

def ofPc : Runner.RPc → Json
  | .notStarted => .str "notStarted" | .beforeRun => .str "beforeRun" | .waitA => .str "waitA"
  | .readFinal => .str "readFinal" | .isSetStop => .str "isSetStop" | .beforeExecute => .str "beforeExecute"
  | .execFirst => .str "execFirst" | .execMore => .str "execMore" | .afterExecute => .str "afterExecute"
  | .sleep => .str "sleep" | .waitB => .str "waitB" | .setStop => .str "setStop" | .afterRun => .str "afterRun"
  | .done => .str "done"

def runRunner (j : Json) : P Json := do
  let all ← (← fld j "execute_all").getBool?
  let clients ← (← arr (← fld j "clients")).mapM (fun c => do
    return ((← (← arr c).mapM cact).foldl (· ++ ·) []))
  let sched ← (← arr (← fld j "sched")).mapM (·.getNat?)
  let I := Runner.qInterp "stop"
  let s0 : Runner.St Runner.QI String String := { it := {}, executeAll := all, clients := clients }
  let s := Runner.run I s0 sched
  return Json.mkObj [
    ("executed", ofStrs s.executed),
    ("reported", .arr (s.reported.map ofStrs).toArray),
    ("before_run", ofInt s.beforeRun), ("after_run", ofInt s.afterRun), ("cycles", ofInt s.cycles),
    ("pc", ofPc s.pc), ("unpaused", .bool s.unpaused), ("stop", .bool s.stop),
    ("pending", ofStrs s.it.pending), ("final", .bool s.it.final),
    ("clients_left", .arr (s.clients.map (fun c => ofInt c.length)).toArray),
    ("enabled", .arr ((List.range (clients.length + 1)).map (fun t => Json.bool (Runner.enabled I s t))).toArray)]

/-! ## clock cases (over `Rat`) -/

def rat (j : Json) : P Rat :=
  match j with
  | .arr #[n, d] => do return mkRat (← n.getInt?) (← d.getNat?)
  | _ => do return ((← j.getInt?) : Int)

def ofRat (q : Rat) : Json := .arr #[ofInt q.num, ofInt q.den]

def clockOp (j : Json) : P (ClockOp Rat) := do
  match (← arr j) with
  | [.str "start", r] => return .start (← rat r)
  | [.str "stop", r] => return .stop (← rat r)
  | [.str "speed", r1, r2, s] => return .setSpeed (← rat r1) (← rat r2) (← rat s)
  | [.str "time", r1, r2, t] => return .setTime (← rat r1) (← rat r2) (← rat t)
  | [.str "read", r] => return .read (← rat r)
  | _ => throw "bad clock op"

/-- number of `time.time()` calls the operation makes in state `c` -/
def clockReads (c : SimClock Rat) : ClockOp Rat → Nat
  | .start _ => if c.play then 0 else 1
  | .stop _ => if c.play then 1 else 0
  | .setSpeed _ _ _ => if c.play then 2 else 1
  | .setTime _ _ _ => if c.play then 2 else 1   -- rejected: the second call is not reached
  | .read _ => if c.play then 1 else 0

def runClock (j : Json) : P Json := do
  let r0 ← rat (← fld j "r0")
  let ops ← (← arr (← fld j "ops")).mapM clockOp
  let rec go (c : SimClock Rat) (acc : Array Json) : List (ClockOp Rat) → Array Json
    | [] => acc
    | op :: rest =>
      let (c', o) := c.step op
      let oj : Json := match o with
        | .none => .null
        | .value v => ofRat v
        | .accepted b => .bool b
      go c' (acc.push oj) rest
  return Json.mkObj [("outs", .arr (go (SimClock.init r0) #[] ops))]

def run1 (j : Json) : P Json := do
  match (← (← fld j "kind").getStr?) with
  | "interp" => runInterp j
  | "clock" => runClock j
  | "edit" => runEdit j
  | "bdd" => runBdd j
  | "runner" => runRunner j
  | "io_import" => runIO "io_import" j
  | "io_export" => runIO "io_export" j
  | "io_roundtrip" => runIO "io_roundtrip" j
  | "ping" => return Json.mkObj [("pong", .bool true)]
  | k => throw s!"unknown case kind {k}"

def run (j : Json) : P Json := do
  match (← (← fld j "kind").getStr?) with
  | "multi" =>
    let rs ← (← arr (← fld j "cases")).mapM run1
    return Json.mkObj [("multi", .arr rs.toArray)]
  | _ => run1 j

end Sismic.Cases
