import Sismic.Proofs.ChartPerm
import Sismic.Proofs.EditInv
import Sismic.Proofs.WFCheck
/-!
# Sismic.Proofs.Rename — `rename_state` is the substitution of one name, up to declaration order

`(c.renameState a b).2` and `c.mapNames (renameIn a b)` are the same statechart declared in
another order (`ChartPerm`): together with C07 (declaration order is behaviourally invisible) this
reduces "renaming changes nothing but the name" to the equivariance of the interpreter under
`mapNames`.
-/
namespace Sismic

/-- the name of a state substituted in one `StateDef` (its own name; `initial` of a compound state;
    `memory` of a history state) -/
def StateDef.rename (ρ : Name → Name) (s : StateDef) : StateDef :=
  { s with name := ρ s.name,
           initial := if s.kind == .compound then s.initial.map ρ else s.initial,
           memory := if s.kind.isHistory then s.memory.map ρ else s.memory }

/-- the statechart with every occurrence of a state name substituted -/
def Chart.mapNames (ρ : Name → Name) (c : Chart) : Chart :=
  { c with states := c.states.map (StateDef.rename ρ),
           parent := c.parent.map (fun p => (ρ p.1, p.2.map ρ)),
           children := c.children.map (fun p => (p.1.map ρ, p.2.map ρ)),
           transitions := c.transitions.map (fun t => { t with source := ρ t.source, target := t.target.map ρ }) }

/-- what the editing operations keep true of the three dictionaries -/
structure Tidy (c : Chart) : Prop where
  names : (c.states.map (·.name)).Nodup
  parentKeys : (c.parent.map (·.1)).Nodup
  childKeys : (c.children.map (·.1)).Nodup
  parentKeysStates : ∀ k, k ∈ c.parent.map (·.1) → c.hasState k = true
  statesHaveEntry : ∀ k, c.hasState k = true → k ∈ c.parent.map (·.1)
  childKeysStates : ∀ k, some k ∈ c.children.map (·.1) → c.hasState k = true
  statesHaveChildEntry : ∀ k, c.hasState k = true → some k ∈ c.children.map (·.1)
  oneRoot : ∀ e ∈ c.parent, ∀ e' ∈ c.parent, e.2 = none → e'.2 = none → e = e'
  childParent : ∀ p ch, ch ∈ c.childrenFor p ↔ c.parentFor ch = some p
  childrenNodup : ∀ p, (c.childrenFor p).Nodup
  noSelf : ∀ n, c.parentFor n ≠ some n

theorem renameIn_ne {a b x : Name} (h : x ≠ a) : Chart.renameIn a b x = x := by
  simp [Chart.renameIn, h]

theorem renameIn_self (a b : Name) : Chart.renameIn a b a = b := by simp [Chart.renameIn]

theorem renameIn_opt (a b : Name) (o : Option Name) :
    o.map (Chart.renameIn a b) = if o == some a then some b else o := by
  cases o with
  | none => simp
  | some x =>
    by_cases h : x = a
    · subst h; simp [Chart.renameIn]
    · simp [Chart.renameIn, h]

theorem filter_none_eq {α κ : Type} [DecidableEq κ] (key : α → κ) (k : κ) (f g : α → α) :
    ∀ (l : List α), (∀ y, key (g y) = key y) → (∀ z ∈ l, key z ≠ k) → (∀ y ∈ l, key y ≠ k → g y = f y) →
      (l.map g).filter (fun y => key y != k) = l.map f
  | [], _, _, _ => rfl
  | z :: zs, hg, hne, hfg => by
    have hz := hne z List.mem_cons_self
    have h1 : (key (g z) != k) = true := by rw [hg]; simp [hz]
    simp only [List.map_cons, List.filter_cons, h1, if_true]
    rw [hfg z List.mem_cons_self hz]
    congr 1
    exact filter_none_eq key k f g zs hg (fun w hw => hne w (List.mem_cons_of_mem _ hw))
      (fun w hw => hfg w (List.mem_cons_of_mem _ hw))

/-- with unique keys, dropping the entries of a key and appending the new version of that entry is
    a permutation of the pointwise image -/
theorem perm_filter_append {α κ : Type} [DecidableEq κ] (key : α → κ) (k : κ) (f g : α → α) :
    ∀ (l : List α) (x : α), (l.map key).Nodup → x ∈ l → key x = k →
      (∀ y, key (g y) = key y) → (∀ y ∈ l, key y ≠ k → g y = f y) →
      (((l.map g).filter (fun y => key y != k)) ++ [f x]).Perm (l.map f)
  | [], x, _, hx, _, _, _ => by cases hx
  | y :: ys, x, hn, hx, hk, hg, hfg => by
    rw [List.map_cons] at hn
    obtain ⟨hy, hn'⟩ := List.nodup_cons.mp hn
    by_cases hyk : key y = k
    · -- `y` is the entry; no other has that key
      have hxy : x = y := by
        rcases List.mem_cons.mp hx with e | e
        · exact e
        · exact absurd (List.mem_map.mpr ⟨x, e, hk.trans hyk.symm⟩) hy
      subst hxy
      have hrest : (ys.map g).filter (fun y => key y != k) = ys.map f :=
        filter_none_eq key k f g ys hg
          (fun z hz e => hy (List.mem_map.mpr ⟨z, hz, e.trans hyk.symm⟩))
          (fun w hw hwk => hfg w (List.mem_cons_of_mem _ hw) hwk)
      have h0 : (key (g x) != k) = false := by rw [hg]; simp [hyk]
      simp only [List.map_cons, List.filter_cons, h0, Bool.false_eq_true, if_false, hrest]
      exact List.perm_append_comm
    · have hx' : x ∈ ys := by
        rcases List.mem_cons.mp hx with e | e
        · exact absurd (e ▸ hk) hyk
        · exact e
      have h1 : (key (g y) != k) = true := by rw [hg]; simp [hyk]
      simp only [List.map_cons, List.filter_cons, h1, if_true, List.cons_append]
      rw [hfg y List.mem_cons_self hyk]
      exact List.Perm.cons _ (perm_filter_append key k f g ys x hn' hx' hk hg
        (fun w hw => hfg w (List.mem_cons_of_mem _ hw)))

end Sismic

namespace Sismic
open Chart

theorem rename_of_ne (a b : Name) (s : StateDef) (h : s.name ≠ a) :
    StateDef.rename (renameIn a b) s = reref a b s := by
  cases s with
  | mk name kind initial memory onEntry onExit pre post inv =>
    simp only at h
    unfold StateDef.rename reref
    simp only [renameIn_ne h, renameIn_opt]
    cases kind <;> cases initial <;> cases memory <;> simp [Kind.isHistory] <;>
      (try split) <;> (try split) <;> simp_all

theorem rename_at (a b : Name) (s : StateDef) (h : s.name = a) :
    StateDef.rename (renameIn a b) s = { reref a b s with name := b } := by
  cases s with
  | mk name kind initial memory onEntry onExit pre post inv =>
    simp only at h
    unfold StateDef.rename reref
    simp only [h, renameIn_self, renameIn_opt]
    cases kind <;> cases initial <;> cases memory <;> simp [Kind.isHistory] <;>
      (try split) <;> (try split) <;> simp_all

theorem renameState_fields (c : Chart) (a b : Name) (h : (c.renameState a b).1 = .ok ()) (hne : a ≠ b) :
    (c.renameState a b).2.parent =
      assocErase a (c.parent.map (fun p => (p.1, if p.2 == some a then some b else p.2))) ++
        [(b, match (c.parent.map (fun p => (p.1, if p.2 == some a then some b else p.2))).find? (fun p => p.1 == a) with
             | some (_, q) => q
             | none => none)] ∧
    (c.renameState a b).2.children =
      (let pn := match (c.parent.map (fun p => (p.1, if p.2 == some a then some b else p.2))).find? (fun p => p.1 == a) with
             | some (_, q) => q
             | none => none
       let ch1 := assocModify pn (fun l => l.erase a ++ [b]) c.children
       assocErase (some a) ch1 ++ [(some b, match ch1.find? (fun p => p.1 == some a) with
             | some (_, l) => l
             | none => [])]) := by
  unfold renameState at h ⊢
  have : (a == b) = false := by simp [hne]
  simp only [this, Bool.false_eq_true, if_false] at h ⊢
  split
  · next h1 => simp [h1] at h
  · next h1 =>
    split
    · next h2 => simp [h1, h2] at h
    · next h2 => exact ⟨rfl, rfl⟩

/-- `eraseFirst` of the only entry with a key is `filter` -/
theorem eraseFirst_eq_filter {α κ : Type} [BEq κ] [LawfulBEq κ] (key : α → κ) (k : κ) :
    ∀ (l : List α), (l.map key).Nodup → eraseFirst (fun p => key p == k) l = l.filter (fun p => key p != k)
  | [], _ => rfl
  | y :: ys, hn => by
    rw [List.map_cons] at hn
    obtain ⟨hy, hn'⟩ := List.nodup_cons.mp hn
    unfold eraseFirst
    by_cases hyk : key y = k
    · have h1 : (key y == k) = true := by simp [hyk]
      have h2 : (key y != k) = false := by simp [hyk]
      simp only [h1, if_true, List.filter_cons, h2, Bool.false_eq_true, if_false]
      symm
      rw [List.filter_eq_self]
      intro z hz
      have : key z ≠ k := fun e => hy (List.mem_map.mpr ⟨z, hz, e.trans hyk.symm⟩)
      simp [this]
    · have h1 : (key y == k) = false := by simp [hyk]
      have h2 : (key y != k) = true := by simp [hyk]
      simp only [h1, Bool.false_eq_true, if_false, List.filter_cons, h2, if_true]
      rw [eraseFirst_eq_filter key k ys hn']

/-- the states of the renamed chart are the substituted states, reordered -/
theorem rename_states_perm (c : Chart) (a b : Name) (ht : Tidy c) (h : (c.renameState a b).1 = .ok ()) (hne : a ≠ b) :
    (c.renameState a b).2.states.Perm (c.mapNames (renameIn a b)).states := by
  obtain ⟨_, hha, hst⟩ := renameState_states c a b h hne
  rw [hst]
  obtain ⟨sa, hsa⟩ : ∃ sa, c.states.find? (fun s => s.name == a) = some sa := by
    simpa [Chart.hasState, Chart.stateFor, Option.isSome_iff_exists] using hha
  have hmem := List.mem_of_find?_eq_some hsa
  have hname : sa.name = a := by simpa using List.find?_some hsa
  rw [find?_map_name _ (reref_name a b) a, hsa]
  simp only [Option.map_some, Option.toList_some]
  rw [← rename_at a b sa hname]
  exact perm_filter_append (·.name) a (StateDef.rename (renameIn a b)) (reref a b) c.states sa ht.names hmem hname
    (reref_name a b) (fun y _ hy => (rename_of_ne a b y hy).symm)

/-- … and so are the entries of `_parent` -/
theorem rename_parent_perm (c : Chart) (a b : Name) (ht : Tidy c) (h : (c.renameState a b).1 = .ok ()) (hne : a ≠ b) :
    (c.renameState a b).2.parent.Perm (c.mapNames (renameIn a b)).parent := by
  obtain ⟨_, hha, _⟩ := renameState_states c a b h hne
  rw [(renameState_fields c a b h hne).1]
  have hk : a ∈ c.parent.map (·.1) := ht.statesHaveEntry a hha
  let g : Name × Option Name → Name × Option Name := fun p => (p.1, if p.2 == some a then some b else p.2)
  let f : Name × Option Name → Name × Option Name := fun p => (renameIn a b p.1, p.2.map (renameIn a b))
  have hg : ∀ y, (g y).1 = y.1 := fun _ => rfl
  have hfg : ∀ y ∈ c.parent, y.1 ≠ a → g y = f y := by
    intro y _ hy
    simp only [g, f, renameIn_ne hy, renameIn_opt]
  have hkeys : ((c.parent.map g).map (fun (p : Name × Option Name) => p.1)).Nodup := by
    rw [List.map_map]; exact ht.parentKeys
  have herase : assocErase a (c.parent.map g) = (c.parent.map g).filter (fun p => p.1 != a) := by
    unfold assocErase
    exact eraseFirst_eq_filter (fun (p : Name × Option Name) => p.1) a _ hkeys
  obtain ⟨x, hx, hxa⟩ := List.mem_map.mp hk
  have hfind : (c.parent.map g).find? (fun p => p.1 == a) = some (g x) := by
    have : ∀ (l : List (Name × Option Name)), (l.map (·.1)).Nodup → x ∈ l →
        (l.map g).find? (fun p => p.1 == a) = some (g x) := by
      intro l
      induction l with
      | nil => intro _ hx; cases hx
      | cons y ys ih =>
        intro hn hx
        rw [List.map_cons] at hn
        obtain ⟨hy, hn'⟩ := List.nodup_cons.mp hn
        simp only [List.map_cons, List.find?_cons]
        rcases List.mem_cons.mp hx with e | e
        · subst e; simp [g, hxa]
        · have : y.1 ≠ a := fun e' => hy (List.mem_map.mpr ⟨x, e, hxa.trans e'.symm⟩)
          have h1 : ((g y).1 == a) = false := by simp [g, this]
          simp only [h1]
          exact ih hn' e
    exact this c.parent ht.parentKeys hx
  show (assocErase a (c.parent.map g) ++ [(b, match (c.parent.map g).find? (fun (p : Name × Option Name) => p.1 == a) with
      | some (_, q) => q
      | none => none)]).Perm (c.parent.map f)
  rw [herase, hfind]
  have : (b, (g x).2) = f x := by
    simp only [g, f, hxa, renameIn_self, renameIn_opt]
  simp only
  rw [this]
  exact perm_filter_append (fun (p : Name × Option Name) => p.1) a f g c.parent x ht.parentKeys hx hxa hg hfg

/-! ### association-list lookups under the three dictionary operations -/

section Assoc
variable {κ ν : Type} [BEq κ] [LawfulBEq κ]

theorem find?_assocModify_ne (k k' : κ) (f : ν → ν) (hne : k' ≠ k) :
    ∀ l : List (κ × ν), (assocModify k f l).find? (fun p => p.1 == k') = l.find? (fun p => p.1 == k')
  | [] => rfl
  | (k0, v) :: r => by
    unfold assocModify
    by_cases h0 : k0 = k
    · have h1 : (k0 == k) = true := by simp [h0]
      have h2 : (k0 == k') = false := by simp [h0, Ne.symm hne]
      simp [h1, List.find?_cons, h2]
    · have h1 : (k0 == k) = false := by simp [h0]
      simp only [h1, Bool.false_eq_true, if_false, List.find?_cons]
      split
      · rfl
      · exact find?_assocModify_ne k k' f hne r

theorem find?_assocModify_same (k : κ) (f : ν → ν) :
    ∀ l : List (κ × ν), (assocModify k f l).find? (fun p => p.1 == k) =
      (l.find? (fun p => p.1 == k)).map (fun p => (p.1, f p.2))
  | [] => rfl
  | (k0, v) :: r => by
    unfold assocModify
    by_cases h0 : k0 = k
    · have h1 : (k0 == k) = true := by simp [h0]
      simp [h1, List.find?_cons]
    · have h1 : (k0 == k) = false := by simp [h0]
      simp only [h1, Bool.false_eq_true, if_false, List.find?_cons]
      exact find?_assocModify_same k f r

theorem keys_assocModify (k : κ) (f : ν → ν) : ∀ l : List (κ × ν), (assocModify k f l).map (·.1) = l.map (·.1)
  | [] => rfl
  | (k0, v) :: r => by
    unfold assocModify
    split
    · rfl
    · simp only [List.map_cons]; rw [keys_assocModify k f r]

theorem find?_filter_key_ne (k k' : κ) (hne : k' ≠ k) :
    ∀ l : List (κ × ν), (l.filter (fun p => p.1 != k)).find? (fun p => p.1 == k') = l.find? (fun p => p.1 == k')
  | [] => rfl
  | (k0, v) :: r => by
    by_cases h0 : k0 = k
    · have h1 : (k0 != k) = false := by simp [h0]
      have h2 : (k0 == k') = false := by simp [h0, Ne.symm hne]
      simp only [List.filter_cons, h1, Bool.false_eq_true, if_false, List.find?_cons, h2]
      exact find?_filter_key_ne k k' hne r
    · have h1 : (k0 != k) = true := by simp [h0]
      simp only [List.filter_cons, h1, if_true, List.find?_cons]
      split
      · rfl
      · exact find?_filter_key_ne k k' hne r

theorem find?_filter_key_same (k : κ) :
    ∀ l : List (κ × ν), (l.filter (fun p => p.1 != k)).find? (fun p => p.1 == k) = none
  | [] => rfl
  | (k0, v) :: r => by
    by_cases h0 : k0 = k
    · have h1 : (k0 != k) = false := by simp [h0]
      simp only [List.filter_cons, h1, Bool.false_eq_true, if_false]
      exact find?_filter_key_same k r
    · have h1 : (k0 != k) = true := by simp [h0]
      have h2 : (k0 == k) = false := by simp [h0]
      simp only [List.filter_cons, h1, if_true, List.find?_cons, h2]
      exact find?_filter_key_same k r

theorem find?_none_of_not_key (k : κ) (l : List (κ × ν)) (h : k ∉ l.map (·.1)) :
    l.find? (fun p => p.1 == k) = none := by
  rw [List.find?_eq_none]
  intro p hp e
  exact h (List.mem_map.mpr ⟨p, hp, by simpa using e⟩)

end Assoc

/-- lookup in the substituted `_children`: the entry of `n` is the substituted entry of the key that
    becomes `n` -/
theorem find?_mapped_children (ρ : Name → Name) (k0 : Option Name) (k : Option Name)
    (l : List (Option Name × List Name))
    (hinj : ∀ q ∈ l.map (·.1), q.map ρ = k → q = k0) :
    (l.map (fun p => (p.1.map ρ, p.2.map ρ))).find? (fun p => p.1 == k) =
      if k0.map ρ = k then (l.find? (fun p => p.1 == k0)).map (fun p => (p.1.map ρ, p.2.map ρ)) else none := by
  induction l with
  | nil => simp
  | cons y ys ih =>
    have hinj' : ∀ q ∈ ys.map (·.1), q.map ρ = k → q = k0 := fun q hq => hinj q (by
      simp only [List.map_cons]; exact List.mem_cons_of_mem _ hq)
    simp only [List.map_cons, List.find?_cons]
    by_cases hy : y.1.map ρ = k
    · have e : y.1 = k0 := hinj y.1 (by simp) hy
      have h1 : (y.1.map ρ == k) = true := by simp [hy]
      have h2 : (y.1 == k0) = true := by simp [e]
      simp only [h1, h2]
      rw [e] at hy
      simp [hy]
    · have h1 : (y.1.map ρ == k) = false := by simp [hy]
      simp only [h1]
      rw [ih hinj']
      by_cases hk : k0.map ρ = k
      · have h2 : (y.1 == k0) = false := by
          have : y.1 ≠ k0 := fun e => hy (e ▸ hk)
          simp [this]
        simp [hk, h2]
      · simp [hk]

theorem find?_map_keep {κ ν : Type} [DecidableEq κ] (g : κ × ν → κ × ν) (hg : ∀ p, (g p).1 = p.1) (k : κ) :
    ∀ l : List (κ × ν), (l.map g).find? (fun p => p.1 == k) = (l.find? (fun p => p.1 == k)).map g
  | [] => rfl
  | y :: ys => by
    simp only [List.map_cons, List.find?_cons, hg]
    split
    · rfl
    · exact find?_map_keep g hg k ys

/-- replacing `a` by `b` at the end of a list without repetition that contains `a` is a permutation
    of the substituted list -/
theorem erase_append_perm_map (a b : Name) : ∀ (l : List Name), l.Nodup → a ∈ l →
    (l.erase a ++ [b]).Perm (l.map (Chart.renameIn a b))
  | [], _, h => by cases h
  | y :: ys, hn, hm => by
    obtain ⟨hy, hn'⟩ := List.nodup_cons.mp hn
    by_cases e : y = a
    · subst e
      have : ys.map (Chart.renameIn y b) = ys := by
        rw [List.map_congr_left (g := id)]
        · simp
        · intro z hz; exact renameIn_ne (fun e => hy (e ▸ hz))
      simp only [List.erase_cons_head, List.map_cons, renameIn_self, this]
      exact List.perm_append_comm
    · have hm' : a ∈ ys := by
        rcases List.mem_cons.mp hm with e' | e'
        · exact absurd e'.symm e
        · exact e'
      have h1 : (y == a) = false := by simp [e]
      simp only [List.erase_cons, h1, Bool.false_eq_true, if_false, List.cons_append, List.map_cons, renameIn_ne e]
      exact List.Perm.cons _ (erase_append_perm_map a b ys hn' hm')

theorem map_renameIn_of_not_mem (a b : Name) (l : List Name) (h : a ∉ l) : l.map (Chart.renameIn a b) = l := by
  rw [List.map_congr_left (g := id)]
  · simp
  · intro z hz; exact renameIn_ne (fun e => h (e ▸ hz))

/-- `_children` after `rename_state`, with the parent looked up in the old chart -/
theorem renameState_children (c : Chart) (a b : Name) (ht : Tidy c) (h : (c.renameState a b).1 = .ok ()) (hne : a ≠ b) :
    (c.renameState a b).2.children =
      assocErase (some a) (assocModify (c.parentFor a) (fun l => l.erase a ++ [b]) c.children) ++
        [(some b, match (assocModify (c.parentFor a) (fun l => l.erase a ++ [b]) c.children).find? (fun p => p.1 == some a) with
          | some (_, l) => l
          | none => [])] := by
  have hpn : (match (c.parent.map (fun p => (p.1, if p.2 == some a then some b else p.2))).find? (fun p => p.1 == a) with
      | some (_, q) => q
      | none => none) = c.parentFor a := by
    rw [find?_map_keep (fun (p : Name × Option Name) => (p.1, if p.2 == some a then some b else p.2)) (fun _ => rfl) a]
    have hs := ht.noSelf a
    unfold Chart.parentFor at hs ⊢
    cases hf : c.parent.find? (fun p => p.1 == a) with
    | none => rfl
    | some x =>
      obtain ⟨k, v⟩ := x
      rw [hf] at hs
      simp only at hs
      simp only [Option.map_some]
      split
      · next e => exact absurd (by simpa using e) hs
      · rfl
  have hch := (renameState_fields c a b h hne).2
  simp only [hpn] at hch
  exact hch

/-- the children lists of the renamed chart -/
theorem rename_childrenFor (c : Chart) (a b : Name) (ht : Tidy c) (h : (c.renameState a b).1 = .ok ()) (hne : a ≠ b)
    (n : Name) :
    (c.renameState a b).2.childrenFor n =
    if n = a then [] else if n = b then c.childrenFor a
    else if c.parentFor a = some n then ((c.childrenFor n).erase a ++ [b]) else c.childrenFor n := by
  obtain ⟨hnb, hha, _⟩ := renameState_states c a b h hne
  -- the parent the code looks up
  have hpn : (match (c.parent.map (fun p => (p.1, if p.2 == some a then some b else p.2))).find? (fun p => p.1 == a) with
      | some (_, q) => q
      | none => none) = c.parentFor a := by
    rw [find?_map_keep (fun (p : Name × Option Name) => (p.1, if p.2 == some a then some b else p.2)) (fun _ => rfl) a]
    have hs := ht.noSelf a
    unfold Chart.parentFor at hs ⊢
    cases hf : c.parent.find? (fun p => p.1 == a) with
    | none => rfl
    | some x =>
      obtain ⟨k, v⟩ := x
      rw [hf] at hs
      simp only at hs
      simp only [Option.map_some]
      split
      · next e => exact absurd (by simpa using e) hs
      · rfl
  have hch := (renameState_fields c a b h hne).2
  simp only [hpn] at hch
  -- notation
  obtain ⟨F, hF⟩ : ∃ F : List Name → List Name, F = fun l => l.erase a ++ [b] := ⟨_, rfl⟩
  obtain ⟨ch1, hch1⟩ : ∃ ch1, ch1 = assocModify (c.parentFor a) F c.children := ⟨_, rfl⟩
  rw [← hF, ← hch1] at hch
  have hkeys1 : ch1.map (·.1) = c.children.map (·.1) := by rw [hch1]; exact keys_assocModify _ _ _
  have hnod1 : (ch1.map (fun (p : Option Name × List Name) => p.1)).Nodup := by rw [hkeys1]; exact ht.childKeys
  have herase : assocErase (some a) ch1 = ch1.filter (fun p => p.1 != some a) := by
    unfold assocErase
    exact eraseFirst_eq_filter (fun (p : Option Name × List Name) => p.1) (some a) _ hnod1
  have hb_nokey : some b ∉ c.children.map (·.1) := fun hk => by
    have := ht.childKeysStates b hk; rw [hnb] at this; cases this
  have ha_self : a ∉ c.childrenFor a := fun hm => ht.noSelf a ((ht.childParent a a).mp hm)
  -- lookups in `ch1`
  have look1 : ∀ k : Option Name, ch1.find? (fun p => p.1 == k) =
      if k = c.parentFor a then (c.children.find? (fun p => p.1 == k)).map (fun p => (p.1, F p.2))
      else c.children.find? (fun p => p.1 == k) := by
    intro k
    rw [hch1]
    by_cases hk : k = c.parentFor a
    · simp only [hk, if_true]; exact find?_assocModify_same _ _ _
    · simp only [hk, if_false]; exact find?_assocModify_ne _ _ _ hk _
  have hpa : c.parentFor a ≠ some a := ht.noSelf a
  have goal : (c.renameState a b).2.childrenFor n =
      if n = a then [] else if n = b then c.childrenFor a
      else if c.parentFor a = some n then F (c.childrenFor n) else c.childrenFor n := by
    unfold Chart.childrenFor
    rw [hch]
    show (match (assocErase (some a) ch1 ++ [(some b, match ch1.find? (fun (p : Option Name × List Name) => p.1 == some a) with
        | some (_, l) => l
        | none => [])]).find? (fun (p : Option Name × List Name) => p.1 == some n) with
      | some (_, l) => l
      | none => []) = _
    rw [herase, List.find?_append]
    by_cases hna : n = a
    · subst hna
      rw [find?_filter_key_same]
      have : ((some b : Option Name) == some n) = false := by simp [Ne.symm hne]
      simp [this]
    · have hne' : (some n : Option Name) ≠ some a := fun e => hna (Option.some.inj e)
      rw [find?_filter_key_ne (some a) (some n) hne', look1 (some n)]
      simp only [hna, if_false]
      by_cases hnb' : n = b
      · subst hnb'
        have hnone : c.children.find? (fun p => p.1 == some n) = none := find?_none_of_not_key _ _ hb_nokey
        have hpb : (some n : Option Name) ≠ c.parentFor a ∨ True := Or.inr trivial
        rw [hnone]
        simp only [Option.map_none, ite_self, Option.none_or, List.find?_cons, beq_self_eq_true, if_true]
        rw [look1 (some a)]
        have : (some a : Option Name) ≠ c.parentFor a := fun e => hpa e.symm
        simp only [this, if_false]
        cases c.children.find? (fun p => p.1 == some a) <;> rfl
      · have : ((some b : Option Name) == some n) = false := by simp [Ne.symm hnb']
        simp only [hnb', if_false]
        by_cases hp : c.parentFor a = some n
        · rw [hp]
          simp only [if_true]
          cases hf : c.children.find? (fun p => p.1 == some n) with
          | some e => simp
          | none =>
            -- `a` is a child of `n`, so `n` has an entry
            exfalso
            have hm : a ∈ c.childrenFor n := (ht.childParent n a).mpr hp
            unfold Chart.childrenFor at hm
            rw [hf] at hm
            cases hm
        · have hp' : ¬ (some n : Option Name) = c.parentFor a := fun e => hp e.symm
          simp only [hp', hp, if_false]
          cases hf : c.children.find? (fun p => p.1 == some n) with
          | some e => simp
          | none => simp [List.find?_cons, this]

  rw [goal, hF]

/-- … and so are the children lists -/
theorem rename_children_perm (c : Chart) (a b : Name) (ht : Tidy c) (h : (c.renameState a b).1 = .ok ()) (hne : a ≠ b)
    (n : Name) :
    ((c.renameState a b).2.childrenFor n).Perm ((c.mapNames (renameIn a b)).childrenFor n) := by
  obtain ⟨hnb, hha, _⟩ := renameState_states c a b h hne
  have hb_nokey : some b ∉ c.children.map (·.1) := fun hk => by
    have := ht.childKeysStates b hk; rw [hnb] at this; cases this
  have ha_self : a ∉ c.childrenFor a := fun hm => ht.noSelf a ((ht.childParent a a).mp hm)
  have lhs := rename_childrenFor c a b ht h hne n
  -- the children of `n` in the substituted chart
  have rhs : (c.mapNames (renameIn a b)).childrenFor n =
      if n = a then [] else if n = b then (c.childrenFor a).map (renameIn a b)
      else (c.childrenFor n).map (renameIn a b) := by
    unfold Chart.childrenFor Chart.mapNames
    simp only
    by_cases hna : n = a
    · subst hna
      rw [find?_mapped_children (renameIn n b) none (some n) c.children (by
        intro q _ hq
        cases q with
        | none => rfl
        | some x =>
          exfalso
          simp only [Option.map_some, Option.some.injEq] at hq
          by_cases hx : x = n
          · rw [hx, renameIn_self] at hq; exact hne hq.symm
          · rw [renameIn_ne hx] at hq; exact hx hq)]
      simp
    · simp only [hna, if_false]
      by_cases hnb' : n = b
      · subst hnb'
        rw [find?_mapped_children (renameIn a n) (some a) (some n) c.children (by
          intro q hq hq'
          cases q with
          | none => simp at hq'
          | some x =>
            simp only [Option.map_some, Option.some.injEq] at hq'
            by_cases hx : x = a
            · rw [hx]
            · rw [renameIn_ne hx] at hq'; exact absurd (hq' ▸ hq) hb_nokey)]
        simp only [Option.map_some, renameIn_self, if_true]
        cases c.children.find? (fun p => p.1 == some a) with
        | none => rfl
        | some e => rfl
      · simp only [hnb', if_false]
        rw [find?_mapped_children (renameIn a b) (some n) (some n) c.children (by
          intro q _ hq'
          cases q with
          | none => simp at hq'
          | some x =>
            simp only [Option.map_some, Option.some.injEq] at hq'
            by_cases hx : x = a
            · rw [hx, renameIn_self] at hq'; exact absurd hq'.symm hnb'
            · rw [renameIn_ne hx] at hq'; rw [hq'])]
        simp only [Option.map_some, renameIn_ne hna, if_true]
        cases c.children.find? (fun p => p.1 == some n) with
        | none => rfl
        | some e => rfl
  rw [lhs, rhs]
  by_cases hna : n = a
  · simp [hna]
  · simp only [hna, if_false]
    by_cases hnb' : n = b
    · simp only [hnb', if_true]
      rw [map_renameIn_of_not_mem a b _ ha_self]
    · simp only [hnb', if_false]
      by_cases hp : c.parentFor a = some n
      · simp only [hp, if_true]
        exact erase_append_perm_map a b _ (ht.childrenNodup n) ((ht.childParent n a).mpr hp)
      · simp only [hp, if_false]
        rw [map_renameIn_of_not_mem a b _ (fun hm => hp ((ht.childParent n a).mp hm))]

theorem nodup_map_renameIn (a b : Name) (l : List Name) (hn : l.Nodup) (hb : b ∉ l) :
    (l.map (renameIn a b)).Nodup := by
  induction l with
  | nil => exact List.nodup_nil
  | cons y ys ih =>
    obtain ⟨hy, hn'⟩ := List.nodup_cons.mp hn
    have hb' : b ∉ ys := fun h => hb (List.mem_cons_of_mem _ h)
    have hby : b ≠ y := fun e => hb (e ▸ List.mem_cons_self)
    simp only [List.map_cons]
    refine List.nodup_cons.mpr ⟨?_, ih hn' hb'⟩
    intro hm
    obtain ⟨z, hz, e⟩ := List.mem_map.mp hm
    by_cases hza : z = a
    · subst hza
      rw [renameIn_self] at e
      by_cases hya : y = z
      · exact hy (hya ▸ hz)
      · rw [renameIn_ne hya] at e; exact hby e
    · rw [renameIn_ne hza] at e
      by_cases hya : y = a
      · rw [hya, renameIn_self] at e; exact hb' (e ▸ hz)
      · rw [renameIn_ne hya] at e; exact hy (e ▸ hz)

/-- **`rename_state` is the substitution of the name, up to declaration order.** -/
theorem rename_is_substitution (c : Chart) (a b : Name) (ht : Tidy c) (h : (c.renameState a b).1 = .ok ()) (hne : a ≠ b) :
    ChartPerm (c.mapNames (renameIn a b)) (c.renameState a b).2 := by
  obtain ⟨hnb, hha, _⟩ := renameState_states c a b h hne
  have hbn : b ∉ c.states.map (·.name) := by
    intro hm
    obtain ⟨s, hs, e⟩ := List.mem_map.mp hm
    have : c.hasState b = true := by
      simp only [Chart.hasState, Chart.stateFor, Option.isSome_iff_exists]
      cases hf : c.states.find? (fun s => s.name == b) with
      | some x => exact ⟨x, rfl⟩
      | none =>
        rw [List.find?_eq_none] at hf
        exact absurd (by simpa using e) (hf s hs)
    rw [hnb] at this; cases this
  have hbp : b ∉ c.parent.map (·.1) := fun hm => by
    have := ht.parentKeysStates b hm; rw [hnb] at this; cases this
  refine ⟨rename_states_perm c a b ht h hne, ?_, rename_parent_perm c a b ht h hne, ?_, ?_,
    rename_children_perm c a b ht h hne, ?_⟩
  · show ((c.states.map (StateDef.rename (renameIn a b))).map (·.name)).Nodup
    rw [List.map_map]
    have : ((fun (s : StateDef) => s.name) ∘ StateDef.rename (renameIn a b)) = (renameIn a b) ∘ (fun (s : StateDef) => s.name) := rfl
    rw [this, ← List.map_map]
    exact nodup_map_renameIn a b _ ht.names hbn
  · show ((c.parent.map (fun p => (renameIn a b p.1, p.2.map (renameIn a b)))).map (·.1)).Nodup
    rw [List.map_map]
    have : ((fun (p : Name × Option Name) => p.1) ∘ (fun p => (renameIn a b p.1, p.2.map (renameIn a b)))) =
        (renameIn a b) ∘ (fun (p : Name × Option Name) => p.1) := rfl
    rw [this, ← List.map_map]
    exact nodup_map_renameIn a b _ ht.parentKeys hbp
  · intro e he e' he' h1 h2
    obtain ⟨x, hx, rfl⟩ := List.mem_map.mp he
    obtain ⟨x', hx', rfl⟩ := List.mem_map.mp he'
    have n1 : x.2 = none := by cases hx2 : x.2 with | none => rfl | some v => simp [hx2] at h1
    have n2 : x'.2 = none := by cases hx2 : x'.2 with | none => rfl | some v => simp [hx2] at h2
    rw [ht.oneRoot x hx x' hx' n1 n2]
  · rw [renameState_transitions c a b h hne]
    exact List.Perm.refl _

/-- what `Tidy` asks beyond well-formedness: the dictionaries have no duplicate keys and only
    states as keys (decidable) -/
def tidyExtraB (c : Chart) : Bool :=
  decide (c.parent.map (·.1)).Nodup && decide (c.children.map (·.1)).Nodup &&
  c.parent.all (fun p => c.hasState p.1) &&
  c.children.all (fun p => match p.1 with | some k => c.hasState k | none => true) &&
  c.states.all (fun s => (c.children.map (·.1)).contains (some s.name))

theorem tidy_of_wf (c : Chart) (hw : WFChart c) (hx : tidyExtraB c = true) : Tidy c := by
  unfold tidyExtraB at hx
  simp only [Bool.and_eq_true, decide_eq_true_eq, List.all_eq_true] at hx
  obtain ⟨⟨⟨⟨hpk, hck⟩, hps⟩, hcs⟩, hce⟩ := hx
  have pks : ∀ k, k ∈ c.parent.map (·.1) → c.hasState k = true := by
    intro k hk
    obtain ⟨p, hp, rfl⟩ := List.mem_map.mp hk
    exact hps p hp
  -- the entry of a key is what `parentFor` finds
  have entry : ∀ e ∈ c.parent, c.parent.find? (fun p => p.1 == e.1) = some e := by
    intro e he
    have := find?_perm_unique (fun (p : Name × Option Name) => p.1) (List.Perm.refl c.parent) hpk e.1
    cases hf : c.parent.find? (fun p => p.1 == e.1) with
    | none =>
      rw [List.find?_eq_none] at hf
      exact absurd (by simp) (hf e he)
    | some x =>
      have hx1 : x.1 = e.1 := by simpa using List.find?_some hf
      have hxm := List.mem_of_find?_eq_some hf
      -- unique keys: same key, same entry
      have : ∀ (l : List (Name × Option Name)), (l.map (·.1)).Nodup → x ∈ l → e ∈ l → x = e := by
        intro l
        induction l with
        | nil => intro _ h; cases h
        | cons y ys ih =>
          intro hn h1 h2
          rw [List.map_cons] at hn
          obtain ⟨hy, hn'⟩ := List.nodup_cons.mp hn
          rcases List.mem_cons.mp h1 with e1 | e1 <;> rcases List.mem_cons.mp h2 with e2 | e2
          · rw [e1, e2]
          · exact absurd (List.mem_map.mpr ⟨e, e2, by rw [← hx1, e1]⟩) hy
          · exact absurd (List.mem_map.mpr ⟨x, e1, by rw [hx1, e2]⟩) hy
          · exact ih hn' e1 e2
      rw [this c.parent hpk hxm he]
  obtain ⟨r, hroot, hrp, hrs⟩ := hw.root
  refine ⟨hw.names, hpk, hck, pks, ?_, ?_, ?_, ?_, hw.children, hw.childrenNodup, ?_⟩
  · -- every state has an entry
    intro k hk
    by_cases hkr : c.root = some k
    · unfold Chart.root at hkr
      cases hf : c.parent.find? (fun p => p.2 == none) with
      | none => rw [hf] at hkr; cases hkr
      | some e =>
        rw [hf] at hkr
        simp only [Option.map_some, Option.some.injEq] at hkr
        exact List.mem_map.mpr ⟨e, List.mem_of_find?_eq_some hf, hkr⟩
    · obtain ⟨p, hp⟩ := hw.nonroot k hk hkr
      exact List.mem_map.mpr ⟨(k, some p), parentFor_mem c k p hp, rfl⟩
  · intro k hk
    obtain ⟨p, hp, e⟩ := List.mem_map.mp hk
    have := hcs p hp
    rw [e] at this
    exact this
  · intro k hk
    simp only [Chart.hasState, Chart.stateFor, Option.isSome_iff_exists] at hk
    obtain ⟨sd, hsd⟩ := hk
    have := hce sd (List.mem_of_find?_eq_some hsd)
    have hn : sd.name = k := by simpa using List.find?_some hsd
    rw [hn] at this
    simpa using this
  · -- one root
    have isRoot : ∀ e ∈ c.parent, e.2 = none → e.1 = r := by
      intro e he hn
      by_cases hkr : c.root = some e.1
      · rw [hroot] at hkr; exact (Option.some.inj hkr).symm
      · obtain ⟨p, hp⟩ := hw.nonroot e.1 (pks e.1 (List.mem_map.mpr ⟨e, he, rfl⟩)) hkr
        unfold Chart.parentFor at hp
        rw [entry e he] at hp
        obtain ⟨k, v⟩ := e
        simp only at hp hn
        rw [hn] at hp; cases hp
    intro e he e' he' h1 h2
    have k1 := isRoot e he h1
    have k2 := isRoot e' he' h2
    obtain ⟨k, v⟩ := e
    obtain ⟨k', v'⟩ := e'
    simp only at h1 h2 k1 k2
    rw [h1, h2, k1, k2]
  · intro n hn
    obtain ⟨rk, hrk, _⟩ := hw.tree.rank
    exact Nat.lt_irrefl _ (hrk n n hn)

end Sismic
