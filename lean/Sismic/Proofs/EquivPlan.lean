import Sismic.Proofs.EquivSelect
/-!
# Sismic.Proofs.EquivPlan — `_sort_transitions`, `_create_steps`, `_create_stabilization_step` commute with the renaming
-/
namespace Sismic

def Micro.rename (ρ : Name → Name) (ι : Nat → Nat) (m : Micro) : Micro :=
  { m with transition := m.transition.map (Trans.relabel ρ ι), entered := m.entered.map ρ, exited := m.exited.map ρ }

theorem pairs_map {α β : Type} (f : α → β) : ∀ l : List α, pairs (l.map f) = (pairs l).map (fun p => (f p.1, f p.2))
  | [] => rfl
  | x :: xs => by
    simp only [List.map_cons, pairs, List.map_append, List.map_map, pairs_map f xs]
    rfl

theorem mem_pairs {α : Type} : ∀ (l : List α) (p : α × α), p ∈ pairs l → p.1 ∈ l ∧ p.2 ∈ l
  | [], p, h => by simp [pairs] at h
  | x :: xs, p, h => by
    simp only [pairs, List.mem_append, List.mem_map] at h
    rcases h with ⟨y, hy, e⟩ | h
    · subst e; simp [hy]
    · have := mem_pairs xs p h
      simp [this.1, this.2]

section
variable {S : Name → Prop} {ρ : Name → Name} {ι : Nat → Nat} (hρ : RenOK S ρ)
include hρ

theorem RenOK.beq_opt (x : Name) (l : Option Name) (hx : S x) (hl : ∀ y, l = some y → S y) :
    (some (ρ x) == l.map ρ) = (some x == l) := by
  cases l with
  | none => rfl
  | some y =>
    have := hρ.beq x y hx (hl y rfl)
    simp only [Option.map_some]
    show (some (ρ x) == some (ρ y)) = (some x == some y)
    simpa using this

theorem lastBeforeGo_rename (l : Option Name) (hl : ∀ y, l = some y → S y) : ∀ (cur : Name) (xs : List Name),
    (∀ x ∈ xs, S x) → lastBeforeGo (l.map ρ) (ρ cur) (xs.map ρ) = ρ (lastBeforeGo l cur xs)
  | _, [], _ => rfl
  | cur, x :: xs, h => by
    simp only [List.map_cons, lastBeforeGo, hρ.beq_opt x l (h x (by simp)) hl]
    split
    · rfl
    · exact lastBeforeGo_rename l hl x xs (fun y hy => h y (by simp [hy]))

theorem lastBefore_rename (c : Chart) (hc : NamesIn S c) {c' : Chart} (hr : IsRen ρ ι c c') (s : Name) (hs : S s) (l : Option Name)
    (hl : ∀ y, l = some y → S y) :
    lastBefore c' (ρ s) (l.map ρ) = ρ (lastBefore c s l) := by
  simp only [lastBefore, ancestors_mapNames hρ c hc hr s hs]
  exact lastBeforeGo_rename hρ l hl s _ (fun x hx => hc.ancestors_in s x hx)

end

section
variable {S : Name → Prop}

theorem lastBeforeGo_in (l : Option Name) : ∀ (cur : Name) (xs : List Name), S cur → (∀ x ∈ xs, S x) →
    S (lastBeforeGo l cur xs)
  | _, [], hc, _ => hc
  | cur, x :: xs, hc, h => by
    simp only [lastBeforeGo]
    split
    · exact hc
    · exact lastBeforeGo_in l x xs (h x (by simp)) (fun y hy => h y (by simp [hy]))

theorem NamesIn.lastBefore_in {c : Chart} (hc : NamesIn S c) (s : Name) (hs : S s) (l : Option Name) :
    S (lastBefore c s l) :=
  lastBeforeGo_in l s _ hs (fun x hx => hc.ancestors_in s x hx)

theorem NamesIn.lca_in {c : Chart} (hc : NamesIn S c) (a b y : Name) (h : c.lca a b = some y) : S y := by
  simp only [Chart.lca] at h
  exact hc.ancestors_in a y (List.mem_of_find?_eq_some h)

end

section
variable {S : Name → Prop} {ρ : Name → Name} {ι : Nat → Nat} (hρ : RenOK S ρ)
include hρ

theorem nonDetPair_rename (c : Chart) (hc : NamesIn S c) {c' : Chart} (hr : IsRen ρ ι c c') (a b : Trans) (ha : S a.source) (hb : S b.source) :
    nonDetPair c' (a.relabel ρ ι) (b.relabel ρ ι) = nonDetPair c a b := by
  simp only [nonDetPair, Trans.relabel, hρ.beq _ _ ha hb, lca_mapNames hρ c hc hr _ _ ha hb]
  cases h : c.lca a.source b.source with
  | none => rfl
  | some l => simp only [Option.map_some, kindOf_mapNames hρ c hc hr l (hc.lca_in _ _ l h)]

theorem leavesRegion_rename (c : Chart) (hc : NamesIn S c) {c' : Chart} (hr : IsRen ρ ι c c') (l : Option Name) (hl : ∀ y, l = some y → S y)
    (t : Trans) (hs : S t.source) (ht : ∀ g, t.target = some g → S g) :
    leavesRegion c' (l.map ρ) (t.relabel ρ ι) = leavesRegion c l t := by
  simp only [leavesRegion, Trans.relabel]
  cases hg : t.target with
  | none => rfl
  | some tg =>
    simp only [Option.map_some, lastBefore_rename hρ c hc hr t.source hs l hl]
    have hlb : S (lastBefore c t.source l) := hc.lastBefore_in _ hs l
    rw [descendants_mapNames hρ c hc hr _ hlb, ← List.map_cons,
      hρ.contains _ tg (by
        intro y hy
        rcases List.mem_cons.1 hy with e | h
        · subst e; exact hlb
        · exact hc.descendants_in _ y h) (ht tg hg)]

theorem conflictPair_rename (c : Chart) (hc : NamesIn S c) {c' : Chart} (hr : IsRen ρ ι c c') (a b : Trans) (ha : S a.source) (hb : S b.source)
    (hat : ∀ g, a.target = some g → S g) (hbt : ∀ g, b.target = some g → S g) :
    conflictPair c' (a.relabel ρ ι) (b.relabel ρ ι) = conflictPair c a b := by
  simp only [conflictPair]
  have e : c'.lca (a.relabel ρ ι).source (b.relabel ρ ι).source = (c.lca a.source b.source).map ρ :=
    lca_mapNames hρ c hc hr _ _ ha hb
  have hl : ∀ y, c.lca a.source b.source = some y → S y := fun y h => hc.lca_in _ _ y h
  rw [e, leavesRegion_rename hρ c hc hr _ hl a ha hat, leavesRegion_rename hρ c hc hr _ hl b hb hbt]

theorem leTrans_rename (c : Chart) (hc : NamesIn S c) {c' : Chart} (hr : IsRen ρ ι c c') (a b : Trans) (ha : S a.source) (hb : S b.source) :
    leTrans c' (a.relabel ρ ι) (b.relabel ρ ι) = leTrans c a b :=
  leRevDepthName_mapNames hρ c hc hr _ _ ha hb

/-- **`_sort_transitions` commutes with the renaming**: the same error, or the substituted order. -/
theorem sortTransitions_rename (c : Chart) (hc : NamesIn S c) {c' : Chart} (hr : IsRen ρ ι c c') (ts : List Trans) (hts : ∀ t ∈ ts, t ∈ c.transitions) :
    sortTransitions c' (ts.map (Trans.relabel ρ ι)) =
      (sortTransitions c ts).map (List.map (Trans.relabel ρ ι)) := by
  have hs : ∀ t ∈ ts, S t.source := fun t h => hc.transS t (hts t h)
  have ht : ∀ t ∈ ts, ∀ g, t.target = some g → S g := fun t h => hc.transT t (hts t h)
  simp only [sortTransitions, List.length_map, pairs_map]
  have e1 : ((pairs ts).map (fun p => (Trans.relabel ρ ι p.1, Trans.relabel ρ ι p.2))).any
      (fun p => nonDetPair c' p.1 p.2) = (pairs ts).any (fun p => nonDetPair c p.1 p.2) := by
    apply any_map_comm
    intro p hp
    have := mem_pairs ts p hp
    exact nonDetPair_rename hρ c hc hr p.1 p.2 (hs _ this.1) (hs _ this.2)
  have e2 : ((pairs ts).map (fun p => (Trans.relabel ρ ι p.1, Trans.relabel ρ ι p.2))).any
      (fun p => conflictPair c' p.1 p.2) = (pairs ts).any (fun p => conflictPair c p.1 p.2) := by
    apply any_map_comm
    intro p hp
    have := mem_pairs ts p hp
    exact conflictPair_rename hρ c hc hr p.1 p.2 (hs _ this.1) (hs _ this.2) (ht _ this.1) (ht _ this.2)
  rw [e1, e2]
  split
  · rfl
  · split
    · rfl
    · split
      · rfl
      · simp only [Except.map]
        rw [isort_map (Trans.relabel ρ ι) (leTrans c) (leTrans c') ts
          (fun x hx y hy => leTrans_rename hρ c hc hr x y (hs x hx) (hs y hy))]

/-- **`_create_steps` commutes with the renaming.** -/
theorem createStep_rename (c : Chart) (hc : NamesIn S c) {c' : Chart} (hr : IsRen ρ ι c c') (cfg : List Name) (hcfg : ∀ x ∈ cfg, S x)
    (ev : Option Event) (t : Trans) (ht : t ∈ c.transitions) :
    createStep c' (cfg.map ρ) ev (t.relabel ρ ι) = (createStep c cfg ev t).rename ρ ι := by
  have hs : S t.source := hc.transS t ht
  simp only [createStep]
  cases hg : t.target with
  | none => simp [Trans.relabel, hg, Micro.rename]
  | some tg =>
    have htg : S tg := hc.transT t ht tg hg
    have e0 : (t.relabel ρ ι).target = some (ρ tg) := by simp [Trans.relabel, hg]
    simp only [e0]
    have hl : ∀ y, c.lca t.source tg = some y → S y := fun y h => hc.lca_in _ _ y h
    have e1 : c'.lca (t.relabel ρ ι).source (ρ tg) = (c.lca t.source tg).map ρ :=
      lca_mapNames hρ c hc hr _ _ hs htg
    have e2 : lastBefore c' (t.relabel ρ ι).source ((c.lca t.source tg).map ρ) =
        ρ (lastBefore c t.source (c.lca t.source tg)) := lastBefore_rename hρ c hc hr t.source hs _ hl
    have hlb : S (lastBefore c t.source (c.lca t.source tg)) := hc.lastBefore_in _ hs _
    simp only [e1, e2, Micro.rename, Option.map_some, List.map_append, List.map_cons, List.map_nil]
    congr 1
    · -- entered
      rw [ancestors_mapNames hρ c hc hr tg htg]
      have : ∀ l : List Name, (∀ x ∈ l, S x) →
          (l.map ρ).takeWhile (fun x => !(some x == (c.lca t.source tg).map ρ)) =
            (l.takeWhile (fun x => !(some x == c.lca t.source tg))).map ρ := by
        intro l
        induction l with
        | nil => intro _; rfl
        | cons x xs ih =>
          intro h
          simp only [List.map_cons, List.takeWhile_cons, hρ.beq_opt x _ (h x (by simp)) hl]
          split
          · simp only [List.map_cons]; rw [ih (fun y hy => h y (by simp [hy]))]
          · rfl
      simp only [bne]
      rw [this _ (fun x hx => hc.ancestors_in tg x hx), List.map_reverse]
    · -- exited
      rw [descendants_mapNames hρ c hc hr _ hlb]
      rw [isort_map ρ c.leRevDepthName c'.leRevDepthName _
        (fun x hx y hy => leRevDepthName_mapNames hρ c hc hr x y (hc.descendants_in _ x hx) (hc.descendants_in _ y hy))]
      rw [filter_map_comm ρ (fun x => cfg.contains x) (fun x => (cfg.map ρ).contains x) _
        (fun x hx => hρ.contains cfg x hcfg (hc.descendants_in _ x ((mem_isort _ _ x).1 hx)))]
      rw [hρ.contains cfg _ hcfg hlb]
      split <;> rfl

theorem createSteps_rename (c : Chart) (hc : NamesIn S c) {c' : Chart} (hr : IsRen ρ ι c c') (cfg : List Name) (hcfg : ∀ x ∈ cfg, S x)
    (ev : Option Event) (ts : List Trans) (hts : ∀ t ∈ ts, t ∈ c.transitions) :
    createSteps c' (cfg.map ρ) ev (ts.map (Trans.relabel ρ ι)) =
      (createSteps c cfg ev ts).map (Micro.rename ρ ι) := by
  simp only [createSteps, List.map_map]
  apply List.map_congr_left
  intro t ht
  exact createStep_rename hρ c hc hr cfg hcfg ev t (hts t ht)

end

/-! ### `_create_stabilization_step` -/

def renameMemory (ρ : Name → Name) (m : List (Name × List Name)) : List (Name × List Name) :=
  m.map (fun p => (ρ p.1, p.2.map ρ))

theorem findSome?_map_comm {α β γ δ : Type} (g : α → β) (h : γ → δ) (f : α → Option γ) (f' : β → Option δ) :
    ∀ l : List α, (∀ x ∈ l, f' (g x) = (f x).map h) → (l.map g).findSome? f' = (l.findSome? f).map h
  | [], _ => rfl
  | x :: xs, hx => by
    simp only [List.map_cons, List.findSome?_cons, hx x (by simp)]
    cases f x with
    | none => exact findSome?_map_comm g h f f' xs (fun y hy => hx y (by simp [hy]))
    | some v => rfl

section
variable {S : Name → Prop} {ρ : Name → Name} {ι : Nat → Nat} (hρ : RenOK S ρ)
include hρ

theorem leName_rename (a b : Name) (ha : S a) (hb : S b) : leName (ρ a) (ρ b) = leName a b := by
  simp only [leName, hρ.mono a b ha hb]

theorem RenOK.opt_beq (p r : Option Name) (hp : ∀ y, p = some y → S y) (hr : ∀ y, r = some y → S y) :
    (p.map ρ == r.map ρ) = (p == r) := by
  cases p with
  | none => cases r <;> rfl
  | some x => exact hρ.beq_opt x r (hp x rfl) hr

omit hρ in
theorem NamesIn.root_in {c : Chart} (hc : NamesIn S c) (y : Name) (h : c.root = some y) : S y := by
  simp only [Chart.root] at h
  cases hf : c.parent.find? (fun p => p.2 == none) with
  | none => rw [hf] at h; cases h
  | some p =>
    rw [hf] at h
    simp only [Option.map_some, Option.some.injEq] at h
    exact h ▸ hc.parentK p (List.mem_of_find?_eq_some hf)

theorem memory_find_rename (leaf : Name) (hleaf : S leaf) : ∀ (m : List (Name × List Name)), (∀ p ∈ m, S p.1) →
    (renameMemory ρ m).find? (fun p => p.1 == ρ leaf) =
      (m.find? (fun p => p.1 == leaf)).map (fun p => (ρ p.1, p.2.map ρ))
  | [], _ => rfl
  | y :: ys, h => by
    simp only [renameMemory, List.map_cons, List.find?_cons, hρ.beq y.1 leaf (h y (by simp)) hleaf]
    split
    · rfl
    · exact memory_find_rename leaf hleaf ys (fun z hz => h z (by simp [hz]))

theorem leafStep_rename (c : Chart) (hc : NamesIn S c) {c' : Chart} (hr : IsRen ρ ι c c') (memory : List (Name × List Name))
    (hmk : ∀ p ∈ memory, S p.1) (hmv : ∀ p ∈ memory, ∀ x ∈ p.2, S x) (leaf : Name) (hleaf : S leaf) :
    leafStep c' (renameMemory ρ memory) (ρ leaf) = (leafStep c memory leaf).map (Micro.rename ρ ι) := by
  simp only [leafStep, stateFor_mapNames hρ c hc hr leaf hleaf]
  cases hs : c.stateFor leaf with
  | none => rfl
  | some s =>
    have hsm : s ∈ c.states := List.mem_of_find?_eq_some hs
    simp only [Option.map_some]
    have hk : (StateDef.rename ρ s).kind = s.kind := rfl
    have hroot : c'.root = c.root.map ρ := root_mapNames c hr
    have hpr : (c'.parentFor (ρ leaf) == c'.root) = (c.parentFor leaf == c.root) := by
      rw [parentFor_mapNames hρ c hc hr leaf hleaf, hroot]
      exact hρ.opt_beq _ _ (fun y h => hc.parentFor_in leaf y h) (fun y h => hc.root_in y h)
    rw [hk, hpr]
    by_cases h1 : (s.kind == .final && c.parentFor leaf == c.root) = true
    · simp only [h1, if_true, Option.map_some, Micro.rename, hroot, Option.map_none, List.map_nil]
      cases c.root <;> rfl
    · simp only [h1, if_false, Bool.false_eq_true]
      by_cases h2 : s.kind.isHistory = true
      · simp only [h2, if_true, Option.map_some]
        rw [memory_find_rename hρ leaf hleaf memory hmk]
        cases hf : memory.find? (fun p => p.1 == leaf) with
        | none =>
          simp only [Option.map_none]
          have : (StateDef.rename ρ s).memory = s.memory.map ρ := by simp [StateDef.rename, h2]
          rw [this]
          have e : (s.memory.map ρ).toList = s.memory.toList.map ρ := by cases s.memory <;> rfl
          rw [e, isort_map ρ c.leDepthName c'.leDepthName _ (fun x hx y hy => by
            have hx' : S x := hc.memory s hsm x (by cases hm : s.memory with
              | none => simp [hm] at hx
              | some m => simp [hm] at hx; rw [hx])
            have hy' : S y := hc.memory s hsm y (by cases hm : s.memory with
              | none => simp [hm] at hy
              | some m => simp [hm] at hy; rw [hy])
            exact leDepthName_mapNames hρ c hc hr x y hx' hy')]
          simp [Micro.rename]
        | some p =>
          have hp := List.mem_of_find?_eq_some hf
          simp only [Option.map_some]
          rw [isort_map ρ c.leDepthName c'.leDepthName _ (fun x hx y hy =>
            leDepthName_mapNames hρ c hc hr x y (hmv p hp x hx) (hmv p hp y hy))]
          simp [Micro.rename]
      · simp only [h2, if_false, Bool.false_eq_true]
        rw [childrenFor_mapNames hρ c hc hr leaf hleaf]
        by_cases h3 : (s.kind == .orthogonal && !(c.childrenFor leaf).isEmpty) = true
        · have h3' : (s.kind == .orthogonal && !((c.childrenFor leaf).map ρ).isEmpty) = true := by
            simpa using h3
          simp only [h3, h3', if_true, Option.map_some]
          rw [isort_map ρ leName leName _ (fun x hx y hy =>
            leName_rename hρ x y (hc.childrenFor_in leaf x hx) (hc.childrenFor_in leaf y hy))]
          simp [Micro.rename]
        · have h3' : ¬ (s.kind == .orthogonal && !((c.childrenFor leaf).map ρ).isEmpty) = true := by
            simpa using h3
          simp only [h3, h3', if_false, Bool.false_eq_true]
          by_cases h4 : s.kind == .compound
          · have : (StateDef.rename ρ s).initial = s.initial.map ρ := by simp [StateDef.rename, h4]
            rw [this]
            cases hi : s.initial with
            | none => simp [h4]
            | some i => simp [h4, Micro.rename]
          · simp [h4]

theorem completeStep_rename (c : Chart) (hc : NamesIn S c) {c' : Chart} (hr : IsRen ρ ι c c') (cfg : List Name) (hcfg : ∀ x ∈ cfg, S x)
    (n : Name) (hn : S n) :
    completeStep c' (cfg.map ρ) (ρ n) = (completeStep c cfg n).map (Micro.rename ρ ι) := by
  simp only [completeStep, kindOf_mapNames hρ c hc hr n hn, childrenFor_mapNames hρ c hc hr n hn]
  split
  · rw [filter_map_comm ρ (fun x => !cfg.contains x) (fun x => !(cfg.map ρ).contains x) _
      (fun x hx => by simp only [hρ.contains cfg x hcfg (hc.childrenFor_in n x hx)])]
    rw [isort_map ρ leName leName _ (fun x hx y hy =>
      leName_rename hρ x y (hc.childrenFor_in n x (List.mem_filter.1 hx).1) (hc.childrenFor_in n y (List.mem_filter.1 hy).1))]
    simp only [List.isEmpty_map]
    split
    · rfl
    · simp [Micro.rename]
  · rfl

omit hρ in
theorem leafFor_sub (c : Chart) (names : List Name) : ∀ x ∈ c.leafFor names, x ∈ names := by
  intro x hx
  exact (List.mem_filter.1 hx).1

/-- **`_create_stabilization_step` commutes with the renaming.** -/
theorem stabilizationStep_rename (c : Chart) (hc : NamesIn S c) {c' : Chart} (hr : IsRen ρ ι c c') (memory : List (Name × List Name))
    (hmk : ∀ p ∈ memory, S p.1) (hmv : ∀ p ∈ memory, ∀ x ∈ p.2, S x) (cfg : List Name) (hcfg : ∀ x ∈ cfg, S x) :
    stabilizationStep c' (renameMemory ρ memory) (cfg.map ρ) =
      (stabilizationStep c memory cfg).map (Micro.rename ρ ι) := by
  simp only [stabilizationStep]
  have hleaf : ∀ x ∈ c.leafFor cfg, S x := fun x hx => hcfg x (leafFor_sub c cfg x hx)
  rw [leafFor_mapNames hρ c hc hr cfg hcfg,
    isort_map ρ c.leRevDepthName c'.leRevDepthName _
      (fun x hx y hy => leRevDepthName_mapNames hρ c hc hr x y (hleaf x hx) (hleaf y hy)),
    findSome?_map_comm ρ (Micro.rename ρ ι) (leafStep c memory) _ _
      (fun x hx => leafStep_rename hρ c hc hr memory hmk hmv x (hleaf x ((mem_isort _ _ x).1 hx)))]
  cases (isort c.leRevDepthName (c.leafFor cfg)).findSome? (leafStep c memory) with
  | some m => rfl
  | none =>
    simp only [Option.map_none]
    rw [isort_map ρ c.leDepthName c'.leDepthName _
        (fun x hx y hy => leDepthName_mapNames hρ c hc hr x y (hcfg x hx) (hcfg y hy)),
      findSome?_map_comm ρ (Micro.rename ρ ι) (completeStep c cfg) _ _
        (fun x hx => completeStep_rename hρ c hc hr cfg hcfg x (hcfg x ((mem_isort _ _ x).1 hx)))]

end

end Sismic
