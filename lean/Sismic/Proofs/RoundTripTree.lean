import Sismic.Proofs.RoundTrip
import Sismic.Proofs.WFCheck
/-!
# Sismic.Proofs.RoundTripTree — importing an exported document registers the original tree

`importLoop` (the work list of `import_from_dict`) run on `exportState c f root` collects exactly the
`StateDef`s of the exported subtree, each with its parent, and the transitions of each state (with a
fresh identity), in work-list order: a state, then the subtrees of its children, last child first.
-/
namespace Sismic

/-- the exported subtree of `n` can be read back: every state in it is there, carries its own name,
    `plain` code (stripped, non-empty), `plain` transitions, and the same holds below -/
def Covered (c : Chart) : Nat → Name → Prop
  | 0, _ => False
  | f+1, n => ∃ s, c.stateFor n = some s ∧ s.name = n ∧ s.plain c ∧ (∀ t ∈ c.transitionsFrom n, t.plain) ∧
      (s.kind.isComposite = true → ∀ ch ∈ c.childrenFor n, Covered c f ch)

/-- the states the import registers for the exported subtree of `n`, with their parents -/
def flatS (c : Chart) : Nat → Name → Option Name → List (StateDef × Option Name)
  | 0, _, _ => []
  | f+1, n, par =>
    match c.stateFor n with
    | none => []
    | some s => (s, par) ::
        (if s.kind.isComposite then (c.childrenFor n).reverse.flatMap (fun ch => flatS c f ch (some n)) else [])

/-- … and the transitions (identity reset: it is assigned when the transition is added) -/
def flatT (c : Chart) : Nat → Name → List Trans
  | 0, _ => []
  | f+1, n =>
    match c.stateFor n with
    | none => []
    | some s => (if s.kind.ownsTransitions then (c.transitionsFrom n).map (fun t => { t with id := 0 }) else []) ++
        (if s.kind.isComposite then (c.childrenFor n).reverse.flatMap (fun ch => flatT c f ch) else [])

theorem flatS_length_par (c : Chart) : ∀ (f : Nat) (n : Name) (p q : Option Name),
    (flatS c f n p).length = (flatS c f n q).length
  | 0, _, _, _ => rfl
  | f+1, n, p, q => by
    unfold flatS
    cases c.stateFor n with
    | none => rfl
    | some s => simp

section Export
variable (c : Chart) (f : Nat) (n : Name) (s : StateDef) (hs : c.stateFor n = some s)
include hs

theorem export_get_states :
    (exportState c (f+1) n).get? "states" =
      if s.kind == .compound then some (.list ((c.childrenFor n).map (exportState c f))) else none := by
  simp only [exportState, hs]
  cases hcond : (s.kind.ownsTransitions && !(c.transitionsFrom n).isEmpty) <;> cases hk : s.kind <;>
    simp [get_append, get_cons_ne, get_cons_same, get_single_ne, get_single_same, get_optField_same, get_optField_ne,
      get_exportContract_ne, get_nil] <;> simp_all [Kind.ownsTransitions, get_single_ne]

theorem export_get_parallel :
    (exportState c (f+1) n).get? "parallel states" =
      if s.kind == .orthogonal then some (.list ((c.childrenFor n).map (exportState c f))) else none := by
  simp only [exportState, hs]
  cases hcond : (s.kind.ownsTransitions && !(c.transitionsFrom n).isEmpty) <;> cases hk : s.kind <;>
    simp [get_append, get_cons_ne, get_cons_same, get_single_ne, get_single_same, get_optField_same, get_optField_ne,
      get_exportContract_ne, get_nil] <;> simp_all [Kind.ownsTransitions, get_single_ne]

theorem export_get_transitions :
    (exportState c (f+1) n).get? "transitions" =
      if s.kind.ownsTransitions && !(c.transitionsFrom n).isEmpty then
        some (.list ((c.transitionsFrom n).map exportTransition)) else none := by
  simp only [exportState, hs]
  cases hcond : (s.kind.ownsTransitions && !(c.transitionsFrom n).isEmpty) <;> cases hk : s.kind <;>
    simp [get_append, get_cons_ne, get_cons_same, get_single_ne, get_single_same, get_optField_same, get_optField_ne,
      get_exportContract_ne, get_nil] <;> simp_all [Kind.ownsTransitions, get_single_ne, get_single_same]

end Export

theorem importSubs_export (c : Chart) (f : Nat) (n : Name) (s : StateDef) (hs : c.stateFor n = some s) :
    importSubs (exportState c (f+1) n) s =
      .ok (if s.kind.isComposite then (c.childrenFor n).map (exportState c f) else []) := by
  unfold importSubs
  rw [export_get_states c f n s hs, export_get_parallel c f n s hs]
  cases hk : s.kind <;> simp [Kind.isComposite]

theorem importTds_export (c : Chart) (f : Nat) (n : Name) (s : StateDef) (hs : c.stateFor n = some s) :
    importTds (exportState c (f+1) n) =
      .ok (if s.kind.ownsTransitions then (c.transitionsFrom n).map exportTransition else []) := by
  unfold importTds
  rw [export_get_transitions c f n s hs]
  cases ho : s.kind.ownsTransitions
  · simp
  · cases he : (c.transitionsFrom n).isEmpty
    · simp
    · have : c.transitionsFrom n = [] := by simpa using he
      simp [this]

theorem mapM_importTransition_export (n : Name) : ∀ (ts : List Trans), (∀ t ∈ ts, t.plain ∧ t.source = n) →
    (ts.map exportTransition).mapM (importTransition n) = .ok (ts.map (fun t => { t with id := 0 }))
  | [], _ => rfl
  | t :: ts, h => by
    have ht := h t List.mem_cons_self
    have e := importTransition_export t ht.1
    have hsrc := ht.2
    have ih := mapM_importTransition_export n ts (fun x hx => h x (List.mem_cons_of_mem _ hx))
    rw [hsrc] at e
    simp only [List.map_cons, List.mapM_cons, e, ih, bind, Except.bind, pure, Except.pure, hsrc]

theorem mem_transitionsFrom (c : Chart) (n : Name) (t : Trans) (h : t ∈ c.transitionsFrom n) : t.source = n := by
  simp only [Chart.transitionsFrom, List.mem_filter, beq_iff_eq] at h
  exact h.2

/-- one turn of the work list on the exported state at the top -/
theorem importLoop_step (c : Chart) (f : Nat) (n : Name) (par : Option Name) (s : StateDef)
    (hs : c.stateFor n = some s) (hn : s.name = n) (hp : s.plain c) (ht : ∀ t ∈ c.transitionsFrom n, t.plain)
    (F : Nat) (todo : List (Data × Option Name)) (sts : List (StateDef × Option Name)) (ts : List Trans) :
    importLoop (F+1) (todo ++ [(exportState c (f+1) n, par)]) sts ts =
      importLoop F
        (todo ++ (if s.kind.isComposite then (c.childrenFor n).map (exportState c f) else []).map (fun d => (d, some n)))
        (sts ++ [(s, par)])
        (ts ++ (if s.kind.ownsTransitions then (c.transitionsFrom n).map (fun t => { t with id := 0 }) else [])) := by
  have h1 : (todo ++ [(exportState c (f+1) n, par)]).getLast? = some (exportState c (f+1) n, par) := by simp
  have h2 : (todo ++ [(exportState c (f+1) n, par)]).dropLast = todo := by simp
  have h3 := importState_export c f n s hs hn hp
  have h4 := importSubs_export c f n s hs
  have h5 := importTds_export c f n s hs
  have h6 : (if s.kind.ownsTransitions then (c.transitionsFrom n).map exportTransition else []).mapM (importTransition n) =
      .ok (if s.kind.ownsTransitions then (c.transitionsFrom n).map (fun t => { t with id := 0 }) else []) := by
    cases s.kind.ownsTransitions
    · rfl
    · exact mapM_importTransition_export n _ (fun t h => ⟨ht t h, mem_transitionsFrom c n t h⟩)
  rw [importLoop]
  simp only [h1, h2, h3, h4, h5, h6, hn]

/-- number of turns the work list needs for the exported subtree -/
def sizeS (c : Chart) (f : Nat) (n : Name) : Nat := (flatS c f n none).length

theorem flatS_length (c : Chart) (f : Nat) (n : Name) (p : Option Name) : (flatS c f n p).length = sizeS c f n :=
  flatS_length_par c f n p none

/-- **The work list reads an exported subtree back**: with the exported state of `n` on top of the
    work list, `sizeS` turns later exactly that entry is gone and the states / transitions of the
    subtree have been collected. -/
theorem importLoop_subtree (c : Chart) : ∀ (f : Nat) (n : Name) (par : Option Name), Covered c f n →
    ∀ (F : Nat) (todo : List (Data × Option Name)) (sts : List (StateDef × Option Name)) (ts : List Trans),
      importLoop (F + sizeS c f n) (todo ++ [(exportState c f n, par)]) sts ts =
        importLoop F todo (sts ++ flatS c f n par) (ts ++ flatT c f n)
  | 0, _, _, h => by cases h
  | f+1, n, par, h => by
    obtain ⟨s, hs, hn, hp, ht, hkids⟩ := h
    intro F todo sts ts
    -- the children, last first
    have children : ∀ (R : List Name), (∀ ch ∈ R, Covered c f ch) →
        ∀ (F : Nat) (todo : List (Data × Option Name)) (sts : List (StateDef × Option Name)) (ts : List Trans),
          importLoop (F + (R.map (sizeS c f)).sum) (todo ++ (R.reverse.map (exportState c f)).map (fun d => (d, some n))) sts ts =
            importLoop F todo (sts ++ R.flatMap (fun ch => flatS c f ch (some n))) (ts ++ R.flatMap (fun ch => flatT c f ch)) := by
      intro R
      induction R with
      | nil => intro _ F todo sts ts; simp
      | cons x R ih =>
        intro hR F todo sts ts
        have hx := hR x List.mem_cons_self
        have hR' : ∀ ch ∈ R, Covered c f ch := fun ch h => hR ch (List.mem_cons_of_mem _ h)
        simp only [List.reverse_cons, List.map_append, List.map_cons, List.map_nil, List.sum_cons, List.flatMap_cons]
        rw [← List.append_assoc]
        have e : F + (sizeS c f x + (R.map (sizeS c f)).sum) = (F + (R.map (sizeS c f)).sum) + sizeS c f x := by omega
        rw [e, importLoop_subtree c f x (some n) hx, ih hR']
        simp only [List.append_assoc]
    have hsz : sizeS c (f+1) n = 1 + (if s.kind.isComposite then ((c.childrenFor n).reverse.map (sizeS c f)).sum else 0) := by
      have hfl : flatS c (f+1) n none = (s, none) ::
          (if s.kind.isComposite then (c.childrenFor n).reverse.flatMap (fun ch => flatS c f ch (some n)) else []) := by
        simp only [flatS, hs]
      unfold sizeS
      rw [hfl]
      cases s.kind.isComposite
      · simp
      · simp only [if_true, List.length_cons, List.length_flatMap, flatS_length]
        omega
    rw [hsz]
    have e1 : F + (1 + (if s.kind.isComposite then ((c.childrenFor n).reverse.map (sizeS c f)).sum else 0)) =
        (F + (if s.kind.isComposite then ((c.childrenFor n).reverse.map (sizeS c f)).sum else 0)) + 1 := by omega
    rw [e1, importLoop_step c f n par s hs hn hp ht]
    have hfl : flatS c (f+1) n par = (s, par) ::
        (if s.kind.isComposite then (c.childrenFor n).reverse.flatMap (fun ch => flatS c f ch (some n)) else []) := by
      simp only [flatS, hs]
    have hft : flatT c (f+1) n =
        (if s.kind.ownsTransitions then (c.transitionsFrom n).map (fun t => { t with id := 0 }) else []) ++
        (if s.kind.isComposite then (c.childrenFor n).reverse.flatMap (fun ch => flatT c f ch) else []) := by
      simp only [flatT, hs]
    rw [hfl, hft]
    cases hc : s.kind.isComposite
    · simp
    · simp only [if_true]
      have := children (c.childrenFor n).reverse
        (fun ch h => hkids hc ch (List.mem_reverse.mp h)) F todo (sts ++ [(s, par)])
        (ts ++ (if s.kind.ownsTransitions then (c.transitionsFrom n).map (fun t => { t with id := 0 }) else []))
      rw [List.reverse_reverse] at this
      rw [this]
      simp only [List.append_assoc, List.singleton_append]

/-- **Importing the exported document registers the original tree**: `import_from_dict` applied to
    `export_to_dict(c)` hands to `add_state` / `add_transition` exactly the `StateDef`s of `c`
    reachable from the root — each with its parent — and the transitions of each of them (with a fresh
    identity), in work-list order; name, description and preamble are those of `c`. -/
theorem importDict_export (c : Chart) (r : Name) (hr : c.root = some r)
    (hcov : Covered c (c.states.length + 1) r)
    (hdesc : c.description ≠ some "") (hpre : ∀ p, c.preamble = some p → p = mkCode p.src ∧ p.src ≠ "")
    (fuel : Nat) (hfuel : sizeS c (c.states.length + 1) r < fuel) :
    importDict fuel (exportDict c) =
      buildChart { name := c.name, description := c.description, preamble := c.preamble, children := [(none, [])] }
        (flatS c (c.states.length + 1) r none) (flatT c (c.states.length + 1) r) := by
  obtain ⟨F, rfl⟩ : ∃ F, fuel = (F + 1) + sizeS c (c.states.length + 1) r := ⟨fuel - sizeS c (c.states.length + 1) r - 1, by omega⟩
  have hloop := importLoop_subtree c (c.states.length + 1) r none hcov (F + 1) [] [] []
  simp only [List.nil_append] at hloop
  have hend : importLoop (F + 1) [] (flatS c (c.states.length + 1) r none) (flatT c (c.states.length + 1) r) =
      .ok (flatS c (c.states.length + 1) r none, flatT c (c.states.length + 1) r) := by
    rw [importLoop]; rfl
  rw [hend] at hloop
  have gd : docString (Data.map ([("name", Data.str c.name)] ++ optField "description" c.description ++
      optField "preamble" (c.preamble.map (·.src)) ++
      [("root state", exportState c (c.states.length + 1) r)])) "description" = c.description := by
    unfold docString
    cases hd : c.description with
    | none => simp [get_append, get_cons_ne, get_single_ne, get_optField_same, get_optField_ne, get_nil]
    | some d =>
      have : d ≠ "" := fun e => hdesc (by rw [hd, e])
      have hf : Option.filter (fun x => x != "") (some d) = some d := by simp [Option.filter, this]
      simp [get_append, get_cons_ne, get_optField_same, get_optField_ne, get_nil, hf]
  have gp : (docString (Data.map ([("name", Data.str c.name)] ++ optField "description" c.description ++
      optField "preamble" (c.preamble.map (·.src)) ++
      [("root state", exportState c (c.states.length + 1) r)])) "preamble").map mkCode = c.preamble := by
    unfold docString
    cases hp : c.preamble with
    | none => simp [get_append, get_cons_ne, get_single_ne, get_optField_same, get_optField_ne, get_nil]
    | some p =>
      obtain ⟨e1, e2⟩ := hpre p hp
      have hf : Option.filter (fun x => x != "") (some p.src) = some p.src := by simp [Option.filter, e2]
      simp [get_append, get_cons_ne, get_optField_same, get_optField_ne, get_nil, hf]
      exact e1.symm
  unfold importDict exportDict
  simp only [hr, Option.getD_some]
  have g0 : (Data.map [("statechart", Data.map ([("name", Data.str c.name)] ++ optField "description" c.description ++
      optField "preamble" (c.preamble.map (·.src)) ++
      [("root state", exportState c (c.states.length + 1) r)]))]).get? "statechart" =
      some (Data.map ([("name", Data.str c.name)] ++ optField "description" c.description ++
      optField "preamble" (c.preamble.map (·.src)) ++
      [("root state", exportState c (c.states.length + 1) r)])) := get_single_same _ _
  rw [g0]
  have g1 : (Data.map ([("name", Data.str c.name)] ++ optField "description" c.description ++
      optField "preamble" (c.preamble.map (·.src)) ++
      [("root state", exportState c (c.states.length + 1) r)])).get? "name" = some (.str c.name) := by
    simp [get_append, get_cons_same]
  have g2 : (Data.map ([("name", Data.str c.name)] ++ optField "description" c.description ++
      optField "preamble" (c.preamble.map (·.src)) ++
      [("root state", exportState c (c.states.length + 1) r)])).get? "root state" =
      some (exportState c (c.states.length + 1) r) := by
    simp [get_append, get_cons_ne, get_single_ne, get_single_same, get_optField_ne, get_nil]
  simp only [g1, g2, hloop, gd, gp]

/-! ### what is registered is what the statechart contains -/

theorem flatS_succ (c : Chart) (f : Nat) (n : Name) (par : Option Name) (s : StateDef) (hs : c.stateFor n = some s) :
    flatS c (f+1) n par = (s, par) ::
      (if s.kind.isComposite then (c.childrenFor n).reverse.flatMap (fun ch => flatS c f ch (some n)) else []) := by
  simp only [flatS, hs]

theorem flatT_succ (c : Chart) (f : Nat) (n : Name) (s : StateDef) (hs : c.stateFor n = some s) :
    flatT c (f+1) n =
      (if s.kind.ownsTransitions then (c.transitionsFrom n).map (fun t => { t with id := 0 }) else []) ++
      (if s.kind.isComposite then (c.childrenFor n).reverse.flatMap (fun ch => flatT c f ch) else []) := by
  simp only [flatT, hs]

/-- **Nothing foreign is registered**: a registered pair is the root of the subtree with the given
    parent, or a state of `c` together with a state in whose children list it stands. -/
theorem flatS_sound (c : Chart) :
    ∀ (f : Nat) (n : Name) (par : Option Name) (x : StateDef × Option Name), x ∈ flatS c f n par →
      (c.stateFor n = some x.1 ∧ x.2 = par) ∨
      (∃ m q, c.stateFor m = some x.1 ∧ x.2 = some q ∧ m ∈ c.childrenFor q)
  | 0, _, _, _, h => by cases h
  | f+1, n, par, x, h => by
    cases hs : c.stateFor n with
    | none => simp [flatS, hs] at h
    | some s =>
      rw [flatS_succ c f n par s hs] at h
      rcases List.mem_cons.mp h with e | e
      · subst e; exact Or.inl ⟨rfl, rfl⟩
      · cases hc : s.kind.isComposite with
        | false => simp [hc] at e
        | true =>
          simp only [hc, if_true, List.mem_flatMap, List.mem_reverse] at e
          obtain ⟨ch, hch', hx⟩ := e
          rcases flatS_sound c f ch (some n) x hx with ⟨h1, h2⟩ | h2
          · exact Or.inr ⟨ch, n, h1, h2, hch'⟩
          · exact Or.inr h2

theorem flatT_sound (c : Chart) :
    ∀ (f : Nat) (n : Name) (t' : Trans), t' ∈ flatT c f n → ∃ t ∈ c.transitions, t' = { t with id := 0 }
  | 0, _, _, h => by cases h
  | f+1, n, t', h => by
    cases hs : c.stateFor n with
    | none => simp [flatT, hs] at h
    | some s =>
      rw [flatT_succ c f n s hs] at h
      rcases List.mem_append.mp h with e | e
      · cases ho : s.kind.ownsTransitions with
        | false => simp [ho] at e
        | true =>
          simp only [ho, if_true, List.mem_map] at e
          obtain ⟨t, ht, rfl⟩ := e
          exact ⟨t, (List.mem_filter.mp ht).1, rfl⟩
      · cases hc : s.kind.isComposite with
        | false => simp [hc] at e
        | true =>
          simp only [hc, if_true, List.mem_flatMap, List.mem_reverse] at e
          obtain ⟨ch, _, hx⟩ := e
          exact flatT_sound c f ch t' hx

/-- **Nothing is forgotten**: in a well-formed statechart every state is registered, with the parent
    `c` records for it, and every transition is registered (identity reset). -/
theorem flat_complete (c : Chart) (hw : WFChart c) (r : Name) (hr : c.root = some r) (F : Nat) (hcov : Covered c F r) :
    (∀ m sd, c.stateFor m = some sd → (sd, c.parentFor m) ∈ flatS c F r none) ∧
    (∀ t ∈ c.transitions, { t with id := 0 } ∈ flatT c F r) := by
  obtain ⟨rk, hrk, _⟩ := hw.tree.rank
  have key : ∀ k m, rk m = k → c.hasState m = true →
      ∃ g, Covered c (g+1) m ∧ (∀ x ∈ flatS c (g+1) m (c.parentFor m), x ∈ flatS c F r none) ∧
        (∀ x ∈ flatT c (g+1) m, x ∈ flatT c F r) := by
    intro k
    induction k using Nat.strongRecOn with
    | _ k ih =>
      intro m hk hm
      by_cases hroot : c.root = some m
      · have e : m = r := by rw [hr] at hroot; exact (Option.some.inj hroot).symm
        subst e
        cases F with
        | zero => cases hcov
        | succ g =>
          obtain ⟨r', h1, h2, _⟩ := hw.root
          have : r' = m := by rw [hr] at h1; exact (Option.some.inj h1).symm
          subst this
          exact ⟨g, hcov, by rw [h2]; exact fun x hx => hx, fun x hx => hx⟩
      · obtain ⟨q, hq⟩ := hw.nonroot m hm hroot
        have hlt : rk q < rk m := hrk m q hq
        have hqs := (hw.parentState m q hq).2
        obtain ⟨g, covq, subS, subT⟩ := ih (rk q) (hk ▸ hlt) q rfl hqs
        obtain ⟨sq, hsq, _, _, _, hkids⟩ := covq
        have hcomp : sq.kind.isComposite = true := by
          have := hw.composite m q hq
          simp only [Chart.kindOf, hsq, Option.map_some, Option.some.injEq] at this
          rcases this with e | e <;> rw [e] <;> rfl
        have hmem : m ∈ c.childrenFor q := (hw.children q m).mpr hq
        have covm := hkids hcomp m hmem
        cases g with
        | zero => cases covm
        | succ g' =>
          refine ⟨g', covm, ?_, ?_⟩
          · intro x hx
            apply subS
            rw [flatS_succ c (g'+1) q _ sq hsq]
            refine List.mem_cons_of_mem _ ?_
            simp only [hcomp, if_true, List.mem_flatMap, List.mem_reverse]
            exact ⟨m, hmem, by rw [hq] at hx; exact hx⟩
          · intro x hx
            apply subT
            rw [flatT_succ c (g'+1) q sq hsq]
            refine List.mem_append_right _ ?_
            simp only [hcomp, if_true, List.mem_flatMap, List.mem_reverse]
            exact ⟨m, hmem, hx⟩
  constructor
  · intro m sd hsd
    have hm : c.hasState m = true := by simp [Chart.hasState, hsd]
    obtain ⟨g, _, subS, _⟩ := key (rk m) m rfl hm
    apply subS
    rw [flatS_succ c g m _ sd hsd]
    exact List.mem_cons_self
  · intro t ht
    obtain ⟨hsrc, _⟩ := hw.transitions t ht
    obtain ⟨g, _, _, subT⟩ := key (rk t.source) t.source rfl hsrc
    apply subT
    obtain ⟨sd, hsd⟩ : ∃ sd, c.stateFor t.source = some sd := by
      simpa [Chart.hasState, Option.isSome_iff_exists] using hsrc
    rw [flatT_succ c g t.source sd hsd]
    refine List.mem_append_left _ ?_
    have hown : sd.kind.ownsTransitions = true := hw.sourceKind t ht sd.kind (by simp [Chart.kindOf, hsd])
    simp only [hown, if_true, List.mem_map]
    exact ⟨t, by simp [Chart.transitionsFrom, ht], rfl⟩

end Sismic
