import Sismic.Proofs.Edit
/-!
# Sismic.Proofs.EditInv — every successful edit keeps the transitions anchored (`TransOK`)
-/
namespace Sismic
namespace Chart

/-- what `TransOK` needs to know of the states: which names exist and whether they may own transitions -/
def ownsAt (c : Chart) (n : Name) : Bool :=
  match c.stateFor n with
  | some s => s.kind.ownsTransitions
  | none => false

theorem transOK_iff (c : Chart) :
    c.TransOK ↔ ∀ t ∈ c.transitions, c.ownsAt t.source = true ∧ ∀ tg, t.target = some tg → c.hasState tg = true := by
  unfold TransOK ownsAt
  constructor
  · intro h t ht
    obtain ⟨⟨s, hs, ho⟩, h2⟩ := h t ht
    exact ⟨by rw [hs]; exact ho, h2⟩
  · intro h t ht
    obtain ⟨h1, h2⟩ := h t ht
    refine ⟨?_, h2⟩
    cases hs : c.stateFor t.source with
    | none => rw [hs] at h1; cases h1
    | some s => rw [hs] at h1; exact ⟨s, rfl, h1⟩

theorem find?_map_name (f : StateDef → StateDef) (hf : ∀ s, (f s).name = s.name) (n : Name) :
    ∀ l : List StateDef, (l.map f).find? (fun s => s.name == n) = (l.find? (fun s => s.name == n)).map f
  | [] => rfl
  | s :: l => by
    simp only [List.map_cons, List.find?_cons, hf]
    split
    · rfl
    · exact find?_map_name f hf n l

theorem find?_filter_ne (n m : Name) (hne : n ≠ m) :
    ∀ l : List StateDef, (l.filter (fun s => s.name != m)).find? (fun s => s.name == n) = l.find? (fun s => s.name == n)
  | [] => rfl
  | s :: l => by
    by_cases hs : s.name = m
    · have h1 : (s.name != m) = false := by simp [hs]
      have h2 : (s.name == n) = false := by simp [hs, Ne.symm hne]
      simp only [List.filter_cons, h1, Bool.false_eq_true, if_false, List.find?_cons, h2]
      exact find?_filter_ne n m hne l
    · have h1 : (s.name != m) = true := by simp [hs]
      simp only [List.filter_cons, h1, if_true, List.find?_cons]
      split
      · rfl
      · exact find?_filter_ne n m hne l

/-- replacing the states by states of the same names and kinds keeps `ownsAt` and `hasState` -/
theorem owns_mapStates (c : Chart) (f : StateDef → StateDef) (hn : ∀ s, (f s).name = s.name)
    (hk : ∀ s, (f s).kind = s.kind) (n : Name) :
    (c.mapStates f).ownsAt n = c.ownsAt n ∧ (c.mapStates f).hasState n = c.hasState n := by
  simp only [ownsAt, hasState, stateFor, mapStates, find?_map_name f hn]
  cases c.states.find? (fun s => s.name == n) with
  | none => exact ⟨rfl, rfl⟩
  | some s => simp [hk]

/-- `ownsAt` and `hasState` only depend on the names and kinds of the states, position by position -/
theorem find?_kind_congr (n : Name) : ∀ (l l' : List StateDef),
    l'.map (·.name) = l.map (·.name) → l'.map (·.kind) = l.map (·.kind) →
    (l'.find? (fun s => s.name == n)).map (·.kind) = (l.find? (fun s => s.name == n)).map (·.kind)
  | [], [], _, _ => rfl
  | [], _ :: _, h, _ => by simp at h
  | _ :: _, [], h, _ => by simp at h
  | s :: l, s' :: l', h1, h2 => by
    simp only [List.map_cons, List.cons.injEq] at h1 h2
    simp only [List.find?_cons, h1.1]
    split
    · simp [h2.1]
    · exact find?_kind_congr n l l' h1.2 h2.2

theorem owns_congr (c c' : Chart) (h1 : c'.states.map (·.name) = c.states.map (·.name))
    (h2 : c'.states.map (·.kind) = c.states.map (·.kind)) (n : Name) :
    c'.ownsAt n = c.ownsAt n ∧ c'.hasState n = c.hasState n := by
  have := find?_kind_congr n c.states c'.states h1 h2
  simp only [ownsAt, hasState, stateFor]
  cases hs : c.states.find? (fun s => s.name == n) with
  | none =>
    rw [hs] at this
    cases hs' : c'.states.find? (fun s => s.name == n) with
    | none => exact ⟨rfl, rfl⟩
    | some s' => rw [hs'] at this; simp at this
  | some s =>
    rw [hs] at this
    cases hs' : c'.states.find? (fun s => s.name == n) with
    | none => rw [hs'] at this; simp at this
    | some s' =>
      rw [hs'] at this
      simp only [Option.map_some, Option.some.injEq] at this
      simp [this]

theorem moveState_transOK (c : Chart) (a b : Name) (hc : c.TransOK) (h : (c.moveState a b).1 = .ok ()) :
    (c.moveState a b).2.TransOK := by
  obtain ⟨ht, hn, hk⟩ := moveState_effect c a b h
  rw [transOK_iff] at hc ⊢
  intro t htt
  rw [ht] at htt
  have := hc t htt
  have key := owns_congr c (c.moveState a b).2 hn hk
  exact ⟨by rw [(key t.source).1]; exact this.1, fun tg htg => by rw [(key tg).2]; exact this.2 tg htg⟩

end Chart
end Sismic

namespace Sismic
namespace Chart

theorem rotateTransition_transOK (c : Chart) (i : Option Nat) (src : Option Name) (tgt : Option (Option Name))
    (hc : c.TransOK) (h : (c.rotateTransition i src tgt).1 = .ok ()) :
    (c.rotateTransition i src tgt).2.TransOK := by
  rw [transOK_iff] at hc ⊢
  unfold rotateTransition at h ⊢
  by_cases h1 : (src.isNone && tgt.isNone) = true
  · simp [h1] at h
  simp only [h1, Bool.false_eq_true, if_false] at h ⊢
  cases h2 : i.bind (fun i => c.transitions[i]?) with
  | none => simp [h2] at h
  | some t0 =>
    simp only [h2] at h ⊢
    by_cases h3 : rotSrcErr c src = true
    · simp [h3] at h
    simp only [h3, Bool.false_eq_true, if_false] at h ⊢
    by_cases h4 : rotTgtErr c tgt = true
    · simp [h4] at h
    simp only [h4, Bool.false_eq_true, if_false] at ⊢
    intro u hu
    simp only [List.mem_mapIdx] at hu
    obtain ⟨j, hj, rfl⟩ := hu
    have hold := hc (c.transitions[j]) (List.getElem_mem hj)
    show ownsAt c _ = true ∧ ∀ tg, _ = some tg → c.hasState tg = true
    split
    · constructor
      · cases src with
        | none => cases tgt <;> exact hold.1
        | some s =>
          have : c.ownsAt s = true := by
            simp only [ownsAt]
            simp only [rotSrcErr] at h3
            cases hs : c.stateFor s with
            | none => simp [hs] at h3
            | some st => simpa [hs] using h3
          cases tgt <;> exact this
      · intro tg' htg'
        cases tgt with
        | none => cases src <;> exact hold.2 tg' htg'
        | some tg =>
          cases tg with
          | none => cases src <;> simp [rotApply] at htg'
          | some tgn =>
            have : c.hasState tgn = true := by simpa [rotTgtErr] using h4
            cases src <;> (simp [rotApply] at htg'; rw [← htg']; exact this)
    · exact hold

end Chart
end Sismic

namespace Sismic
namespace Chart

/-- the clean-up `remove_state` applies to the other states keeps their names and kinds -/
def unref (name : Name) (s : StateDef) : StateDef :=
  if s.kind == .compound && s.initial == some name then { s with initial := none }
  else if s.kind.isHistory && s.memory == some name then { s with memory := none }
  else s

theorem unref_name (name : Name) (s : StateDef) : (unref name s).name = s.name := by
  unfold unref; split
  · rfl
  · split <;> rfl

theorem unref_kind (name : Name) (s : StateDef) : (unref name s).kind = s.kind := by
  unfold unref; split
  · rfl
  · split <;> rfl

theorem removeLeaf_states (c : Chart) (name : Name) :
    (c.removeLeaf name).states = (c.states.map (unref name)).filter (fun s => s.name != name) ∧
    (c.removeLeaf name).transitions = c.transitions.filter (fun t => !(t.source == name || t.target == some name)) := by
  exact ⟨rfl, rfl⟩

theorem removeLeaf_transOK (c : Chart) (name : Name) (hc : c.TransOK) : (c.removeLeaf name).TransOK := by
  rw [transOK_iff] at hc ⊢
  obtain ⟨hs, ht⟩ := removeLeaf_states c name
  have look : ∀ n, n ≠ name → (c.removeLeaf name).ownsAt n = c.ownsAt n ∧ (c.removeLeaf name).hasState n = c.hasState n := by
    intro n hn
    simp only [ownsAt, hasState, stateFor, hs, find?_filter_ne n name hn,
      find?_map_name (unref name) (unref_name name)]
    cases c.states.find? (fun s => s.name == n) with
    | none => exact ⟨rfl, rfl⟩
    | some s => simp [unref_kind]
  intro t htt
  rw [ht, List.mem_filter] at htt
  obtain ⟨hin, hcond⟩ := htt
  simp only [Bool.not_eq_true', Bool.or_eq_false_iff, beq_eq_false_iff_ne, ne_eq] at hcond
  have := hc t hin
  refine ⟨by rw [(look t.source hcond.1).1]; exact this.1, ?_⟩
  intro tg htg
  have hne : tg ≠ name := fun e => hcond.2 (by rw [htg, e])
  rw [(look tg hne).2]
  exact this.2 tg htg

theorem removeStateF_transOK : ∀ (f : Nat) (c : Chart) (n : Name), c.TransOK →
    (removeStateF f c n).1 = .ok () → (removeStateF f c n).2.TransOK
  | 0, c, n, _, h => by simp [removeStateF] at h
  | f+1, c, n, hc, h => by
    unfold removeStateF at h ⊢
    split at h
    · exact absurd h (by simp)
    next hhas =>
    simp only [hhas, Bool.false_eq_true, if_false] at ⊢
    have hgo : ∀ (l : List Name) (c0 : Chart), c0.TransOK →
        (removeStateF.go f c0 l).1 = .ok () → (removeStateF.go f c0 l).2.TransOK := by
      intro l
      induction l with
      | nil => intro c0 h0 _; unfold removeStateF.go; exact h0
      | cons ch rest ih =>
        intro c0 h0 hh
        unfold removeStateF.go at hh ⊢
        obtain ⟨res, c1, hx⟩ : ∃ res c1, removeStateF f c0 ch = (res, c1) := ⟨_, _, rfl⟩
        simp only [hx] at hh ⊢
        cases res with
        | error e => exact absurd hh (by simp)
        | ok u =>
          have h1 := removeStateF_transOK f c0 ch h0 (by rw [hx])
          rw [hx] at h1
          exact ih c1 h1 hh
    obtain ⟨res, c1, hx⟩ : ∃ res c1, removeStateF.go f c (c.childrenFor n) = (res, c1) := ⟨_, _, rfl⟩
    simp only [hx] at h ⊢
    cases res with
    | error e => exact absurd h (by simp)
    | ok u =>
      have h1 := hgo (c.childrenFor n) c hc (by rw [hx])
      rw [hx] at h1
      exact removeLeaf_transOK c1 n h1

theorem removeState_transOK (c : Chart) (n : Name) (hc : c.TransOK) (h : (c.removeState n).1 = .ok ()) :
    (c.removeState n).2.TransOK :=
  removeStateF_transOK _ c n hc h

end Chart
end Sismic

namespace Sismic
namespace Chart

/-- the fix-up `rename_state` applies to the references of the other states -/
def reref (old new : Name) (s : StateDef) : StateDef :=
  let s1 := if s.kind == .compound && s.initial == some old then { s with initial := some new } else s
  if s1.kind.isHistory && s1.memory == some old then { s1 with memory := some new } else s1

theorem reref_name (old new : Name) (s : StateDef) : (reref old new s).name = s.name := by
  unfold reref; simp only; split <;> split <;> rfl

theorem reref_kind (old new : Name) (s : StateDef) : (reref old new s).kind = s.kind := by
  unfold reref; simp only; split <;> split <;> rfl

theorem renameState_states (c : Chart) (a b : Name) (h : (c.renameState a b).1 = .ok ()) (hne : a ≠ b) :
    c.hasState b = false ∧ c.hasState a = true ∧
    (c.renameState a b).2.states =
      (c.states.map (reref a b)).filter (fun s => s.name != a) ++
        (((c.states.map (reref a b)).find? (fun s => s.name == a)).map (fun s => { s with name := b })).toList := by
  unfold renameState at h ⊢
  have : (a == b) = false := by simp [hne]
  simp only [this, Bool.false_eq_true, if_false] at h ⊢
  split
  · next h1 => simp [h1] at h
  · next h1 =>
    split
    · next h2 => simp [h1, h2] at h
    · next h2 => exact ⟨by simpa using h1, by simpa using h2, rfl⟩

theorem renameState_transOK (c : Chart) (a b : Name) (hc : c.TransOK) (h : (c.renameState a b).1 = .ok ()) :
    (c.renameState a b).2.TransOK := by
  by_cases hne : a = b
  · subst hne; rw [rename_same_is_noop]; exact hc
  obtain ⟨hnb, hha, hst⟩ := renameState_states c a b h hne
  have htr := renameState_transitions c a b h hne
  rw [transOK_iff] at hc ⊢
  -- the lookups in the renamed chart
  have base : ∀ n, (c.states.map (reref a b)).find? (fun s => s.name == n) =
      (c.states.find? (fun s => s.name == n)).map (reref a b) := fun n => find?_map_name _ (reref_name a b) n _
  have look_other : ∀ n, n ≠ a → n ≠ b →
      (c.renameState a b).2.ownsAt n = c.ownsAt n ∧ (c.renameState a b).2.hasState n = c.hasState n := by
    intro n hna hnb'
    simp only [ownsAt, hasState, stateFor, hst, List.find?_append, find?_filter_ne n a hna, base]
    cases hf : c.states.find? (fun s => s.name == n) with
    | some s => simp [reref_kind]
    | none =>
      simp only [Option.map_none, Option.none_or]
      cases hfa : c.states.find? (fun s => s.name == a) with
      | none => simp
      | some sa =>
        have : (b == n) = false := by simp [Ne.symm hnb']
        simp [this]
  have look_new : (c.renameState a b).2.ownsAt b = c.ownsAt a ∧ (c.renameState a b).2.hasState b = true := by
    have hnob : c.states.find? (fun s => s.name == b) = none := by
      simpa [hasState, stateFor] using hnb
    obtain ⟨sa, hsa⟩ : ∃ sa, c.states.find? (fun s => s.name == a) = some sa := by
      simpa [hasState, stateFor, Option.isSome_iff_exists] using hha
    simp only [ownsAt, hasState, stateFor, hst, List.find?_append, find?_filter_ne b a (Ne.symm hne), base, hnob, hsa]
    simp [reref_kind]
  intro u hu
  rw [htr, List.mem_map] at hu
  obtain ⟨t, ht, rfl⟩ := hu
  have hold := hc t ht
  -- names of `c` are never `b`
  have notb_src : t.source ≠ b := by
    intro e
    have := hold.1
    simp only [ownsAt, e] at this
    have hnob : c.stateFor b = none := by simpa [hasState] using hnb
    rw [hnob] at this; cases this
  constructor
  · simp only [renameIn]
    by_cases e : t.source = a
    · simp only [e, beq_self_eq_true, if_true]
      rw [look_new.1, ← e]; exact hold.1
    · have : (t.source == a) = false := by simp [e]
      simp only [this, Bool.false_eq_true, if_false]
      rw [(look_other t.source e notb_src).1]; exact hold.1
  · intro tg htg
    cases htt : t.target with
    | none => rw [htt] at htg; simp at htg
    | some tg0 =>
      rw [htt] at htg
      simp only [Option.map_some, Option.some.injEq] at htg
      have h0 := hold.2 tg0 htt
      have notb : tg0 ≠ b := fun e => by rw [e, hnb] at h0; cases h0
      subst htg
      simp only [renameIn]
      by_cases e : tg0 = a
      · simp only [e, beq_self_eq_true, if_true]; exact look_new.2
      · have : (tg0 == a) = false := by simp [e]
        simp only [this, Bool.false_eq_true, if_false]
        rw [(look_other tg0 e notb).2]; exact h0

end Chart
end Sismic

namespace Sismic
namespace Chart

theorem addState_states (c : Chart) (s : StateDef) (p : Option Name) (h : (c.addState s p).1 = .ok ()) :
    c.hasState s.name = false ∧ (c.addState s p).2.states = c.states ++ [s] ∧
    (c.addState s p).2.transitions = c.transitions := by
  unfold addState at h ⊢
  split
  · next h1 => simp [h1] at h
  · next h1 =>
    refine ⟨by simpa using h1, ?_⟩
    simp only [h1, Bool.false_eq_true, if_false] at h
    split
    · split
      · next h2 => simp [h2] at h
      · next h2 =>
        split
        · next h3 => simp [h2, h3] at h
        · exact ⟨rfl, rfl⟩
    · split
      · next h2 => simp [h2] at h
      · next ps h2 =>
        split
        · next h3 => simp [h2, h3] at h
        · next h3 =>
          split
          · next h4 => simp [h2, h3, h4] at h
          · exact ⟨rfl, rfl⟩

theorem addState_transOK (c : Chart) (s : StateDef) (p : Option Name) (hc : c.TransOK)
    (h : (c.addState s p).1 = .ok ()) : (c.addState s p).2.TransOK := by
  obtain ⟨_, hst, htr⟩ := addState_states c s p h
  rw [transOK_iff] at hc ⊢
  have keep : ∀ n, c.hasState n = true →
      (c.addState s p).2.ownsAt n = c.ownsAt n ∧ (c.addState s p).2.hasState n = true := by
    intro n hn
    obtain ⟨sd, hsd⟩ : ∃ sd, c.states.find? (fun s => s.name == n) = some sd := by
      simpa [hasState, stateFor, Option.isSome_iff_exists] using hn
    simp [ownsAt, hasState, stateFor, hst, List.find?_append, hsd]
  intro t ht
  rw [htr] at ht
  have hold := hc t ht
  have hsrc : c.hasState t.source = true := by
    have := hold.1
    simp only [ownsAt] at this
    simp only [hasState]
    cases hf : c.stateFor t.source with
    | none => rw [hf] at this; cases this
    | some _ => rfl
  exact ⟨by rw [(keep _ hsrc).1]; exact hold.1, fun tg htg => (keep tg (hold.2 tg htg)).2⟩

/-- the editing operations of `Statechart` -/
inductive EditOp
  | addState (s : StateDef) (parent : Option Name)
  | addTransition (t : Trans)
  | removeTransition (t : Trans)
  | removeState (n : Name)
  | renameState (a b : Name)
  | moveState (a b : Name)
  | rotateTransition (i : Option Nat) (src : Option Name) (tgt : Option (Option Name))

def applyEdit (c : Chart) : EditOp → EditRes
  | .addState s p => c.addState s p
  | .addTransition t => c.addTransition t
  | .removeTransition t => c.removeTransition t
  | .removeState n => c.removeState n
  | .renameState a b => c.renameState a b
  | .moveState a b => c.moveState a b
  | .rotateTransition i s t => c.rotateTransition i s t

/-- a session of edits, as a client that catches `StatechartError` would run it: every operation is
    applied to whatever the previous one left -/
def applyEdits (c : Chart) : List EditOp → Chart
  | [] => c
  | op :: ops => applyEdits (applyEdit c op).2 ops

end Chart
end Sismic

namespace Sismic
namespace Chart

/-- also when `remove_state` raises half-way (it can, on a tree that is already broken), what it
    leaves has well-anchored transitions -/
theorem removeStateF_transOK_any : ∀ (f : Nat) (c : Chart) (n : Name), c.TransOK →
    (removeStateF f c n).2.TransOK
  | 0, c, n, hc => by simpa [removeStateF] using hc
  | f+1, c, n, hc => by
    unfold removeStateF
    split
    · exact hc
    have hgo : ∀ (l : List Name) (c0 : Chart), c0.TransOK → (removeStateF.go f c0 l).2.TransOK := by
      intro l
      induction l with
      | nil => intro c0 h0; unfold removeStateF.go; exact h0
      | cons ch rest ih =>
        intro c0 h0
        unfold removeStateF.go
        have h1 := removeStateF_transOK_any f c0 ch h0
        obtain ⟨res, c1, hx⟩ : ∃ res c1, removeStateF f c0 ch = (res, c1) := ⟨_, _, rfl⟩
        simp only [hx] at h1 ⊢
        cases res with
        | error e => exact h1
        | ok u => exact ih c1 h1
    have h1 := hgo (c.childrenFor n) c hc
    obtain ⟨res, c1, hx⟩ : ∃ res c1, removeStateF.go f c (c.childrenFor n) = (res, c1) := ⟨_, _, rfl⟩
    simp only [hx] at h1 ⊢
    cases res with
    | error e => exact h1
    | ok u => exact removeLeaf_transOK c1 n h1

theorem applyEdit_transOK (c : Chart) (op : EditOp) (hc : c.TransOK) : (c.applyEdit op).2.TransOK := by
  have atomic : ∀ (r : EditRes), (∀ e, r.1 = .error e → r.2 = c) → (r.1 = .ok () → r.2.TransOK) → r.2.TransOK := by
    intro r h1 h2
    cases hr : r.1 with
    | error e => rw [h1 e hr]; exact hc
    | ok u => exact h2 hr
  cases op with
  | addState s p => exact atomic _ (addState_atomic c s p) (addState_transOK c s p hc)
  | addTransition t => exact atomic _ (addTransition_atomic c t) (addTransition_transOK c t hc)
  | removeTransition t => exact atomic _ (removeTransition_atomic c t) (removeTransition_transOK c t hc)
  | removeState n => exact removeStateF_transOK_any _ c n hc
  | renameState a b => exact atomic _ (renameState_atomic c a b) (renameState_transOK c a b hc)
  | moveState a b => exact atomic _ (moveState_atomic c a b) (moveState_transOK c a b hc)
  | rotateTransition i s t => exact atomic _ (rotateTransition_atomic c i s t) (rotateTransition_transOK c i s t hc)

theorem applyEdits_transOK (ops : List EditOp) : ∀ (c : Chart), c.TransOK → (c.applyEdits ops).TransOK := by
  induction ops with
  | nil => intro c hc; exact hc
  | cons op ops ih => intro c hc; exact ih _ (applyEdit_transOK c op hc)

end Chart
end Sismic
