import Sismic.Proofs.LegalMulti
import Sismic.Proofs.C07
/-!
# Sismic.Proofs.ChartPerm — two statecharts that differ in declaration order only: every tree query
and every planning function gives the same answer (C07)
-/
namespace Sismic

/-- looking up a key in a list whose keys are unique does not depend on the order of the list -/
theorem find?_perm_unique {α κ : Type} [DecidableEq κ] (key : α → κ) {l l' : List α} (hp : l'.Perm l)
    (hn : (l.map key).Nodup) (k : κ) :
    l'.find? (fun x => key x == k) = l.find? (fun x => key x == k) := by
  have uniq : ∀ (m : List α), (m.map key).Nodup → ∀ x, m.find? (fun x => key x == k) = some x ↔ (x ∈ m ∧ key x = k) := by
    intro m
    induction m with
    | nil => intro _ x; simp
    | cons y ys ih =>
      intro hm x
      have hm' : key y ∉ ys.map key ∧ (ys.map key).Nodup := by
        rw [List.map_cons] at hm; exact List.nodup_cons.mp hm
      simp only [List.find?_cons]
      by_cases hy : key y = k
      · simp only [hy, beq_self_eq_true, Option.some.injEq, List.mem_cons]
        constructor
        · intro e; exact ⟨Or.inl e.symm, e ▸ hy⟩
        · rintro ⟨e | e, hk⟩
          · exact e.symm
          · exfalso
            exact hm'.1 (List.mem_map.mpr ⟨x, e, by rw [hk, hy]⟩)
      · have : (key y == k) = false := by simp [hy]
        simp only [this, List.mem_cons]
        rw [ih hm'.2 x]
        constructor
        · rintro ⟨h1, h2⟩; exact ⟨Or.inr h1, h2⟩
        · rintro ⟨h1 | h1, h2⟩
          · exact absurd (h1 ▸ h2) hy
          · exact ⟨h1, h2⟩
  have hn' : (l'.map key).Nodup := (hp.map key).nodup_iff.mpr hn
  cases h1 : l.find? (fun x => key x == k) with
  | some x =>
    rw [uniq l' hn' x]
    have := (uniq l hn x).mp h1
    exact ⟨hp.mem_iff.mpr this.1, this.2⟩
  | none =>
    cases h2 : l'.find? (fun x => key x == k) with
    | none => rfl
    | some x =>
      exfalso
      have := (uniq l' hn' x).mp h2
      have h3 := (uniq l hn x).mpr ⟨hp.mem_iff.mp this.1, this.2⟩
      rw [h1] at h3; cases h3

/-- `c'` is `c` with states and transitions declared (registered) in another order -/
structure ChartPerm (c c' : Chart) : Prop where
  states : c'.states.Perm c.states
  names : (c.states.map (·.name)).Nodup
  parent : c'.parent.Perm c.parent
  parentKeys : (c.parent.map (·.1)).Nodup
  oneRoot : ∀ e ∈ c.parent, ∀ e' ∈ c.parent, e.2 = none → e'.2 = none → e = e'
  children : ∀ n, (c'.childrenFor n).Perm (c.childrenFor n)
  transitions : c'.transitions.Perm c.transitions

namespace ChartPerm
variable {c c' : Chart} (h : ChartPerm c c')
include h

theorem stateFor (n : Name) : c'.stateFor n = c.stateFor n := by
  simp only [Chart.stateFor]
  exact find?_perm_unique (·.name) h.states h.names n

theorem hasState (n : Name) : c'.hasState n = c.hasState n := by simp [Chart.hasState, h.stateFor]
theorem kindOf (n : Name) : c'.kindOf n = c.kindOf n := by simp [Chart.kindOf, h.stateFor]

theorem parentFor (n : Name) : c'.parentFor n = c.parentFor n := by
  simp only [Chart.parentFor]
  rw [find?_perm_unique (·.1) h.parent h.parentKeys n]

theorem root : c'.root = c.root := by
  simp only [Chart.root]
  congr 1
  -- at most one entry without parent: the first one is the same in both lists
  cases h1 : c.parent.find? (fun p => p.2 == none) with
  | some x =>
    have hx := List.find?_some h1
    have hm := List.mem_of_find?_eq_some h1
    cases h2 : c'.parent.find? (fun p => p.2 == none) with
    | none =>
      exfalso
      have := List.find?_eq_none.mp h2 x (h.parent.mem_iff.mpr hm)
      exact this hx
    | some y =>
      have hy := List.find?_some h2
      have hm' := h.parent.mem_iff.mp (List.mem_of_find?_eq_some h2)
      rw [h.oneRoot x hm y hm' (by simpa using hx) (by simpa using hy)]
  | none =>
    cases h2 : c'.parent.find? (fun p => p.2 == none) with
    | none => rfl
    | some y =>
      exfalso
      have hy := List.find?_some h2
      have hm' := h.parent.mem_iff.mp (List.mem_of_find?_eq_some h2)
      exact List.find?_eq_none.mp h1 y hm' hy

theorem ancF (f : Nat) (s : Name) : c'.ancF f s = c.ancF f s := by
  induction f generalizing s with
  | zero => rfl
  | succ f ih => simp only [Chart.ancF, h.parentFor, ih]

theorem ancestors (s : Name) : c'.ancestors s = c.ancestors s := by
  simp [Chart.ancestors, h.ancF, h.states.length_eq]

theorem depth (s : Name) : c'.depth s = c.depth s := by simp [Chart.depth, h.ancestors]

theorem lca (a b : Name) : c'.lca a b = c.lca a b := by simp [Chart.lca, h.ancestors]

theorem lastBefore (s : Name) (l : Option Name) : Sismic.lastBefore c' s l = Sismic.lastBefore c s l := by
  simp [Sismic.lastBefore, h.ancestors]

theorem leDepthName : c'.leDepthName = c.leDepthName := by
  funext a b; simp [Chart.leDepthName, h.depth]

theorem leRevDepthName : c'.leRevDepthName = c.leRevDepthName := by
  funext a b; simp [Chart.leRevDepthName, h.depth]

theorem anc (a b : Name) : Anc c' a b ↔ Anc c a b := by
  constructor
  · intro x
    induction x with
    | base hp => exact Anc.base (by rw [← h.parentFor]; exact hp)
    | step hp _ ih => exact Anc.step (by rw [← h.parentFor]; exact hp) ih
  · intro x
    induction x with
    | base hp => exact Anc.base (by rw [h.parentFor]; exact hp)
    | step hp _ ih => exact Anc.step (by rw [h.parentFor]; exact hp) ih

theorem mem_children (n x : Name) : x ∈ c'.childrenFor n ↔ x ∈ c.childrenFor n := (h.children n).mem_iff

/-- well-formedness does not depend on the declaration order -/
theorem wf (hw : WFChart c) : WFChart c' where
  tree := ⟨by
    obtain ⟨r, h1, h2⟩ := hw.tree.rank
    exact ⟨r, fun s p hp => h1 s p (by rw [← h.parentFor]; exact hp), fun s => by rw [h.states.length_eq]; exact h2 s⟩⟩
  names := ((h.states.map (·.name)).nodup_iff).mpr hw.names
  root := by
    obtain ⟨r, h1, h2, h3⟩ := hw.root
    exact ⟨r, by rw [h.root]; exact h1, by rw [h.parentFor]; exact h2, by rw [h.hasState]; exact h3⟩
  parentState := fun s p hp => by
    rw [h.hasState, h.hasState]; exact hw.parentState s p (by rw [← h.parentFor]; exact hp)
  nonroot := fun s hs hr => by
    obtain ⟨p, hp⟩ := hw.nonroot s (by rw [← h.hasState]; exact hs) (by rw [← h.root]; exact hr)
    exact ⟨p, by rw [h.parentFor]; exact hp⟩
  children := fun p ch => by rw [h.mem_children, h.parentFor]; exact hw.children p ch
  childrenNodup := fun p => (h.children p).nodup_iff.mpr (hw.childrenNodup p)
  composite := fun s p hp => by
    rw [h.kindOf]; exact hw.composite s p (by rw [← h.parentFor]; exact hp)
  initial := fun z sd hsd hk => by
    obtain ⟨i, hi, hp⟩ := hw.initial z sd (by rw [← h.stateFor]; exact hsd) hk
    exact ⟨i, hi, by rw [h.parentFor]; exact hp⟩
  regions := fun z ch k hz hp hk =>
    hw.regions z ch k (by rw [← h.kindOf]; exact hz) (by rw [← h.parentFor]; exact hp) (by rw [← h.kindOf]; exact hk)
  history := fun hs sd hsd hk => by
    obtain ⟨p, m, h1, h2, h3, h4, h5⟩ := hw.history hs sd (by rw [← h.stateFor]; exact hsd) hk
    exact ⟨p, m, by rw [h.parentFor]; exact h1, by rw [h.kindOf]; exact h2, h3, by rw [h.parentFor]; exact h4, h5⟩
  transitions := fun t ht => by
    have := hw.transitions t (h.transitions.mem_iff.mp ht)
    exact ⟨by rw [h.hasState]; exact this.1, fun tg htg => by rw [h.hasState]; exact this.2 tg htg⟩
  sourceKind := fun t ht k hk =>
    hw.sourceKind t (h.transitions.mem_iff.mp ht) k (by rw [← h.kindOf]; exact hk)
  noCross := fun t ht tg l htg hl hk => by
    rw [h.lastBefore, h.lastBefore]
    exact hw.noCross t (h.transitions.mem_iff.mp ht) tg l htg (by rw [← h.lca]; exact hl) (by rw [← h.kindOf]; exact hk)

end ChartPerm
end Sismic

namespace Sismic

/-- breadth-first enumeration lists every descendant once -/
theorem descF_nodup (c : Chart) (hT : TreeOK c)
    (hch : ∀ p ch, ch ∈ c.childrenFor p ↔ c.parentFor ch = some p) (hnd : ∀ p, (c.childrenFor p).Nodup) :
    ∀ (f : Nat) (q : List Name), Unrel c q → (c.descF f q).Nodup := by
  intro f
  induction f with
  | zero => intro q _; simp [Chart.descF]
  | succ f ih =>
    intro q hun
    cases q with
    | nil => simp [Chart.descF]
    | cons n rest =>
      simp only [Chart.descF]
      have hp := List.pairwise_cons.mp hun
      -- the new frontier is unrelated again (as in `descF_complete`)
      have hun' : Unrel c (rest ++ c.childrenFor n) := by
        simp only [Unrel, List.pairwise_append]
        refine ⟨hp.2, ?_, ?_⟩
        · refine (List.pairwise_iff_forall_sublist.mpr ?_)
          intro a b hab
          have ha : a ∈ c.childrenFor n := hab.subset (by simp)
          have hb : b ∈ c.childrenFor n := hab.subset (by simp)
          have hne : a ≠ b := by
            intro e; subst e
            exact (List.pairwise_iff_forall_sublist.mp (hnd n)) hab rfl
          have pa := (hch n a).mp ha
          have pb := (hch n b).mp hb
          exact ⟨fun e => siblings_disjoint c hT pa pb hne e (Or.inl rfl),
            fun e => siblings_disjoint c hT pa pb hne (Or.inl rfl) e⟩
        · intro r hr k hk
          have pk := (hch n k).mp hk
          have hnr := hp.1 r hr
          constructor
          · rintro (e | e)
            · rw [e] at pk; exact hnr.1 (Or.inr (Anc.base pk))
            · rcases Anc.parent_cases' c e pk with e' | e'
              · exact hnr.2 (Or.inl e'.symm)
              · exact hnr.2 (Or.inr e')
          · rintro (e | e)
            · rw [← e] at pk; exact hnr.1 (Or.inr (Anc.base pk))
            · exact hnr.1 (Or.inr ((Anc.base pk).trans e))
      rw [List.nodup_append]
      refine ⟨hnd n, ih _ hun', ?_⟩
      intro a ha b hb e
      subst e
      -- `a` is a child of `n` and a proper descendant of something in the new frontier
      obtain ⟨m, hm, ham⟩ := descF_sound c (fun p ch hc => (hch p ch).mp hc) _ _ a hb
      have pa := (hch n a).mp ha
      rcases List.mem_append.mp hm with hm | hm
      · have hnr := hp.1 m hm
        rcases Anc.parent_cases' c ham pa with e' | e'
        · exact hnr.2 (Or.inl e'.symm)
        · exact hnr.2 (Or.inr e')
      · have pm := (hch n m).mp hm
        by_cases hma : m = a
        · rw [hma] at ham; exact Anc.irrefl' c hT ham
        · exact siblings_disjoint c hT pm pa hma (Or.inr ham) (Or.inl rfl)

theorem descendants_nodup (c : Chart) (hw : WFChart c) (s : Name) : (c.descendants s).Nodup :=
  descF_nodup c hw.tree hw.children hw.childrenNodup _ [s] (List.pairwise_singleton _ _)

namespace ChartPerm
variable {c c' : Chart} (h : ChartPerm c c')
include h

theorem descendants_perm (hw : WFChart c) (s : Name) (hs : c.hasState s = true) :
    (c'.descendants s).Perm (c.descendants s) := by
  rw [List.perm_ext_iff_of_nodup (descendants_nodup c' (h.wf hw) s) (descendants_nodup c hw s)]
  intro x
  rw [mem_descendants c' (h.wf hw) s (by rw [h.hasState]; exact hs), mem_descendants c hw s hs, h.anc]

end ChartPerm
end Sismic

namespace Sismic

theorem descF_nil (c : Chart) : ∀ f : Nat, c.descF f [] = []
  | 0 => rfl
  | _+1 => rfl

/-- `mem_descendants` without assuming that `s` is a state -/
theorem mem_descendants' (c : Chart) (h : WFChart c) (s x : Name) : x ∈ c.descendants s ↔ Anc c s x := by
  by_cases hs : c.hasState s = true
  · exact mem_descendants c h s hs x
  · have hnc : c.childrenFor s = [] := by
      apply List.eq_nil_iff_forall_not_mem.mpr
      intro ch hch
      exact hs (h.parentState ch s ((h.children s ch).mp hch)).2
    constructor
    · intro hx
      simp only [Chart.descendants, Chart.descF, hnc, List.nil_append, List.append_nil, descF_nil] at hx
      simp at hx
    · intro ha
      exfalso
      obtain ⟨k, hk, _⟩ := Anc.child_of ha
      exact hs (h.parentState k s hk).2

namespace ChartPerm
variable {c c' : Chart} (h : ChartPerm c c')
include h

theorem mem_descendants_iff (hw : WFChart c) (s x : Name) : x ∈ c'.descendants s ↔ x ∈ c.descendants s := by
  rw [mem_descendants' c' (h.wf hw), mem_descendants' c hw, h.anc]

theorem descendants_perm' (hw : WFChart c) (s : Name) : (c'.descendants s).Perm (c.descendants s) := by
  rw [List.perm_ext_iff_of_nodup (descendants_nodup c' (h.wf hw) s) (descendants_nodup c hw s)]
  exact h.mem_descendants_iff hw s

theorem leafFor (hw : WFChart c) (cfg : List Name) : c'.leafFor cfg = c.leafFor cfg := by
  simp only [Chart.leafFor]
  apply List.filter_congr
  intro n _
  congr 1
  rw [Bool.eq_iff_iff]
  simp only [List.any_eq_true]
  constructor
  · rintro ⟨d, hd, hc⟩; exact ⟨d, (h.mem_descendants_iff hw n d).mp hd, hc⟩
  · rintro ⟨d, hd, hc⟩; exact ⟨d, (h.mem_descendants_iff hw n d).mpr hd, hc⟩

theorem leafStep (mem : List (Name × List Name)) (leaf : Name) :
    Sismic.leafStep c' mem leaf = Sismic.leafStep c mem leaf := by
  simp only [Sismic.leafStep, h.stateFor, h.parentFor, h.root, h.leDepthName]
  have e1 : isort leName (c'.childrenFor leaf) = isort leName (c.childrenFor leaf) :=
    isort_canonical _ leName_total leName_trans _ _ (fun a b _ _ => leName_anti a b) (h.children leaf)
  have e2 : (c'.childrenFor leaf).isEmpty = (c.childrenFor leaf).isEmpty := by
    rw [Bool.eq_iff_iff]
    simp only [List.isEmpty_iff]
    constructor
    · intro e; have := (h.children leaf).symm; rw [e] at this; exact this.eq_nil
    · intro e; have := h.children leaf; rw [e] at this; exact this.eq_nil
  rw [e1, e2]

theorem completeStep (cfg : List Name) (n : Name) :
    Sismic.completeStep c' cfg n = Sismic.completeStep c cfg n := by
  simp only [Sismic.completeStep, h.kindOf]
  have e1 : isort leName ((c'.childrenFor n).filter (fun x => !cfg.contains x)) =
      isort leName ((c.childrenFor n).filter (fun x => !cfg.contains x)) :=
    isort_canonical _ leName_total leName_trans _ _ (fun a b _ _ => leName_anti a b) ((h.children n).filter _)
  rw [e1]

theorem stabilizationStep (hw : WFChart c) (mem : List (Name × List Name)) (cfg : List Name) :
    Sismic.stabilizationStep c' mem cfg = Sismic.stabilizationStep c mem cfg := by
  simp only [Sismic.stabilizationStep, h.leafFor hw, h.leRevDepthName, h.leDepthName]
  have e1 : Sismic.leafStep c' mem = Sismic.leafStep c mem := funext (h.leafStep mem)
  have e2 : Sismic.completeStep c' cfg = Sismic.completeStep c cfg := funext (h.completeStep cfg)
  rw [e1, e2]

theorem createStep (hw : WFChart c) (cfg : List Name) (ev : Option Event) (t : Trans) :
    Sismic.createStep c' cfg ev t = Sismic.createStep c cfg ev t := by
  simp only [Sismic.createStep, h.lca, h.lastBefore, h.ancestors, h.leRevDepthName]
  cases t.target with
  | none => rfl
  | some tg =>
    simp only
    have e1 : isort c.leRevDepthName (c'.descendants (Sismic.lastBefore c t.source (c.lca t.source tg))) =
        isort c.leRevDepthName (c.descendants (Sismic.lastBefore c t.source (c.lca t.source tg))) :=
      isort_canonical _ (leRevDepthName_total c) (leRevDepthName_trans c) _ _
        (fun a b _ _ => leRevDepthName_anti c a b) (h.descendants_perm' hw _)
    rw [e1]

theorem memoryOf (hw : WFChart c) (cfg0 : List Name) (s : StateDef) (ch : Name) :
    Sismic.memoryOf c' cfg0 s ch = Sismic.memoryOf c cfg0 s ch := by
  simp only [Sismic.memoryOf, h.kindOf]
  have e1 : cfg0.filter (fun x => (c'.descendants s.name).contains x) =
      cfg0.filter (fun x => (c.descendants s.name).contains x) := by
    apply List.filter_congr
    intro x _
    rw [Bool.eq_iff_iff]
    simp only [List.contains_iff_mem]
    exact h.mem_descendants_iff hw s.name x
  have e2 : cfg0.filter (fun x => (c'.childrenFor s.name).contains x) =
      cfg0.filter (fun x => (c.childrenFor s.name).contains x) := by
    apply List.filter_congr
    intro x _
    rw [Bool.eq_iff_iff]
    simp only [List.contains_iff_mem]
    exact h.mem_children s.name x
  rw [e1, e2]

end ChartPerm
end Sismic
