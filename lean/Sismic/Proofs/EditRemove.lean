import Sismic.Proofs.EditAcyclic
import Sismic.Proofs.LegalMulti
/-!
# Sismic.Proofs.EditRemove — what `remove_state` removes

On a consistent acyclic statechart a successful `remove_state(n)` removes exactly the subtree of
`n` — `n` and its descendants (`Sub c n`) — and exactly the transitions that touch it, and leaves
the parent of every other state alone.
-/
namespace Sismic
namespace Chart

open Classical in
/-- the transitions that survive the removal of the subtrees of `ks` -/
noncomputable def keepOutside (c : Chart) (ks : List Name) (t : Trans) : Bool :=
  decide ((∀ k ∈ ks, ¬ Sub c k t.source) ∧ ∀ tg, t.target = some tg → ∀ k ∈ ks, ¬ Sub c k tg)

/-- `c'` is `c` without the subtrees of `ks` -/
structure Without (c : Chart) (ks : List Name) (c' : Chart) : Prop where
  states : ∀ x, c'.hasState x = true ↔ (c.hasState x = true ∧ ∀ k ∈ ks, ¬ Sub c k x)
  parent : ∀ x, (∀ k ∈ ks, ¬ Sub c k x) → c'.parentFor x = c.parentFor x
  transitions : c'.transitions = c.transitions.filter (keepOutside c ks)

theorem Without.nil (c : Chart) : Without c [] c where
  states := by intro x; simp
  parent := by intro x _; rfl
  transitions := by
    symm
    rw [List.filter_eq_self]
    intro t _
    simp [keepOutside]

/-- what is gone has no parent any more -/
theorem Without.gone_parent {c c' : Chart} {ks : List Name} (h : Without c ks c') (ht' : Tidy c') (x : Name)
    (hx : ∃ k ∈ ks, Sub c k x) : c'.parentFor x = none := by
  apply parentFor_of_not_key
  intro hk
  have := (h.states x).1 (ht'.parentKeysStates x hk)
  obtain ⟨k, hk1, hk2⟩ := hx
  exact this.2 k hk1 hk2

/-- the subtree of a state outside what was removed is the same before and after -/
theorem Without.anc_iff {c c' : Chart} {ks : List Name} (h : Without c ks c') (ht' : Tidy c') (k : Name)
    (hout : ∀ x, Sub c k x → ∀ k' ∈ ks, ¬ Sub c k' x) (x : Name) : Anc c' k x ↔ Anc c k x := by
  constructor
  · intro ha
    induction ha with
    | @base s hp =>
      have hkeep : ∀ k' ∈ ks, ¬ Sub c k' s := by
        intro k' hk' hs
        have := h.gone_parent ht' s ⟨k', hk', hs⟩
        rw [this] at hp; cases hp
      rw [h.parent s hkeep] at hp
      exact Anc.base hp
    | @step p s hp _ ih =>
      have hkeep : ∀ k' ∈ ks, ¬ Sub c k' s := by
        intro k' hk' hs
        have := h.gone_parent ht' s ⟨k', hk', hs⟩
        rw [this] at hp; cases hp
      rw [h.parent s hkeep] at hp
      exact Anc.step hp ih
  · intro ha
    induction ha with
    | @base s hp =>
      have hkeep := hout s (Or.inr (Anc.base hp))
      rw [← h.parent s hkeep] at hp
      exact Anc.base hp
    | @step p s hp hap ih =>
      have hkeep := hout s (Or.inr (Anc.step hp hap))
      rw [← h.parent s hkeep] at hp
      exact Anc.step hp ih

theorem Without.congr {c c' : Chart} {ks ks' : List Name} (h : Without c ks c') (hm : ∀ k, k ∈ ks ↔ k ∈ ks') :
    Without c ks' c' where
  states := by
    intro x
    rw [h.states x]
    constructor
    · exact fun ⟨a, b⟩ => ⟨a, fun k hk => b k ((hm k).2 hk)⟩
    · exact fun ⟨a, b⟩ => ⟨a, fun k hk => b k ((hm k).1 hk)⟩
  parent := fun x hx => h.parent x (fun k hk => hx k ((hm k).1 hk))
  transitions := by
    rw [h.transitions]
    apply List.filter_congr
    intro t _
    simp only [keepOutside, decide_eq_decide]
    constructor
    · exact fun ⟨a, b⟩ => ⟨fun k hk => a k ((hm k).2 hk), fun tg e k hk => b tg e k ((hm k).2 hk)⟩
    · exact fun ⟨a, b⟩ => ⟨fun k hk => a k ((hm k).1 hk), fun tg e k hk => b tg e k ((hm k).1 hk)⟩

theorem keepOutside_iff (c : Chart) (ks : List Name) (t : Trans) :
    keepOutside c ks t = true ↔
      ((∀ k ∈ ks, ¬ Sub c k t.source) ∧ ∀ tg, t.target = some tg → ∀ k ∈ ks, ¬ Sub c k tg) := by
  simp only [keepOutside, decide_eq_true_eq]

/-- removing one more subtree, disjoint from those already removed -/
theorem Without.cons {c c0 c1 : Chart} {ks : List Name} (h0 : Without c ks c0) (ht0 : Tidy c0) (k : Name)
    (hout : ∀ x, Sub c k x → ∀ k' ∈ ks, ¬ Sub c k' x) (h1 : Without c0 [k] c1) : Without c (k :: ks) c1 := by
  have hsub : ∀ x, Sub c0 k x ↔ Sub c k x := by
    intro x
    unfold Sub
    rw [h0.anc_iff ht0 k hout x]
  have one : ∀ x, (∀ k' ∈ [k], ¬ Sub c0 k' x) ↔ ¬ Sub c k x := by
    intro x
    constructor
    · exact fun h hs => h k (List.mem_singleton.2 rfl) ((hsub x).2 hs)
    · intro h k' hk' hs
      rw [List.mem_singleton] at hk'
      subst hk'
      exact h ((hsub x).1 hs)
  have more : ∀ x, (∀ k' ∈ k :: ks, ¬ Sub c k' x) ↔ (¬ Sub c k x ∧ ∀ k' ∈ ks, ¬ Sub c k' x) := by
    intro x
    constructor
    · exact fun h => ⟨h k List.mem_cons_self, fun k' hk' => h k' (List.mem_cons_of_mem _ hk')⟩
    · rintro ⟨a, b⟩ k' hk'
      rcases List.mem_cons.1 hk' with e | e
      · rw [e]; exact a
      · exact b k' e
  refine ⟨?_, ?_, ?_⟩
  · intro x
    rw [h1.states x, h0.states x, one x, more x]
    constructor
    · exact fun ⟨⟨a, b⟩, d⟩ => ⟨a, d, b⟩
    · exact fun ⟨a, d, b⟩ => ⟨⟨a, b⟩, d⟩
  · intro x hx
    rw [more x] at hx
    rw [h1.parent x ((one x).2 hx.1), h0.parent x hx.2]
  · rw [h1.transitions, h0.transitions, List.filter_filter]
    apply List.filter_congr
    intro t _
    rw [Bool.eq_iff_iff, Bool.and_eq_true, keepOutside_iff, keepOutside_iff, keepOutside_iff, one t.source, more t.source]
    constructor
    · rintro ⟨⟨b1, b2⟩, ⟨a1, a2⟩⟩
      refine ⟨⟨b1, a1⟩, fun tg e => (more tg).2 ⟨(one tg).1 (b2 tg e), a2 tg e⟩⟩
    · rintro ⟨⟨b1, a1⟩, h2⟩
      exact ⟨⟨b1, fun tg e => (one tg).2 ((more tg).1 (h2 tg e)).1⟩, ⟨a1, fun tg e => ((more tg).1 (h2 tg e)).2⟩⟩

/-- the subtree of `n` is `n` and the subtrees of its children -/
theorem sub_iff_children (c : Chart) (ht : Tidy c) (n x : Name) :
    Sub c n x ↔ (x = n ∨ ∃ k ∈ c.childrenFor n, Sub c k x) := by
  constructor
  · rintro (e | e)
    · exact .inl e
    · obtain ⟨k, hk, hs⟩ := Anc.child_of e
      exact .inr ⟨k, (ht.childParent n k).2 hk, hs⟩
  · rintro (e | ⟨k, hk, hs⟩)
    · exact .inl e
    · have hp := (ht.childParent n k).1 hk
      rcases hs with e | e
      · exact .inr (e ▸ Anc.base hp)
      · exact .inr ((Anc.base hp).trans e)

theorem removeLeaf_hasState_self (c : Chart) (n : Name) : (c.removeLeaf n).hasState n = false := by
  obtain ⟨hs, _⟩ := removeLeaf_states c n
  simp only [hasState, stateFor, hs]
  have : ((c.states.map (unref n)).filter (fun s => s.name != n)).find? (fun s => s.name == n) = none := by
    rw [List.find?_eq_none]
    intro x hx
    simp only [List.mem_filter, bne_iff_ne, ne_eq] at hx
    simpa using hx.2
  rw [this]; rfl

/-- once the subtrees of all the children of `n` are gone, removing `n` itself completes the removal of its subtree -/
theorem Without.leaf {c c1 : Chart} (ht : Tidy c) (n : Name) (h : Without c (c.childrenFor n) c1) :
    Without c [n] (c1.removeLeaf n) := by
  have one : ∀ x, (∀ k ∈ [n], ¬ Sub c k x) ↔ (x ≠ n ∧ ∀ k ∈ c.childrenFor n, ¬ Sub c k x) := by
    intro x
    constructor
    · intro hx
      have := hx n (List.mem_singleton.2 rfl)
      rw [sub_iff_children c ht] at this
      exact ⟨fun e => this (.inl e), fun k hk hs => this (.inr ⟨k, hk, hs⟩)⟩
    · rintro ⟨a, b⟩ k hk hs
      rw [List.mem_singleton] at hk
      subst hk
      rw [sub_iff_children c ht] at hs
      rcases hs with e | ⟨k', hk', hs'⟩
      · exact a e
      · exact b k' hk' hs'
  refine ⟨?_, ?_, ?_⟩
  · intro x
    rw [one x]
    by_cases e : x = n
    · subst e
      rw [removeLeaf_hasState_self]
      constructor
      · intro hh; cases hh
      · rintro ⟨_, a, _⟩; exact absurd rfl a
    · rw [removeLeaf_hasState c1 n x e, h.states x]
      constructor
      · exact fun ⟨a, b⟩ => ⟨a, e, b⟩
      · exact fun ⟨a, _, b⟩ => ⟨a, b⟩
  · intro x hx
    obtain ⟨e, hk⟩ := (one x).1 hx
    rw [removeLeaf_parentFor c1 n x e, h.parent x hk]
  · rw [(removeLeaf_states c1 n).2, h.transitions, List.filter_filter]
    apply List.filter_congr
    intro t _
    rw [Bool.eq_iff_iff, Bool.and_eq_true, keepOutside_iff, keepOutside_iff, one t.source]
    simp only [Bool.not_eq_true', Bool.or_eq_false_iff, beq_eq_false_iff_ne, ne_eq]
    constructor
    · rintro ⟨⟨a1, a2⟩, ⟨b1, b2⟩⟩
      refine ⟨⟨a1, b1⟩, fun tg e => (one tg).2 ⟨fun e2 => a2 (by rw [e, e2]), b2 tg e⟩⟩
    · rintro ⟨⟨a1, b1⟩, h2⟩
      refine ⟨⟨a1, ?_⟩, ⟨b1, fun tg e => ((one tg).1 (h2 tg e)).2⟩⟩
      intro e
      exact ((one n).1 (h2 n e)).1 rfl

/-- **What a successful `remove_state(n)` removes**: the subtree of `n`, the transitions touching it,
    and nothing else. -/
theorem removeStateF_without : ∀ (f : Nat) (c : Chart) (n : Name), Tidy c → c.RankedE →
    ∀ c', removeStateF f c n = (.ok (), c') → Without c [n] c'
  | 0, c, n, _, _, c', h => by simp [removeStateF] at h
  | f+1, c, n, ht, hr, c', h => by
    unfold removeStateF at h
    split at h
    · cases h
    next hhas =>
    have hn : c.hasState n = true := by simpa using hhas
    have hne : c.states ≠ [] := by
      intro e
      simp [hasState, stateFor, e] at hn
    have hT := treeOK_of_ranked c ht hr.ranked hne
    have hgo : ∀ (l done : List Name) (c0 : Chart), Tidy c0 → c0.RankedE → Without c done c0 →
        (∀ k ∈ l, c.parentFor k = some n) → (∀ k ∈ done, c.parentFor k = some n) → (∀ k ∈ l, k ∉ done) → l.Nodup →
        ∀ c1, removeStateF.go f c0 l = (.ok (), c1) →
          ∃ ks, (∀ k, k ∈ ks ↔ (k ∈ l ∨ k ∈ done)) ∧ Without c ks c1 := by
      intro l
      induction l with
      | nil =>
        intro done c0 _ _ hw _ _ _ _ c1 hg
        unfold removeStateF.go at hg
        cases hg
        exact ⟨done, fun k => by simp, hw⟩
      | cons k rest ih =>
        intro done c0 ht0 hr0 hw hl hd hnew hnd c1 hg
        unfold removeStateF.go at hg
        obtain ⟨res, c0', hx⟩ : ∃ res c0', removeStateF f c0 k = (res, c0') := ⟨_, _, rfl⟩
        simp only [hx] at hg
        cases res with
        | error e => cases hg
        | ok u =>
          have hk : c.parentFor k = some n := hl k List.mem_cons_self
          have hw1 := removeStateF_without f c0 k ht0 hr0 c0' hx
          have hout : ∀ x, Sub c k x → ∀ k' ∈ done, ¬ Sub c k' x := by
            intro x hs k' hk' hs'
            have hne' : k ≠ k' := fun e => hnew k List.mem_cons_self (e ▸ hk')
            exact siblings_disjoint c hT hk (hd k' hk') hne' hs hs'
          have hw' := hw.cons ht0 k hout hw1
          have ht0' : Tidy c0' := by
            have := (removeStateF_tidy f c0 k ht0).1.tidy
            rw [hx] at this; exact this
          have hr0' : c0'.RankedE := by
            have := removeStateF_rankedE f c0 k hr0
            rw [hx] at this; exact this
          rw [List.nodup_cons] at hnd
          obtain ⟨ks, hks, hwk⟩ := ih (k :: done) c0' ht0' hr0' hw'
            (fun k' hk' => hl k' (List.mem_cons_of_mem _ hk'))
            (fun k' hk' => by
              rcases List.mem_cons.1 hk' with e | e
              · rw [e]; exact hk
              · exact hd k' e)
            (fun k' hk' hm => by
              rcases List.mem_cons.1 hm with e | e
              · exact hnd.1 (e ▸ hk')
              · exact hnew k' (List.mem_cons_of_mem _ hk') e)
            hnd.2 c1 hg
          refine ⟨ks, ?_, hwk⟩
          intro k'
          rw [hks k']
          simp only [List.mem_cons]
          constructor
          · rintro (a | a | a)
            · exact .inl (.inr a)
            · exact .inl (.inl a)
            · exact .inr a
          · rintro ((a | a) | a)
            · exact .inr (.inl a)
            · exact .inl a
            · exact .inr (.inr a)
    obtain ⟨res, c1, hx⟩ : ∃ res c1, removeStateF.go f c (c.childrenFor n) = (res, c1) := ⟨_, _, rfl⟩
    simp only [hx] at h
    cases res with
    | error e => cases h
    | ok u =>
      simp only [Prod.mk.injEq, true_and] at h
      subst h
      obtain ⟨ks, hks, hw⟩ := hgo (c.childrenFor n) [] c ht hr (Without.nil c)
        (fun k hk => (ht.childParent n k).1 hk) (fun _ hk => by cases hk) (fun _ _ hk => by cases hk)
        (ht.childrenNodup n) c1 hx
      exact (hw.congr (fun k => by rw [hks k]; simp)).leaf ht n

theorem removeState_without (c : Chart) (n : Name) (ht : Tidy c) (hc : c.Ranked) (h : (c.removeState n).1 = .ok ()) :
    Without c [n] (c.removeState n).2 := by
  apply removeStateF_without _ c n ht (hc.rankedE ht)
  unfold removeState at h ⊢
  cases hr : removeStateF (c.states.length + 1) c n with
  | mk r c' =>
    rw [hr] at h
    simp only at h
    rw [h]

end Chart
end Sismic
