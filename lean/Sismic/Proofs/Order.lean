import Sismic.Proofs.Tree
import Sismic.Proofs.Sort
/-!
# Sismic.Proofs.Order — order of exits (innermost first) and entries (outermost first) of a transition step
-/
namespace Sismic

/-- each element is the parent of the next one -/
def DownChain (c : Chart) : List Name → Prop
  | [] => True
  | [_] => True
  | a :: b :: r => c.parentFor b = some a ∧ DownChain c (b :: r)

/-- each element is the child of the next one -/
def UpChain (c : Chart) : List Name → Prop
  | [] => True
  | [_] => True
  | a :: b :: r => c.parentFor a = some b ∧ UpChain c (b :: r)

theorem upChain_ancestors (c : Chart) (h : TreeOK c) : ∀ (n : Nat) (t : Name), (c.ancestors t).length = n →
    UpChain c (t :: c.ancestors t) := by
  intro n
  induction n with
  | zero => intro t hl; rw [List.length_eq_zero_iff.mp hl]; trivial
  | succ n ih =>
    intro t hl
    rw [ancestors_unfold c h t] at hl ⊢
    cases hp : c.parentFor t with
    | none => trivial
    | some p =>
      rw [hp] at hl
      simp only [List.length_cons, Nat.add_right_cancel_iff] at hl
      exact ⟨hp, ih p hl⟩

theorem upChain_takeWhile (c : Chart) (p : Name → Bool) : ∀ (a : Name) (l : List Name),
    UpChain c (a :: l) → UpChain c (a :: l.takeWhile p)
  | _, [], _ => trivial
  | a, b :: r, h => by
    simp only [List.takeWhile_cons]
    split
    · exact ⟨h.1, upChain_takeWhile c p b r h.2⟩
    · trivial

theorem downChain_append_single (c : Chart) : ∀ (l : List Name) (x y : Name),
    DownChain c (l ++ [x]) → c.parentFor y = some x → DownChain c (l ++ [x] ++ [y])
  | [], x, y, _, hp => ⟨hp, trivial⟩
  | [a], x, y, h, hp => ⟨h.1, hp, trivial⟩
  | a :: b :: r, x, y, h, hp => ⟨h.1, downChain_append_single c (b :: r) x y h.2 hp⟩

theorem downChain_reverse (c : Chart) : ∀ l : List Name, UpChain c l → DownChain c l.reverse
  | [], _ => trivial
  | [_], _ => trivial
  | a :: b :: r, h => by
    have ih := downChain_reverse c (b :: r) h.2
    simp only [List.reverse_cons] at ih ⊢
    exact downChain_append_single c r.reverse b a ih h.1

/-- **entries outermost first**: in the list of states a transition enters, every state is the
    parent of the next one, down to the target -/
theorem enteredPath_downChain (c : Chart) (h : TreeOK c) (t : Name) (l : Option Name) :
    DownChain c (((c.ancestors t).takeWhile (fun x => some x != l)).reverse ++ [t]) := by
  have h1 := upChain_takeWhile c (fun x => some x != l) t _ (upChain_ancestors c h _ t rfl)
  have := downChain_reverse c _ h1
  simpa [List.reverse_cons] using this

/-- **exits innermost first**: the exited descendants are ordered by decreasing depth, ties by name -/
theorem exited_sorted (c : Chart) (cfg ds : List Name) :
    ((isort c.leRevDepthName ds).filter cfg.contains).Pairwise
      (fun a b => c.depth b < c.depth a ∨ (c.depth a = c.depth b ∧ a ≤ b)) := by
  have hs := isort_sorted c.leRevDepthName
    (fun a b => by
      simp only [Chart.leRevDepthName, decide_eq_true_eq]
      rcases Nat.lt_trichotomy (c.depth a) (c.depth b) with h | h | h
      · exact Or.inr (Or.inl h)
      · rcases String.le_total a b with h' | h'
        · exact Or.inl (Or.inr ⟨h, h'⟩)
        · exact Or.inr (Or.inr ⟨h.symm, h'⟩)
      · exact Or.inl (Or.inl h))
    (fun a b d => by
      simp only [Chart.leRevDepthName, decide_eq_true_eq]
      intro h1 h2
      rcases h1 with h1 | ⟨h1, h1'⟩ <;> rcases h2 with h2 | ⟨h2, h2'⟩
      · left; omega
      · left; omega
      · left; omega
      · right; exact ⟨by omega, String.le_trans h1' h2'⟩) ds
  exact (hs.imp (fun hab => by simpa [Chart.leRevDepthName] using hab)).filter _

end Sismic
