import Sismic.Proofs.Frame
import Sismic.Proofs.Queue
/-!
# Sismic.Proofs.Times — who writes the entry and idle times

For every outcome of `execute_once`: a recorded entry (idle) time changes only to the step time;
and every state active afterwards either was active before with the entry time it had, or has the
step time as its entry time (it became active during this call).
-/
namespace Sismic
open M

variable {σ ω : Type}

theorem assocGet_assocSet_same (k : Name) (v : Int) (l : List (Name × Int)) :
    assocGet k (assocSet k v l) = some v := by
  induction l with
  | nil => simp [assocSet, assocGet]
  | cons p r ih =>
    obtain ⟨k', v'⟩ := p
    unfold assocSet
    by_cases h : (k' == k) = true
    · simp [h, assocGet]
    · simp only [h, Bool.false_eq_true, if_false]
      unfold assocGet at ih ⊢
      simp only [List.find?_cons, h]
      exact ih

theorem assocGet_assocSet_other (k k2 : Name) (v : Int) (l : List (Name × Int)) (hne : k2 ≠ k) :
    assocGet k2 (assocSet k v l) = assocGet k2 l := by
  induction l with
  | nil =>
    have : (k == k2) = false := by simp [Ne.symm hne]
    simp [assocSet, assocGet, this]
  | cons p r ih =>
    obtain ⟨k', v'⟩ := p
    unfold assocSet
    by_cases h : (k' == k) = true
    · have hk : k' = k := by simpa using h
      have h1 : (k == k2) = false := by simp [Ne.symm hne]
      have h2 : (k' == k2) = false := by rw [hk]; exact h1
      simp [h, assocGet, h1, h2]
    · simp only [h, Bool.false_eq_true, if_false]
      unfold assocGet at ih ⊢
      simp only [List.find?_cons]
      split
      · rfl
      · exact ih

structure RTm (rs rs' : RS σ ω) : Prop where
  time : rs'.st.time = rs.st.time
  entry : ∀ s, assocGet s rs'.st.entryTime = assocGet s rs.st.entryTime ∨ assocGet s rs'.st.entryTime = some rs.st.time
  idle : ∀ s, assocGet s rs'.st.idleTime = assocGet s rs.st.idleTime ∨ assocGet s rs'.st.idleTime = some rs.st.time
  active : ∀ s, s ∈ rs'.st.config →
    (s ∈ rs.st.config ∧ assocGet s rs'.st.entryTime = assocGet s rs.st.entryTime) ∨
    assocGet s rs'.st.entryTime = some rs.st.time

theorem RTm.same {rs rs' : RS σ ω} (ht : rs'.st.time = rs.st.time) (he : rs'.st.entryTime = rs.st.entryTime)
    (hi : rs'.st.idleTime = rs.st.idleTime) (hc : ∀ x, x ∈ rs'.st.config → x ∈ rs.st.config) : RTm rs rs' :=
  ⟨ht, fun s => Or.inl (by rw [he]), fun s => Or.inl (by rw [hi]), fun s h => Or.inl ⟨hc s h, by rw [he]⟩⟩

theorem RTm_pre : PreOrd (RTm : RS σ ω → RS σ ω → Prop) where
  refl a := RTm.same rfl rfl rfl (fun _ h => h)
  trans a b c h1 h2 := by
    refine ⟨h2.time.trans h1.time, ?_, ?_, ?_⟩
    · intro s
      rcases h2.entry s with a2 | a2
      · rcases h1.entry s with a1 | a1
        · exact Or.inl (a2.trans a1)
        · exact Or.inr (a2.trans a1)
      · exact Or.inr (by rw [a2, h1.time])
    · intro s
      rcases h2.idle s with a2 | a2
      · rcases h1.idle s with a1 | a1
        · exact Or.inl (a2.trans a1)
        · exact Or.inr (a2.trans a1)
      · exact Or.inr (by rw [a2, h1.time])
    · intro s hs
      rcases h2.active s hs with ⟨hb, a2⟩ | a2
      · rcases h1.active s hb with ⟨ha, a1⟩ | a1
        · exact Or.inl ⟨ha, a2.trans a1⟩
        · exact Or.inr (a2.trans a1)
      · exact Or.inr (by rw [a2, h1.time])

variable (env : Env σ ω)

theorem rtm_modify (f : IState σ → IState σ)
    (hf : ∀ st, (f st).time = st.time ∧ (f st).entryTime = st.entryTime ∧ (f st).idleTime = st.idleTime ∧
      (∀ x, x ∈ (f st).config → x ∈ st.config)) :
    Rel RTm (M.modify f : M σ ω Unit) := by
  intro rs
  exact RTm.same (hf rs.st).1 (hf rs.st).2.1 (hf rs.st).2.2.1 (hf rs.st).2.2.2

theorem rtm_emit (e : Effect) : Rel RTm (M.emit e : M σ ω Unit) := by
  intro rs; exact RTm.same rfl rfl rfl (fun _ h => h)

theorem foldl_extQ_times (qs : List Event) (st : IState σ) :
    let st' := qs.foldl (fun st e => { st with extQ := queueInsert (st.time + e.delay) e st.extQ }) st
    st'.time = st.time ∧ st'.entryTime = st.entryTime ∧ st'.idleTime = st.idleTime ∧ st'.config = st.config := by
  induction qs generalizing st with
  | nil => exact ⟨rfl, rfl, rfl, rfl⟩
  | cons q qs ih => simp only [List.foldl_cons]; exact ih _

theorem rtm_raise (m : Event) : Rel RTm (raiseMeta env m) := by
  intro rs
  have hfe : ∀ (ls : List Nat) (r : RS σ ω),
      (M.forEach (callListener env m) ls r).2.st.time = r.st.time ∧
      (M.forEach (callListener env m) ls r).2.st.entryTime = r.st.entryTime ∧
      (M.forEach (callListener env m) ls r).2.st.idleTime = r.st.idleTime ∧
      (M.forEach (callListener env m) ls r).2.st.config = r.st.config := by
    intro ls
    induction ls with
    | nil => intro r; exact ⟨rfl, rfl, rfl, rfl⟩
    | cons l ls ih =>
      intro r
      have hc := foldl_extQ_times (env.deliver l m r.st.time r.world).2.2 r.st
      simp only [M.forEach, M.bind]
      obtain ⟨res, r1, hx⟩ : ∃ res r1, callListener env m l r = (res, r1) := ⟨_, _, rfl⟩
      have hr1 : r1.st.time = r.st.time ∧ r1.st.entryTime = r.st.entryTime ∧ r1.st.idleTime = r.st.idleTime ∧
          r1.st.config = r.st.config := by
        have : r1 = (callListener env m l r).2 := by rw [hx]
        rw [this]; exact hc
      simp only [hx]
      cases res with
      | error e => exact hr1
      | ok u =>
        have := ih r1
        exact ⟨this.1.trans hr1.1, this.2.1.trans hr1.2.1, this.2.2.1.trans hr1.2.2.1, this.2.2.2.trans hr1.2.2.2⟩
  have h := hfe rs.st.listeners { rs with eff := rs.eff ++ [.metaEv m] }
  have hs : (raiseMeta env m rs).2.st = (M.forEach (callListener env m) rs.st.listeners { rs with eff := rs.eff ++ [.metaEv m] }).2.st := by
    simp [raiseMeta, M.bind, M.emit, M.get]
  exact RTm.same (by rw [hs]; exact h.1) (by rw [hs]; exact h.2.1) (by rw [hs]; exact h.2.2.1)
    (fun x hx => by rw [hs, h.2.2.2] at hx; exact hx)

theorem rtm_send (ev : Sent) : Rel RTm (sendOne env ev) := by
  unfold sendOne
  apply Rel.bind RTm_pre
  · cases ev with
    | notify m => exact rtm_raise env m
    | internal e =>
      unfold raiseSent
      apply Rel.bind RTm_pre
      · unfold queueEvent
        apply rtm_modify; intro st; exact ⟨rfl, rfl, rfl, fun _ h => h⟩
      intro _
      apply Rel.bind RTm_pre (rtm_raise env _); intro _
      split
      · exact rtm_raise env _
      · exact Rel.pure RTm_pre _
  · intro _; apply rtm_modify; intro st; exact ⟨rfl, rfl, rfl, fun _ h => h⟩

theorem rtm_markEnter (n : Name) : Rel RTm (M.modify (fun st => { st with
    config := if st.config.contains n then st.config else st.config ++ [n],
    entryTime := assocSet n st.time st.entryTime,
    idleTime := assocSet n st.time st.idleTime }) : M σ ω Unit) := by
  intro rs
  simp only [M.modify]
  refine ⟨rfl, ?_, ?_, ?_⟩
  · intro s
    by_cases h : s = n
    · subst h; exact Or.inr (assocGet_assocSet_same _ _ _)
    · exact Or.inl (assocGet_assocSet_other _ _ _ _ h)
  · intro s
    by_cases h : s = n
    · subst h; exact Or.inr (assocGet_assocSet_same _ _ _)
    · exact Or.inl (assocGet_assocSet_other _ _ _ _ h)
  · intro s hs
    by_cases h : s = n
    · subst h; exact Or.inr (assocGet_assocSet_same _ _ _)
    · left
      refine ⟨?_, assocGet_assocSet_other _ _ _ _ h⟩
      simp only at hs
      split at hs
      · exact hs
      · rcases List.mem_append.mp hs with hs | hs
        · exact hs
        · exact absurd (List.mem_singleton.mp hs) h

theorem rtm_markFire (n : Name) :
    Rel RTm (M.modify (fun st => { st with idleTime := assocSet n st.time st.idleTime }) : M σ ω Unit) := by
  intro rs
  simp only [M.modify]
  refine ⟨rfl, fun s => Or.inl rfl, ?_, fun s hs => Or.inl ⟨hs, rfl⟩⟩
  intro s
  by_cases h : s = n
  · subst h; exact Or.inr (assocGet_assocSet_same _ _ _)
  · exact Or.inl (assocGet_assocSet_other _ _ _ _ h)

theorem rtm_consume : Rel RTm (consumeOne env) := by
  unfold consumeOne
  apply Rel.bind RTm_pre (Rel.get RTm_pre); intro st
  apply Rel.bind RTm_pre
  · apply rtm_modify
    intro st'
    have hp := popEvent_frame st'
    refine ⟨hp.1, ?_, ?_, fun x h => by rw [hp.2.2.1] at h; exact h⟩
    · rcases pop_spec st' with ⟨_, h⟩ | ⟨d, e, r, _, _, _, h⟩ | ⟨d, e, r, _, _, _, _, h⟩ <;> rw [h]
    · rcases pop_spec st' with ⟨_, h⟩ | ⟨d, e, r, _, _, _, h⟩ | ⟨d, e, r, _, _, _, _, h⟩ <;> rw [h]
  · intro _; exact rtm_raise env _

theorem rtm_respects : RespectsQ env (RTm : RS σ ω → RS σ ω → Prop) where
  pre := RTm_pre
  modify f hf := rtm_modify f (fun st => ⟨(hf st).1, (hf st).2.2.2.2.2.1, (hf st).2.2.2.2.2.2.1, (hf st).2.2.2.2.2.2.2⟩)
  emit e _ := rtm_emit e
  raise m := rtm_raise env m
  contract := contract_of_prims env RTm_pre
    (fun f hf => rtm_modify f (fun st => ⟨(hf st).1, (hf st).2.2.2.2.2.1, (hf st).2.2.2.2.2.2.1, (hf st).2.2.2.2.2.2.2⟩))
    (fun _ _ _ _ _ => rtm_emit _)
  send ev := rtm_send env ev
  markEnter n := rtm_markEnter n
  markFire n := rtm_markFire n
  consume := rtm_consume env

/-- **Who writes the recorded times — for every outcome of `execute_once`.** -/
theorem executeOnce_times (clock : Int) (rs : RS σ ω) :
    let rs' := (executeOnce env clock rs).2
    (∀ s, assocGet s rs'.st.entryTime = assocGet s rs.st.entryTime ∨ assocGet s rs'.st.entryTime = some clock) ∧
    (∀ s, assocGet s rs'.st.idleTime = assocGet s rs.st.idleTime ∨ assocGet s rs'.st.idleTime = some clock) ∧
    (∀ s, s ∈ rs'.st.config →
      (s ∈ rs.st.config ∧ assocGet s rs'.st.entryTime = assocGet s rs.st.entryTime) ∨
      assocGet s rs'.st.entryTime = some clock) := by
  unfold executeOnce
  have key := rel_executeOnce_tail (rtm_respects env) clock { rs with st := { rs.st with time := clock, sentEvents := [] } }
  simp only [M.bind, M.modify] at key ⊢
  exact ⟨key.entry, key.idle, key.active⟩

end Sismic
