import Sismic.Model.IO
/-!
# Sismic.Proofs.RoundTrip — `import ∘ export` on the fields of transitions and states
-/
namespace Sismic

/-- code as `import_from_dict` creates it: stripped, non-empty, nothing but the text -/
def Code.plain (c : Code) : Prop := c = mkCode c.src ∧ pyStrip c.src = c.src ∧ c.src ≠ ""

def strOK (s : String) : Prop := pyStrip s = s ∧ s ≠ ""

theorem get_append (a b : List (String × Data)) (k : String) :
    (Data.map (a ++ b)).get? k = ((Data.map a).get? k).or ((Data.map b).get? k) := by
  simp only [Data.get?, List.find?_append]
  cases a.find? (fun p => p.1 == k) <;> simp

theorem get_nil (k : String) : (Data.map []).get? k = none := rfl

theorem get_single_same (k : String) (v : Data) : (Data.map [(k, v)]).get? k = some v := by
  simp [Data.get?]

theorem get_single_ne (k k' : String) (v : Data) (h : k ≠ k') : (Data.map [(k, v)]).get? k' = none := by
  simp [Data.get?, h]

theorem get_optField_same (k : String) (v : Option String) :
    (Data.map (optField k v)).get? k = (v.filter (· != "")).map Data.str := by
  cases v with
  | none => rfl
  | some s =>
    simp only [optField]
    by_cases h : (s != "") = true
    · simp [h, Data.get?, Option.filter]
    · simp [h, Data.get?, Option.filter]

theorem get_optField_ne (k k' : String) (v : Option String) (h : k ≠ k') :
    (Data.map (optField k v)).get? k' = none := by
  cases v with
  | none => rfl
  | some s =>
    simp only [optField]
    split
    · exact get_single_ne k k' _ h
    · rfl

theorem get_if_ne (c : Prop) [Decidable c] (k k' : String) (v : Data) (h : k ≠ k') :
    (Data.map (if c then [(k, v)] else [])).get? k' = none := by
  split
  · exact get_single_ne k k' _ h
  · rfl

theorem get_exportPriority_ne (p : Int) (k' : String) (h : "priority" ≠ k') :
    (Data.map (exportPriority p)).get? k' = none := by
  unfold exportPriority
  split
  · exact get_single_ne _ _ _ h
  · rfl

theorem get_exportPriority (p : Int) :
    (Data.map (exportPriority p)).get? "priority" =
      if p != 0 then some (if p == -1 then .str "low" else if p == 1 then .str "high" else .int p) else none := by
  unfold exportPriority
  split
  · exact get_single_same _ _
  · rfl

theorem get_exportContract_ne (pre post inv : List Code) (k' : String) (h : "contract" ≠ k') :
    (Data.map (exportContract pre post inv)).get? k' = none := by
  unfold exportContract
  split
  · rfl
  · exact get_single_ne _ _ _ h

/-! ### contracts -/

theorem contractStep_before (acc : List Code × List Code × List Code) (s : String) (h : s ≠ "") :
    contractStep acc (.map [("before", .str s)]) = .ok (acc.1 ++ [mkCode (pyStrip s)], acc.2.1, acc.2.2) := by
  simp [contractStep, contractPick, Data.get?, Data.truthy, h]

theorem contractStep_after (acc : List Code × List Code × List Code) (s : String) (h : s ≠ "") :
    contractStep acc (.map [("after", .str s)]) = .ok (acc.1, acc.2.1 ++ [mkCode (pyStrip s)], acc.2.2) := by
  simp [contractStep, contractPick, Data.get?, Data.truthy, h]

theorem contractStep_always (acc : List Code × List Code × List Code) (s : String) (h : s ≠ "") :
    contractStep acc (.map [("always", .str s)]) = .ok (acc.1, acc.2.1, acc.2.2 ++ [mkCode (pyStrip s)]) := by
  simp [contractStep, contractPick, Data.get?, Data.truthy, h]

theorem plain_mk (c : Code) (h : c.plain) : mkCode (pyStrip c.src) = c := by
  rw [h.2.1]; exact h.1.symm

theorem contractLoop_append (a b : List Data) (acc : List Code × List Code × List Code) :
    contractLoop (a ++ b) acc = match contractLoop a acc with
      | .error e => .error e
      | .ok acc' => contractLoop b acc' := by
  induction a generalizing acc with
  | nil => rfl
  | cons x xs ih =>
    simp only [List.cons_append, contractLoop]
    cases contractStep acc x with
    | error e => rfl
    | ok acc' => exact ih acc'

theorem contractLoop_pre (l : List Code) (hl : ∀ c ∈ l, c.plain) (acc : List Code × List Code × List Code) :
    contractLoop (l.map (fun c => Data.map [("before", .str c.src)])) acc = .ok (acc.1 ++ l, acc.2.1, acc.2.2) := by
  induction l generalizing acc with
  | nil => simp [contractLoop]
  | cons c cs ih =>
    have hc := hl c List.mem_cons_self
    simp only [List.map_cons, contractLoop, contractStep_before acc c.src hc.2.2]
    rw [ih (fun x hx => hl x (List.mem_cons_of_mem _ hx)), plain_mk c hc]
    simp

theorem contractLoop_post (l : List Code) (hl : ∀ c ∈ l, c.plain) (acc : List Code × List Code × List Code) :
    contractLoop (l.map (fun c => Data.map [("after", .str c.src)])) acc = .ok (acc.1, acc.2.1 ++ l, acc.2.2) := by
  induction l generalizing acc with
  | nil => simp [contractLoop]
  | cons c cs ih =>
    have hc := hl c List.mem_cons_self
    simp only [List.map_cons, contractLoop, contractStep_after acc c.src hc.2.2]
    rw [ih (fun x hx => hl x (List.mem_cons_of_mem _ hx)), plain_mk c hc]
    simp

theorem contractLoop_inv (l : List Code) (hl : ∀ c ∈ l, c.plain) (acc : List Code × List Code × List Code) :
    contractLoop (l.map (fun c => Data.map [("always", .str c.src)])) acc = .ok (acc.1, acc.2.1, acc.2.2 ++ l) := by
  induction l generalizing acc with
  | nil => simp [contractLoop]
  | cons c cs ih =>
    have hc := hl c List.mem_cons_self
    simp only [List.map_cons, contractLoop, contractStep_always acc c.src hc.2.2]
    rw [ih (fun x hx => hl x (List.mem_cons_of_mem _ hx)), plain_mk c hc]
    simp

theorem get_exportContract (pre post inv : List Code) :
    (Data.map (exportContract pre post inv)).get? "contract" =
      if pre.isEmpty && post.isEmpty && inv.isEmpty then none else
      some (.list (pre.map (fun c => Data.map [("before", .str c.src)]) ++
                   post.map (fun c => Data.map [("after", .str c.src)]) ++
                   inv.map (fun c => Data.map [("always", .str c.src)]))) := by
  unfold exportContract
  split
  · rfl
  · exact get_single_same _ _

/-- **contracts round-trip**: importing what `exportContract` wrote gives the three lists back -/
theorem importContract_export (front back : List (String × Data)) (pre post inv : List Code)
    (hf : (Data.map front).get? "contract" = none) (hb : (Data.map back).get? "contract" = none)
    (h1 : ∀ c ∈ pre, c.plain) (h2 : ∀ c ∈ post, c.plain) (h3 : ∀ c ∈ inv, c.plain) :
    importContract (.map (front ++ exportContract pre post inv ++ back)) = .ok (pre, post, inv) := by
  unfold importContract
  rw [List.append_assoc, get_append, hf, Option.none_or, get_append, hb, Option.or_none, get_exportContract]
  by_cases he : (pre.isEmpty && post.isEmpty && inv.isEmpty) = true
  · rw [if_pos he]
    simp only [Bool.and_eq_true, List.isEmpty_iff] at he
    obtain ⟨⟨rfl, rfl⟩, rfl⟩ := he
    rfl
  · rw [if_neg he]
    simp only
    rw [contractLoop_append, contractLoop_append, contractLoop_pre pre h1]
    simp only
    rw [contractLoop_post post h2]
    simp only
    rw [contractLoop_inv inv h3]
    simp

/-! ### transitions -/

theorem getStripped_of_get (d : Data) (k : String) (v : Option String)
    (hg : d.get? k = (v.filter (· != "")).map Data.str) (hv : ∀ s, v = some s → strOK s) :
    getStripped d k = .ok (v.map mkCode) := by
  unfold getStripped
  rw [hg]
  cases v with
  | none => rfl
  | some s =>
    obtain ⟨h1, h2⟩ := hv s rfl
    have : (s != "") = true := by simpa using h2
    simp [Option.filter, this, Data.truthy, h1]

structure Trans.plain (t : Trans) : Prop where
  event : ∀ s, t.event = some s → strOK s
  guard : ∀ c, t.guard = some c → c.plain
  action : ∀ c, t.action = some c → c.plain
  target : ∀ s, t.target = some s → s ≠ ""
  pre : ∀ c ∈ t.pre, c.plain
  post : ∀ c ∈ t.post, c.plain
  inv : ∀ c ∈ t.inv, c.plain

theorem map_mkCode_plain (g : Option Code) (h : ∀ c, g = some c → c.plain) :
    (g.map (·.src)).map mkCode = g := by
  cases g with
  | none => rfl
  | some c => simp only [Option.map_some]; rw [← (h c rfl).1]

theorem strOK_of_plain (g : Option Code) (h : ∀ c, g = some c → c.plain) :
    ∀ s, g.map (·.src) = some s → strOK s := by
  intro s hs
  cases g with
  | none => simp at hs
  | some c => simp at hs; subst hs; exact ⟨(h c rfl).2.1, (h c rfl).2.2⟩

/-- **A transition survives export followed by import**: source, target, event, guard, action,
    priority and contracts (the object identity `id` is assigned when the transition is added). -/
theorem importTransition_export (t : Trans) (h : t.plain) :
    importTransition t.source (exportTransition t) = .ok { t with id := 0 } := by
  have gE : (exportTransition t).get? "event" = (t.event.filter (· != "")).map Data.str := by
    simp [exportTransition, get_append, get_optField_same, get_optField_ne, get_exportPriority_ne, get_exportContract_ne]
  have gG : (exportTransition t).get? "guard" = ((t.guard.map (·.src)).filter (· != "")).map Data.str := by
    simp [exportTransition, get_append, get_optField_same, get_optField_ne, get_exportPriority_ne, get_exportContract_ne]
  have gA : (exportTransition t).get? "action" = ((t.action.map (·.src)).filter (· != "")).map Data.str := by
    simp [exportTransition, get_append, get_optField_same, get_optField_ne, get_exportPriority_ne, get_exportContract_ne]
  have gT : (exportTransition t).get? "target" = (t.target.filter (· != "")).map Data.str := by
    simp [exportTransition, get_append, get_optField_same, get_optField_ne, get_exportPriority_ne, get_exportContract_ne]
  have gP : (exportTransition t).get? "priority" =
      if t.priority != 0 then some (if t.priority == -1 then .str "low" else if t.priority == 1 then .str "high" else .int t.priority) else none := by
    simp [exportTransition, get_append, get_optField_ne, get_exportPriority, get_exportContract_ne]
  have hC : importContract (exportTransition t) = .ok (t.pre, t.post, t.inv) := by
    have := importContract_export
      (optField "event" t.event ++ optField "guard" (t.guard.map (·.src)) ++ optField "target" t.target ++
        optField "action" (t.action.map (·.src)) ++ exportPriority t.priority) [] t.pre t.post t.inv
      (by simp [get_append, get_optField_ne, get_exportPriority_ne]) rfl h.pre h.post h.inv
    simpa [exportTransition] using this
  have e1 := getStripped_of_get _ "event" t.event gE h.event
  have e2 := getStripped_of_get _ "guard" (t.guard.map (·.src)) gG (strOK_of_plain _ h.guard)
  have e3 := getStripped_of_get _ "action" (t.action.map (·.src)) gA (strOK_of_plain _ h.action)
  rw [map_mkCode_plain _ h.guard] at e2
  rw [map_mkCode_plain _ h.action] at e3
  obtain ⟨m, hm⟩ : ∃ m, exportTransition t = .map m := ⟨_, rfl⟩
  rw [hm] at gT gP hC e1 e2 e3 ⊢
  have hT : importTarget (.map m) = .ok t.target := by
    unfold importTarget
    rw [gT]
    cases ht : t.target with
    | none => rfl
    | some s =>
      have : (s != "") = true := by simpa using h.target s ht
      simp [Option.filter, this]
  have hP : importPriority (.map m) = .ok t.priority := by
    unfold importPriority
    rw [gP]
    by_cases h0 : t.priority = 0
    · simp [h0]
    · by_cases h1 : t.priority = -1
      · simp [h1]
      · by_cases h2 : t.priority = 1
        · simp [h2]
        · simp [h0, h1, h2]
  have hev : (t.event.map mkCode).map (·.src) = t.event := by cases t.event <;> rfl
  simp only [importTransition, e1, e2, e3, hT, hP, hC, bind, Except.bind, pure, Except.pure, hev]

end Sismic

namespace Sismic

/-! ### states -/

structure StateDef.plain (c : Chart) (s : StateDef) : Prop where
  onEntry : ∀ x, s.onEntry = some x → x.plain
  onExit : ∀ x, s.onExit = some x → x.plain
  initial : ∀ i, s.initial = some i → i ≠ "" ∧ s.kind = .compound
  memory : ∀ m, s.memory = some m → m ≠ "" ∧ s.kind.isHistory = true
  pre : ∀ x ∈ s.pre, x.plain
  post : ∀ x ∈ s.post, x.plain
  inv : ∀ x ∈ s.inv, x.plain

theorem get_cons_ne (k k' : String) (v : Data) (l : List (String × Data)) (h : k ≠ k') :
    (Data.map ((k, v) :: l)).get? k' = (Data.map l).get? k' := by
  simp [Data.get?, List.find?_cons, h]

theorem get_cons_same (k : String) (v : Data) (l : List (String × Data)) :
    (Data.map ((k, v) :: l)).get? k = some v := by
  simp [Data.get?, List.find?_cons]

theorem optNameAt_of_get (d : Data) (k : String) (v : Option String)
    (hg : d.get? k = (v.filter (· != "")).map Data.str) (hv : ∀ s, v = some s → s ≠ "") :
    optNameAt d k = .ok v := by
  unfold optNameAt
  rw [hg]
  cases v with
  | none => rfl
  | some s =>
    have : (s != "") = true := by simpa using hv s rfl
    simp [Option.filter, this]

theorem stripField_of_get (d : Data) (k : String) (g : Option Code)
    (hg : d.get? k = ((g.map (·.src)).filter (· != "")).map Data.str) (hv : ∀ c, g = some c → c.plain) :
    stripField d k = .ok g := by
  unfold stripField
  rw [getStripped_of_get d k (g.map (·.src)) hg (strOK_of_plain g hv), map_mkCode_plain g hv]

end Sismic

namespace Sismic
set_option linter.unusedSimpArgs false

theorem get_if_ne' (c : Bool) (k k' : String) (v : Data) (h : k ≠ k') :
    (Data.map (if c = true then [(k, v)] else [])).get? k' = none := by
  cases c <;> simp [Data.get?, h]

theorem truthy_list_map {α} (l : List α) (f : α → Data) (h : l ≠ []) : (Data.list (l.map f)).truthy = true := by
  cases l with
  | nil => exact absurd rfl h
  | cons x xs => rfl

theorem importState_export_basic (c : Chart) (f : Nat) (n : Name) (s : StateDef)
    (hs : c.stateFor n = some s) (hn : s.name = n) (hp : s.plain c) (hk : s.kind = .basic) :
    importState (exportState c (f+1) n) = .ok s := by
  have hinit : s.initial = none := by
    cases hi : s.initial with
    | none => rfl
    | some i => have := (hp.initial i hi).2; rw [hk] at this; exact absurd this (by decide)
  have hmem : s.memory = none := by
    cases hm : s.memory with
    | none => rfl
    | some m => have := (hp.memory m hm).2; rw [hk] at this; exact absurd this (by decide)
  simp only [exportState, hs, hk]
  simp only [show (Kind.basic == Kind.compound) = false from rfl,
    show (Kind.basic == Kind.orthogonal) = false from rfl,
    if_true, List.append_nil, Bool.false_eq_true, if_false]
  generalize hts : (if (Kind.basic.ownsTransitions && !(c.transitionsFrom n).isEmpty) = true then
      [("transitions", Data.list (List.map exportTransition (c.transitionsFrom n)))] else []) = tsPart
  have gts : ∀ k', "transitions" ≠ k' → (Data.map tsPart).get? k' = none := by
    intro k' hk'; rw [← hts]; exact get_if_ne' _ _ _ _ hk'
  generalize hD : Data.map _ = D
  have gName : D.get? "name" = some (.str s.name) := by
    rw [← hD]; simp [get_append, get_cons_ne, get_cons_same, get_single_ne, get_single_same, get_optField_same, get_optField_ne, get_exportContract_ne, gts, get_nil]
  have gEntry : D.get? "on entry" = ((s.onEntry.map (·.src)).filter (· != "")).map Data.str := by
    rw [← hD]; simp [get_append, get_cons_ne, get_cons_same, get_single_ne, get_single_same, get_optField_same, get_optField_ne, get_exportContract_ne, gts, get_nil]
  have gExit : D.get? "on exit" = ((s.onExit.map (·.src)).filter (· != "")).map Data.str := by
    rw [← hD]; simp [get_append, get_cons_ne, get_cons_same, get_single_ne, get_single_same, get_optField_same, get_optField_ne, get_exportContract_ne, gts, get_nil]
  have gType : D.get? "type" = none := by
    rw [← hD]; simp [get_append, get_cons_ne, get_cons_same, get_single_ne, get_single_same, get_optField_same, get_optField_ne, get_exportContract_ne, gts, get_nil]
  have gStates : D.get? "states" = none := by
    rw [← hD]; simp [get_append, get_cons_ne, get_cons_same, get_single_ne, get_single_same, get_optField_same, get_optField_ne, get_exportContract_ne, gts, get_nil]
  have gPar : D.get? "parallel states" = none := by
    rw [← hD]; simp [get_append, get_cons_ne, get_cons_same, get_single_ne, get_single_same, get_optField_same, get_optField_ne, get_exportContract_ne, gts, get_nil]
  have hC : importContract D = .ok (s.pre, s.post, s.inv) := by
    rw [← hD]
    have := importContract_export
      ([("name", Data.str s.name)] ++ optField "on entry" (s.onEntry.map (·.src)) ++ optField "on exit" (s.onExit.map (·.src)))
      (tsPart) s.pre s.post s.inv
      (by simp [get_append, get_cons_ne, get_cons_same, get_single_ne, get_optField_ne] <;> rfl)
      (by simp [get_append, get_cons_ne, get_cons_same, get_single_ne, gts] <;> rfl) hp.pre hp.post hp.inv
    simpa [List.append_assoc] using this
  obtain ⟨m, hm⟩ : ∃ m, D = .map m := ⟨_, hD.symm⟩
  have e1 := stripField_of_get D "on entry" s.onEntry gEntry hp.onEntry
  have e2 := stripField_of_get D "on exit" s.onExit gExit hp.onExit
  have e3 : True := trivial
  have e4 : True := trivial
  have t1 : truthyAt D "states" = false := by simp only [truthyAt, gStates]
  have t2 : truthyAt D "parallel states" = false := by simp only [truthyAt, gPar]
  have p1 : presentAt D "states" = false := by simp only [presentAt, gStates]
  have p2 : presentAt D "parallel states" = false := by simp only [presentAt, gPar]
  subst hm
  simp only [importState, gName, e1, e2, t1, t2, p1, p2, importKind, gType, e3, e4, hC]
  simp only [Bool.and_false, Bool.false_and, Bool.and_self, Bool.false_eq_true, if_false, if_true]
  cases s
  simp_all

theorem importState_export_compound (c : Chart) (f : Nat) (n : Name) (s : StateDef)
    (hs : c.stateFor n = some s) (hn : s.name = n) (hp : s.plain c) (hk : s.kind = .compound) :
    importState (exportState c (f+1) n) = .ok s := by
  have hmem : s.memory = none := by
    cases hm : s.memory with
    | none => rfl
    | some m => have := (hp.memory m hm).2; rw [hk] at this; exact absurd this (by decide)
  simp only [exportState, hs, hk]
  simp only [show (Kind.compound == Kind.compound) = true from rfl,
    show (Kind.compound == Kind.orthogonal) = false from rfl,
    if_true, List.append_nil, Bool.false_eq_true, if_false]
  generalize hts : (if (Kind.compound.ownsTransitions && !(c.transitionsFrom n).isEmpty) = true then
      [("transitions", Data.list (List.map exportTransition (c.transitionsFrom n)))] else []) = tsPart
  have gts : ∀ k', "transitions" ≠ k' → (Data.map tsPart).get? k' = none := by
    intro k' hk'; rw [← hts]; exact get_if_ne' _ _ _ _ hk'
  generalize hD : Data.map _ = D
  have gName : D.get? "name" = some (.str s.name) := by
    rw [← hD]; simp [get_append, get_cons_ne, get_cons_same, get_single_ne, get_single_same, get_optField_same, get_optField_ne, get_exportContract_ne, gts, get_nil]
  have gEntry : D.get? "on entry" = ((s.onEntry.map (·.src)).filter (· != "")).map Data.str := by
    rw [← hD]; simp [get_append, get_cons_ne, get_cons_same, get_single_ne, get_single_same, get_optField_same, get_optField_ne, get_exportContract_ne, gts, get_nil]
  have gExit : D.get? "on exit" = ((s.onExit.map (·.src)).filter (· != "")).map Data.str := by
    rw [← hD]; simp [get_append, get_cons_ne, get_cons_same, get_single_ne, get_single_same, get_optField_same, get_optField_ne, get_exportContract_ne, gts, get_nil]
  have gInit : D.get? "initial" = (s.initial.filter (· != "")).map Data.str := by
    rw [← hD]; simp [get_append, get_cons_ne, get_cons_same, get_single_ne, get_single_same, get_optField_same, get_optField_ne, get_exportContract_ne, gts, get_nil]
  have gType : D.get? "type" = none := by
    rw [← hD]; simp [get_append, get_cons_ne, get_cons_same, get_single_ne, get_single_same, get_optField_same, get_optField_ne, get_exportContract_ne, gts, get_nil]
  have gStates : D.get? "states" = some (.list ((c.childrenFor n).map (exportState c f))) := by
    rw [← hD]; simp [get_append, get_cons_ne, get_cons_same, get_single_ne, get_single_same, get_optField_same, get_optField_ne, get_exportContract_ne, gts, get_nil]
  have gPar : D.get? "parallel states" = none := by
    rw [← hD]; simp [get_append, get_cons_ne, get_cons_same, get_single_ne, get_single_same, get_optField_same, get_optField_ne, get_exportContract_ne, gts, get_nil]
  have hC : importContract D = .ok (s.pre, s.post, s.inv) := by
    rw [← hD]
    have := importContract_export
      ([("name", Data.str s.name)] ++ optField "on entry" (s.onEntry.map (·.src)) ++ optField "on exit" (s.onExit.map (·.src)) ++ optField "initial" s.initial)
      (tsPart ++ [("states", Data.list (List.map (exportState c f) (c.childrenFor n)))]) s.pre s.post s.inv
      (by simp [get_append, get_cons_ne, get_cons_same, get_single_ne, get_optField_ne] <;> rfl)
      (by simp [get_append, get_cons_ne, get_cons_same, get_single_ne, gts] <;> rfl) hp.pre hp.post hp.inv
    simpa [List.append_assoc] using this
  obtain ⟨m, hm⟩ : ∃ m, D = .map m := ⟨_, hD.symm⟩
  have e1 := stripField_of_get D "on entry" s.onEntry gEntry hp.onEntry
  have e2 := stripField_of_get D "on exit" s.onExit gExit hp.onExit
  have e3 := optNameAt_of_get D "initial" s.initial gInit (fun i hi => (hp.initial i hi).1)
  have e4 : True := trivial
  have t2 : truthyAt D "parallel states" = false := by simp only [truthyAt, gPar]
  have p1 : presentAt D "states" = true := by simp only [presentAt, gStates]
  have p2 : presentAt D "parallel states" = false := by simp only [presentAt, gPar]
  have t1 : True := trivial
  subst hm
  simp only [importState, gName, e1, e2, t1, t2, p1, p2, importKind, gType, e3, e4, hC]
  simp only [Bool.and_false, Bool.false_and, Bool.and_self, Bool.false_eq_true, if_false, if_true]
  cases s
  simp_all

theorem importState_export_orthogonal (c : Chart) (f : Nat) (n : Name) (s : StateDef)
    (hs : c.stateFor n = some s) (hn : s.name = n) (hp : s.plain c) (hk : s.kind = .orthogonal) :
    importState (exportState c (f+1) n) = .ok s := by
  have hinit : s.initial = none := by
    cases hi : s.initial with
    | none => rfl
    | some i => have := (hp.initial i hi).2; rw [hk] at this; exact absurd this (by decide)
  have hmem : s.memory = none := by
    cases hm : s.memory with
    | none => rfl
    | some m => have := (hp.memory m hm).2; rw [hk] at this; exact absurd this (by decide)
  simp only [exportState, hs, hk]
  simp only [show (Kind.orthogonal == Kind.compound) = false from rfl,
    show (Kind.orthogonal == Kind.orthogonal) = true from rfl,
    if_true, List.append_nil, Bool.false_eq_true, if_false]
  generalize hts : (if (Kind.orthogonal.ownsTransitions && !(c.transitionsFrom n).isEmpty) = true then
      [("transitions", Data.list (List.map exportTransition (c.transitionsFrom n)))] else []) = tsPart
  have gts : ∀ k', "transitions" ≠ k' → (Data.map tsPart).get? k' = none := by
    intro k' hk'; rw [← hts]; exact get_if_ne' _ _ _ _ hk'
  generalize hD : Data.map _ = D
  have gName : D.get? "name" = some (.str s.name) := by
    rw [← hD]; simp [get_append, get_cons_ne, get_cons_same, get_single_ne, get_single_same, get_optField_same, get_optField_ne, get_exportContract_ne, gts, get_nil]
  have gEntry : D.get? "on entry" = ((s.onEntry.map (·.src)).filter (· != "")).map Data.str := by
    rw [← hD]; simp [get_append, get_cons_ne, get_cons_same, get_single_ne, get_single_same, get_optField_same, get_optField_ne, get_exportContract_ne, gts, get_nil]
  have gExit : D.get? "on exit" = ((s.onExit.map (·.src)).filter (· != "")).map Data.str := by
    rw [← hD]; simp [get_append, get_cons_ne, get_cons_same, get_single_ne, get_single_same, get_optField_same, get_optField_ne, get_exportContract_ne, gts, get_nil]
  have gType : D.get? "type" = none := by
    rw [← hD]; simp [get_append, get_cons_ne, get_cons_same, get_single_ne, get_single_same, get_optField_same, get_optField_ne, get_exportContract_ne, gts, get_nil]
  have gStates : D.get? "states" = none := by
    rw [← hD]; simp [get_append, get_cons_ne, get_cons_same, get_single_ne, get_single_same, get_optField_same, get_optField_ne, get_exportContract_ne, gts, get_nil]
  have gPar : D.get? "parallel states" = some (.list ((c.childrenFor n).map (exportState c f))) := by
    rw [← hD]; simp [get_append, get_cons_ne, get_cons_same, get_single_ne, get_single_same, get_optField_same, get_optField_ne, get_exportContract_ne, gts, get_nil]
  have hC : importContract D = .ok (s.pre, s.post, s.inv) := by
    rw [← hD]
    have := importContract_export
      ([("name", Data.str s.name)] ++ optField "on entry" (s.onEntry.map (·.src)) ++ optField "on exit" (s.onExit.map (·.src)))
      (tsPart ++ [("parallel states", Data.list (List.map (exportState c f) (c.childrenFor n)))]) s.pre s.post s.inv
      (by simp [get_append, get_cons_ne, get_cons_same, get_single_ne, get_optField_ne] <;> rfl)
      (by simp [get_append, get_cons_ne, get_cons_same, get_single_ne, gts] <;> rfl) hp.pre hp.post hp.inv
    simpa [List.append_assoc] using this
  obtain ⟨m, hm⟩ : ∃ m, D = .map m := ⟨_, hD.symm⟩
  have e1 := stripField_of_get D "on entry" s.onEntry gEntry hp.onEntry
  have e2 := stripField_of_get D "on exit" s.onExit gExit hp.onExit
  have e3 : True := trivial
  have e4 : True := trivial
  have t1 : truthyAt D "states" = false := by simp only [truthyAt, gStates]
  have p1 : presentAt D "states" = false := by simp only [presentAt, gStates]
  have p2 : presentAt D "parallel states" = true := by simp only [presentAt, gPar]
  have t2 : True := trivial
  subst hm
  simp only [importState, gName, e1, e2, t1, t2, p1, p2, importKind, gType, e3, e4, hC]
  simp only [Bool.and_false, Bool.false_and, Bool.and_self, Bool.false_eq_true, if_false, if_true]
  cases s
  simp_all

theorem importState_export_shallow (c : Chart) (f : Nat) (n : Name) (s : StateDef)
    (hs : c.stateFor n = some s) (hn : s.name = n) (hp : s.plain c) (hk : s.kind = .shallow) :
    importState (exportState c (f+1) n) = .ok s := by
  have hinit : s.initial = none := by
    cases hi : s.initial with
    | none => rfl
    | some i => have := (hp.initial i hi).2; rw [hk] at this; exact absurd this (by decide)
  simp only [exportState, hs, hk]
  simp only [show (Kind.shallow == Kind.compound) = false from rfl,
    show (Kind.shallow == Kind.orthogonal) = false from rfl,
    if_true, List.append_nil, Bool.false_eq_true, if_false]
  generalize hts : (if (Kind.shallow.ownsTransitions && !(c.transitionsFrom n).isEmpty) = true then
      [("transitions", Data.list (List.map exportTransition (c.transitionsFrom n)))] else []) = tsPart
  have gts : ∀ k', "transitions" ≠ k' → (Data.map tsPart).get? k' = none := by
    intro k' hk'; rw [← hts]; exact get_if_ne' _ _ _ _ hk'
  generalize hD : Data.map _ = D
  have gName : D.get? "name" = some (.str s.name) := by
    rw [← hD]; simp [get_append, get_cons_ne, get_cons_same, get_single_ne, get_single_same, get_optField_same, get_optField_ne, get_exportContract_ne, gts, get_nil]
  have gEntry : D.get? "on entry" = ((s.onEntry.map (·.src)).filter (· != "")).map Data.str := by
    rw [← hD]; simp [get_append, get_cons_ne, get_cons_same, get_single_ne, get_single_same, get_optField_same, get_optField_ne, get_exportContract_ne, gts, get_nil]
  have gExit : D.get? "on exit" = ((s.onExit.map (·.src)).filter (· != "")).map Data.str := by
    rw [← hD]; simp [get_append, get_cons_ne, get_cons_same, get_single_ne, get_single_same, get_optField_same, get_optField_ne, get_exportContract_ne, gts, get_nil]
  have gMem : D.get? "memory" = (s.memory.filter (· != "")).map Data.str := by
    rw [← hD]; simp [get_append, get_cons_ne, get_cons_same, get_single_ne, get_single_same, get_optField_same, get_optField_ne, get_exportContract_ne, gts, get_nil]
  have gType : D.get? "type" = some (.str "shallow history") := by
    rw [← hD]; simp [get_append, get_cons_ne, get_cons_same, get_single_ne, get_single_same, get_optField_same, get_optField_ne, get_exportContract_ne, gts, get_nil]
  have gStates : D.get? "states" = none := by
    rw [← hD]; simp [get_append, get_cons_ne, get_cons_same, get_single_ne, get_single_same, get_optField_same, get_optField_ne, get_exportContract_ne, gts, get_nil]
  have gPar : D.get? "parallel states" = none := by
    rw [← hD]; simp [get_append, get_cons_ne, get_cons_same, get_single_ne, get_single_same, get_optField_same, get_optField_ne, get_exportContract_ne, gts, get_nil]
  have hC : importContract D = .ok (s.pre, s.post, s.inv) := by
    rw [← hD]
    have := importContract_export
      ([("name", Data.str s.name)] ++ [("type", Data.str "shallow history")] ++ optField "memory" s.memory ++ optField "on entry" (s.onEntry.map (·.src)) ++ optField "on exit" (s.onExit.map (·.src)))
      (tsPart) s.pre s.post s.inv
      (by simp [get_append, get_cons_ne, get_cons_same, get_single_ne, get_optField_ne] <;> rfl)
      (by simp [get_append, get_cons_ne, get_cons_same, get_single_ne, gts] <;> rfl) hp.pre hp.post hp.inv
    simpa [List.append_assoc] using this
  obtain ⟨m, hm⟩ : ∃ m, D = .map m := ⟨_, hD.symm⟩
  have e1 := stripField_of_get D "on entry" s.onEntry gEntry hp.onEntry
  have e2 := stripField_of_get D "on exit" s.onExit gExit hp.onExit
  have e3 : True := trivial
  have e4 := optNameAt_of_get D "memory" s.memory gMem (fun i hi => (hp.memory i hi).1)
  have t1 : truthyAt D "states" = false := by simp only [truthyAt, gStates]
  have t2 : truthyAt D "parallel states" = false := by simp only [truthyAt, gPar]
  have p1 : presentAt D "states" = false := by simp only [presentAt, gStates]
  have p2 : presentAt D "parallel states" = false := by simp only [presentAt, gPar]
  subst hm
  simp only [importState, gName, e1, e2, t1, t2, p1, p2, importKind, gType, e3, e4, hC]
  simp only [Bool.and_false, Bool.false_and, Bool.and_self, Bool.false_eq_true, if_false, if_true]
  cases s
  simp_all

theorem importState_export_deep (c : Chart) (f : Nat) (n : Name) (s : StateDef)
    (hs : c.stateFor n = some s) (hn : s.name = n) (hp : s.plain c) (hk : s.kind = .deep) :
    importState (exportState c (f+1) n) = .ok s := by
  have hinit : s.initial = none := by
    cases hi : s.initial with
    | none => rfl
    | some i => have := (hp.initial i hi).2; rw [hk] at this; exact absurd this (by decide)
  simp only [exportState, hs, hk]
  simp only [show (Kind.deep == Kind.compound) = false from rfl,
    show (Kind.deep == Kind.orthogonal) = false from rfl,
    if_true, List.append_nil, Bool.false_eq_true, if_false]
  generalize hts : (if (Kind.deep.ownsTransitions && !(c.transitionsFrom n).isEmpty) = true then
      [("transitions", Data.list (List.map exportTransition (c.transitionsFrom n)))] else []) = tsPart
  have gts : ∀ k', "transitions" ≠ k' → (Data.map tsPart).get? k' = none := by
    intro k' hk'; rw [← hts]; exact get_if_ne' _ _ _ _ hk'
  generalize hD : Data.map _ = D
  have gName : D.get? "name" = some (.str s.name) := by
    rw [← hD]; simp [get_append, get_cons_ne, get_cons_same, get_single_ne, get_single_same, get_optField_same, get_optField_ne, get_exportContract_ne, gts, get_nil]
  have gEntry : D.get? "on entry" = ((s.onEntry.map (·.src)).filter (· != "")).map Data.str := by
    rw [← hD]; simp [get_append, get_cons_ne, get_cons_same, get_single_ne, get_single_same, get_optField_same, get_optField_ne, get_exportContract_ne, gts, get_nil]
  have gExit : D.get? "on exit" = ((s.onExit.map (·.src)).filter (· != "")).map Data.str := by
    rw [← hD]; simp [get_append, get_cons_ne, get_cons_same, get_single_ne, get_single_same, get_optField_same, get_optField_ne, get_exportContract_ne, gts, get_nil]
  have gMem : D.get? "memory" = (s.memory.filter (· != "")).map Data.str := by
    rw [← hD]; simp [get_append, get_cons_ne, get_cons_same, get_single_ne, get_single_same, get_optField_same, get_optField_ne, get_exportContract_ne, gts, get_nil]
  have gType : D.get? "type" = some (.str "deep history") := by
    rw [← hD]; simp [get_append, get_cons_ne, get_cons_same, get_single_ne, get_single_same, get_optField_same, get_optField_ne, get_exportContract_ne, gts, get_nil]
  have gStates : D.get? "states" = none := by
    rw [← hD]; simp [get_append, get_cons_ne, get_cons_same, get_single_ne, get_single_same, get_optField_same, get_optField_ne, get_exportContract_ne, gts, get_nil]
  have gPar : D.get? "parallel states" = none := by
    rw [← hD]; simp [get_append, get_cons_ne, get_cons_same, get_single_ne, get_single_same, get_optField_same, get_optField_ne, get_exportContract_ne, gts, get_nil]
  have hC : importContract D = .ok (s.pre, s.post, s.inv) := by
    rw [← hD]
    have := importContract_export
      ([("name", Data.str s.name)] ++ [("type", Data.str "deep history")] ++ optField "memory" s.memory ++ optField "on entry" (s.onEntry.map (·.src)) ++ optField "on exit" (s.onExit.map (·.src)))
      (tsPart) s.pre s.post s.inv
      (by simp [get_append, get_cons_ne, get_cons_same, get_single_ne, get_optField_ne] <;> rfl)
      (by simp [get_append, get_cons_ne, get_cons_same, get_single_ne, gts] <;> rfl) hp.pre hp.post hp.inv
    simpa [List.append_assoc] using this
  obtain ⟨m, hm⟩ : ∃ m, D = .map m := ⟨_, hD.symm⟩
  have e1 := stripField_of_get D "on entry" s.onEntry gEntry hp.onEntry
  have e2 := stripField_of_get D "on exit" s.onExit gExit hp.onExit
  have e3 : True := trivial
  have e4 := optNameAt_of_get D "memory" s.memory gMem (fun i hi => (hp.memory i hi).1)
  have t1 : truthyAt D "states" = false := by simp only [truthyAt, gStates]
  have t2 : truthyAt D "parallel states" = false := by simp only [truthyAt, gPar]
  have p1 : presentAt D "states" = false := by simp only [presentAt, gStates]
  have p2 : presentAt D "parallel states" = false := by simp only [presentAt, gPar]
  subst hm
  simp only [importState, gName, e1, e2, t1, t2, p1, p2, importKind, gType, e3, e4, hC]
  simp only [Bool.and_false, Bool.false_and, Bool.and_self, Bool.false_eq_true, if_false, if_true]
  cases s
  simp_all

theorem importState_export_final (c : Chart) (f : Nat) (n : Name) (s : StateDef)
    (hs : c.stateFor n = some s) (hn : s.name = n) (hp : s.plain c) (hk : s.kind = .final) :
    importState (exportState c (f+1) n) = .ok s := by
  have hinit : s.initial = none := by
    cases hi : s.initial with
    | none => rfl
    | some i => have := (hp.initial i hi).2; rw [hk] at this; exact absurd this (by decide)
  have hmem : s.memory = none := by
    cases hm : s.memory with
    | none => rfl
    | some m => have := (hp.memory m hm).2; rw [hk] at this; exact absurd this (by decide)
  simp only [exportState, hs, hk]
  simp only [show (Kind.final == Kind.compound) = false from rfl,
    show (Kind.final == Kind.orthogonal) = false from rfl,
    if_true, List.append_nil, Bool.false_eq_true, if_false]
  generalize hts : (if (Kind.final.ownsTransitions && !(c.transitionsFrom n).isEmpty) = true then
      [("transitions", Data.list (List.map exportTransition (c.transitionsFrom n)))] else []) = tsPart
  have gts : ∀ k', "transitions" ≠ k' → (Data.map tsPart).get? k' = none := by
    intro k' hk'; rw [← hts]; exact get_if_ne' _ _ _ _ hk'
  generalize hD : Data.map _ = D
  have gName : D.get? "name" = some (.str s.name) := by
    rw [← hD]; simp [get_append, get_cons_ne, get_cons_same, get_single_ne, get_single_same, get_optField_same, get_optField_ne, get_exportContract_ne, gts, get_nil]
  have gEntry : D.get? "on entry" = ((s.onEntry.map (·.src)).filter (· != "")).map Data.str := by
    rw [← hD]; simp [get_append, get_cons_ne, get_cons_same, get_single_ne, get_single_same, get_optField_same, get_optField_ne, get_exportContract_ne, gts, get_nil]
  have gExit : D.get? "on exit" = ((s.onExit.map (·.src)).filter (· != "")).map Data.str := by
    rw [← hD]; simp [get_append, get_cons_ne, get_cons_same, get_single_ne, get_single_same, get_optField_same, get_optField_ne, get_exportContract_ne, gts, get_nil]
  have gType : D.get? "type" = some (.str "final") := by
    rw [← hD]; simp [get_append, get_cons_ne, get_cons_same, get_single_ne, get_single_same, get_optField_same, get_optField_ne, get_exportContract_ne, gts, get_nil]
  have gStates : D.get? "states" = none := by
    rw [← hD]; simp [get_append, get_cons_ne, get_cons_same, get_single_ne, get_single_same, get_optField_same, get_optField_ne, get_exportContract_ne, gts, get_nil]
  have gPar : D.get? "parallel states" = none := by
    rw [← hD]; simp [get_append, get_cons_ne, get_cons_same, get_single_ne, get_single_same, get_optField_same, get_optField_ne, get_exportContract_ne, gts, get_nil]
  have hC : importContract D = .ok (s.pre, s.post, s.inv) := by
    rw [← hD]
    have := importContract_export
      ([("name", Data.str s.name)] ++ [("type", Data.str "final")] ++ optField "on entry" (s.onEntry.map (·.src)) ++ optField "on exit" (s.onExit.map (·.src)))
      (tsPart) s.pre s.post s.inv
      (by simp [get_append, get_cons_ne, get_cons_same, get_single_ne, get_optField_ne] <;> rfl)
      (by simp [get_append, get_cons_ne, get_cons_same, get_single_ne, gts] <;> rfl) hp.pre hp.post hp.inv
    simpa [List.append_assoc] using this
  obtain ⟨m, hm⟩ : ∃ m, D = .map m := ⟨_, hD.symm⟩
  have e1 := stripField_of_get D "on entry" s.onEntry gEntry hp.onEntry
  have e2 := stripField_of_get D "on exit" s.onExit gExit hp.onExit
  have e3 : True := trivial
  have e4 : True := trivial
  have t1 : truthyAt D "states" = false := by simp only [truthyAt, gStates]
  have t2 : truthyAt D "parallel states" = false := by simp only [truthyAt, gPar]
  have p1 : presentAt D "states" = false := by simp only [presentAt, gStates]
  have p2 : presentAt D "parallel states" = false := by simp only [presentAt, gPar]
  subst hm
  simp only [importState, gName, e1, e2, t1, t2, p1, p2, importKind, gType, e3, e4, hC]
  simp only [Bool.and_false, Bool.false_and, Bool.and_self, Bool.false_eq_true, if_false, if_true]
  cases s
  simp_all


/-- **A state survives export followed by import**: name, kind, entry/exit code, initial, memory
    and contracts (its transitions and children are exported next to it and imported by the work
    list of `import_from_dict`). -/
theorem importState_export (c : Chart) (f : Nat) (n : Name) (s : StateDef)
    (hs : c.stateFor n = some s) (hn : s.name = n) (hp : s.plain c) :
    importState (exportState c (f+1) n) = .ok s := by
  cases hk : s.kind with
  | basic => exact importState_export_basic c f n s hs hn hp hk
  | compound => exact importState_export_compound c f n s hs hn hp hk
  | orthogonal => exact importState_export_orthogonal c f n s hs hn hp hk
  | shallow => exact importState_export_shallow c f n s hs hn hp hk
  | deep => exact importState_export_deep c f n s hs hn hp hk
  | final => exact importState_export_final c f n s hs hn hp hk

end Sismic
