import Sismic.Model.Clock
import Mathlib.Algebra.Order.Ring.Defs
import Mathlib.Tactic.Linarith
import Mathlib.Tactic.Ring
/-!
# Sismic.Proofs.Clock — laws of `SimulatedClock` over any linearly ordered commutative ring
-/
namespace Sismic
namespace SimClock

variable {α : Type} [CommRing α] [LinearOrder α] [IsStrictOrderedRing α]

/-- the clock was last re-based at or before real time `r`, and its speed is not negative -/
def Inv (c : SimClock α) (r : α) : Prop := c.base ≤ r ∧ 0 ≤ c.speed

theorem now_mono (c : SimClock α) {r r' : α} (h : 0 ≤ c.speed) (hr : r ≤ r') : c.now r ≤ c.now r' := by
  unfold now elapsed
  split
  · have : (r - c.base) * c.speed ≤ (r' - c.base) * c.speed :=
      mul_le_mul_of_nonneg_right (by linarith) h
    linarith
  · exact le_refl _

theorem now_stopped (c : SimClock α) (h : c.play = false) (r r' : α) : c.now r = c.now r' := by
  simp [now, elapsed, h]

theorem now_rate (c : SimClock α) (h : c.play = true) (r r' : α) :
    c.now r' - c.now r = c.speed * (r' - r) := by
  simp only [now, elapsed, h, if_true]; ring

theorem now_rebased (c : SimClock α) (t b : α) :
    ({ c with time := t, base := b } : SimClock α).now b = t := by
  cases hp : c.play <;> simp [now, elapsed, hp]

/-- real-time readings an operation consumes, in order -/
def readings : ClockOp α → List α
  | .start r => [r]
  | .stop r => [r]
  | .setSpeed r₁ r₂ _ => [r₁, r₂]
  | .setTime r₁ r₂ _ => [r₁, r₂]
  | .read r => [r]

def speedOK : ClockOp α → Prop
  | .setSpeed _ _ s => 0 ≤ s
  | _ => True

/-- the readings of `op` are non-decreasing, start at or after `r` and end at `r'` -/
def Chrono (r : α) (op : ClockOp α) (r' : α) : Prop :=
  match op with
  | .start a => r ≤ a ∧ r' = a
  | .stop a => r ≤ a ∧ r' = a
  | .setSpeed a b _ => r ≤ a ∧ a ≤ b ∧ r' = b
  | .setTime a b _ => r ≤ a ∧ a ≤ b ∧ r' = b
  | .read a => r ≤ a ∧ r' = a

/-- one operation: the invariant is kept and the clock does not go backwards -/
theorem step_mono (c : SimClock α) (op : ClockOp α) (r r' : α) (hI : Inv c r) (hs : speedOK op)
    (hc : Chrono r op r') :
    Inv (c.step op).1 r' ∧ c.now r ≤ (c.step op).1.now r' := by
  obtain ⟨hb, hsp⟩ := hI
  cases op with
  | start a =>
    obtain ⟨h1, rfl⟩ := hc
    unfold step start
    cases hp : c.play with
    | false =>
      simp only [Bool.not_false, if_true]
      refine ⟨⟨le_refl _, hsp⟩, ?_⟩
      simp [now, elapsed, hp]
    | true =>
      simp only [Bool.not_true, Bool.false_eq_true, if_false]
      exact ⟨⟨le_trans hb h1, hsp⟩, now_mono c hsp h1⟩
  | stop a =>
    obtain ⟨h1, rfl⟩ := hc
    unfold step stop
    cases hp : c.play with
    | false =>
      simp only [Bool.false_eq_true, if_false]
      exact ⟨⟨le_trans hb h1, hsp⟩, now_mono c hsp h1⟩
    | true =>
      simp only [if_true]
      refine ⟨⟨le_trans hb h1, hsp⟩, ?_⟩
      have := now_mono c hsp h1
      simpa [now, elapsed, hp] using this
  | setSpeed a b s =>
    obtain ⟨h1, h2, rfl⟩ := hc
    unfold step setSpeed
    refine ⟨⟨le_refl _, hs⟩, ?_⟩
    have := now_mono c hsp h1
    cases hp : c.play <;> simpa [now, elapsed, hp] using this
  | setTime a b t =>
    obtain ⟨h1, h2, rfl⟩ := hc
    unfold step setTime
    by_cases ht : t < c.now a
    · simp only [ht, if_true]
      exact ⟨⟨le_trans hb (le_trans h1 h2), hsp⟩, now_mono c hsp (le_trans h1 h2)⟩
    · simp only [ht, if_false]
      refine ⟨⟨le_refl _, hsp⟩, ?_⟩
      have h3 := now_mono c hsp h1
      have h4 : c.now a ≤ t := not_lt.mp ht
      rw [now_rebased]
      exact le_trans h3 h4
  | read a =>
    obtain ⟨h1, rfl⟩ := hc
    exact ⟨⟨le_trans hb h1, hsp⟩, now_mono c hsp h1⟩

/-- a script whose readings are non-decreasing from `r` on -/
def ChronoList : α → List (ClockOp α) → Prop
  | _, [] => True
  | r, op :: ops => ∃ r', Chrono r op r' ∧ speedOK op ∧ ChronoList r' ops

def values : List (ClockOut α) → List α
  | [] => []
  | .value v :: os => v :: values os
  | _ :: os => values os

theorem step_value (c : SimClock α) (op : ClockOp α) (r r' : α) (hI : Inv c r) (hc : Chrono r op r')
    (v : α) (hv : (c.step op).2 = .value v) : c.now r ≤ v ∧ v = (c.step op).1.now r' := by
  cases op with
  | read a =>
    obtain ⟨h1, rfl⟩ := hc
    simp only [step, ClockOut.value.injEq] at hv
    subst hv
    exact ⟨now_mono c hI.2 h1, rfl⟩
  | start a => simp [step] at hv
  | stop a => simp [step] at hv
  | setSpeed a b s => simp [step] at hv
  | setTime a b t =>
    simp only [step] at hv
    split at hv <;> simp at hv

/-- **monotonicity over whole scripts**: every value read is at least `lo`, and they never decrease -/
theorem run_mono : ∀ (ops : List (ClockOp α)) (c : SimClock α) (r lo : α), Inv c r → lo ≤ c.now r →
    ChronoList r ops →
    (∀ v ∈ values (c.run ops).2, lo ≤ v) ∧ (values (c.run ops).2).Pairwise (· ≤ ·) := by
  intro ops
  induction ops with
  | nil => intro c r lo _ _ _; simp [run, values]
  | cons op ops ih =>
    intro c r lo hI hlo hch
    obtain ⟨r', hc, hs, hrest⟩ := hch
    obtain ⟨hI', hm⟩ := step_mono c op r r' hI hs hc
    have ih' := ih (c.step op).1 r' (c.now r) hI' hm hrest
    simp only [run]
    cases ho : (c.step op).2 with
    | value v =>
      obtain ⟨h1, h2⟩ := step_value c op r r' hI hc v ho
      have ih2 := ih (c.step op).1 r' v hI' (le_of_eq h2) hrest
      simp only [values, List.mem_cons, List.pairwise_cons]
      refine ⟨?_, ih2.1, ih2.2⟩
      rintro w (rfl | hw)
      · exact le_trans hlo h1
      · exact le_trans (le_trans hlo h1) (ih2.1 w hw)
    | none =>
      simp only [values]
      exact ⟨fun v hv => le_trans hlo (ih'.1 v hv), ih'.2⟩
    | accepted b =>
      simp only [values]
      exact ⟨fun v hv => le_trans hlo (ih'.1 v hv), ih'.2⟩

theorem setTime_exact (c : SimClock α) (r₁ r₂ t : α) (c' : SimClock α)
    (h : c.setTime r₁ r₂ t = some c') : c'.now r₂ = t := by
  unfold setTime at h
  split at h
  · cases h
  · cases h
    exact now_rebased c t r₂

theorem setTime_reject (c : SimClock α) (r₁ r₂ t : α) :
    c.setTime r₁ r₂ t = none ↔ t < c.now r₁ := by
  unfold setTime
  split <;> simp_all

end SimClock
end Sismic
