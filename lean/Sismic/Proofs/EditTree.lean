import Sismic.Proofs.Rename
/-!
# Sismic.Proofs.EditTree — the editing operations keep the three dictionaries consistent (`Tidy`)
-/
namespace Sismic
open Chart

def addedChart (c : Chart) (s : StateDef) (p : Option Name) : Chart :=
  { c with states := c.states ++ [s], parent := c.parent ++ [(s.name, p)],
           children := assocModify p (· ++ [s.name]) (c.children ++ [(some s.name, [])]) }

theorem addState_root_fields (c : Chart) (s : StateDef) (h : (c.addState s none).1 = .ok ()) :
    c.hasState s.name = false ∧ c.root = none ∧ s.kind.isHistory = false ∧
    (c.addState s none).2 = addedChart c s none := by
  unfold addState at h ⊢
  split
  · next h1 => simp [h1] at h
  · next h1 =>
    refine ⟨by simpa using h1, ?_⟩
    simp only [h1, Bool.false_eq_true, if_false] at h ⊢
    split
    · next h2 => simp [h2] at h
    · next h2 =>
      split
      · next h3 => simp [h2, h3] at h
      · next h3 =>
        refine ⟨?_, by simpa using h3, rfl⟩
        cases hr : c.root with
        | none => rfl
        | some r => rw [hr] at h2; simp at h2

theorem addState_child_fields (c : Chart) (s : StateDef) (par : Name) (h : (c.addState s (some par)).1 = .ok ()) :
    c.hasState s.name = false ∧
    (∃ ps, c.stateFor par = some ps ∧ ps.kind.isComposite = true ∧ (s.kind.isHistory = true → ps.kind = .compound)) ∧
    (c.addState s (some par)).2 = addedChart c s (some par) := by
  unfold addState at h ⊢
  split
  · next h1 => simp [h1] at h
  · next h1 =>
    refine ⟨by simpa using h1, ?_⟩
    simp only [h1, Bool.false_eq_true, if_false] at h ⊢
    split
    · next h2 => simp [h2] at h
    · next ps h2 =>
      split
      · next h3 => simp [h2, h3] at h
      · next h3 =>
        split
        · next h4 => simp [h2, h3, h4] at h
        · next h4 =>
          refine ⟨⟨ps, h2, by simpa using h3, ?_⟩, rfl⟩
          intro hh
          simp only [hh, Bool.true_and, bne_iff_ne, ne_eq, Decidable.not_not] at h4
          exact h4

/-! ### lookups in the chart with one more state -/

theorem hasState_iff_mem (c : Chart) (n : Name) : c.hasState n = true ↔ n ∈ c.states.map (·.name) := by
  simp only [Chart.hasState, Chart.stateFor, Option.isSome_iff_exists]
  constructor
  · rintro ⟨sd, hsd⟩
    exact List.mem_map.mpr ⟨sd, List.mem_of_find?_eq_some hsd, by simpa using List.find?_some hsd⟩
  · intro hm
    obtain ⟨sd, hsd, e⟩ := List.mem_map.mp hm
    cases hf : c.states.find? (fun s => s.name == n) with
    | some x => exact ⟨x, rfl⟩
    | none =>
      rw [List.find?_eq_none] at hf
      exact absurd (by simpa using e) (hf sd hsd)

theorem parentFor_of_not_key (c : Chart) (n : Name) (h : n ∉ c.parent.map (·.1)) : c.parentFor n = none := by
  unfold Chart.parentFor
  rw [find?_none_of_not_key n c.parent h]

theorem childrenFor_of_not_key (c : Chart) (n : Name) (h : some n ∉ c.children.map (·.1)) : c.childrenFor n = [] := by
  unfold Chart.childrenFor
  rw [find?_none_of_not_key (some n) c.children h]

theorem key_of_parentFor (c : Chart) (n q : Name) (h : c.parentFor n = some q) : n ∈ c.parent.map (·.1) := by
  by_cases hk : n ∈ c.parent.map (·.1)
  · exact hk
  · rw [parentFor_of_not_key c n hk] at h; cases h

theorem key_of_child (c : Chart) (q ch : Name) (h : ch ∈ c.childrenFor q) : some q ∈ c.children.map (·.1) := by
  by_cases hk : some q ∈ c.children.map (·.1)
  · exact hk
  · rw [childrenFor_of_not_key c q hk] at h; cases h

section Added
variable (c : Chart) (s : StateDef) (p : Option Name) (ht : Tidy c) (hfresh : c.hasState s.name = false)
include ht hfresh

theorem added_fresh_keys : s.name ∉ c.states.map (·.name) ∧ s.name ∉ c.parent.map (·.1) ∧
    some s.name ∉ c.children.map (·.1) := by
  refine ⟨fun h => ?_, fun h => ?_, fun h => ?_⟩
  · have := (hasState_iff_mem c s.name).mpr h; rw [hfresh] at this; cases this
  · have := ht.parentKeysStates _ h; rw [hfresh] at this; cases this
  · have := ht.childKeysStates _ h; rw [hfresh] at this; cases this

theorem added_hasState (n : Name) : (addedChart c s p).hasState n = (c.hasState n || n == s.name) := by
  rw [Bool.eq_iff_iff, hasState_iff_mem, Bool.or_eq_true, hasState_iff_mem]
  simp only [addedChart, List.map_append, List.map_cons, List.map_nil, List.mem_append, List.mem_singleton,
    beq_iff_eq]

theorem added_parentFor (n : Name) :
    (addedChart c s p).parentFor n = if n = s.name then p else c.parentFor n := by
  obtain ⟨_, hk, _⟩ := added_fresh_keys c s ht hfresh
  unfold Chart.parentFor addedChart
  simp only [List.find?_append]
  by_cases hn : n = s.name
  · subst hn
    rw [find?_none_of_not_key s.name c.parent hk]
    simp
  · simp only [hn, if_false]
    cases hf : c.parent.find? (fun p => p.1 == n) with
    | some e => simp
    | none =>
      have : (s.name == n) = false := by simp [Ne.symm hn]
      simp [List.find?_cons, this]

theorem added_childrenFor (n : Name) (hp : ∀ par, p = some par → c.hasState par = true) :
    (addedChart c s p).childrenFor n =
      if p = some n then c.childrenFor n ++ [s.name] else if n = s.name then [] else c.childrenFor n := by
  obtain ⟨_, _, hk⟩ := added_fresh_keys c s ht hfresh
  unfold Chart.childrenFor addedChart
  simp only
  have base : ∀ k : Option Name, (c.children ++ [(some s.name, ([] : List Name))]).find? (fun e => e.1 == k) =
      if k = some s.name then some (some s.name, []) else c.children.find? (fun e => e.1 == k) := by
    intro k
    rw [List.find?_append]
    by_cases hks : k = some s.name
    · subst hks
      rw [find?_none_of_not_key _ c.children hk]
      simp
    · simp only [hks, if_false]
      cases hf : c.children.find? (fun e => e.1 == k) with
      | some e => simp
      | none =>
        have : ((some s.name : Option Name) == k) = false := by simp [Ne.symm hks]
        simp [List.find?_cons, this]
  by_cases hpn : p = some n
  · subst hpn
    have hsn : c.hasState n = true := hp n rfl
    have hne : n ≠ s.name := fun e => by rw [e, hfresh] at hsn; cases hsn
    have hne' : (some n : Option Name) ≠ some s.name := fun e => hne (Option.some.inj e)
    rw [find?_assocModify_same, base]
    simp only [hne', if_false, if_true]
    have hkey := ht.statesHaveChildEntry n hsn
    cases hf : c.children.find? (fun e => e.1 == some n) with
    | some e => simp
    | none =>
      exfalso
      rw [List.find?_eq_none] at hf
      obtain ⟨e, he, hk'⟩ := List.mem_map.mp hkey
      exact hf e he (by simp [hk'])
  · have hpn' : (some n : Option Name) ≠ p := fun e => hpn e.symm
    rw [find?_assocModify_ne p (some n) _ hpn', base]
    simp only [hpn, if_false]
    by_cases hn : n = s.name
    · simp [hn]
    · have : (some n : Option Name) ≠ some s.name := fun e => hn (Option.some.inj e)
      simp only [this, hn, if_false]

end Added

theorem root_none_iff (c : Chart) : c.root = none ↔ ∀ e ∈ c.parent, e.2 ≠ none := by
  unfold Chart.root
  constructor
  · intro h e he hn
    cases hf : c.parent.find? (fun p => p.2 == none) with
    | some x => rw [hf] at h; cases h
    | none =>
      rw [List.find?_eq_none] at hf
      exact hf e he (by simp [hn])
  · intro h
    cases hf : c.parent.find? (fun p => p.2 == none) with
    | none => rfl
    | some x =>
      exfalso
      have := List.find?_some hf
      exact h x (List.mem_of_find?_eq_some hf) (by simpa using this)

/-- **`add_state` keeps the three dictionaries consistent.** -/
theorem addedChart_tidy (c : Chart) (s : StateDef) (p : Option Name) (ht : Tidy c) (hfresh : c.hasState s.name = false)
    (hroot : p = none → c.root = none) (hp : ∀ par, p = some par → c.hasState par = true) :
    Tidy (addedChart c s p) := by
  obtain ⟨hk1, hk2, hk3⟩ := added_fresh_keys c s ht hfresh
  have HS := added_hasState c s p ht hfresh
  have PF := added_parentFor c s p ht hfresh
  have CF := fun n => added_childrenFor c s p ht hfresh n hp
  have hpne : ∀ par, p = some par → par ≠ s.name := fun par e e' => by
    have := hp par e; rw [e', hfresh] at this; cases this
  -- a parent in `c` that has children is a state, hence not the new name
  have parent_state : ∀ q ch, c.parentFor ch = some q → q ≠ s.name ∧ ch ≠ s.name := by
    intro q ch h
    have hch : ch ∈ c.childrenFor q := (ht.childParent q ch).mpr h
    have hq := ht.childKeysStates q (key_of_child c q ch hch)
    have hc := ht.parentKeysStates ch (key_of_parentFor c ch q h)
    refine ⟨?_, ?_⟩
    · intro e; rw [e, hfresh] at hq; cases hq
    · intro e; rw [e, hfresh] at hc; cases hc
  refine ⟨?_, ?_, ?_, ?_, ?_, ?_, ?_, ?_, ?_, ?_, ?_⟩
  · -- names
    show ((c.states ++ [s]).map (·.name)).Nodup
    rw [List.map_append]
    refine List.nodup_append.mpr ⟨ht.names, by simp, ?_⟩
    intro a ha b hb
    simp only [List.map_cons, List.map_nil, List.mem_singleton] at hb
    subst hb
    exact fun e => hk1 (e ▸ ha)
  · show ((c.parent ++ [(s.name, p)]).map (·.1)).Nodup
    rw [List.map_append]
    refine List.nodup_append.mpr ⟨ht.parentKeys, by simp, ?_⟩
    intro a ha b hb
    simp only [List.map_cons, List.map_nil, List.mem_singleton] at hb
    subst hb
    exact fun e => hk2 (e ▸ ha)
  · show ((assocModify p (· ++ [s.name]) (c.children ++ [(some s.name, [])])).map (·.1)).Nodup
    rw [keys_assocModify, List.map_append]
    refine List.nodup_append.mpr ⟨ht.childKeys, by simp, ?_⟩
    intro a ha b hb
    simp only [List.map_cons, List.map_nil, List.mem_singleton] at hb
    subst hb
    exact fun e => hk3 (e ▸ ha)
  · -- parent keys are states
    intro k hk
    rw [HS]
    have : k ∈ (c.parent ++ [(s.name, p)]).map (·.1) := hk
    rw [List.map_append, List.mem_append] at this
    rcases this with h | h
    · rw [ht.parentKeysStates k h]; rfl
    · simp only [List.map_cons, List.map_nil, List.mem_singleton] at h
      simp [h]
  · intro k hk
    rw [HS, Bool.or_eq_true] at hk
    show k ∈ (c.parent ++ [(s.name, p)]).map (·.1)
    rw [List.map_append, List.mem_append]
    rcases hk with h | h
    · exact Or.inl (ht.statesHaveEntry k h)
    · right; simp [beq_iff_eq.mp h]
  · intro k hk
    rw [HS]
    have : some k ∈ (assocModify p (· ++ [s.name]) (c.children ++ [(some s.name, [])])).map (·.1) := hk
    rw [keys_assocModify, List.map_append, List.mem_append] at this
    rcases this with h | h
    · rw [ht.childKeysStates k h]; rfl
    · simp only [List.map_cons, List.map_nil, List.mem_singleton, Option.some.injEq] at h
      simp [h]
  · intro k hk
    rw [HS, Bool.or_eq_true] at hk
    show some k ∈ (assocModify p (· ++ [s.name]) (c.children ++ [(some s.name, [])])).map (·.1)
    rw [keys_assocModify, List.map_append, List.mem_append]
    rcases hk with h | h
    · exact Or.inl (ht.statesHaveChildEntry k h)
    · right; simp [beq_iff_eq.mp h]
  · -- one root
    intro e he e' he' h1 h2
    have he0 : e ∈ c.parent ++ [(s.name, p)] := he
    have he0' : e' ∈ c.parent ++ [(s.name, p)] := he'
    rw [List.mem_append, List.mem_singleton] at he0 he0'
    cases hpc : p with
    | some par =>
      have old : ∀ x, (x ∈ c.parent ∨ x = (s.name, p)) → x.2 = none → x ∈ c.parent := by
        intro x hx hn
        rcases hx with h | h
        · exact h
        · rw [h, hpc] at hn; cases hn
      exact ht.oneRoot e (old e he0 h1) e' (old e' he0' h2) h1 h2
    | none =>
      have hnone := (root_none_iff c).mp (hroot hpc)
      have new : ∀ x, (x ∈ c.parent ∨ x = (s.name, p)) → x.2 = none → x = (s.name, p) := by
        intro x hx hn
        rcases hx with h | h
        · exact absurd hn (hnone x h)
        · exact h
      rw [new e he0 h1, new e' he0' h2]
  · -- children ↔ parent
    intro q ch
    rw [CF q, PF ch]
    constructor
    · intro hm
      by_cases hpq : p = some q
      · simp only [hpq, if_true] at hm ⊢
        rcases List.mem_append.mp hm with h | h
        · have := (ht.childParent q ch).mp h
          have hne := (parent_state q ch this).2
          simp [hne, this]
        · simp [List.mem_singleton.mp h]
      · simp only [hpq, if_false] at hm
        by_cases hq : q = s.name
        · simp [hq] at hm
        · simp only [hq, if_false] at hm
          have := (ht.childParent q ch).mp hm
          have hne := (parent_state q ch this).2
          simp [hne, this]
    · intro hpar
      by_cases hch : ch = s.name
      · simp only [hch, if_true] at hpar
        simp [hpar, hch]
      · simp only [hch, if_false] at hpar
        have hm := (ht.childParent q ch).mpr hpar
        have hq := (parent_state q ch hpar).1
        by_cases hpq : p = some q
        · simp [hpq, hm]
        · simp [hpq, hq, hm]
  · -- no repetition among children
    intro q
    rw [CF q]
    by_cases hpq : p = some q
    · simp only [hpq, if_true]
      refine List.nodup_append.mpr ⟨ht.childrenNodup q, by simp, ?_⟩
      intro a ha b hb
      rw [List.mem_singleton] at hb
      subst hb
      intro e
      have := (ht.childParent q a).mp ha
      exact (parent_state q a this).2 e
    · simp only [hpq, if_false]
      by_cases hq : q = s.name
      · simp [hq]
      · simp only [hq, if_false]; exact ht.childrenNodup q
  · intro n
    rw [PF n]
    by_cases hn : n = s.name
    · simp only [hn, if_true]
      intro e
      exact hpne s.name e rfl
    · simp only [hn, if_false]
      exact ht.noSelf n

/-- **A successful `add_state` keeps the dictionaries consistent.** -/
theorem addState_tidy (c : Chart) (s : StateDef) (p : Option Name) (ht : Tidy c) (h : (c.addState s p).1 = .ok ()) :
    Tidy (c.addState s p).2 := by
  cases p with
  | none =>
    obtain ⟨hf, hr, _, he⟩ := addState_root_fields c s h
    rw [he]
    exact addedChart_tidy c s none ht hf (fun _ => hr) (fun par e => by cases e)
  | some par =>
    obtain ⟨hf, ⟨ps, hps, _, _⟩, he⟩ := addState_child_fields c s par h
    rw [he]
    refine addedChart_tidy c s (some par) ht hf (fun e => by cases e) ?_
    intro q e
    cases e
    simp [Chart.hasState, hps]

/-! ### `move_state` -/

theorem moveState_fields (c : Chart) (a b : Name) (h : (c.moveState a b).1 = .ok ()) :
    c.hasState a = true ∧ c.hasState b = true ∧ b ≠ a ∧
    (c.moveState a b).2.parent = Chart.moveState.assocSetP a (some b) c.parent ∧
    (c.moveState a b).2.children =
      assocModify (some b) (· ++ [a]) (assocModify (c.parentFor a) (fun l => l.erase a) c.children) := by
  generalize hr : c.moveState a b = r at h ⊢
  unfold moveState at hr
  split at hr
  · subst hr; simp at h
  · next st hst =>
    split at hr
    · subst hr; simp at h
    · next hb =>
      split at hr
      · subst hr; simp at h
      · next hd =>
        subst hr
        refine ⟨by simp [Chart.hasState, hst], by simpa using hb, ?_, rfl, rfl⟩
        intro e
        apply hd
        simp [e]

theorem keys_assocSetP (k : Name) (v : Option Name) : ∀ (l : List (Name × Option Name)), k ∈ l.map (·.1) →
    (Chart.moveState.assocSetP k v l).map (·.1) = l.map (·.1)
  | [], h => by cases h
  | (k', v') :: r, h => by
    unfold Chart.moveState.assocSetP
    by_cases hk : k' = k
    · simp [hk]
    · have h1 : (k' == k) = false := by simp [hk]
      simp only [h1, Bool.false_eq_true, if_false, List.map_cons]
      rw [keys_assocSetP k v r]
      simp only [List.map_cons, List.mem_cons] at h
      rcases h with e | e
      · exact absurd e.symm hk
      · exact e

theorem find?_assocSetP (k : Name) (v : Option Name) (n : Name) : ∀ (l : List (Name × Option Name)), k ∈ l.map (·.1) →
    (Chart.moveState.assocSetP k v l).find? (fun p => p.1 == n) =
      if n = k then some (k, v) else l.find? (fun p => p.1 == n)
  | [], h => by cases h
  | (k', v') :: r, h => by
    unfold Chart.moveState.assocSetP
    by_cases hk : k' = k
    · have h1 : (k' == k) = true := by simp [hk]
      simp only [h1, if_true, List.find?_cons]
      by_cases hn : n = k
      · simp [hn]
      · have h2 : (k == n) = false := by simp [Ne.symm hn]
        have h3 : (k' == n) = false := by simp [hk, Ne.symm hn]
        simp [hn, h2, h3]
    · have h1 : (k' == k) = false := by simp [hk]
      have hr : k ∈ r.map (·.1) := by
        simp only [List.map_cons, List.mem_cons] at h
        rcases h with e | e
        · exact absurd e.symm hk
        · exact e
      simp only [h1, Bool.false_eq_true, if_false, List.find?_cons]
      by_cases hn : n = k
      · have h3 : (k' == n) = false := by simp [hn, hk]
        simp only [h3]
        rw [find?_assocSetP k v n r hr]
      · split
        · simp [hn]
        · rw [find?_assocSetP k v n r hr]

theorem mem_entry_of_perm_parent {c : Chart} {e : Name × Option Name}
    (hk : (c.parent.map (·.1)).Nodup) (he : e ∈ c.parent) : c.parentFor e.1 = e.2 := by
  unfold Chart.parentFor
  have : ∀ (l : List (Name × Option Name)), (l.map (·.1)).Nodup → e ∈ l → l.find? (fun p => p.1 == e.1) = some e := by
    intro l
    induction l with
    | nil => intro _ h; cases h
    | cons y ys ih =>
      intro hn hm
      rw [List.map_cons] at hn
      obtain ⟨hy, hn'⟩ := List.nodup_cons.mp hn
      simp only [List.find?_cons]
      rcases List.mem_cons.mp hm with e1 | e1
      · subst e1; simp
      · have : y.1 ≠ e.1 := fun e' => hy (List.mem_map.mpr ⟨e, e1, e'.symm⟩)
        have h1 : (y.1 == e.1) = false := by simp [this]
        simp only [h1]
        exact ih hn' e1
  rw [this c.parent hk he]

/-- **`move_state` keeps the three dictionaries consistent.** -/
theorem moveState_tidy (c : Chart) (a b : Name) (ht : Tidy c) (h : (c.moveState a b).1 = .ok ()) :
    Tidy (c.moveState a b).2 := by
  obtain ⟨hha, hhb, hba, hpar, hch⟩ := moveState_fields c a b h
  obtain ⟨_, hnames, _⟩ := moveState_effect c a b h
  have hakey : a ∈ c.parent.map (·.1) := ht.statesHaveEntry a hha
  -- lookups in the result
  have HS : ∀ n, (c.moveState a b).2.hasState n = c.hasState n := by
    intro n
    rw [Bool.eq_iff_iff, hasState_iff_mem, hasState_iff_mem, hnames]
  have PF : ∀ n, (c.moveState a b).2.parentFor n = if n = a then some b else c.parentFor n := by
    intro n
    unfold Chart.parentFor
    rw [hpar, find?_assocSetP a (some b) n c.parent hakey]
    by_cases hn : n = a
    · simp [hn]
    · simp [hn]
  have CF : ∀ q, (c.moveState a b).2.childrenFor q =
      (if q = b then (if c.parentFor a = some q then (c.childrenFor q).erase a else c.childrenFor q) ++ [a]
       else if c.parentFor a = some q then (c.childrenFor q).erase a else c.childrenFor q) := by
    intro q
    have inner : (assocModify (c.parentFor a) (fun l => l.erase a) c.children).find? (fun e => e.1 == some q) =
        if c.parentFor a = some q then (c.children.find? (fun e => e.1 == some q)).map (fun e => (e.1, e.2.erase a))
        else c.children.find? (fun e => e.1 == some q) := by
      by_cases hp : c.parentFor a = some q
      · rw [hp]; simp only [if_true]; exact find?_assocModify_same _ _ _
      · simp only [hp, if_false]
        exact find?_assocModify_ne _ _ _ (fun e => hp e.symm) _
    unfold Chart.childrenFor
    rw [hch]
    by_cases hq : q = b
    · subst hq
      rw [find?_assocModify_same, inner]
      simp only [if_true]
      have hkey := ht.statesHaveChildEntry q hhb
      cases hf : c.children.find? (fun e => e.1 == some q) with
      | none =>
        exfalso
        rw [List.find?_eq_none] at hf
        obtain ⟨e, he, hk'⟩ := List.mem_map.mp hkey
        exact hf e he (by simp [hk'])
      | some e => by_cases hp : c.parentFor a = some q <;> simp [hp]
    · have hq' : (some q : Option Name) ≠ some b := fun e => hq (Option.some.inj e)
      rw [find?_assocModify_ne (some b) (some q) _ hq', inner]
      simp only [hq, if_false]
      by_cases hp : c.parentFor a = some q
      · simp only [hp, if_true]
        cases c.children.find? (fun e => e.1 == some q) <;> simp
      · simp only [hp, if_false]
  -- the list of `q` without `a`, as a set
  have inner_mem : ∀ q ch, ch ≠ a →
      (ch ∈ (if c.parentFor a = some q then (c.childrenFor q).erase a else c.childrenFor q) ↔ ch ∈ c.childrenFor q) := by
    intro q ch hne
    by_cases hp : c.parentFor a = some q
    · simp only [hp, if_true]; exact List.mem_erase_of_ne hne
    · simp only [hp, if_false]
  have inner_not : ∀ q, a ∉ (if c.parentFor a = some q then (c.childrenFor q).erase a else c.childrenFor q) := by
    intro q
    by_cases hp : c.parentFor a = some q
    · simp only [hp, if_true]
      exact fun hm => (List.Nodup.mem_erase_iff (ht.childrenNodup q)).mp hm |>.1 rfl
    · simp only [hp, if_false]
      exact fun hm => hp ((ht.childParent q a).mp hm)
  have inner_nodup : ∀ q, (if c.parentFor a = some q then (c.childrenFor q).erase a else c.childrenFor q).Nodup := by
    intro q
    by_cases hp : c.parentFor a = some q
    · simp only [hp, if_true]; exact (ht.childrenNodup q).erase a
    · simp only [hp, if_false]; exact ht.childrenNodup q
  refine ⟨by rw [hnames]; exact ht.names, ?_, ?_, ?_, ?_, ?_, ?_, ?_, ?_, ?_, ?_⟩
  · rw [hpar, keys_assocSetP a (some b) c.parent hakey]; exact ht.parentKeys
  · rw [hch, keys_assocModify, keys_assocModify]; exact ht.childKeys
  · intro k hk
    rw [hpar, keys_assocSetP a (some b) c.parent hakey] at hk
    rw [HS]; exact ht.parentKeysStates k hk
  · intro k hk
    rw [HS] at hk
    rw [hpar, keys_assocSetP a (some b) c.parent hakey]; exact ht.statesHaveEntry k hk
  · intro k hk
    rw [hch, keys_assocModify, keys_assocModify] at hk
    rw [HS]; exact ht.childKeysStates k hk
  · intro k hk
    rw [HS] at hk
    rw [hch, keys_assocModify, keys_assocModify]; exact ht.statesHaveChildEntry k hk
  · -- one root: the entries without parent are among the old ones
    have hkeys' : ((c.moveState a b).2.parent.map (·.1)).Nodup := by
      rw [hpar, keys_assocSetP a (some b) c.parent hakey]; exact ht.parentKeys
    have old : ∀ e ∈ (c.moveState a b).2.parent, e.2 = none → e ∈ c.parent := by
      intro e he hn
      have h1 := mem_entry_of_perm_parent hkeys' he
      rw [PF e.1] at h1
      by_cases hea : e.1 = a
      · rw [hea] at h1; simp only [if_true] at h1; rw [hn] at h1; cases h1
      · simp only [hea, if_false] at h1
        -- the entry of `e.1` in `c`
        have hk : e.1 ∈ c.parent.map (·.1) := by
          have : e.1 ∈ (c.moveState a b).2.parent.map (·.1) := List.mem_map.mpr ⟨e, he, rfl⟩
          rw [hpar, keys_assocSetP a (some b) c.parent hakey] at this
          exact this
        obtain ⟨x, hx, hxe⟩ := List.mem_map.mp hk
        have h2 := mem_entry_of_perm_parent ht.parentKeys hx
        rw [hxe, h1] at h2
        have : x = e := by
          obtain ⟨x1, x2⟩ := x
          obtain ⟨e1, e2⟩ := e
          simp only at hxe h2
          rw [hxe, h2]
        exact this ▸ hx
    intro e he e' he' h1 h2
    exact ht.oneRoot e (old e he h1) e' (old e' he' h2) h1 h2
  · -- children ↔ parent
    intro q ch
    rw [CF q, PF ch]
    by_cases hca : ch = a
    · subst hca
      simp only [if_true]
      by_cases hq : q = b
      · subst hq; simp
      · simp only [hq, if_false]
        constructor
        · intro hm; exact absurd hm (inner_not q)
        · intro e; exact absurd (Option.some.inj e).symm hq
    · simp only [hca, if_false]
      rw [← ht.childParent q ch]
      by_cases hq : q = b
      · subst hq
        simp only [if_true, List.mem_append, List.mem_singleton, hca, or_false]
        exact inner_mem q ch hca
      · simp only [hq, if_false]
        exact inner_mem q ch hca
  · intro q
    rw [CF q]
    by_cases hq : q = b
    · simp only [hq, if_true]
      refine List.nodup_append.mpr ⟨inner_nodup b, by simp, ?_⟩
      intro x hx y hy
      rw [List.mem_singleton] at hy
      subst hy
      exact fun e => inner_not b (e ▸ hx)
    · simp only [hq, if_false]; exact inner_nodup q
  · intro n
    rw [PF n]
    by_cases hn : n = a
    · simp only [hn, if_true]
      exact fun e => hba (Option.some.inj e)
    · simp only [hn, if_false]; exact ht.noSelf n

/-! ### `remove_state` -/

theorem removeLeaf_fields (c : Chart) (n : Name) :
    (c.removeLeaf n).states = (c.states.map (unref n)).filter (fun s => s.name != n) ∧
    (c.removeLeaf n).parent = assocErase n c.parent ∧
    (c.removeLeaf n).children = assocModify (c.parentFor n) (fun l => l.erase n) (assocErase (some n) c.children) :=
  ⟨rfl, rfl, rfl⟩

theorem mem_filter_names (n k : Name) (l : List StateDef) (f : StateDef → StateDef) (hf : ∀ s, (f s).name = s.name) :
    k ∈ ((l.map f).filter (fun s => s.name != n)).map (·.name) ↔ k ∈ l.map (·.name) ∧ k ≠ n := by
  simp only [List.mem_map, List.mem_filter, bne_iff_ne, ne_eq]
  constructor
  · rintro ⟨x, ⟨⟨y, hy, rfl⟩, hne⟩, rfl⟩
    rw [hf] at hne ⊢
    exact ⟨⟨y, hy, rfl⟩, hne⟩
  · rintro ⟨⟨y, hy, rfl⟩, hne⟩
    exact ⟨f y, ⟨⟨y, hy, rfl⟩, by rw [hf]; exact hne⟩, hf y⟩

/-- **Removing a state that has no children keeps the dictionaries consistent**, and only shrinks
    the children lists. -/
theorem removeLeaf_tidy (c : Chart) (n : Name) (ht : Tidy c) (hleaf : c.childrenFor n = []) :
    Tidy (c.removeLeaf n) ∧
    (∀ m, (c.removeLeaf n).hasState m = (c.hasState m && m != n)) ∧
    (∀ q, ((c.removeLeaf n).childrenFor q).Sublist (c.childrenFor q)) ∧
    (∀ q, n ∉ (c.removeLeaf n).childrenFor q) := by
  obtain ⟨hst, hpar, hch⟩ := removeLeaf_fields c n
  have herP : assocErase n c.parent = c.parent.filter (fun p => p.1 != n) := by
    unfold assocErase; exact eraseFirst_eq_filter (fun (p : Name × Option Name) => p.1) n _ ht.parentKeys
  have herC : assocErase (some n) c.children = c.children.filter (fun p => p.1 != some n) := by
    unfold assocErase; exact eraseFirst_eq_filter (fun (p : Option Name × List Name) => p.1) (some n) _ ht.childKeys
  have HS : ∀ m, (c.removeLeaf n).hasState m = (c.hasState m && m != n) := by
    intro m
    rw [Bool.eq_iff_iff, hasState_iff_mem, hst, mem_filter_names n m c.states (unref n) (unref_name n),
      Bool.and_eq_true, hasState_iff_mem]
    simp
  have PF : ∀ m, (c.removeLeaf n).parentFor m = if m = n then none else c.parentFor m := by
    intro m
    unfold Chart.parentFor
    rw [hpar, herP]
    by_cases hm : m = n
    · subst hm; rw [find?_filter_key_same]; simp
    · rw [find?_filter_key_ne n m hm]; simp [hm]
  have CF : ∀ q, (c.removeLeaf n).childrenFor q =
      if q = n then [] else if c.parentFor n = some q then (c.childrenFor q).erase n else c.childrenFor q := by
    intro q
    unfold Chart.childrenFor
    rw [hch, herC]
    by_cases hq : q = n
    · subst hq
      have hne : (some q : Option Name) ≠ c.parentFor q := fun e => ht.noSelf q e.symm
      rw [find?_assocModify_ne _ _ _ hne, find?_filter_key_same]
      simp
    · have hq' : (some q : Option Name) ≠ some n := fun e => hq (Option.some.inj e)
      simp only [hq, if_false]
      by_cases hp : c.parentFor n = some q
      · rw [hp, find?_assocModify_same, find?_filter_key_ne (some n) (some q) hq']
        simp only [if_true]
        cases c.children.find? (fun e => e.1 == some q) <;> simp
      · rw [find?_assocModify_ne _ _ _ (fun e => hp e.symm), find?_filter_key_ne (some n) (some q) hq']
        simp only [hp, if_false]
  have keysP : ∀ k, k ∈ (c.removeLeaf n).parent.map (·.1) ↔ k ∈ c.parent.map (·.1) ∧ k ≠ n := by
    intro k
    rw [hpar, herP]
    simp only [List.mem_map, List.mem_filter, bne_iff_ne, ne_eq]
    constructor
    · rintro ⟨x, ⟨hx, hne⟩, rfl⟩; exact ⟨⟨x, hx, rfl⟩, hne⟩
    · rintro ⟨⟨x, hx, rfl⟩, hne⟩; exact ⟨x, ⟨hx, hne⟩, rfl⟩
  have keysC : ∀ k, k ∈ (c.removeLeaf n).children.map (·.1) ↔ k ∈ c.children.map (·.1) ∧ k ≠ some n := by
    intro k
    rw [hch, keys_assocModify, herC]
    simp only [List.mem_map, List.mem_filter, bne_iff_ne, ne_eq]
    constructor
    · rintro ⟨x, ⟨hx, hne⟩, rfl⟩; exact ⟨⟨x, hx, rfl⟩, hne⟩
    · rintro ⟨⟨x, hx, rfl⟩, hne⟩; exact ⟨x, ⟨hx, hne⟩, rfl⟩
  have sub : ∀ q, ((c.removeLeaf n).childrenFor q).Sublist (c.childrenFor q) := by
    intro q
    rw [CF q]
    by_cases hq : q = n
    · simp [hq]
    · simp only [hq, if_false]
      by_cases hp : c.parentFor n = some q
      · simp only [hp, if_true]; exact List.erase_sublist
      · simp only [hp, if_false]; exact List.Sublist.refl _
  have notin : ∀ q, n ∉ (c.removeLeaf n).childrenFor q := by
    intro q
    rw [CF q]
    by_cases hq : q = n
    · simp [hq]
    · simp only [hq, if_false]
      by_cases hp : c.parentFor n = some q
      · simp only [hp, if_true]
        exact fun hm => (List.Nodup.mem_erase_iff (ht.childrenNodup q)).mp hm |>.1 rfl
      · simp only [hp, if_false]
        exact fun hm => hp ((ht.childParent q n).mp hm)
  refine ⟨⟨?_, ?_, ?_, ?_, ?_, ?_, ?_, ?_, ?_, ?_, ?_⟩, HS, sub, notin⟩
  · rw [hst]
    have : (c.states.map (unref n)).map (·.name) = c.states.map (·.name) := by
      rw [List.map_map]; congr 1; funext s; exact unref_name n s
    have hnd : ((c.states.map (unref n)).map (·.name)).Nodup := by rw [this]; exact ht.names
    exact (List.Nodup.sublist (List.Sublist.map _ List.filter_sublist) hnd)
  · rw [hpar, herP]
    exact List.Nodup.sublist (List.Sublist.map _ List.filter_sublist) ht.parentKeys
  · rw [hch, keys_assocModify, herC]
    exact List.Nodup.sublist (List.Sublist.map _ List.filter_sublist) ht.childKeys
  · intro k hk
    obtain ⟨h1, h2⟩ := (keysP k).mp hk
    rw [HS, ht.parentKeysStates k h1]; simp [h2]
  · intro k hk
    rw [HS, Bool.and_eq_true] at hk
    exact (keysP k).mpr ⟨ht.statesHaveEntry k hk.1, by simpa using hk.2⟩
  · intro k hk
    obtain ⟨h1, h2⟩ := (keysC (some k)).mp hk
    rw [HS, ht.childKeysStates k h1]
    have : k ≠ n := fun e => h2 (by rw [e])
    simp [this]
  · intro k hk
    rw [HS, Bool.and_eq_true] at hk
    have : k ≠ n := by simpa using hk.2
    exact (keysC (some k)).mpr ⟨ht.statesHaveChildEntry k hk.1, fun e => this (Option.some.inj e)⟩
  · intro e he e' he' h1 h2
    rw [hpar, herP] at he he'
    exact ht.oneRoot e (List.mem_filter.mp he).1 e' (List.mem_filter.mp he').1 h1 h2
  · intro q ch
    rw [CF q, PF ch]
    by_cases hca : ch = n
    · subst hca
      simp only [if_true]
      constructor
      · intro hm
        have := notin q
        rw [CF q] at this
        exact absurd hm this
      · intro e; cases e
    · simp only [hca, if_false]
      rw [← ht.childParent q ch]
      by_cases hq : q = n
      · subst hq
        simp only [if_true, hleaf]
      · simp only [hq, if_false]
        by_cases hp : c.parentFor n = some q
        · simp only [hp, if_true]; exact List.mem_erase_of_ne hca
        · simp only [hp, if_false]
  · intro q
    exact List.Nodup.sublist (sub q) (ht.childrenNodup q)
  · intro m
    rw [PF m]
    by_cases hm : m = n
    · simp [hm]
    · simp only [hm, if_false]; exact ht.noSelf m

/-- what the removal of a subtree does to the rest, as far as the recursion needs it -/
structure Shrinks (c c' : Chart) : Prop where
  tidy : Tidy c'
  sub : ∀ q, (c'.childrenFor q).Sublist (c.childrenFor q)
  states : ∀ m, c'.hasState m = true → c.hasState m = true

theorem Shrinks.trans {a b c : Chart} (h1 : Shrinks a b) (h2 : Shrinks b c) : Shrinks a c :=
  ⟨h2.tidy, fun q => (h2.sub q).trans (h1.sub q), fun m h => h1.states m (h2.states m h)⟩

theorem Shrinks.refl {c : Chart} (ht : Tidy c) : Shrinks c c := ⟨ht, fun _ => List.Sublist.refl _, fun _ h => h⟩

/-- **`remove_state` (the recursive removal of a subtree) keeps the dictionaries consistent** —
    also when it raises half-way (it can, on dictionaries that do not form a tree). -/
theorem removeStateF_tidy : ∀ (f : Nat) (c : Chart) (n : Name), Tidy c →
    Shrinks c (removeStateF f c n).2 ∧
    ((removeStateF f c n).1 = .ok () → ∀ q, n ∉ (removeStateF f c n).2.childrenFor q)
  | 0, c, n, ht => by
    simp only [removeStateF]
    exact ⟨Shrinks.refl ht, fun h => by cases h⟩
  | f+1, c, n, ht => by
    unfold removeStateF
    split
    · exact ⟨Shrinks.refl ht, fun h => by cases h⟩
    have hgo : ∀ (l : List Name) (c0 : Chart), Tidy c0 →
        Shrinks c0 (removeStateF.go f c0 l).2 ∧
        ((removeStateF.go f c0 l).1 = .ok () → ∀ ch ∈ l, ∀ q, ch ∉ (removeStateF.go f c0 l).2.childrenFor q) := by
      intro l
      induction l with
      | nil =>
        intro c0 h0
        unfold removeStateF.go
        exact ⟨Shrinks.refl h0, fun _ ch hch => by cases hch⟩
      | cons ch rest ih =>
        intro c0 h0
        unfold removeStateF.go
        have h1 := removeStateF_tidy f c0 ch h0
        obtain ⟨res, c1, hx⟩ : ∃ res c1, removeStateF f c0 ch = (res, c1) := ⟨_, _, rfl⟩
        rw [hx] at h1
        simp only [hx] at h1 ⊢
        cases res with
        | error e => exact ⟨h1.1, fun h => by cases h⟩
        | ok u =>
          simp only at h1 ⊢
          obtain ⟨s2, n2⟩ := ih c1 h1.1.tidy
          refine ⟨h1.1.trans s2, ?_⟩
          intro hok x hxm q
          rcases List.mem_cons.mp hxm with e | e
          · subst e
            exact fun hm => h1.2 (by trivial) q ((s2.sub q).subset hm)
          · exact n2 hok x e q
    have h1 := hgo (c.childrenFor n) c ht
    obtain ⟨res, c1, hx⟩ : ∃ res c1, removeStateF.go f c (c.childrenFor n) = (res, c1) := ⟨_, _, rfl⟩
    rw [hx] at h1
    simp only [hx] at h1 ⊢
    cases res with
    | error e => exact ⟨h1.1, fun h => by cases h⟩
    | ok u =>
      simp only at h1 ⊢
      obtain ⟨s1, n1⟩ := h1
      have hleaf : c1.childrenFor n = [] := by
        cases hl : c1.childrenFor n with
        | nil => rfl
        | cons x xs =>
          exfalso
          have hx1 : x ∈ c1.childrenFor n := by rw [hl]; exact List.mem_cons_self
          exact n1 (by trivial) x ((s1.sub n).subset hx1) n hx1
      obtain ⟨t2, hs2, sub2, not2⟩ := removeLeaf_tidy c1 n s1.tidy hleaf
      refine ⟨s1.trans ⟨t2, sub2, ?_⟩, fun _ => not2⟩
      intro m hm
      rw [hs2, Bool.and_eq_true] at hm
      exact hm.1

theorem removeState_tidy (c : Chart) (n : Name) (ht : Tidy c) : Tidy (c.removeState n).2 :=
  (removeStateF_tidy _ c n ht).1.tidy

/-! ### `rename_state` -/

theorem find?_mapped_parent (ρ : Name → Name) (k0 k : Name) (l : List (Name × Option Name))
    (hinj : ∀ q ∈ l.map (·.1), ρ q = k → q = k0) :
    (l.map (fun p => (ρ p.1, p.2.map ρ))).find? (fun p => p.1 == k) =
      if ρ k0 = k then (l.find? (fun p => p.1 == k0)).map (fun p => (ρ p.1, p.2.map ρ)) else none := by
  induction l with
  | nil => simp
  | cons y ys ih =>
    have hinj' : ∀ q ∈ ys.map (·.1), ρ q = k → q = k0 := fun q hq => hinj q (by
      simp only [List.map_cons]; exact List.mem_cons_of_mem _ hq)
    simp only [List.map_cons, List.find?_cons]
    by_cases hy : ρ y.1 = k
    · have e : y.1 = k0 := hinj y.1 (by simp) hy
      have h1 : (ρ y.1 == k) = true := by simp [hy]
      have h2 : (y.1 == k0) = true := by simp [e]
      simp only [h1, h2]
      rw [e] at hy
      simp [hy]
    · have h1 : (ρ y.1 == k) = false := by simp [hy]
      simp only [h1]
      rw [ih hinj']
      by_cases hk : ρ k0 = k
      · have h2 : (y.1 == k0) = false := by
          have : y.1 ≠ k0 := fun e => hy (e ▸ hk)
          simp [this]
        simp [hk, h2]
      · simp [hk]

theorem rename_parentFor (c : Chart) (a b : Name) (ht : Tidy c) (h : (c.renameState a b).1 = .ok ()) (hne : a ≠ b)
    (n : Name) :
    (c.renameState a b).2.parentFor n =
      if n = a then none else if n = b then c.parentFor a
      else if c.parentFor n = some a then some b else c.parentFor n := by
  obtain ⟨hnb, hha, _⟩ := renameState_states c a b h hne
  have hbp : b ∉ c.parent.map (·.1) := fun hm => by
    have := ht.parentKeysStates b hm; rw [hnb] at this; cases this
  rw [(rename_is_substitution c a b ht h hne).parentFor n]
  unfold Chart.parentFor Chart.mapNames
  simp only
  by_cases hna : n = a
  · subst hna
    rw [find?_mapped_parent (renameIn n b) b n c.parent (by
      intro q hq e
      exfalso
      by_cases hq' : q = n
      · rw [hq', renameIn_self] at e; exact hne e.symm
      · rw [renameIn_ne hq'] at e; exact hq' e)]
    have : renameIn n b b ≠ n := by rw [renameIn_ne (Ne.symm hne)]; exact Ne.symm hne
    simp [this]
  · simp only [hna, if_false]
    by_cases hnb' : n = b
    · subst hnb'
      rw [find?_mapped_parent (renameIn a n) a n c.parent (by
        intro q hq e
        by_cases hq' : q = a
        · exact hq'
        · rw [renameIn_ne hq'] at e; exact absurd (e ▸ hq) hbp)]
      simp only [renameIn_self, if_true]
      have hs := ht.noSelf a
      unfold Chart.parentFor at hs
      cases hf : c.parent.find? (fun p => p.1 == a) with
      | none => rfl
      | some x =>
        obtain ⟨k, v⟩ := x
        rw [hf] at hs
        simp only at hs
        simp only [Option.map_some, renameIn_opt]
        split
        · next e => exact absurd (by simpa using e) hs
        · rfl
    · simp only [hnb', if_false]
      rw [find?_mapped_parent (renameIn a b) n n c.parent (by
        intro q _ e
        by_cases hq' : q = a
        · rw [hq', renameIn_self] at e; exact absurd e.symm hnb'
        · rw [renameIn_ne hq'] at e; exact e)]
      simp only [renameIn_ne hna, if_true]
      cases hf : c.parent.find? (fun p => p.1 == n) with
      | none => simp
      | some x =>
        obtain ⟨k, v⟩ := x
        simp only [Option.map_some, renameIn_opt]
        by_cases hv : v = some a
        · simp [hv]
        · have : (v == some a) = false := by simp [hv]
          simp [this, hv]

/-- **`rename_state` keeps the three dictionaries consistent.** -/
theorem renameState_tidy (c : Chart) (a b : Name) (ht : Tidy c) (h : (c.renameState a b).1 = .ok ()) :
    Tidy (c.renameState a b).2 := by
  by_cases hne : a = b
  · subst hne; rw [rename_same_is_noop]; exact ht
  obtain ⟨hnb, hha, hst⟩ := renameState_states c a b h hne
  have hperm := rename_is_substitution c a b ht h hne
  have PF := rename_parentFor c a b ht h hne
  have CF := rename_childrenFor c a b ht h hne
  have hbn : b ∉ c.states.map (·.name) := fun hm => by
    have := (hasState_iff_mem c b).mpr hm; rw [hnb] at this; cases this
  have hbp : b ∉ c.parent.map (·.1) := fun hm => by
    have := ht.parentKeysStates b hm; rw [hnb] at this; cases this
  have hbc : some b ∉ c.children.map (·.1) := fun hm => by
    have := ht.childKeysStates b hm; rw [hnb] at this; cases this
  -- `b` occurs nowhere as a child or as a parent with children
  have b_not_child : ∀ q, b ∉ c.childrenFor q := fun q hm =>
    hbp (key_of_parentFor c b q ((ht.childParent q b).mp hm))
  have b_no_children : ∀ ch, c.parentFor ch ≠ some b := fun ch e =>
    hbc (key_of_child c b ch ((ht.childParent b ch).mpr e))
  -- states
  have HS : ∀ n, (c.renameState a b).2.hasState n = ((c.hasState n && n != a) || n == b) := by
    intro n
    rw [Bool.eq_iff_iff, hasState_iff_mem, (hperm.states.map (·.name)).mem_iff]
    show n ∈ ((c.states.map (StateDef.rename (renameIn a b))).map (·.name)) ↔ _
    rw [List.map_map]
    simp only [Bool.or_eq_true, Bool.and_eq_true, beq_iff_eq, bne_iff_ne, ne_eq, hasState_iff_mem, List.mem_map,
      Function.comp]
    constructor
    · rintro ⟨x, hx, rfl⟩
      show (_ ∧ _) ∨ _
      by_cases hxa : x.name = a
      · right; simp [StateDef.rename, hxa, renameIn_self]
      · left
        refine ⟨⟨x, hx, ?_⟩, ?_⟩
        · simp [StateDef.rename, renameIn_ne hxa]
        · simp [StateDef.rename, renameIn_ne hxa, hxa]
    · rintro (⟨⟨x, hx, rfl⟩, hxa⟩ | e)
      · exact ⟨x, hx, by simp [StateDef.rename, renameIn_ne hxa]⟩
      · obtain ⟨x, hx, hxa⟩ := List.mem_map.mp ((hasState_iff_mem c a).mp hha)
        exact ⟨x, hx, by simp [StateDef.rename, hxa, renameIn_self, e]⟩
  -- keys
  have keysP : ∀ k, k ∈ (c.renameState a b).2.parent.map (·.1) ↔ (k ∈ c.parent.map (·.1) ∧ k ≠ a) ∨ k = b := by
    intro k
    rw [(hperm.parent.map (·.1)).mem_iff]
    show k ∈ ((c.parent.map (fun p => (renameIn a b p.1, p.2.map (renameIn a b)))).map (·.1)) ↔ _
    rw [List.map_map]
    simp only [List.mem_map, Function.comp]
    constructor
    · rintro ⟨x, hx, rfl⟩
      by_cases hxa : x.1 = a
      · right; simp [hxa, renameIn_self]
      · left; rw [renameIn_ne hxa]; exact ⟨⟨x, hx, rfl⟩, hxa⟩
    · rintro (⟨⟨x, hx, rfl⟩, hxa⟩ | e)
      · exact ⟨x, hx, renameIn_ne hxa⟩
      · obtain ⟨x, hx, hxa⟩ := List.mem_map.mp (ht.statesHaveEntry a hha)
        exact ⟨x, hx, by rw [hxa, renameIn_self, e]⟩
  have hchF := renameState_children c a b ht h hne
  have keysC : (c.renameState a b).2.children.map (·.1) =
      (c.children.map (·.1)).filter (fun k => k != some a) ++ [some b] := by
    rw [hchF]
    obtain ⟨X, hX⟩ : ∃ X, X = assocModify (c.parentFor a) (fun l => l.erase a ++ [b]) c.children := ⟨_, rfl⟩
    rw [← hX]
    have hkX : X.map (fun (p : Option Name × List Name) => p.1) = c.children.map (·.1) := by
      rw [hX]; exact keys_assocModify _ _ _
    have hnod : (X.map (fun (p : Option Name × List Name) => p.1)).Nodup := by rw [hkX]; exact ht.childKeys
    simp only [List.map_append, List.map_cons, List.map_nil]
    congr 1
    unfold assocErase
    rw [eraseFirst_eq_filter (fun (p : Option Name × List Name) => p.1) (some a) X hnod, ← hkX]
    clear hX hkX hnod hchF
    induction X with
    | nil => rfl
    | cons y ys ih =>
      simp only [List.filter_cons, List.map_cons]
      split <;> simp [ih]
  refine ⟨?_, ?_, ?_, ?_, ?_, ?_, ?_, ?_, ?_, ?_, ?_⟩
  · exact ((hperm.states.map (·.name)).nodup_iff).mpr hperm.names
  · exact ((hperm.parent.map (·.1)).nodup_iff).mpr hperm.parentKeys
  · rw [keysC]
    refine List.nodup_append.mpr ⟨List.Nodup.sublist List.filter_sublist ht.childKeys, by simp, ?_⟩
    intro x hx y hy
    rw [List.mem_singleton] at hy
    subst hy
    exact fun e => hbc (e ▸ (List.mem_filter.mp hx).1)
  · intro k hk
    rw [HS]
    rcases (keysP k).mp hk with ⟨h1, h2⟩ | e
    · rw [ht.parentKeysStates k h1]; simp [h2]
    · simp [e]
  · intro k hk
    rw [HS, Bool.or_eq_true, Bool.and_eq_true] at hk
    rcases hk with ⟨h1, h2⟩ | e
    · exact (keysP k).mpr (Or.inl ⟨ht.statesHaveEntry k h1, by simpa using h2⟩)
    · exact (keysP k).mpr (Or.inr (by simpa using e))
  · intro k hk
    rw [keysC, List.mem_append, List.mem_singleton] at hk
    rw [HS]
    rcases hk with hk | hk
    · obtain ⟨h1, h2⟩ := List.mem_filter.mp hk
      have : k ≠ a := fun e => by simp [e] at h2
      rw [ht.childKeysStates k h1]; simp [this]
    · simp [Option.some.inj hk]
  · intro k hk
    rw [HS, Bool.or_eq_true, Bool.and_eq_true] at hk
    rw [keysC, List.mem_append, List.mem_singleton]
    rcases hk with ⟨h1, h2⟩ | e
    · left
      have : k ≠ a := by simpa using h2
      exact List.mem_filter.mpr ⟨ht.statesHaveChildEntry k h1, by simp [this]⟩
    · right; rw [beq_iff_eq.mp e]
  · -- one root
    intro e he e' he' h1 h2
    have m1 := hperm.parent.mem_iff.mp he
    have m2 := hperm.parent.mem_iff.mp he'
    obtain ⟨x, hx, rfl⟩ := List.mem_map.mp m1
    obtain ⟨x', hx', rfl⟩ := List.mem_map.mp m2
    have n1 : x.2 = none := by cases hx2 : x.2 with | none => rfl | some v => simp [hx2] at h1
    have n2 : x'.2 = none := by cases hx2 : x'.2 with | none => rfl | some v => simp [hx2] at h2
    rw [ht.oneRoot x hx x' hx' n1 n2]
  · -- children ↔ parent
    intro q ch
    rw [CF q, PF ch]
    by_cases hqa : q = a
    · subst hqa
      simp only [if_true, List.not_mem_nil, false_iff]
      by_cases hc1 : ch = q
      · simp [hc1]
      · simp only [hc1, if_false]
        by_cases hc2 : ch = b
        · simp only [hc2, if_true]; exact ht.noSelf q
        · simp only [hc2, if_false]
          by_cases hp : c.parentFor ch = some q
          · simp only [hp, if_true]; exact fun e => hne (Option.some.inj e).symm
          · simp [hp]
    · simp only [hqa, if_false]
      by_cases hqb : q = b
      · subst hqb
        simp only [if_true]
        rw [ht.childParent a ch]
        by_cases hc1 : ch = a
        · subst hc1
          simp only [if_true]
          constructor
          · intro e; exact absurd e (ht.noSelf ch)
          · intro e; cases e
        · simp only [hc1, if_false]
          by_cases hc2 : ch = q
          · subst hc2
            simp only [if_true]
            constructor
            · intro e; exact absurd (key_of_parentFor c ch a e) hbp
            · intro e; exact absurd e (b_no_children a)
          · simp only [hc2, if_false]
            by_cases hp : c.parentFor ch = some a
            · simp [hp]
            · simp only [hp, if_false, false_iff]
              exact b_no_children ch
      · simp only [hqb, if_false]
        by_cases hc1 : ch = a
        · subst hc1
          simp only [if_true]
          constructor
          · intro hm
            exfalso
            by_cases hp : c.parentFor ch = some q
            · simp only [hp, if_true, List.mem_append, List.mem_singleton] at hm
              rcases hm with hm | hm
              · exact ((List.Nodup.mem_erase_iff (ht.childrenNodup q)).mp hm).1 rfl
              · exact hne hm
            · simp only [hp, if_false] at hm
              exact hp ((ht.childParent q ch).mp hm)
          · intro e; cases e
        · simp only [hc1, if_false]
          by_cases hc2 : ch = b
          · subst hc2
            simp only [if_true]
            by_cases hp : c.parentFor a = some q
            · simp [hp]
            · simp only [hp, if_false, iff_false]
              exact b_not_child q
          · simp only [hc2, if_false]
            have hmem : ch ∈ (if c.parentFor a = some q then (c.childrenFor q).erase a ++ [b] else c.childrenFor q) ↔
                ch ∈ c.childrenFor q := by
              by_cases hp : c.parentFor a = some q
              · simp only [hp, if_true, List.mem_append, List.mem_singleton, hc2, or_false]
                exact List.mem_erase_of_ne hc1
              · simp only [hp, if_false]
            rw [hmem, ht.childParent q ch]
            by_cases hp : c.parentFor ch = some a
            · simp only [hp, if_true]
              constructor
              · intro e; exact absurd (Option.some.inj e).symm hqa
              · intro e; exact absurd (Option.some.inj e).symm hqb
            · simp only [hp, if_false]
  · -- no repetition
    intro q
    rw [CF q]
    by_cases hqa : q = a
    · simp [hqa]
    · simp only [hqa, if_false]
      by_cases hqb : q = b
      · simp only [hqb, if_true]; exact ht.childrenNodup a
      · simp only [hqb, if_false]
        by_cases hp : c.parentFor a = some q
        · simp only [hp, if_true]
          refine List.nodup_append.mpr ⟨(ht.childrenNodup q).erase a, by simp, ?_⟩
          intro x hx y hy
          rw [List.mem_singleton] at hy
          subst hy
          exact fun e => b_not_child q (e ▸ (List.mem_of_mem_erase hx))
        · simp only [hp, if_false]; exact ht.childrenNodup q
  · intro n
    rw [PF n]
    by_cases hna : n = a
    · simp [hna]
    · simp only [hna, if_false]
      by_cases hnb' : n = b
      · simp only [hnb', if_true]; exact b_no_children a
      · simp only [hnb', if_false]
        by_cases hp : c.parentFor n = some a
        · simp only [hp, if_true]; exact fun e => hnb' (Option.some.inj e).symm
        · simp only [hp, if_false]; exact ht.noSelf n

/-! ### every operation, every session -/

theorem tidy_of_same_dicts {c c' : Chart} (ht : Tidy c) (hs : c'.states = c.states) (hp : c'.parent = c.parent)
    (hc : c'.children = c.children) : Tidy c' := by
  have HS : ∀ n, c'.hasState n = c.hasState n := fun n => by simp [Chart.hasState, Chart.stateFor, hs]
  have PF : ∀ n, c'.parentFor n = c.parentFor n := fun n => by simp [Chart.parentFor, hp]
  have CF : ∀ n, c'.childrenFor n = c.childrenFor n := fun n => by simp [Chart.childrenFor, hc]
  refine ⟨by rw [hs]; exact ht.names, by rw [hp]; exact ht.parentKeys, by rw [hc]; exact ht.childKeys, ?_, ?_, ?_, ?_,
    by rw [hp]; exact ht.oneRoot, ?_, ?_, ?_⟩
  · intro k hk; rw [HS]; rw [hp] at hk; exact ht.parentKeysStates k hk
  · intro k hk; rw [HS] at hk; rw [hp]; exact ht.statesHaveEntry k hk
  · intro k hk; rw [HS]; rw [hc] at hk; exact ht.childKeysStates k hk
  · intro k hk; rw [HS] at hk; rw [hc]; exact ht.statesHaveChildEntry k hk
  · intro q ch; rw [CF, PF]; exact ht.childParent q ch
  · intro q; rw [CF]; exact ht.childrenNodup q
  · intro n; rw [PF]; exact ht.noSelf n

theorem applyEdit_tidy (c : Chart) (op : EditOp) (ht : Tidy c) : Tidy (c.applyEdit op).2 := by
  have atomic : ∀ (r : EditRes), (∀ e, r.1 = .error e → r.2 = c) → (r.1 = .ok () → Tidy r.2) → Tidy r.2 := by
    intro r h1 h2
    cases hr : r.1 with
    | error e => rw [h1 e hr]; exact ht
    | ok u => exact h2 hr
  cases op with
  | addState s p => exact atomic _ (addState_atomic c s p) (addState_tidy c s p ht)
  | addTransition t =>
    refine atomic _ (addTransition_atomic c t) (fun h => ?_)
    show Tidy (c.addTransition t).2
    rw [(addTransition_effect c t h).1]
    exact tidy_of_same_dicts ht rfl rfl rfl
  | removeTransition t =>
    refine atomic _ (removeTransition_atomic c t) (fun h => ?_)
    show Tidy (c.removeTransition t).2
    rw [removeTransition_effect c t h]
    exact tidy_of_same_dicts ht rfl rfl rfl
  | removeState n => exact removeState_tidy c n ht
  | renameState a b => exact atomic _ (renameState_atomic c a b) (renameState_tidy c a b ht)
  | moveState a b => exact atomic _ (moveState_atomic c a b) (moveState_tidy c a b ht)
  | rotateTransition i s t =>
    show Tidy (c.rotateTransition i s t).2
    unfold rotateTransition
    repeat' split
    all_goals first | exact ht | exact tidy_of_same_dicts ht rfl rfl rfl

theorem applyEdits_tidy (ops : List EditOp) : ∀ (c : Chart), Tidy c → Tidy (c.applyEdits ops) := by
  induction ops with
  | nil => intro c hc; exact hc
  | cons op ops ih => intro c hc; exact ih _ (applyEdit_tidy c op hc)

/-- the dictionaries of `Statechart(name)` -/
theorem empty_tidy (nm : String) : Tidy ({ name := nm, children := [(none, [])] } : Chart) := by
  refine ⟨List.nodup_nil, List.nodup_nil, by simp, ?_, ?_, ?_, ?_, ?_, ?_, ?_, ?_⟩
  · intro k hk; cases hk
  · intro k hk; simp [Chart.hasState, Chart.stateFor] at hk
  · intro k hk; simp at hk
  · intro k hk; simp [Chart.hasState, Chart.stateFor] at hk
  · intro e he; cases he
  · intro q ch; simp [Chart.childrenFor, Chart.parentFor]
  · intro q; simp [Chart.childrenFor]
  · intro n; simp [Chart.parentFor]

theorem empty_tidy' (nm : String) (d : Option String) (pr : Option Code) :
    Tidy ({ name := nm, description := d, preamble := pr, children := [(none, [])] } : Chart) := by
  refine ⟨List.nodup_nil, List.nodup_nil, by simp, ?_, ?_, ?_, ?_, ?_, ?_, ?_, ?_⟩
  · intro k hk; cases hk
  · intro k hk; simp [Chart.hasState, Chart.stateFor] at hk
  · intro k hk; simp at hk
  · intro k hk; simp [Chart.hasState, Chart.stateFor] at hk
  · intro e he; cases he
  · intro q ch; simp [Chart.childrenFor, Chart.parentFor]
  · intro q; simp [Chart.childrenFor]
  · intro n; simp [Chart.parentFor]

end Sismic
