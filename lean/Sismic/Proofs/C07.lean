import Sismic.Proofs.Sort
import Sismic.Proofs.C01
/-!
# Sismic.Proofs.C07 — what is sorted by an injective key does not depend on the order it came in
-/
namespace Sismic

/-- sorting by a total, transitive order that is antisymmetric on the elements present is
    independent of the order of the input -/
theorem isort_canonical {α} (le : α → α → Bool)
    (total : ∀ a b, le a b = true ∨ le b a = true) (trans : ∀ a b c, le a b = true → le b c = true → le a c = true)
    (l l' : List α) (anti : ∀ a b, a ∈ l → b ∈ l → le a b = true → le b a = true → a = b)
    (hp : l.Perm l') : isort le l = isort le l' := by
  apply List.Perm.eq_of_pairwise (le := fun a b => le a b = true)
  · intro a b ha hb
    exact anti a b ((mem_isort le l a).mp ha) (hp.mem_iff.mpr ((mem_isort le l' b).mp hb))
  · exact isort_sorted le total trans l
  · exact isort_sorted le total trans l'
  · exact (isort_perm le l).trans (hp.trans (isort_perm le l').symm)

theorem leDepthName_anti (c : Chart) (a b : Name) : c.leDepthName a b = true → c.leDepthName b a = true → a = b := by
  simp only [Chart.leDepthName, decide_eq_true_eq]
  intro h1 h2
  rcases h1 with h1 | ⟨_, h1⟩ <;> rcases h2 with h2 | ⟨_, h2⟩
  · omega
  · omega
  · omega
  · exact String.le_antisymm h1 h2

theorem leRevDepthName_total (c : Chart) (a b : Name) : c.leRevDepthName a b = true ∨ c.leRevDepthName b a = true := by
  simp only [Chart.leRevDepthName, decide_eq_true_eq]
  rcases Nat.lt_trichotomy (c.depth a) (c.depth b) with h | h | h
  · exact Or.inr (Or.inl h)
  · rcases String.le_total a b with h' | h'
    · exact Or.inl (Or.inr ⟨h, h'⟩)
    · exact Or.inr (Or.inr ⟨h.symm, h'⟩)
  · exact Or.inl (Or.inl h)

theorem leRevDepthName_trans (c : Chart) (a b d : Name) :
    c.leRevDepthName a b = true → c.leRevDepthName b d = true → c.leRevDepthName a d = true := by
  simp only [Chart.leRevDepthName, decide_eq_true_eq]
  intro h1 h2
  rcases h1 with h1 | ⟨h1, h1'⟩ <;> rcases h2 with h2 | ⟨h2, h2'⟩
  · left; omega
  · left; omega
  · left; omega
  · right; exact ⟨by omega, String.le_trans h1' h2'⟩

theorem leRevDepthName_anti (c : Chart) (a b : Name) :
    c.leRevDepthName a b = true → c.leRevDepthName b a = true → a = b := by
  simp only [Chart.leRevDepthName, decide_eq_true_eq]
  intro h1 h2
  rcases h1 with h1 | ⟨_, h1⟩ <;> rcases h2 with h2 | ⟨_, h2⟩
  · omega
  · omega
  · omega
  · exact String.le_antisymm h1 h2

theorem leName_total (a b : Name) : leName a b = true ∨ leName b a = true := by
  simp only [leName, decide_eq_true_eq]; exact String.le_total a b
theorem leName_trans (a b d : Name) : leName a b = true → leName b d = true → leName a d = true := by
  simp only [leName, decide_eq_true_eq]; exact String.le_trans
theorem leName_anti (a b : Name) : leName a b = true → leName b a = true → a = b := by
  simp only [leName, decide_eq_true_eq]; exact String.le_antisymm

/-- two members of a list are equal, or form one of its `pairs` in one of the two orders -/
theorem mem_pairs_of_mem {α} : ∀ (l : List α) (a b : α), a ∈ l → b ∈ l →
    a = b ∨ (a, b) ∈ pairs l ∨ (b, a) ∈ pairs l
  | [], _, _, h, _ => absurd h (by simp)
  | x :: xs, a, b, ha, hb => by
    simp only [pairs, List.mem_append, List.mem_map]
    rcases List.mem_cons.mp ha with hax | ha' <;> rcases List.mem_cons.mp hb with hbx | hb'
    · exact Or.inl (hax.trans hbx.symm)
    · exact Or.inr (Or.inl (Or.inl ⟨b, hb', by rw [hax]⟩))
    · exact Or.inr (Or.inr (Or.inl ⟨a, ha', by rw [hbx]⟩))
    · rcases mem_pairs_of_mem xs a b ha' hb' with h | h | h
      · exact Or.inl h
      · exact Or.inr (Or.inl (Or.inr h))
      · exact Or.inr (Or.inr (Or.inr h))

/-- accepted by `_sort_transitions` ⇒ the key (−depth, source name) is injective on the list -/
theorem sortTransitions_anti (c : Chart) (ts r : List Trans) (h : sortTransitions c ts = .ok r)
    (hlen : 1 < ts.length) (a b : Trans) (ha : a ∈ ts) (hb : b ∈ ts)
    (h1 : leTrans c a b = true) (h2 : leTrans c b a = true) : a = b := by
  have hs : a.source = b.source := leRevDepthName_anti c _ _ h1 h2
  unfold sortTransitions at h
  rw [if_neg (by omega)] at h
  split at h
  · exact absurd h (by simp)
  · next hnd =>
    rcases mem_pairs_of_mem ts a b ha hb with e | e | e
    · exact e
    · exact absurd (List.any_eq_true.mpr ⟨(a, b), e, by simp [nonDetPair, hs]⟩) hnd
    · exact absurd (List.any_eq_true.mpr ⟨(b, a), e, by simp [nonDetPair, hs]⟩) hnd

end Sismic
