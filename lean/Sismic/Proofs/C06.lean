import Sismic.Proofs.Sort
import Sismic.Spec.Run
/-!
# Sismic.Proofs.C06 — history memory: what exits record, what nothing else touches
-/
namespace Sismic

/-- the memory entry of history state `h` -/
def memGet (mem : List (Name × List Name)) (h : Name) : Option (Name × List Name) :=
  mem.find? (fun p => p.1 == h)

theorem memGet_assocSet_same (h : Name) (a : List Name) : ∀ mem : List (Name × List Name),
    memGet (assocSet h a mem) h = some (h, a)
  | [] => by simp [memGet, assocSet]
  | (k, v) :: r => by
    simp only [assocSet]
    split
    · simp [memGet]
    · next hk =>
      have ih := memGet_assocSet_same h a r
      simp only [memGet, List.find?_cons] at ih ⊢
      simp only [hk]
      exact ih

theorem memGet_assocSet_other (k h : Name) (a : List Name) (hne : k ≠ h) : ∀ mem : List (Name × List Name),
    memGet (assocSet k a mem) h = memGet mem h
  | [] => by simp [memGet, assocSet, hne]
  | (k', v) :: r => by
    simp only [assocSet]
    split
    · next hk =>
      have : k' = k := by simpa using hk
      subst this
      simp [memGet, List.find?_cons, hne]
    · have ih := memGet_assocSet_other k h a hne r
      simp only [memGet, List.find?_cons] at ih ⊢
      split
      · rfl
      · exact ih

theorem saveMem_other (c : Chart) (cfg0 : List Name) (s : StateDef) (h : Name) :
    ∀ (rest : List Name) (mem : List (Name × List Name)), h ∉ rest →
      memGet (saveMem c cfg0 s mem rest) h = memGet mem h
  | [], mem, _ => rfl
  | ch :: rest, mem, hn => by
    have hne : ch ≠ h := fun e => hn (e ▸ List.mem_cons_self)
    have hr : h ∉ rest := fun e => hn (List.mem_cons_of_mem _ e)
    simp only [saveMem]
    split
    · rw [saveMem_other c cfg0 s h rest _ hr, memGet_assocSet_other ch h _ hne]
    · exact saveMem_other c cfg0 s h rest _ hr

theorem saveMem_hit (c : Chart) (cfg0 : List Name) (s : StateDef) (h : Name) (a : List Name)
    (hm : memoryOf c cfg0 s h = .ok (some a)) :
    ∀ (rest : List Name) (mem : List (Name × List Name)), h ∈ rest →
      memGet (saveMem c cfg0 s mem rest) h = some (h, a)
  | [], _, hin => absurd hin (by simp)
  | ch :: rest, mem, hin => by
    by_cases hr : h ∈ rest
    · simp only [saveMem]
      split
      · exact saveMem_hit c cfg0 s h a hm rest _ hr
      · exact saveMem_hit c cfg0 s h a hm rest _ hr
    · have hch : ch = h := by
        rcases List.mem_cons.mp hin with e | e
        · exact e.symm
        · exact absurd e hr
      subst hch
      simp only [saveMem, hm]
      rw [saveMem_other c cfg0 s ch rest _ hr, memGet_assocSet_same]

/-- exiting `n` changes the memory of `h` only if `n` is compound and `h` one of its children -/
theorem exitPure_other (c : Chart) (cfg0 : List Name) (cm : List Name × List (Name × List Name)) (n h : Name)
    (hn : h ∉ c.childrenFor n) : memGet (exitPure c cfg0 cm n).2 h = memGet cm.2 h := by
  simp only [exitPure]
  split
  · exact saveMem_other c cfg0 _ h _ _ hn
  · rfl

theorem foldl_exitPure_other (c : Chart) (cfg0 : List Name) (h : Name) :
    ∀ (ex : List Name) (cm : List Name × List (Name × List Name)), (∀ n ∈ ex, h ∉ c.childrenFor n) →
      memGet (ex.foldl (exitPure c cfg0) cm).2 h = memGet cm.2 h
  | [], _, _ => rfl
  | n :: ex, cm, hall => by
    simp only [List.foldl_cons]
    rw [foldl_exitPure_other c cfg0 h ex _ (fun m hm => hall m (List.mem_cons_of_mem _ hm)),
      exitPure_other c cfg0 cm n h (hall n List.mem_cons_self)]

end Sismic
