import Sismic.Model.Interp
/-!
# Sismic.Proofs.Queue — `_queue_event` (bisect_right + insert) and `_select_event`
-/
namespace Sismic

/-- due times never decrease along the queue -/
def QSorted (q : List (Int × Event)) : Prop := q.Pairwise (fun a b => a.1 ≤ b.1)

theorem mem_queueInsert (d : Int) (e : Event) (q : List (Int × Event)) (x : Int × Event) :
    x ∈ queueInsert d e q ↔ x = (d, e) ∨ x ∈ q := by
  induction q with
  | nil => simp [queueInsert]
  | cons p r ih =>
    obtain ⟨d', x'⟩ := p
    unfold queueInsert
    split
    · simp only [List.mem_cons, ih]
      constructor
      · rintro (h | h | h)
        · exact Or.inr (Or.inl h)
        · exact Or.inl h
        · exact Or.inr (Or.inr h)
      · rintro (h | h | h)
        · exact Or.inr (Or.inl h)
        · exact Or.inl h
        · exact Or.inr (Or.inr h)
    · simp [List.mem_cons]

/-- the event is put behind every entry that is due no later, in front of every later one -/
theorem queueInsert_eq (d : Int) (e : Event) (q : List (Int × Event)) :
    queueInsert d e q = q.takeWhile (fun p => decide (p.1 ≤ d)) ++ (d, e) :: q.dropWhile (fun p => decide (p.1 ≤ d)) := by
  induction q with
  | nil => simp [queueInsert]
  | cons p r ih =>
    obtain ⟨d', x'⟩ := p
    unfold queueInsert
    by_cases h : d' ≤ d
    · simp [h, ih]
    · simp [h]

theorem queueInsert_sorted (d : Int) (e : Event) (q : List (Int × Event)) (h : QSorted q) :
    QSorted (queueInsert d e q) := by
  induction q with
  | nil => simp [queueInsert, QSorted]
  | cons p r ih =>
    obtain ⟨d', x'⟩ := p
    unfold queueInsert
    unfold QSorted at h ⊢
    rw [List.pairwise_cons] at h
    by_cases hd : d' ≤ d
    · simp only [hd, if_true]
      rw [List.pairwise_cons]
      refine ⟨?_, ih h.2⟩
      intro x hx
      rcases (mem_queueInsert d e r x).mp hx with rfl | hx
      · exact hd
      · exact h.1 x hx
    · simp only [hd, if_false]
      rw [List.pairwise_cons, List.pairwise_cons]
      refine ⟨?_, h⟩
      intro x hx
      rcases List.mem_cons.mp hx with rfl | hx
      · simp only; omega
      · have := h.1 x hx; simp only at this ⊢; omega

theorem queueInsert_perm (d : Int) (e : Event) (q : List (Int × Event)) :
    (queueInsert d e q).Perm ((d, e) :: q) := by
  induction q with
  | nil => simp [queueInsert]
  | cons p r ih =>
    obtain ⟨d', x'⟩ := p
    unfold queueInsert
    split
    · exact (List.Perm.cons _ ih).trans (List.Perm.swap _ _ _)
    · exact List.Perm.refl _

/-- in a sorted queue the head is due first -/
theorem head_least (q : List (Int × Event)) (h : QSorted q) (p : Int × Event) (r : List (Int × Event))
    (hq : q = p :: r) : ∀ x ∈ q, p.1 ≤ x.1 := by
  subst hq
  intro x hx
  rcases List.mem_cons.mp hx with rfl | hx
  · exact Int.le_refl _
  · exact (List.pairwise_cons.mp h).1 x hx

variable {σ : Type}

/-- consuming takes exactly the event that selecting shows -/
theorem pop_fst_eq_peek (st : IState σ) : (popEvent st).1 = peekEvent st := by
  unfold popEvent peekEvent
  split
  · split
    · rfl
    · split
      · split <;> rfl
      · rfl
  · split
    · split <;> rfl
    · rfl

/-- what `_select_event` returns: the head of the internal queue if it is due, else the head of
    the external queue if it is due, else nothing -/
theorem peek_spec (st : IState σ) :
    peekEvent st =
      match st.intQ.head? with
      | some (d, e) => if d ≤ st.time then some e else
          (match st.extQ.head? with
           | some (d', e') => if d' ≤ st.time then some e' else none
           | none => none)
      | none =>
          (match st.extQ.head? with
           | some (d', e') => if d' ≤ st.time then some e' else none
           | none => none) := by
  unfold peekEvent
  cases st.intQ with
  | nil => cases st.extQ with
    | nil => rfl
    | cons p r => obtain ⟨d, e⟩ := p; rfl
  | cons p r =>
    obtain ⟨d, e⟩ := p
    cases st.extQ with
    | nil => simp
    | cons p' r' => obtain ⟨d', e'⟩ := p'; simp

/-- consuming removes exactly one entry: the head of the queue the event was taken from -/
theorem pop_spec (st : IState σ) :
    (peekEvent st = none ∧ (popEvent st).2 = st) ∨
    (∃ d e r, st.intQ = (d, e) :: r ∧ d ≤ st.time ∧ peekEvent st = some e ∧ (popEvent st).2 = { st with intQ := r }) ∨
    (∃ d e r, st.extQ = (d, e) :: r ∧ d ≤ st.time ∧ peekEvent st = some e ∧
      (∀ d' e' r', st.intQ = (d', e') :: r' → ¬ d' ≤ st.time) ∧ (popEvent st).2 = { st with extQ := r }) := by
  unfold popEvent peekEvent
  cases hi : st.intQ with
  | nil =>
    cases he : st.extQ with
    | nil => left; simp
    | cons p r =>
      obtain ⟨d, e⟩ := p
      by_cases hd : d ≤ st.time
      · right; right
        refine ⟨d, e, r, rfl, hd, ?_, ?_, ?_⟩
        · simp [hd]
        · intro _ _ _ h; cases h
        · simp [hd]
      · left; simp [hd]
  | cons p r =>
    obtain ⟨d, e⟩ := p
    by_cases hd : d ≤ st.time
    · right; left
      refine ⟨d, e, r, rfl, hd, ?_, ?_⟩
      · simp [hd]
      · simp [hd]
    · cases he : st.extQ with
      | nil => left; simp [hd]
      | cons p' r' =>
        obtain ⟨d', e'⟩ := p'
        by_cases hd' : d' ≤ st.time
        · right; right
          refine ⟨d', e', r', rfl, hd', ?_, ?_, ?_⟩
          · simp [hd, hd']
          · intro d'' e'' r'' h
            cases h
            exact hd
          · simp [hd, hd']
        · left; simp [hd, hd']

end Sismic
