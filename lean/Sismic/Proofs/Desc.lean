import Sismic.Proofs.Tree
/-!
# Sismic.Proofs.Desc — `descendants_for` (breadth-first, with fuel) ↔ `Anc`
-/
namespace Sismic

variable (c : Chart)

theorem descF_sound (hch : ∀ p ch, ch ∈ c.childrenFor p → c.parentFor ch = some p) :
    ∀ (f : Nat) (q : List Name) (x : Name), x ∈ c.descF f q → ∃ n ∈ q, Anc c n x := by
  intro f
  induction f with
  | zero => intro q x h; simp [Chart.descF] at h
  | succ f ih =>
    intro q x h
    cases q with
    | nil => simp [Chart.descF] at h
    | cons n rest =>
      simp only [Chart.descF, List.mem_append] at h
      rcases h with h | h
      · exact ⟨n, List.mem_cons_self, Anc.base (hch n x h)⟩
      · obtain ⟨m, hm, ha⟩ := ih _ x h
        rcases List.mem_append.mp hm with hm | hm
        · exact ⟨m, List.mem_cons_of_mem _ hm, ha⟩
        · exact ⟨n, List.mem_cons_self, (Anc.base (hch n m hm)).trans ha⟩

/-- a proper descendant lies in the subtree of a child -/
theorem Anc.child_of {c : Chart} {n x : Name} (h : Anc c n x) : ∃ k, c.parentFor k = some n ∧ Sub c k x := by
  induction h with
  | base hp => exact ⟨_, hp, Or.inl rfl⟩
  | step hp _ ih =>
    obtain ⟨k, hk, hs⟩ := ih
    refine ⟨k, hk, Or.inr ?_⟩
    rcases hs with h | h
    · rw [h] at hp; exact Anc.base hp
    · exact Anc.step hp h

/-- the breadth-first frontier: no element is (in the subtree of) another -/
def Unrel (c : Chart) (q : List Name) : Prop := q.Pairwise (fun a b => ¬ Sub c a b ∧ ¬ Sub c b a)

theorem descF_complete (hT : TreeOK c) (hch : ∀ p ch, ch ∈ c.childrenFor p ↔ c.parentFor ch = some p)
    (hnd : ∀ p, (c.childrenFor p).Nodup) :
    ∀ (f : Nat) (q : List Name), Unrel c q →
      (∃ L : List Name, L.Nodup ∧ (∀ x, (∃ n ∈ q, Sub c n x) → x ∈ L) ∧ L.length < f) →
      ∀ n ∈ q, ∀ x, Anc c n x → x ∈ c.descF f q := by
  intro f
  induction f with
  | zero => intro q _ ⟨L, _, _, hl⟩; omega
  | succ f ih =>
    intro q hun ⟨L, hLn, hLc, hLl⟩ m hm x hax
    cases q with
    | nil => simp at hm
    | cons n rest =>
      simp only [Chart.descF, List.mem_append]
      have hun' : Unrel c (rest ++ c.childrenFor n) := by
        simp only [Unrel, List.pairwise_append]
        have hp := List.pairwise_cons.mp hun
        refine ⟨hp.2, ?_, ?_⟩
        · -- siblings
          have hnd' := hnd n
          refine (List.pairwise_iff_forall_sublist.mpr ?_)
          intro a b hab
          have ha : a ∈ c.childrenFor n := hab.subset (by simp)
          have hb : b ∈ c.childrenFor n := hab.subset (by simp)
          have hne : a ≠ b := by
            intro e; subst e
            have := (List.pairwise_iff_forall_sublist.mp hnd') hab
            exact this rfl
          have pa := (hch n a).mp ha
          have pb := (hch n b).mp hb
          constructor
          · rintro (e | e)
            · exact hne e.symm
            · rcases Anc.parent_cases' c e pb with e' | e'
              · rw [e'] at pa; exact Anc.irrefl' c hT (Anc.base pa)
              · exact Anc.asymm' c hT e' (Anc.base pa)
          · rintro (e | e)
            · exact hne e
            · rcases Anc.parent_cases' c e pa with e' | e'
              · rw [e'] at pb; exact Anc.irrefl' c hT (Anc.base pb)
              · exact Anc.asymm' c hT e' (Anc.base pb)
        · intro r hr k hk
          have pk := (hch n k).mp hk
          have hnr := hp.1 r hr
          constructor
          · rintro (e | e)
            · -- k = r: then n is the parent of r
              rw [e] at pk; exact hnr.1 (Or.inr (Anc.base pk))
            · rcases Anc.parent_cases' c e pk with e' | e'
              · exact hnr.2 (Or.inl e'.symm)
              · exact hnr.2 (Or.inr e')
          · rintro (e | e)
            · rw [← e] at pk; exact hnr.1 (Or.inr (Anc.base pk))
            · exact hnr.1 (Or.inr ((Anc.base pk).trans e))
      have hn_in : n ∈ L := hLc n ⟨n, List.mem_cons_self, Or.inl rfl⟩
      have hL' : ∃ L' : List Name, L'.Nodup ∧ (∀ x, (∃ k ∈ rest ++ c.childrenFor n, Sub c k x) → x ∈ L') ∧ L'.length < f := by
        refine ⟨L.erase n, hLn.erase n, ?_, ?_⟩
        · intro y ⟨k, hk, hs⟩
          have hy : y ∈ L := by
            apply hLc
            rcases List.mem_append.mp hk with hk | hk
            · exact ⟨k, List.mem_cons_of_mem _ hk, hs⟩
            · have pk := (hch n k).mp hk
              refine ⟨n, List.mem_cons_self, Or.inr ?_⟩
              rcases hs with e | e
              · rw [e]; exact Anc.base pk
              · exact (Anc.base pk).trans e
          have hne : y ≠ n := by
            intro e; subst e
            rcases List.mem_append.mp hk with hk | hk
            · exact ((List.pairwise_cons.mp hun).1 k hk).2 hs
            · have pk := (hch y k).mp hk
              rcases hs with e | e
              · rw [e] at pk; exact Anc.irrefl' c hT (Anc.base pk)
              · exact Anc.asymm' c hT e (Anc.base pk)
          exact (List.mem_erase_of_ne hne).mpr hy
        · have := List.length_pos_of_mem hn_in
          rw [List.length_erase_of_mem hn_in]; omega
      rcases List.mem_cons.mp hm with rfl | hm
      · obtain ⟨k, pk, hs⟩ := Anc.child_of hax
        have hk : k ∈ c.childrenFor m := (hch m k).mpr pk
        rcases hs with e | e
        · left; rw [e]; exact hk
        · right; exact ih _ hun' hL' k (List.mem_append_right _ hk) x e
      · right; exact ih _ hun' hL' m (List.mem_append_left _ hm) x hax

theorem hasState_mem_names (c : Chart) (n : Name) (h : c.hasState n = true) : n ∈ c.states.map (·.name) := by
  simp only [Chart.hasState, Chart.stateFor, Option.isSome_iff_exists] at h
  obtain ⟨s, hs⟩ := h
  have := List.find?_some hs
  exact List.mem_map.mpr ⟨s, List.mem_of_find?_eq_some hs, by simpa using this⟩

/-- **`descendants_for(s)` lists exactly the proper descendants of `s`** -/
theorem mem_descendants (h : WFChart c) (s : Name) (hs : c.hasState s = true) (x : Name) :
    x ∈ c.descendants s ↔ Anc c s x := by
  constructor
  · intro hx
    obtain ⟨n, hn, ha⟩ := descF_sound c (fun p ch hc => (h.children p ch).mp hc) _ _ x hx
    simp only [List.mem_singleton] at hn
    exact hn ▸ ha
  · intro ha
    refine descF_complete c h.tree h.children h.childrenNodup _ [s] (List.pairwise_singleton _ _)
      ⟨c.states.map (·.name), h.names, ?_, by simp⟩ s (List.mem_singleton.mpr rfl) x ha
    intro y ⟨n, hn, hsub⟩
    simp only [List.mem_singleton] at hn
    subst hn
    rcases hsub with e | e
    · rw [e]; exact hasState_mem_names c n hs
    · -- a proper descendant has a parent, hence is a state
      have : c.hasState y = true := by
        cases e with
        | base hp => exact (h.parentState _ _ hp).1
        | step hp _ => exact (h.parentState _ _ hp).1
      exact hasState_mem_names c y this

end Sismic
