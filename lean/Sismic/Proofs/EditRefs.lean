import Sismic.Proofs.EditInv
/-!
# Sismic.Proofs.EditRefs — editing never leaves a dangling `initial` / `memory`

`RefsOK`: the `initial` of every compound state and the `memory` of every history state name a
state of the statechart.  `remove_state` (with its recursion), `move_state`, `rename_state` and
the three transition operations keep it — whether they succeed or raise — and `add_state` keeps
it for the states that were there (the new state brings its own references).
-/
namespace Sismic
namespace Chart

/-- no `initial` of a compound state and no `memory` of a history state dangles -/
def RefsOK (c : Chart) : Prop :=
  ∀ s ∈ c.states, (s.kind = .compound → ∀ i, s.initial = some i → c.hasState i = true) ∧
    (s.kind.isHistory = true → ∀ m, s.memory = some m → c.hasState m = true)

/-- the references of one state, for `add_state` -/
def StateRefsIn (c : Chart) (s : StateDef) : Prop :=
  (s.kind = .compound → ∀ i, s.initial = some i → c.hasState i = true ∨ i = s.name) ∧
    (s.kind.isHistory = true → ∀ m, s.memory = some m → c.hasState m = true ∨ m = s.name)

theorem refsOK_of_same_states {c c' : Chart} (h : c'.states = c.states) (hc : c.RefsOK) : c'.RefsOK := by
  intro s hs
  rw [h] at hs
  have : ∀ n, c'.hasState n = c.hasState n := fun n => by simp only [hasState, stateFor, h]
  simp only [this]
  exact hc s hs

theorem removeLeaf_hasState (c : Chart) (name n : Name) (hn : n ≠ name) :
    (c.removeLeaf name).hasState n = c.hasState n := by
  obtain ⟨hs, _⟩ := removeLeaf_states c name
  simp only [hasState, stateFor, hs, find?_filter_ne n name hn, find?_map_name (unref name) (unref_name name)]
  cases c.states.find? (fun s => s.name == n) <;> rfl

theorem removeLeaf_refsOK (c : Chart) (name : Name) (hc : c.RefsOK) : (c.removeLeaf name).RefsOK := by
  intro s' hs'
  rw [(removeLeaf_states c name).1, List.mem_filter, List.mem_map] at hs'
  obtain ⟨⟨s, hs, rfl⟩, _⟩ := hs'
  obtain ⟨h1, h2⟩ := hc s hs
  rw [unref_kind]
  constructor
  · intro hk i hi
    unfold unref at hi
    have hk' : (s.kind == Kind.compound) = true := by simp [hk]
    by_cases e : s.initial = some name
    · simp [hk', e] at hi
    · have hh : s.kind.isHistory = false := by rw [hk]; rfl
      simp only [hk', Bool.true_and, beq_iff_eq, e, if_false, hh, Bool.false_and, Bool.false_eq_true] at hi
      have hne : i ≠ name := fun x => e (by rw [hi, x])
      rw [removeLeaf_hasState c name i hne]
      exact h1 hk i hi
  · intro hk m hm
    unfold unref at hm
    have hk' : (s.kind == Kind.compound) = false := by
      cases hkk : s.kind <;> simp_all [Kind.isHistory]
    by_cases e : s.memory = some name
    · simp [hk', hk, e] at hm
    · simp only [hk', Bool.false_and, Bool.false_eq_true, if_false, hk, Bool.true_and, beq_iff_eq, e] at hm
      have hne : m ≠ name := fun x => e (by rw [hm, x])
      rw [removeLeaf_hasState c name m hne]
      exact h2 hk m hm

/-- whatever `remove_state` leaves — also when it raises half-way — has no dangling reference -/
theorem removeStateF_refsOK : ∀ (f : Nat) (c : Chart) (n : Name), c.RefsOK → (removeStateF f c n).2.RefsOK
  | 0, c, n, hc => by simpa [removeStateF] using hc
  | f+1, c, n, hc => by
    unfold removeStateF
    split
    · exact hc
    have hgo : ∀ (l : List Name) (c0 : Chart), c0.RefsOK → (removeStateF.go f c0 l).2.RefsOK := by
      intro l
      induction l with
      | nil => intro c0 h0; unfold removeStateF.go; exact h0
      | cons ch rest ih =>
        intro c0 h0
        unfold removeStateF.go
        have h1 := removeStateF_refsOK f c0 ch h0
        obtain ⟨res, c1, hx⟩ : ∃ res c1, removeStateF f c0 ch = (res, c1) := ⟨_, _, rfl⟩
        simp only [hx] at h1 ⊢
        cases res with
        | error e => exact h1
        | ok u => exact ih c1 h1
    have h1 := hgo (c.childrenFor n) c hc
    obtain ⟨res, c1, hx⟩ : ∃ res c1, removeStateF.go f c (c.childrenFor n) = (res, c1) := ⟨_, _, rfl⟩
    simp only [hx] at h1 ⊢
    cases res with
    | error e => exact h1
    | ok u => exact removeLeaf_refsOK c1 n h1

theorem removeState_refsOK (c : Chart) (n : Name) (hc : c.RefsOK) : (c.removeState n).2.RefsOK :=
  removeStateF_refsOK _ c n hc

/-! ### `move_state` -/

/-- what `move_state(name, …)` does to one state (`hist`: the moved state is a history state) -/
def mvref (name : Name) (hist : Bool) (s : StateDef) : StateDef :=
  let s0 := if s.name == name && hist then { s with memory := none } else s
  if s0.kind == .compound && s0.initial == some name then { s0 with initial := none }
  else if s0.kind.isHistory && s0.memory == some name then { s0 with memory := none }
  else s0

theorem moveState_states (c : Chart) (a b : Name) (h : (c.moveState a b).1 = .ok ()) :
    ∃ st, c.stateFor a = some st ∧ (c.moveState a b).2.states = c.states.map (mvref a st.kind.isHistory) := by
  generalize hr : c.moveState a b = r at h ⊢
  unfold moveState at hr
  repeat' split at hr
  all_goals (subst hr; first | (simp at h; done) | skip)
  next st hst _ _ => exact ⟨st, hst, rfl⟩

theorem mvref_name (name : Name) (hist : Bool) (s : StateDef) : (mvref name hist s).name = s.name := by
  unfold mvref; simp only; repeat' split
  all_goals rfl

theorem mvref_kind (name : Name) (hist : Bool) (s : StateDef) : (mvref name hist s).kind = s.kind := by
  unfold mvref; simp only; repeat' split
  all_goals rfl

theorem mvref_initial (name : Name) (hist : Bool) (s : StateDef) (i : Name)
    (h : (mvref name hist s).initial = some i) : s.initial = some i := by
  unfold mvref at h
  simp only at h
  repeat' split at h
  all_goals first | exact h | (simp at h; done)

theorem mvref_memory (name : Name) (hist : Bool) (s : StateDef) (m : Name)
    (h : (mvref name hist s).memory = some m) : s.memory = some m := by
  unfold mvref at h
  simp only at h
  repeat' split at h
  all_goals first | exact h | (simp at h; done)

theorem moveState_refsOK (c : Chart) (a b : Name) (hc : c.RefsOK) (h : (c.moveState a b).1 = .ok ()) :
    (c.moveState a b).2.RefsOK := by
  obtain ⟨st, _, hs⟩ := moveState_states c a b h
  generalize st.kind.isHistory = hist at hs
  have hhas : ∀ n, (c.moveState a b).2.hasState n = c.hasState n := by
    intro n
    simp only [hasState, stateFor, hs, find?_map_name (mvref a hist) (mvref_name a hist)]
    cases c.states.find? (fun s => s.name == n) <;> rfl
  intro s' hs'
  rw [hs, List.mem_map] at hs'
  obtain ⟨s, hsm, rfl⟩ := hs'
  obtain ⟨h1, h2⟩ := hc s hsm
  rw [mvref_kind]
  simp only [hhas]
  exact ⟨fun hk i hi => h1 hk i (mvref_initial a hist s i hi), fun hk m hm => h2 hk m (mvref_memory a hist s m hm)⟩

/-! ### `rename_state` -/

theorem renameState_hasState (c : Chart) (a b : Name) (h : (c.renameState a b).1 = .ok ()) (hne : a ≠ b) (n : Name) :
    (c.renameState a b).2.hasState n = (n == b || (c.hasState n && n != a)) := by
  obtain ⟨hb, ha, hs⟩ := renameState_states c a b h hne
  simp only [hasState, stateFor, hs, List.find?_append]
  by_cases e : n = a
  · subst e
    have h1 : ((c.states.map (reref n b)).filter (fun s => s.name != n)).find? (fun s => s.name == n) = none := by
      rw [List.find?_eq_none]
      intro x hx
      simp only [List.mem_filter, bne_iff_ne, ne_eq] at hx
      simpa using hx.2
    have hnb : (n == b) = false := by simp [hne]
    simp only [h1, Option.none_or, bne_self_eq_false, Bool.and_false, Bool.or_false, hnb]
    cases (c.states.map (reref n b)).find? (fun s => s.name == n) with
    | none => rfl
    | some s =>
      simp only [Option.map_some, Option.toList_some, List.find?_cons, List.find?_nil]
      have : (b == n) = false := by simp [Ne.symm hne]
      simp [this]
  · have hna : (n != a) = true := by simp [e]
    rw [find?_filter_ne n a e, find?_map_name (reref a b) (reref_name a b)]
    simp only [hna, Bool.and_true]
    cases hf : c.states.find? (fun s => s.name == n) with
    | some s =>
      simp only [Option.map_some, Option.some_or, Option.isSome_some, Bool.or_true]
    | none =>
      simp only [Option.map_none, Option.none_or, Option.isSome_none, Bool.or_false]
      rw [find?_map_name (reref a b) (reref_name a b)]
      cases hfa : c.states.find? (fun s => s.name == a) with
      | none =>
        simp [hasState, stateFor, hfa] at ha
      | some sa =>
        simp only [Option.map_some, Option.toList_some, List.find?_cons, List.find?_nil]
        by_cases e2 : n = b
        · subst e2; simp
        · have : (b == n) = false := by simp [Ne.symm e2]
          have h2 : (n == b) = false := by simp [e2]
          simp [this, h2]

theorem reref_initial (a b : Name) (s : StateDef) (hk : s.kind = .compound) (i : Name)
    (h : (reref a b s).initial = some i) : (s.initial = some a ∧ i = b) ∨ (s.initial = some i ∧ i ≠ a) := by
  unfold reref at h
  have hk' : (s.kind == Kind.compound) = true := by simp [hk]
  have hh : s.kind.isHistory = false := by rw [hk]; rfl
  by_cases e : s.initial = some a
  · simp only [hk', e, beq_self_eq_true, Bool.and_self, if_true, hh, Bool.false_and, Bool.false_eq_true, if_false,
      Option.some.injEq] at h
    exact .inl ⟨e, h.symm⟩
  · simp only [hk', Bool.true_and, beq_iff_eq, e, if_false, hh, Bool.false_and, Bool.false_eq_true] at h
    exact .inr ⟨h, fun x => e (by rw [h, x])⟩

theorem reref_memory (a b : Name) (s : StateDef) (hk : s.kind.isHistory = true) (m : Name)
    (h : (reref a b s).memory = some m) : (s.memory = some a ∧ m = b) ∨ (s.memory = some m ∧ m ≠ a) := by
  unfold reref at h
  have hk' : (s.kind == Kind.compound) = false := by
    cases hkk : s.kind <;> simp_all [Kind.isHistory]
  by_cases e : s.memory = some a
  · simp only [hk', Bool.false_and, Bool.false_eq_true, if_false, hk, e, beq_self_eq_true, Bool.and_self, if_true,
      Option.some.injEq] at h
    exact .inl ⟨e, h.symm⟩
  · simp only [hk', Bool.false_and, Bool.false_eq_true, if_false, hk, Bool.true_and, beq_iff_eq, e] at h
    exact .inr ⟨h, fun x => e (by rw [h, x])⟩

theorem renameState_refsOK (c : Chart) (a b : Name) (hc : c.RefsOK) (h : (c.renameState a b).1 = .ok ()) :
    (c.renameState a b).2.RefsOK := by
  by_cases hne : a = b
  · subst hne; rw [rename_same_is_noop]; exact hc
  obtain ⟨hb, ha, hs⟩ := renameState_states c a b h hne
  have key : ∀ s ∈ c.states, ∀ s' : StateDef, s'.kind = s.kind → s'.initial = (reref a b s).initial →
      s'.memory = (reref a b s).memory →
      (s'.kind = .compound → ∀ i, s'.initial = some i → (c.renameState a b).2.hasState i = true) ∧
      (s'.kind.isHistory = true → ∀ m, s'.memory = some m → (c.renameState a b).2.hasState m = true) := by
    intro s hsm s' hk hi hm
    obtain ⟨h1, h2⟩ := hc s hsm
    rw [hk, hi, hm]
    constructor
    · intro hkc i hii
      rw [renameState_hasState c a b h hne]
      rcases reref_initial a b s hkc i hii with ⟨_, e⟩ | ⟨e1, e2⟩
      · simp [e]
      · simp [h1 hkc i e1, e2]
    · intro hkh m hmm
      rw [renameState_hasState c a b h hne]
      rcases reref_memory a b s hkh m hmm with ⟨_, e⟩ | ⟨e1, e2⟩
      · simp [e]
      · simp [h2 hkh m e1, e2]
  intro s' hs'
  rw [hs, List.mem_append] at hs'
  rcases hs' with hs' | hs'
  · rw [List.mem_filter, List.mem_map] at hs'
    obtain ⟨⟨s, hsm, rfl⟩, _⟩ := hs'
    exact key s hsm _ (reref_kind a b s) rfl rfl
  · cases hf : (c.states.map (reref a b)).find? (fun s => s.name == a) with
    | none => simp [hf] at hs'
    | some x =>
      simp only [hf, Option.map_some, Option.toList_some, List.mem_singleton] at hs'
      have hx := List.mem_of_find?_eq_some hf
      rw [List.mem_map] at hx
      obtain ⟨s, hsm, rfl⟩ := hx
      subst hs'
      exact key s hsm _ (reref_kind a b s) rfl rfl

/-! ### `add_state`, the transition operations, sessions -/

theorem addState_refsOK (c : Chart) (s : StateDef) (p : Option Name) (hc : c.RefsOK) (hs : c.StateRefsIn s)
    (h : (c.addState s p).1 = .ok ()) : (c.addState s p).2.RefsOK := by
  obtain ⟨hfresh, hst, _⟩ := addState_states c s p h
  have hhas : ∀ n, (c.addState s p).2.hasState n = (c.hasState n || n == s.name) := by
    intro n
    simp only [hasState, stateFor, hst, List.find?_append]
    cases hf : c.states.find? (fun x => x.name == n) with
    | some x => simp
    | none =>
      simp only [Option.none_or, Option.isSome_none, Bool.false_or, List.find?_cons, List.find?_nil]
      by_cases e : s.name = n
      · simp [e]
      · have : (s.name == n) = false := by simp [e]
        have h2 : (n == s.name) = false := by simp [Ne.symm e]
        simp [this, h2]
  intro s' hs'
  rw [hst, List.mem_append, List.mem_singleton] at hs'
  simp only [hhas, Bool.or_eq_true, beq_iff_eq]
  rcases hs' with hs' | rfl
  · obtain ⟨h1, h2⟩ := hc s' hs'
    exact ⟨fun hk i hi => .inl (h1 hk i hi), fun hk m hm => .inl (h2 hk m hm)⟩
  · exact ⟨fun hk i hi => hs.1 hk i hi, fun hk m hm => hs.2 hk m hm⟩

/-- the states `add_state` is given in this session bring no dangling reference -/
def EditOp.RefsIn (c : Chart) : EditOp → Prop
  | .addState s _ => c.StateRefsIn s
  | _ => True

theorem applyEdit_refsOK (c : Chart) (op : EditOp) (hc : c.RefsOK) (hop : op.RefsIn c) : (c.applyEdit op).2.RefsOK := by
  have atomic : ∀ (r : EditRes), (∀ e, r.1 = .error e → r.2 = c) → (r.1 = .ok () → r.2.RefsOK) → r.2.RefsOK := by
    intro r h1 h2
    cases hr : r.1 with
    | error e => rw [h1 e hr]; exact hc
    | ok u => exact h2 hr
  cases op with
  | addState s p => exact atomic _ (addState_atomic c s p) (addState_refsOK c s p hc hop)
  | addTransition t =>
    exact atomic _ (addTransition_atomic c t) (fun h => refsOK_of_same_states (by
      show (c.addTransition t).2.states = c.states
      unfold addTransition; repeat' split
      all_goals rfl) hc)
  | removeTransition t =>
    exact atomic _ (removeTransition_atomic c t) (fun h => refsOK_of_same_states (by
      show (c.removeTransition t).2.states = c.states
      unfold removeTransition; split <;> rfl) hc)
  | removeState n => exact removeState_refsOK c n hc
  | renameState a b => exact atomic _ (renameState_atomic c a b) (renameState_refsOK c a b hc)
  | moveState a b => exact atomic _ (moveState_atomic c a b) (moveState_refsOK c a b hc)
  | rotateTransition i s t =>
    exact atomic _ (rotateTransition_atomic c i s t) (fun h => refsOK_of_same_states (by
      show (c.rotateTransition i s t).2.states = c.states
      unfold rotateTransition; repeat' split
      all_goals rfl) hc)

/-- every `add_state` of the session is given a state whose references exist when it is added -/
def SessionRefsIn (c : Chart) : List EditOp → Prop
  | [] => True
  | op :: ops => op.RefsIn c ∧ SessionRefsIn (c.applyEdit op).2 ops

theorem applyEdits_refsOK : ∀ (ops : List EditOp) (c : Chart), c.RefsOK → c.SessionRefsIn ops → (c.applyEdits ops).RefsOK
  | [], _, hc, _ => hc
  | op :: ops, c, hc, h => applyEdits_refsOK ops _ (applyEdit_refsOK c op hc h.1) h.2

/-- a Boolean form, for examples -/
def refsOKB (c : Chart) : Bool :=
  c.states.all (fun s =>
    (s.kind != .compound || (match s.initial with | some i => c.hasState i | none => true)) &&
    (!s.kind.isHistory || (match s.memory with | some m => c.hasState m | none => true)))

theorem refsOKB_sound (c : Chart) (h : c.refsOKB = true) : c.RefsOK := by
  intro s hs
  simp only [refsOKB, List.all_eq_true] at h
  have := h s hs
  simp only [Bool.and_eq_true, Bool.or_eq_true, bne_iff_ne, ne_eq, Bool.not_eq_true'] at this
  obtain ⟨h1, h2⟩ := this
  constructor
  · intro hk i hi
    rcases h1 with h1 | h1
    · exact absurd hk h1
    · simpa [hi] using h1
  · intro hk m hm
    rcases h2 with h2 | h2
    · rw [hk] at h2; exact absurd h2 (by simp)
    · simpa [hm] using h2

end Chart
end Sismic
