import Sismic.Model.Plan
/-!
# Sismic.Proofs.Sort — insertion sort: permutation, sortedness
-/
namespace Sismic

theorem insSorted_perm {α} (le : α → α → Bool) (x : α) : ∀ l : List α, (insSorted le x l).Perm (x :: l)
  | [] => List.Perm.refl _
  | y :: ys => by
    simp only [insSorted]
    split
    · exact List.Perm.refl _
    · exact ((insSorted_perm le x ys).cons y).trans (List.Perm.swap x y ys)

theorem isort_perm {α} (le : α → α → Bool) : ∀ l : List α, (isort le l).Perm l
  | [] => List.Perm.refl _
  | x :: xs => by
    show (insSorted le x (isort le xs)).Perm (x :: xs)
    exact (insSorted_perm le x _).trans ((isort_perm le xs).cons x)

theorem mem_isort {α} (le : α → α → Bool) (l : List α) (a : α) : a ∈ isort le l ↔ a ∈ l :=
  (isort_perm le l).mem_iff

theorem insSorted_sorted {α} (le : α → α → Bool)
    (total : ∀ a b, le a b = true ∨ le b a = true) (trans : ∀ a b c, le a b = true → le b c = true → le a c = true)
    (x : α) : ∀ l : List α, l.Pairwise (fun a b => le a b = true) → (insSorted le x l).Pairwise (fun a b => le a b = true)
  | [], _ => by simp [insSorted]
  | y :: ys, h => by
    simp only [insSorted]
    split
    · next hxy =>
      refine List.Pairwise.cons ?_ h
      intro z hz
      rcases List.mem_cons.mp hz with rfl | hz
      · exact hxy
      · exact trans _ _ _ hxy ((List.pairwise_cons.mp h).1 z hz)
    · next hxy =>
      have hyx : le y x = true := (total x y).resolve_left hxy
      refine List.Pairwise.cons ?_ (insSorted_sorted le total trans x ys (List.pairwise_cons.mp h).2)
      intro z hz
      rcases List.mem_cons.mp ((insSorted_perm le x ys).mem_iff.mp hz) with rfl | hz
      · exact hyx
      · exact (List.pairwise_cons.mp h).1 z hz

theorem isort_sorted {α} (le : α → α → Bool)
    (total : ∀ a b, le a b = true ∨ le b a = true) (trans : ∀ a b c, le a b = true → le b c = true → le a c = true) :
    ∀ l : List α, (isort le l).Pairwise (fun a b => le a b = true)
  | [] => List.Pairwise.nil
  | x :: xs => insSorted_sorted le total trans x _ (isort_sorted le total trans xs)

theorem leDepthName_total (c : Chart) (a b : Name) : c.leDepthName a b = true ∨ c.leDepthName b a = true := by
  simp only [Chart.leDepthName, decide_eq_true_eq]
  rcases Nat.lt_trichotomy (c.depth a) (c.depth b) with h | h | h
  · exact Or.inl (Or.inl h)
  · rcases String.le_total a b with h' | h'
    · exact Or.inl (Or.inr ⟨h, h'⟩)
    · exact Or.inr (Or.inr ⟨h.symm, h'⟩)
  · exact Or.inr (Or.inl h)

theorem leDepthName_trans (c : Chart) (a b d : Name) :
    c.leDepthName a b = true → c.leDepthName b d = true → c.leDepthName a d = true := by
  simp only [Chart.leDepthName, decide_eq_true_eq]
  intro h1 h2
  rcases h1 with h1 | ⟨h1, h1'⟩ <;> rcases h2 with h2 | ⟨h2, h2'⟩
  · left; omega
  · left; omega
  · left; omega
  · right; exact ⟨by omega, String.le_trans h1' h2'⟩

end Sismic
