import Sismic.Proofs.Tree
/-!
# Sismic.Proofs.WFCheck — a decision procedure for `WFChart`, proved sound

`wfB c = true → WFChart c`.  The driver evaluates `wfB` on every chart it is given and the harness
compares it with what the generator intended, so the hypothesis of the C02 theorems is one that
generated (and shipped) statecharts provably satisfy.
-/
namespace Sismic

def idxTable : Nat → List Name → List (Name × Nat)
  | _, [] => []
  | i, n :: ns => (n, i) :: idxTable (i + 1) ns

def wfB (c : Chart) : Bool :=
  treeCheck c (idxTable 0 (c.states.map (·.name))) &&
  decide (c.states.map (·.name)).Nodup &&
  (match c.root with
   | some r => (c.parentFor r).isNone && c.hasState r
   | none => false) &&
  c.parent.all (fun e => match e.2 with
    | some p => c.hasState e.1 && c.hasState p &&
        (c.kindOf p == some .compound || c.kindOf p == some .orthogonal) &&
        (c.childrenFor p).contains e.1 &&
        (c.kindOf p != some .orthogonal || (match c.kindOf e.1 with | some k => k.ownsTransitions | none => true))
    | none => true) &&
  c.states.all (fun sd => c.root == some sd.name || (c.parentFor sd.name).isSome) &&
  c.children.all (fun e => decide e.2.Nodup && match e.1 with
    | some p => e.2.all (fun ch => c.parentFor ch == some p)
    | none => true) &&
  c.states.all (fun sd => sd.kind != .compound ||
    (match sd.initial with | some i => c.parentFor i == some sd.name | none => false)) &&
  c.states.all (fun sd => !sd.kind.isHistory ||
    (match c.parentFor sd.name with
     | some p => c.kindOf p == some .compound &&
        (match sd.memory with | some m => c.parentFor m == some p && m != sd.name | none => false)
     | none => false)) &&
  c.transitions.all (fun t => c.hasState t.source &&
    (match c.kindOf t.source with | some k => k.ownsTransitions | none => true) &&
    (match t.target with
     | some tg => c.hasState tg &&
        (match c.lca t.source tg with
         | some l => c.kindOf l != some .orthogonal || lastBefore c t.source (some l) == lastBefore c tg (some l)
         | none => true)
     | none => true))

theorem stateFor_mem (c : Chart) (z : Name) (sd : StateDef) (h : c.stateFor z = some sd) :
    sd ∈ c.states ∧ sd.name = z := by
  simp only [Chart.stateFor] at h
  exact ⟨List.mem_of_find?_eq_some h, by simpa using List.find?_some h⟩

theorem parentFor_mem (c : Chart) (s p : Name) (h : c.parentFor s = some p) : (s, some p) ∈ c.parent := by
  unfold Chart.parentFor at h
  split at h
  · next q heq =>
    have hm := List.mem_of_find?_eq_some heq
    have hs := List.find?_some heq
    simp only [beq_iff_eq] at hs
    subst h; rw [← hs]; exact hm
  · cases h

theorem childrenFor_mem (c : Chart) (p : Name) (ch : Name) (h : ch ∈ c.childrenFor p) :
    ∃ l, (some p, l) ∈ c.children ∧ ch ∈ l ∧ c.childrenFor p = l := by
  unfold Chart.childrenFor at h ⊢
  split at h
  · next k l heq =>
    have hm := List.mem_of_find?_eq_some heq
    have hs := List.find?_some heq
    simp only [beq_iff_eq] at hs
    exact ⟨l, hs ▸ hm, h, rfl⟩
  · simp at h

theorem wfB_sound (c : Chart) (h : wfB c = true) : WFChart c := by
  unfold wfB at h
  simp only [Bool.and_eq_true, List.all_eq_true, decide_eq_true_eq] at h
  obtain ⟨⟨⟨⟨⟨⟨⟨⟨htree, hnames⟩, hroot⟩, hpar⟩, hnon⟩, hch⟩, hini⟩, hhis⟩, htr⟩ := h
  have entry : ∀ s p, c.parentFor s = some p →
      c.hasState s = true ∧ c.hasState p = true ∧
      (c.kindOf p = some .compound ∨ c.kindOf p = some .orthogonal) ∧ s ∈ c.childrenFor p ∧
      (c.kindOf p = some .orthogonal → ∀ k, c.kindOf s = some k → k.ownsTransitions = true) := by
    intro s p hp
    have : (c.hasState s && c.hasState p &&
        (c.kindOf p == some .compound || c.kindOf p == some .orthogonal) &&
        (c.childrenFor p).contains s &&
        (c.kindOf p != some .orthogonal || (match c.kindOf s with | some k => k.ownsTransitions | none => true))) = true :=
      hpar (s, some p) (parentFor_mem c s p hp)
    simp only [Bool.and_eq_true, Bool.or_eq_true, beq_iff_eq, List.contains_iff_mem, bne_iff_ne, ne_eq] at this
    obtain ⟨⟨⟨⟨h1, h2⟩, h3⟩, h4⟩, h5⟩ := this
    refine ⟨h1, h2, h3, h4, ?_⟩
    intro ho k hk
    rcases h5 with h5 | h5
    · exact absurd ho h5
    · rw [hk] at h5; exact h5
  refine ⟨treeOK_of_check c _ htree, hnames, ?_, ?_, ?_, ?_, ?_, ?_, ?_, ?_, ?_, ?_, ?_, ?_⟩
  · cases hr : c.root with
    | none => rw [hr] at hroot; exact absurd hroot (by simp)
    | some r =>
      rw [hr] at hroot
      simp only [Bool.and_eq_true, Option.isNone_iff_eq_none] at hroot
      exact ⟨r, rfl, hroot.1, hroot.2⟩
  · intro s p hp; exact ⟨(entry s p hp).1, (entry s p hp).2.1⟩
  · intro s hs hr
    simp only [Chart.hasState, Option.isSome_iff_exists] at hs
    obtain ⟨sd, hsd⟩ := hs
    obtain ⟨hm, hn⟩ := stateFor_mem c s sd hsd
    have := hnon sd hm
    rw [hn] at this
    simp only [Bool.or_eq_true, beq_iff_eq, Option.isSome_iff_exists] at this
    rcases this with e | e
    · exact absurd e hr
    · exact e
  · intro p ch
    constructor
    · intro hin
      obtain ⟨l, hl, hcl, _⟩ := childrenFor_mem c p ch hin
      have := hch _ hl
      simp only [Bool.and_eq_true, decide_eq_true_eq, List.all_eq_true, beq_iff_eq] at this
      exact this.2 ch hcl
    · intro hp; exact (entry ch p hp).2.2.2.1
  · intro p
    unfold Chart.childrenFor
    split
    · next k l heq =>
      have := hch _ (List.mem_of_find?_eq_some heq)
      simp only [Bool.and_eq_true, decide_eq_true_eq] at this
      exact this.1
    · exact List.nodup_nil
  · intro s p hp; exact (entry s p hp).2.2.1
  · intro z sd hsd hk
    obtain ⟨hm, hn⟩ := stateFor_mem c z sd hsd
    have := hini sd hm
    simp only [hk, bne_self_eq_false, Bool.false_or] at this
    cases hi : sd.initial with
    | none => rw [hi] at this; exact absurd this (by simp)
    | some i =>
      rw [hi] at this
      exact ⟨i, rfl, by rw [← hn]; simpa using this⟩
  · intro z ch k ho hp hk
    exact (entry ch z hp).2.2.2.2 ho k hk
  · intro hs sd hsd hk
    obtain ⟨hm, hn⟩ := stateFor_mem c hs sd hsd
    have := hhis sd hm
    simp only [hk, Bool.not_true, Bool.false_or] at this
    rw [hn] at this
    cases hp : c.parentFor hs with
    | none => rw [hp] at this; exact absurd this (by simp)
    | some p =>
      rw [hp] at this
      simp only [Bool.and_eq_true, beq_iff_eq] at this
      cases hmem : sd.memory with
      | none => rw [hmem] at this; exact absurd this.2 (by simp)
      | some m =>
        rw [hmem] at this
        simp only [Bool.and_eq_true, beq_iff_eq, bne_iff_ne, ne_eq] at this
        exact ⟨p, m, rfl, this.1, rfl, this.2.1, this.2.2⟩
  · intro t ht
    have := htr t ht
    refine ⟨this.1.1, ?_⟩
    intro tg htg
    have h2 := this.2
    rw [htg] at h2
    simp only [Bool.and_eq_true] at h2
    exact h2.1
  · intro t ht k hk
    have := (htr t ht).1.2
    rw [hk] at this
    exact this
  · intro t ht tg l htg hl ho
    have := htr t ht
    have h2 := this.2
    rw [htg] at h2
    simp only [Bool.and_eq_true, hl, Bool.or_eq_true, bne_iff_ne, ne_eq, beq_iff_eq] at h2
    rcases h2.2 with e | e
    · exact absurd ho e
    · exact e

end Sismic
