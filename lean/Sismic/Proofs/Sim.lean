import Sismic.Proofs.Hoare
import Sismic.Spec.Run
import Sismic.Proofs.LogFilters
import Sismic.Proofs.OkSpec
/-!
# Sismic.Proofs.Sim — C09: a run that ignores contracts simulates a run that checks them

Two runs of the same interpreter, one with `ignore_contract = False` in which no condition fails,
one with `ignore_contract = True`.  They are related by `Sim`: everything equal except the
evaluator states, which are related by a user-supplied relation `eqv` (the checking run also stores
frozen contexts for `__old__`), and the effect log of the ignoring run is that of the checking run
without the condition evaluations.
-/
namespace Sismic
open M

variable {σ ω : Type}

/-- effects other than condition evaluations -/
def Effect.notCond : Effect → Bool
  | .cond .. => false
  | _ => true

/-- the evaluator cannot tell `eqv`-related states apart, except through contract conditions -/
structure Blind (E : Evaluator σ) (eqv : σ → σ → Prop) : Prop where
  guard : ∀ (s : IState σ) (x : σ), eqv s.ctx x → ∀ t ev, E.guard { s with ctx := x } t ev = E.guard s t ev
  exec : ∀ (s : IState σ) (x : σ), eqv s.ctx x → ∀ k ev,
    (E.exec { s with ctx := x } k ev).2 = (E.exec s k ev).2 ∧ eqv (E.exec s k ev).1 (E.exec { s with ctx := x } k ev).1
  freeze : ∀ (a x : σ) (obj : Obj), eqv a x → eqv (E.freeze a obj) x

variable (eqv : σ → σ → Prop)

/-- the ignoring run's state is the checking run's state with another evaluator state and
    without the logged condition evaluations -/
def Sim (rs₁ rs₂ : RS σ ω) : Prop :=
  ∃ x, rs₂ = { rs₁ with st := { rs₁.st with ctx := x }, eff := rs₁.eff.filter Effect.notCond } ∧ eqv rs₁.st.ctx x

/-- `f₂` (ignoring) follows `f₁` (checking) whenever `f₁` returns normally; results related by `Rv` -/
def SimM {α : Type} (Rv : α → α → Prop) (f₁ f₂ : M σ ω α) : Prop :=
  ∀ rs₁ rs₂ a₁ rs₁', Sim eqv rs₁ rs₂ → f₁ rs₁ = (.ok a₁, rs₁') →
    ∃ a₂ rs₂', f₂ rs₂ = (.ok a₂, rs₂') ∧ Rv a₁ a₂ ∧ Sim eqv rs₁' rs₂'

def StRel (s₁ s₂ : IState σ) : Prop := ∃ x, s₂ = { s₁ with ctx := x } ∧ eqv s₁.ctx x

theorem SimM.pure {α} (a : α) : SimM eqv Eq (M.pure a : M σ ω α) (M.pure a) := by
  intro rs₁ rs₂ a₁ rs₁' hs h
  rw [pure_ok] at h
  obtain ⟨rfl, rfl⟩ := h
  exact ⟨a, rs₂, rfl, rfl, hs⟩

theorem SimM.bind {α β} {Rv : α → α → Prop} {Rw : β → β → Prop} {f₁ f₂ : M σ ω α} {g₁ g₂ : α → M σ ω β}
    (hf : SimM eqv Rv f₁ f₂) (hg : ∀ a₁ a₂, Rv a₁ a₂ → SimM eqv Rw (g₁ a₁) (g₂ a₂)) :
    SimM eqv Rw (M.bind f₁ g₁) (M.bind f₂ g₂) := by
  intro rs₁ rs₂ b₁ rs₁'' hs h
  obtain ⟨a₁, rs₁', h1, h2⟩ := bind_ok.mp h
  obtain ⟨a₂, rs₂', e1, hr, hs'⟩ := hf rs₁ rs₂ a₁ rs₁' hs h1
  obtain ⟨b₂, rs₂'', e2, hr', hs''⟩ := hg a₁ a₂ hr rs₁' rs₂' b₁ rs₁'' hs' h2
  exact ⟨b₂, rs₂'', bind_ok.mpr ⟨a₂, rs₂', e1, e2⟩, hr', hs''⟩

/-- the common case: results are equal -/
theorem SimM.bindE {α β} {Rw : β → β → Prop} {f₁ f₂ : M σ ω α} {g₁ g₂ : α → M σ ω β}
    (hf : SimM eqv Eq f₁ f₂) (hg : ∀ a, SimM eqv Rw (g₁ a) (g₂ a)) :
    SimM eqv Rw (M.bind f₁ g₁) (M.bind f₂ g₂) :=
  SimM.bind eqv hf (fun a₁ a₂ e => e ▸ hg a₁)

theorem SimM.get : SimM eqv (StRel eqv) (M.get : M σ ω _) M.get := by
  intro rs₁ rs₂ a₁ rs₁' hs h
  rw [get_ok] at h
  obtain ⟨rfl, rfl⟩ := h
  obtain ⟨x, rfl, hx⟩ := hs
  exact ⟨_, _, rfl, ⟨x, rfl, hx⟩, ⟨x, rfl, hx⟩⟩

theorem SimM.throw {α} {Rv : α → α → Prop} (e : Err) (f₂ : M σ ω α) : SimM eqv Rv (M.throw e) f₂ := by
  intro rs₁ rs₂ a₁ rs₁' _ h
  exact absurd h (by simp [M.throw])

/-- a state change that does not look at the evaluator state and keeps the relation on it -/
theorem SimM.modify (f₁ f₂ : IState σ → IState σ)
    (hf : ∀ s x, eqv s.ctx x → ∃ y, f₂ { s with ctx := x } = { f₁ s with ctx := y } ∧ eqv (f₁ s).ctx y) :
    SimM eqv Eq (M.modify f₁ : M σ ω Unit) (M.modify f₂) := by
  intro rs₁ rs₂ a₁ rs₁' hs h
  rw [modify_ok] at h
  subst h
  obtain ⟨x, rfl, hx⟩ := hs
  obtain ⟨y, hy, hy'⟩ := hf rs₁.st x hx
  refine ⟨(), _, rfl, rfl, y, ?_, hy'⟩
  simp only [hy]

/-- … in particular one that does not touch the evaluator state at all -/
theorem SimM.modify' (f : IState σ → IState σ)
    (hf : ∀ s x, f { s with ctx := x } = { f s with ctx := x }) (hc : ∀ s, (f s).ctx = s.ctx) :
    SimM eqv Eq (M.modify f : M σ ω Unit) (M.modify f) :=
  SimM.modify eqv f f (fun s x hx => ⟨x, hf s x, by rw [hc]; exact hx⟩)

theorem SimM.emit (e : Effect) (he : e.notCond = true) : SimM eqv Eq (M.emit e : M σ ω Unit) (M.emit e) := by
  intro rs₁ rs₂ a₁ rs₁' hs h
  rw [emit_ok] at h
  subst h
  obtain ⟨x, rfl, hx⟩ := hs
  refine ⟨(), _, rfl, rfl, x, ?_, hx⟩
  simp [M.emit, List.filter_append, he]

/-- a condition evaluation is logged by the checking run only -/
theorem SimM.emitCond (k : CondKind) (o : ObjId) (i : Nat) (ev : Option Event) (r : Option Bool) :
    SimM eqv Eq (M.emit (.cond k o i ev r) : M σ ω Unit) (M.pure ()) := by
  intro rs₁ rs₂ a₁ rs₁' hs h
  rw [emit_ok] at h
  subst h
  obtain ⟨x, rfl, hx⟩ := hs
  refine ⟨(), _, rfl, rfl, x, ?_, hx⟩
  simp [List.filter_append, Effect.notCond]

theorem SimM.forEach {γ} (f₁ f₂ : γ → M σ ω Unit) (hf : ∀ x, SimM eqv Eq (f₁ x) (f₂ x)) :
    ∀ l : List γ, SimM eqv Eq (M.forEach f₁ l) (M.forEach f₂ l)
  | [] => SimM.pure eqv ()
  | x :: xs => SimM.bindE eqv (hf x) (fun _ => SimM.forEach f₁ f₂ hf xs)

theorem SimM.ite {α} {Rv : α → α → Prop} (c : Bool) {f₁ f₂ g₁ g₂ : M σ ω α}
    (hf : SimM eqv Rv f₁ f₂) (hg : SimM eqv Rv g₁ g₂) :
    SimM eqv Rv (if c then f₁ else g₁) (if c then f₂ else g₂) := by
  cases c
  · exact hg
  · exact hf

end Sismic

namespace Sismic
open M

variable {σ ω : Type} (eqv : σ → σ → Prop) (env : Env σ ω)

/-- the same interpreter, ignoring contracts -/
def Env.ignoring (env : Env σ ω) : Env σ ω := { env with ignoreContract := true }

def extQStep (st : IState σ) (e : Event) : IState σ :=
  { st with extQ := queueInsert (st.time + e.delay) e st.extQ }

theorem foldl_extQ_ctx (qs : List Event) : ∀ (st : IState σ) (x : σ),
    qs.foldl extQStep { st with ctx := x } = { qs.foldl extQStep st with ctx := x } := by
  induction qs with
  | nil => intro st x; rfl
  | cons q qs ih =>
    intro st x
    simp only [List.foldl_cons]
    have : extQStep { st with ctx := x } q = { extQStep st q with ctx := x } := rfl
    rw [this]
    exact ih _ x

theorem foldl_extQ_ctx' (qs : List Event) : ∀ (st : IState σ), (qs.foldl extQStep st).ctx = st.ctx := by
  induction qs with
  | nil => intro st; rfl
  | cons q qs ih => intro st; simp only [List.foldl_cons]; rw [ih]; rfl

theorem callListener_eq (m : Event) (l : Nat) (rs : RS σ ω) :
    callListener env m l rs =
      ((env.deliver l m rs.st.time rs.world).1,
       { rs with st := (env.deliver l m rs.st.time rs.world).2.2.foldl extQStep rs.st,
                 world := (env.deliver l m rs.st.time rs.world).2.1 }) := rfl

theorem sim_callListener (m : Event) (l : Nat) :
    SimM eqv Eq (callListener env m l) (callListener env.ignoring m l) := by
  intro rs₁ rs₂ a₁ rs₁' hs h
  obtain ⟨x, rfl, hx⟩ := hs
  rw [callListener_eq] at h
  simp only [Prod.mk.injEq] at h
  obtain ⟨h1, rfl⟩ := h
  have e2 : callListener env.ignoring m l
      { rs₁ with st := { rs₁.st with ctx := x }, eff := rs₁.eff.filter Effect.notCond } =
      ((env.deliver l m rs₁.st.time rs₁.world).1,
       { rs₁ with st := (env.deliver l m rs₁.st.time rs₁.world).2.2.foldl extQStep { rs₁.st with ctx := x },
                  world := (env.deliver l m rs₁.st.time rs₁.world).2.1,
                  eff := rs₁.eff.filter Effect.notCond }) := rfl
  rw [e2, foldl_extQ_ctx, h1]
  exact ⟨a₁, _, rfl, rfl, x, rfl, by simp only [foldl_extQ_ctx']; exact hx⟩

theorem sim_raiseMeta (m : Event) : SimM eqv Eq (raiseMeta env m) (raiseMeta env.ignoring m) := by
  unfold raiseMeta
  apply SimM.bindE eqv (SimM.emit eqv _ rfl); intro _
  apply SimM.bind eqv (SimM.get eqv)
  rintro a₁ a₂ ⟨x, rfl, _⟩
  exact SimM.forEach eqv _ _ (sim_callListener eqv env m) _

theorem sim_queueEvent (i : Bool) (e : Event) :
    SimM eqv Eq (queueEvent i e : M σ ω Unit) (queueEvent i e) := by
  unfold queueEvent
  apply SimM.modify' eqv
  · intro s x; cases i <;> rfl
  · intro s; cases i <;> rfl

theorem sim_raiseSent (s : Sent) : SimM eqv Eq (raiseSent env s) (raiseSent env.ignoring s) := by
  cases s with
  | notify m => exact sim_raiseMeta eqv env m
  | internal e =>
    unfold raiseSent
    apply SimM.bindE eqv (sim_queueEvent eqv true e); intro _
    apply SimM.bindE eqv (sim_raiseMeta eqv env _); intro _
    split
    · exact sim_raiseMeta eqv env _
    · exact SimM.pure eqv ()

theorem sim_raiseAll (sent : List Sent) : SimM eqv Eq (raiseAll env sent) (raiseAll env.ignoring sent) := by
  unfold raiseAll
  apply SimM.forEach eqv
  intro s
  apply SimM.bindE eqv (sim_raiseSent eqv env s); intro _
  apply SimM.modify' eqv
  · intro s x; rfl
  · intro s; rfl

end Sismic

namespace Sismic
open M

variable {σ ω : Type} (eqv : σ → σ → Prop) (env : Env σ ω)

/-- evaluating conditions that all hold: the ignoring run does nothing instead -/
theorem sim_evalConds (kind : CondKind) (obj : Obj) (ev : Option Event) (i : Nat) (codes : List Code) :
    SimM eqv Eq (evalConds env kind obj ev i codes) (M.pure ()) := by
  intro rs₁ rs₂ a₁ rs₁' hs h
  have := evalConds_ok env kind obj ev codes i rs₁ rs₁' a₁ h
  subst this
  obtain ⟨x, rfl, hx⟩ := hs
  refine ⟨(), _, rfl, rfl, x, ?_, hx⟩
  simp only [List.filter_append]
  rw [filter_condsLogFrom Effect.notCond (fun _ _ _ _ _ => rfl)]
  simp

theorem sim_evalContract (hE : Blind env.E eqv) (hig : env.ignoreContract = false)
    (kind : CondKind) (obj : Obj) (ev : Option Event) :
    SimM eqv Eq (evalContract env kind obj ev) (evalContract env.ignoring kind obj ev) := by
  unfold evalContract
  simp only [hig, Bool.false_eq_true, if_false, Env.ignoring, if_true]
  have e : (M.pure () : M σ ω Unit) = M.bind (M.pure ()) (fun _ => M.pure ()) := rfl
  rw [e]
  apply SimM.bindE eqv _ (fun _ => sim_evalConds eqv env kind obj ev 0 _)
  split
  · -- the checking run freezes the context for `__old__`
    intro rs₁ rs₂ a₁ rs₁' hs h
    rw [modify_ok] at h
    subst h
    obtain ⟨x, rfl, hx⟩ := hs
    exact ⟨(), _, rfl, rfl, x, rfl, hE.freeze _ _ _ hx⟩
  · exact SimM.pure eqv ()

theorem sim_stateObj (n : Name) : SimM eqv Eq (stateObj env n) (stateObj env.ignoring n) := by
  unfold stateObj
  simp only [Env.ignoring]
  split
  · exact SimM.pure eqv _
  · exact SimM.throw eqv _ _

theorem sim_stateObjs : ∀ ns : List Name, SimM eqv Eq (stateObjs env ns) (stateObjs env.ignoring ns)
  | [] => SimM.pure eqv _
  | n :: ns => by
    unfold stateObjs
    apply SimM.bindE eqv (sim_stateObj eqv env n); intro s
    apply SimM.bindE eqv (sim_stateObjs ns); intro ss
    exact SimM.pure eqv _

theorem sim_runCode (hE : Blind env.E eqv) (k : ExecKind) (ev : Option Event) :
    SimM eqv Eq (runCode env k ev) (runCode env.ignoring k ev) := by
  unfold runCode
  apply SimM.bind eqv (SimM.get eqv)
  rintro st₁ st₂ ⟨x, rfl, hx⟩
  obtain ⟨hsent, hctx⟩ := hE.exec st₁ x hx k ev
  simp only [Env.ignoring]
  apply SimM.bindE eqv (f₁ := M.modify (fun st' => { st' with ctx := (env.E.exec st₁ k ev).1 }))
    (f₂ := M.modify (fun st' => { st' with ctx := (env.E.exec { st₁ with ctx := x } k ev).1 }))
  · apply SimM.modify eqv
    intro s y _
    exact ⟨_, rfl, hctx⟩
  · intro _
    rw [hsent]
    split
    · exact SimM.pure eqv _
    · exact SimM.throw eqv _ _

theorem sim_saveMemory (cfg0 : List Name) (s : StateDef) : ∀ rest : List Name,
    SimM eqv Eq (saveMemory env cfg0 s rest) (saveMemory env.ignoring cfg0 s rest)
  | [] => SimM.pure eqv _
  | ch :: rest => by
    unfold saveMemory
    simp only [Env.ignoring]
    split
    · exact SimM.throw eqv _ _
    · exact sim_saveMemory cfg0 s rest
    · apply SimM.bindE eqv _ (fun _ => sim_saveMemory cfg0 s rest)
      apply SimM.modify' eqv
      · intro s x; rfl
      · intro s; rfl

theorem sim_collect {γ : Type} (f₁ f₂ : γ → M σ ω (List Sent)) (hf : ∀ x, SimM eqv Eq (f₁ x) (f₂ x)) :
    ∀ l : List γ, SimM eqv Eq (collect f₁ l) (collect f₂ l)
  | [] => SimM.pure eqv _
  | x :: xs => by
    unfold collect
    apply SimM.bindE eqv (hf x); intro a
    apply SimM.bindE eqv (sim_collect f₁ f₂ hf xs); intro b
    exact SimM.pure eqv _

end Sismic

namespace Sismic
open M

variable {σ ω : Type} (eqv : σ → σ → Prop) (env : Env σ ω)

theorem sim_exitState (hE : Blind env.E eqv) (hig : env.ignoreContract = false)
    (cfg0 : List Name) (step : Micro) (s : StateDef) :
    SimM eqv Eq (exitState env cfg0 step s) (exitState env.ignoring cfg0 step s) := by
  unfold exitState
  apply SimM.bindE eqv (SimM.emit eqv _ rfl); intro _
  apply SimM.bindE eqv (sim_runCode eqv env hE _ _); intro sent
  apply SimM.bindE eqv (f₁ := if s.kind == .compound then saveMemory env cfg0 s (env.chart.childrenFor s.name) else M.pure ())
    (f₂ := if s.kind == .compound then saveMemory env.ignoring cfg0 s (env.ignoring.chart.childrenFor s.name) else M.pure ())
  · exact SimM.ite eqv _ (sim_saveMemory eqv env cfg0 s _) (SimM.pure eqv _)
  intro _
  apply SimM.bind eqv (SimM.get eqv)
  rintro st₁ st₂ ⟨x, rfl, _⟩
  apply SimM.bindE eqv (f₁ := if !st₁.config.contains s.name then M.throw .assertion else M.pure ())
  · simp only
    split
    · exact SimM.throw eqv _ _
    · exact SimM.pure eqv _
  intro _
  apply SimM.bindE eqv (hf := by apply SimM.modify' eqv <;> intros <;> rfl); intro _
  apply SimM.bindE eqv (sim_evalContract eqv env hE hig _ _ _); intro _
  apply SimM.bindE eqv (sim_raiseMeta eqv env _); intro _
  exact SimM.pure eqv _

theorem sim_enterState (hE : Blind env.E eqv) (hig : env.ignoreContract = false) (step : Micro) (s : StateDef) :
    SimM eqv Eq (enterState env step s) (enterState env.ignoring step s) := by
  unfold enterState
  apply SimM.bindE eqv (sim_evalContract eqv env hE hig _ _ _); intro _
  apply SimM.bindE eqv (SimM.emit eqv _ rfl); intro _
  apply SimM.bindE eqv (sim_runCode eqv env hE _ _); intro sent
  apply SimM.bindE eqv (hf := by apply SimM.modify' eqv <;> intros <;> rfl); intro _
  apply SimM.bindE eqv (sim_raiseMeta eqv env _); intro _
  exact SimM.pure eqv _

theorem sim_fireTransition (hE : Blind env.E eqv) (hig : env.ignoreContract = false) (step : Micro) (t : Trans) :
    SimM eqv Eq (fireTransition env step t) (fireTransition env.ignoring step t) := by
  unfold fireTransition
  apply SimM.bindE eqv (sim_evalContract eqv env hE hig _ _ _); intro _
  apply SimM.bindE eqv (sim_evalContract eqv env hE hig _ _ _); intro _
  apply SimM.bindE eqv (SimM.emit eqv _ rfl); intro _
  apply SimM.bindE eqv (sim_runCode eqv env hE _ _); intro sent
  apply SimM.bindE eqv (sim_evalContract eqv env hE hig _ _ _); intro _
  apply SimM.bindE eqv (sim_evalContract eqv env hE hig _ _ _); intro _
  apply SimM.bindE eqv (hf := by apply SimM.modify' eqv <;> intros <;> rfl); intro _
  apply SimM.bindE eqv (sim_raiseMeta eqv env _); intro _
  exact SimM.pure eqv _

theorem sim_applyStep (hE : Blind env.E eqv) (hig : env.ignoreContract = false) (step : Micro) :
    SimM eqv Eq (applyStep env step) (applyStep env.ignoring step) := by
  unfold applyStep
  apply SimM.bindE eqv (sim_stateObjs eqv env _); intro entered
  apply SimM.bindE eqv (sim_stateObjs eqv env _); intro exited
  apply SimM.bind eqv (SimM.get eqv)
  rintro st₁ st₂ ⟨x, rfl, _⟩
  apply SimM.bindE eqv (sim_collect eqv _ _ (sim_exitState eqv env hE hig st₁.config step) exited); intro s1
  apply SimM.bindE eqv (f₁ := match step.transition with
      | some t => fireTransition env step t
      | none => M.pure [])
  · cases step.transition with
    | some t => exact sim_fireTransition eqv env hE hig step t
    | none => exact SimM.pure eqv _
  intro s2
  apply SimM.bindE eqv (sim_collect eqv _ _ (sim_enterState eqv env hE hig step) entered); intro s3
  apply SimM.bindE eqv (sim_raiseAll eqv env _); intro _
  exact SimM.pure eqv _

theorem sim_stabilize (hE : Blind env.E eqv) (hig : env.ignoreContract = false) :
    ∀ n : Nat, SimM eqv Eq (stabilize env n) (stabilize env.ignoring n)
  | 0 => SimM.throw eqv _ _
  | n+1 => by
    unfold stabilize
    apply SimM.bind eqv (SimM.get eqv)
    rintro st₁ st₂ ⟨x, rfl, _⟩
    simp only [Env.ignoring]
    split
    · exact SimM.pure eqv _
    · apply SimM.bindE eqv (sim_applyStep eqv env hE hig _); intro a
      apply SimM.bindE eqv (sim_stabilize hE hig n); intro rest
      exact SimM.pure eqv _

theorem sim_applyAll (hE : Blind env.E eqv) (hig : env.ignoreContract = false) :
    ∀ steps : List Micro, SimM eqv Eq (applyAll env steps) (applyAll env.ignoring steps)
  | [] => SimM.pure eqv _
  | s :: rest => by
    unfold applyAll
    apply SimM.bindE eqv (sim_applyStep eqv env hE hig s); intro a
    apply SimM.bindE eqv (sim_stabilize eqv env hE hig _); intro stab
    apply SimM.bindE eqv (sim_applyAll hE hig rest); intro more
    exact SimM.pure eqv _

end Sismic

namespace Sismic
open M

variable {σ ω : Type} (eqv : σ → σ → Prop) (env : Env σ ω)

theorem sim_logGuards (hE : Blind env.E eqv) (st₁ : IState σ) (x : σ) (hx : eqv st₁.ctx x) (ev : Option Event) :
    ∀ calls : List (Trans × Bool),
      SimM eqv Eq (logGuards env st₁ ev calls) (logGuards env.ignoring { st₁ with ctx := x } ev calls)
  | [] => SimM.pure eqv _
  | (t, exposed) :: rest => by
    unfold logGuards
    simp only [Env.ignoring, hE.guard st₁ x hx]
    apply SimM.bindE eqv (SimM.emit eqv _ rfl); intro _
    split
    · exact SimM.throw eqv _ _
    · exact sim_logGuards hE st₁ x hx ev rest

theorem guardOk_blind (hE : Blind env.E eqv) (st₁ : IState σ) (x : σ) (hx : eqv st₁.ctx x) (ev : Option Event) :
    guardOk env.E { st₁ with ctx := x } ev = guardOk env.E st₁ ev := by
  funext t exposed
  simp only [guardOk, hE.guard st₁ x hx]

theorem sim_computeSteps (hE : Blind env.E eqv) :
    SimM eqv Eq (computeSteps env) (computeSteps env.ignoring) := by
  unfold computeSteps
  apply SimM.bind eqv (SimM.get eqv)
  rintro st₁ st₂ ⟨x, rfl, hx⟩
  have hp : peekEvent { st₁ with ctx := x } = peekEvent st₁ := rfl
  have hg := guardOk_blind eqv env hE st₁ x hx (peekEvent st₁)
  simp only [Env.ignoring, hp, hg]
  split
  · apply SimM.bindE eqv (hf := by apply SimM.modify' eqv <;> intros <;> rfl); intro _
    exact SimM.pure eqv _
  · apply SimM.bindE eqv (sim_logGuards eqv env hE st₁ x hx _ _); intro _
    split
    · split
      · exact SimM.pure eqv _
      · exact SimM.pure eqv _
    · split
      · exact SimM.throw eqv _ _
      · exact SimM.throw eqv _ _
      · exact SimM.pure eqv _

theorem sim_finishStep (hE : Blind env.E eqv) (hig : env.ignoreContract = false) (ms : Option MacroStep) :
    SimM eqv Eq (finishStep env ms) (finishStep env.ignoring ms) := by
  unfold finishStep
  apply SimM.bind eqv (SimM.get eqv)
  rintro st₁ st₂ ⟨x, rfl, _⟩
  apply SimM.bindE eqv (f₁ := M.forEach (fun n =>
      M.bind (stateObj env n) (fun s => evalContract env .inv (.state s) (ms.bind (·.event))))
    (env.chart.sortConfig st₁.config))
  · apply SimM.forEach eqv
    intro n
    apply SimM.bindE eqv (sim_stateObj eqv env n); intro s
    exact sim_evalContract eqv env hE hig _ _ _
  intro _
  apply SimM.bindE eqv (sim_raiseMeta eqv env _); intro _
  exact SimM.pure eqv _

theorem popEvent_ctx (st : IState σ) (x : σ) :
    popEvent { st with ctx := x } = ((popEvent st).1, { (popEvent st).2 with ctx := x }) := by
  obtain ⟨i, t, m, c, et, it, se, iq, eq, ls, cx⟩ := st
  cases iq with
  | nil =>
    cases eq with
    | nil => rfl
    | cons p r =>
      obtain ⟨d', e'⟩ := p
      simp only [popEvent]
      split <;> rfl
  | cons p r =>
    obtain ⟨d, e⟩ := p
    simp only [popEvent]
    split
    · rfl
    · cases eq with
      | nil => rfl
      | cons p' r' =>
        obtain ⟨d', e'⟩ := p'
        simp only
        split <;> rfl

theorem popEvent_ctx' (st : IState σ) : (popEvent st).2.ctx = st.ctx := by
  obtain ⟨i, t, m, c, et, it, se, iq, eq, ls, cx⟩ := st
  cases iq with
  | nil =>
    cases eq with
    | nil => rfl
    | cons p r =>
      obtain ⟨d', e'⟩ := p
      simp only [popEvent]
      split <;> rfl
  | cons p r =>
    obtain ⟨d, e⟩ := p
    simp only [popEvent]
    split
    · rfl
    · cases eq with
      | nil => rfl
      | cons p' r' =>
        obtain ⟨d', e'⟩ := p'
        simp only
        split <;> rfl

theorem sim_runSteps (hE : Blind env.E eqv) (hig : env.ignoreContract = false) (computed : List Micro) :
    SimM eqv Eq (runSteps env computed) (runSteps env.ignoring computed) := by
  unfold runSteps
  cases computed with
  | nil => exact SimM.pure eqv _
  | cons first rest =>
    simp only
    apply SimM.bindE eqv (f₁ := if first.event.isSome then
              M.bind M.get (fun st =>
                M.bind (M.modify (fun st' => (popEvent st').2)) (fun _ =>
                  raiseMeta env { name := "event consumed", data := [("event", optEventVal (popEvent st).1)] }))
            else M.pure ())
    · split
      · apply SimM.bind eqv (SimM.get eqv)
        rintro st₁ st₂ ⟨x, rfl, _⟩
        have hp1 : (popEvent { st₁ with ctx := x }).1 = (popEvent st₁).1 := by rw [popEvent_ctx]
        simp only [hp1]
        apply SimM.bindE eqv
        · apply SimM.modify' eqv
          · intro s y; rw [popEvent_ctx]
          · intro s; exact popEvent_ctx' s
        intro _
        exact sim_raiseMeta eqv env _
      · exact SimM.pure eqv _
    intro _
    apply SimM.bindE eqv (sim_applyAll eqv env hE hig _); intro executed
    apply SimM.bind eqv (SimM.get eqv)
    rintro st₁ st₂ ⟨x, rfl, _⟩
    exact SimM.pure eqv _

/-- **`execute_once` ignoring contracts follows `execute_once` checking them** whenever the latter
    returns normally: same result, same interpreter state up to the evaluator's private store, same
    outside world, same log without the condition evaluations. -/
theorem sim_executeOnce (hE : Blind env.E eqv) (hig : env.ignoreContract = false) (clock : Int) :
    SimM eqv Eq (executeOnce env clock) (executeOnce env.ignoring clock) := by
  unfold executeOnce
  apply SimM.bindE eqv (hf := by apply SimM.modify' eqv <;> intros <;> rfl); intro _
  apply SimM.bindE eqv (sim_raiseMeta eqv env _); intro _
  apply SimM.bindE eqv (sim_computeSteps eqv env hE); intro computed
  apply SimM.bindE eqv (sim_runSteps eqv env hE hig computed); intro ms
  exact sim_finishStep eqv env hE hig ms

end Sismic
