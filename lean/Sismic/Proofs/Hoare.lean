import Sismic.Model.Interp
/-!
# Sismic.Proofs.Hoare — reasoning principles for the state-and-error monad `M`
-/
namespace Sismic
namespace M
variable {σ ω α β γ : Type}

@[simp] theorem bind_def (x : M σ ω α) (f : α → M σ ω β) : (x >>= f) = M.bind x f := rfl
@[simp] theorem pure_def (a : α) : (Pure.pure a : M σ ω α) = M.pure a := rfl

theorem bind_ok {x : M σ ω α} {f : α → M σ ω β} {rs rs'' : RS σ ω} {b : β} :
    M.bind x f rs = (.ok b, rs'') ↔ ∃ a rs', x rs = (.ok a, rs') ∧ f a rs' = (.ok b, rs'') := by
  unfold M.bind
  constructor
  · intro h
    split at h
    · next a rs' hx => exact ⟨a, rs', hx, h⟩
    · next e rs' hx => cases h
  · rintro ⟨a, rs', hx, hf⟩
    simp [hx, hf]

theorem bind_error {x : M σ ω α} {f : α → M σ ω β} {rs rs'' : RS σ ω} {e : Err} :
    M.bind x f rs = (.error e, rs'') ↔
      x rs = (.error e, rs'') ∨ ∃ a rs', x rs = (.ok a, rs') ∧ f a rs' = (.error e, rs'') := by
  unfold M.bind
  constructor
  · intro h
    split at h
    · next a rs' hx => exact Or.inr ⟨a, rs', hx, h⟩
    · next e' rs' hx =>
      simp only [Prod.mk.injEq, Except.error.injEq] at h
      obtain ⟨rfl, rfl⟩ := h
      exact Or.inl hx
  · rintro (hx | ⟨a, rs', hx, hf⟩)
    · simp [hx]
    · simp [hx, hf]

theorem pure_ok {a b : α} {rs rs' : RS σ ω} : M.pure a rs = (.ok b, rs') ↔ a = b ∧ rs = rs' := by
  simp [M.pure]

theorem pure_error {a : α} {rs rs' : RS σ ω} {e : Err} : M.pure a rs = (.error e, rs') ↔ False := by
  simp [M.pure]

theorem throw_ok {e : Err} {b : α} {rs rs' : RS σ ω} : (M.throw e : M σ ω α) rs = (.ok b, rs') ↔ False := by
  simp [M.throw]

theorem throw_error {e e' : Err} {rs rs' : RS σ ω} :
    (M.throw e : M σ ω α) rs = (.error e', rs') ↔ e = e' ∧ rs = rs' := by
  simp [M.throw]

theorem get_ok {st : IState σ} {rs rs' : RS σ ω} : (M.get : M σ ω _) rs = (.ok st, rs') ↔ rs.st = st ∧ rs = rs' := by
  simp [M.get]

theorem modify_ok {f : IState σ → IState σ} {u : Unit} {rs rs' : RS σ ω} :
    (M.modify f : M σ ω _) rs = (.ok u, rs') ↔ rs' = { rs with st := f rs.st } := by
  simp [M.modify]; exact eq_comm

theorem emit_ok {e : Effect} {u : Unit} {rs rs' : RS σ ω} :
    (M.emit e : M σ ω _) rs = (.ok u, rs') ↔ rs' = { rs with eff := rs.eff ++ [e] } := by
  simp [M.emit]; exact eq_comm

/-! ### relations between the state before and after, whatever the outcome -/

/-- `m` relates the state before and the state after by `R`, for every outcome -/
def Rel (R : RS σ ω → RS σ ω → Prop) (m : M σ ω α) : Prop := ∀ rs, R rs (m rs).2

structure PreOrd (R : RS σ ω → RS σ ω → Prop) : Prop where
  refl : ∀ a, R a a
  trans : ∀ a b c, R a b → R b c → R a c

theorem Rel.pure {R : RS σ ω → RS σ ω → Prop} (h : PreOrd R) (a : α) : Rel R (M.pure a : M σ ω α) :=
  fun rs => h.refl rs

theorem Rel.throw {R : RS σ ω → RS σ ω → Prop} (h : PreOrd R) (e : Err) : Rel R (M.throw e : M σ ω α) :=
  fun rs => h.refl rs

theorem Rel.get {R : RS σ ω → RS σ ω → Prop} (h : PreOrd R) : Rel R (M.get : M σ ω _) :=
  fun rs => h.refl rs

theorem Rel.bind {R : RS σ ω → RS σ ω → Prop} (h : PreOrd R) {x : M σ ω α} {f : α → M σ ω β}
    (hx : Rel R x) (hf : ∀ a, Rel R (f a)) : Rel R (M.bind x f) := by
  intro rs
  unfold M.bind
  have h1 := hx rs
  split
  · next a rs' heq =>
    rw [heq] at h1
    exact h.trans _ _ _ h1 (hf a rs')
  · next e rs' heq =>
    rw [heq] at h1
    exact h1

theorem Rel.forEach {R : RS σ ω → RS σ ω → Prop} (h : PreOrd R) {f : γ → M σ ω Unit}
    (hf : ∀ a, Rel R (f a)) : ∀ l : List γ, Rel R (M.forEach f l)
  | [] => Rel.pure h ()
  | x :: xs => Rel.bind h (hf x) (fun _ => Rel.forEach h hf xs)

theorem Rel.ite {R : RS σ ω → RS σ ω → Prop} {c : Prop} [Decidable c] {x y : M σ ω α}
    (hx : Rel R x) (hy : Rel R y) : Rel R (if c then x else y) := by
  split <;> assumption

end M
end Sismic
