import Sismic.Proofs.OkSpec
/-!
# Sismic.Proofs.LogFilters — projections of the documented effect log (code only, meta-events only,
code + contract evaluations)
-/
namespace Sismic

@[simp] theorem isExec_onExit (n : Name) : (Effect.onExit n).isExec = true := rfl
@[simp] theorem isExec_onEntry (n : Name) : (Effect.onEntry n).isExec = true := rfl
@[simp] theorem isExec_action (t : Nat) (e : Option Event) : (Effect.action t e).isExec = true := rfl
@[simp] theorem isExec_meta (e : Event) : (Effect.metaEv e).isExec = false := rfl
@[simp] theorem isExec_cond (k : CondKind) (o : ObjId) (i : Nat) (e : Option Event) (r : Option Bool) :
    (Effect.cond k o i e r).isExec = false := rfl
@[simp] theorem isExec_guard (t : Nat) (e : Option Event) (r : Option Bool) : (Effect.guard t e r).isExec = false := rfl
@[simp] theorem isMeta_onExit (n : Name) : (Effect.onExit n).isMeta = false := rfl
@[simp] theorem isMeta_onEntry (n : Name) : (Effect.onEntry n).isMeta = false := rfl
@[simp] theorem isMeta_action (t : Nat) (e : Option Event) : (Effect.action t e).isMeta = false := rfl
@[simp] theorem isMeta_meta (e : Event) : (Effect.metaEv e).isMeta = true := rfl
@[simp] theorem isMeta_cond (k : CondKind) (o : ObjId) (i : Nat) (e : Option Event) (r : Option Bool) :
    (Effect.cond k o i e r).isMeta = false := rfl
@[simp] theorem isMeta_guard (t : Nat) (e : Option Event) (r : Option Bool) : (Effect.guard t e r).isMeta = false := rfl

theorem stateD_name (c : Chart) (n : Name) : (c.stateD n).name = n := by
  unfold Chart.stateD
  cases h : c.stateFor n with
  | none => rfl
  | some s => exact (stateD_of_stateFor c n s h).2

theorem filter_condsLogFrom (p : Effect → Bool) (hp : ∀ k o i e r, p (.cond k o i e r) = false)
    (kind : CondKind) (obj : Obj) (ev : Option Event) : ∀ (codes : List Code) (i : Nat),
    (condsLogFrom kind obj ev i codes).filter p = []
  | [], _ => rfl
  | _ :: cs, i => by simp [condsLogFrom, hp, filter_condsLogFrom p hp kind obj ev cs (i + 1)]

theorem filter_contractLog (p : Effect → Bool) (hp : ∀ k o i e r, p (.cond k o i e r) = false)
    (ign : Bool) (kind : CondKind) (obj : Obj) (ev : Option Event) :
    (contractLog ign kind obj ev).filter p = [] := by
  unfold contractLog
  split
  · rfl
  · exact filter_condsLogFrom p hp kind obj ev _ _

theorem filter_condsLogFrom_all (p : Effect → Bool) (hp : ∀ k o i e r, p (.cond k o i e r) = true)
    (kind : CondKind) (obj : Obj) (ev : Option Event) : ∀ (codes : List Code) (i : Nat),
    (condsLogFrom kind obj ev i codes).filter p = condsLogFrom kind obj ev i codes
  | [], _ => rfl
  | _ :: cs, i => by simp [condsLogFrom, hp, filter_condsLogFrom_all p hp kind obj ev cs (i + 1)]

theorem filter_flatMap' {α β} (p : β → Bool) (f : α → List β) (g : α → List β)
    (h : ∀ a, (f a).filter p = g a) : ∀ l : List α, (l.flatMap f).filter p = l.flatMap g
  | [] => rfl
  | a :: l => by simp [List.flatMap_cons, List.filter_append, h a, filter_flatMap' p f g h l]

theorem flatMap_singleton' {α β} (f : α → β) : ∀ l : List α, l.flatMap (fun a => [f a]) = l.map f
  | [] => rfl
  | a :: l => by simp [List.flatMap_cons, flatMap_singleton' f l]

/-! ### code fragments only -/

theorem exec_microLog (c : Chart) (ign : Bool) (m : Micro) :
    (microLog c ign m).filter Effect.isExec = replayMicro m := by
  have hc : ∀ k o i e r, Effect.isExec (.cond k o i e r) = false := fun _ _ _ _ _ => rfl
  unfold microLog replayMicro
  simp only [List.filter_append]
  have h1 : (m.exited.flatMap (fun n => exitLog ign m.event (c.stateD n))).filter Effect.isExec
      = m.exited.map Effect.onExit := by
    rw [filter_flatMap' _ _ (fun n => [Effect.onExit n])]
    · exact flatMap_singleton' _ _
    · intro n
      simp [exitLog, List.filter_cons, List.filter_append, filter_contractLog _ hc, stateD_name]
  have h2 : (m.entered.flatMap (fun n => enterLog ign m.event (c.stateD n))).filter Effect.isExec
      = m.entered.map Effect.onEntry := by
    rw [filter_flatMap' _ _ (fun n => [Effect.onEntry n])]
    · exact flatMap_singleton' _ _
    · intro n
      simp [enterLog, List.filter_cons, List.filter_append, filter_contractLog _ hc, stateD_name]
  have h3 : (m.sent.flatMap sentLog).filter Effect.isExec = [] := by
    rw [filter_flatMap' _ _ (fun _ => [])]
    · simp
    · intro s
      cases s <;> simp [sentLog, List.filter_cons] <;> split <;> simp [List.filter_cons]
  rw [h1, h2, h3]
  cases m.transition with
  | none => simp
  | some t =>
    simp [transLog, List.filter_cons, List.filter_append, filter_contractLog _ hc]

theorem exec_finishLog (c : Chart) (ign : Bool) (cfg : List Name) (ev : Option Event) :
    (finishLog c ign cfg ev).filter Effect.isExec = [] := by
  have hc : ∀ k o i e r, Effect.isExec (.cond k o i e r) = false := fun _ _ _ _ _ => rfl
  unfold finishLog
  rw [List.filter_append, filter_flatMap' _ _ (fun _ => [])]
  · simp [List.filter_cons]
  · intro n; exact filter_contractLog _ hc _ _ _ _

theorem exec_guardLog {σ : Type} (E : Evaluator σ) (st : IState σ) (ev : Option Event)
    (calls : List (Trans × Bool)) : (guardLog E st ev calls).filter Effect.isExec = [] := by
  unfold guardLog
  induction calls with
  | nil => rfl
  | cons c cs ih => simp [List.filter_cons, ih]

end Sismic

namespace Sismic

/-! ### meta-events only -/

def metaOfEffects (l : List Effect) : List Event :=
  l.filterMap (fun e => match e with | .metaEv m => some m | _ => none)

@[simp] theorem metaOf_nil : metaOfEffects [] = [] := rfl
@[simp] theorem metaOf_cons_meta (m : Event) (l : List Effect) : metaOfEffects (.metaEv m :: l) = m :: metaOfEffects l := rfl
@[simp] theorem metaOf_cons_onExit (n : Name) (l : List Effect) : metaOfEffects (.onExit n :: l) = metaOfEffects l := rfl
@[simp] theorem metaOf_cons_onEntry (n : Name) (l : List Effect) : metaOfEffects (.onEntry n :: l) = metaOfEffects l := rfl
@[simp] theorem metaOf_cons_action (t : Nat) (e : Option Event) (l : List Effect) :
    metaOfEffects (.action t e :: l) = metaOfEffects l := rfl
@[simp] theorem metaOf_cons_cond (k : CondKind) (o : ObjId) (i : Nat) (e : Option Event) (r : Option Bool) (l : List Effect) :
    metaOfEffects (.cond k o i e r :: l) = metaOfEffects l := rfl
@[simp] theorem metaOf_cons_guard (t : Nat) (e : Option Event) (r : Option Bool) (l : List Effect) :
    metaOfEffects (.guard t e r :: l) = metaOfEffects l := rfl

theorem metaOf_append (a b : List Effect) : metaOfEffects (a ++ b) = metaOfEffects a ++ metaOfEffects b := by
  simp [metaOfEffects, List.filterMap_append]

theorem metaOf_condsLogFrom (kind : CondKind) (obj : Obj) (ev : Option Event) : ∀ (codes : List Code) (i : Nat),
    metaOfEffects (condsLogFrom kind obj ev i codes) = []
  | [], _ => rfl
  | _ :: cs, i => by
    simp only [condsLogFrom, metaOf_cons_cond]
    exact metaOf_condsLogFrom kind obj ev cs (i + 1)

theorem metaOf_contractLog (ign : Bool) (kind : CondKind) (obj : Obj) (ev : Option Event) :
    metaOfEffects (contractLog ign kind obj ev) = [] := by
  unfold contractLog; split
  · rfl
  · exact metaOf_condsLogFrom _ _ _ _ _

theorem metaOf_flatMap {α} (f : α → List Effect) (g : α → List Event)
    (h : ∀ a, metaOfEffects (f a) = g a) : ∀ l : List α, metaOfEffects (l.flatMap f) = l.flatMap g
  | [] => rfl
  | a :: l => by simp [List.flatMap_cons, metaOf_append, h a, metaOf_flatMap f g h l]

theorem metaOf_microLog (c : Chart) (ign : Bool) (m : Micro) :
    metaOfEffects (microLog c ign m) = metaMicro m := by
  unfold microLog metaMicro
  simp only [metaOf_append]
  have h1 : metaOfEffects (m.exited.flatMap (fun n => exitLog ign m.event (c.stateD n))) = m.exited.map metaExited := by
    rw [metaOf_flatMap _ (fun n => [metaExited n])]
    · exact flatMap_singleton' _ _
    · intro n
      simp [exitLog, metaOf_append, metaOf_contractLog, stateD_name]
  have h2 : metaOfEffects (m.entered.flatMap (fun n => enterLog ign m.event (c.stateD n))) = m.entered.map metaEntered := by
    rw [metaOf_flatMap _ (fun n => [metaEntered n])]
    · exact flatMap_singleton' _ _
    · intro n
      simp [enterLog, metaOf_append, metaOf_contractLog, stateD_name]
  have h3 : metaOfEffects (m.sent.flatMap sentLog) = m.sent.flatMap sentMeta := by
    apply metaOf_flatMap
    intro s
    cases s with
    | notify e => simp [sentLog, sentMeta]
    | internal e =>
      simp only [sentLog, sentMeta, metaOf_cons_meta]
      split <;> simp
  rw [h1, h2, h3]
  cases m.transition with
  | none => simp
  | some t => simp [transLog, metaOf_append, metaOf_contractLog]

theorem metaOf_finishLog (c : Chart) (ign : Bool) (cfg : List Name) (ev : Option Event) :
    metaOfEffects (finishLog c ign cfg ev) = [metaEnded] := by
  unfold finishLog
  rw [metaOf_append, metaOf_flatMap _ (fun _ => [])]
  · simp
  · intro n; exact metaOf_contractLog _ _ _ _

theorem metaOf_guardLog {σ : Type} (E : Evaluator σ) (st : IState σ) (ev : Option Event)
    (calls : List (Trans × Bool)) : metaOfEffects (guardLog E st ev calls) = [] := by
  unfold guardLog
  induction calls with
  | nil => rfl
  | cons c cs ih => simpa using ih

end Sismic

namespace Sismic

/-! ### code fragments and contract evaluations (C08) -/

def Effect.isPoint (e : Effect) : Bool := e.isExec || e.isCond

@[simp] theorem isPoint_onExit (n : Name) : (Effect.onExit n).isPoint = true := rfl
@[simp] theorem isPoint_onEntry (n : Name) : (Effect.onEntry n).isPoint = true := rfl
@[simp] theorem isPoint_action (t : Nat) (e : Option Event) : (Effect.action t e).isPoint = true := rfl
@[simp] theorem isPoint_meta (e : Event) : (Effect.metaEv e).isPoint = false := rfl
@[simp] theorem isPoint_cond (k : CondKind) (o : ObjId) (i : Nat) (e : Option Event) (r : Option Bool) :
    (Effect.cond k o i e r).isPoint = true := rfl
@[simp] theorem isPoint_guard (t : Nat) (e : Option Event) (r : Option Bool) : (Effect.guard t e r).isPoint = false := rfl

theorem point_contractLog (kind : CondKind) (obj : Obj) (ev : Option Event) :
    (contractLog false kind obj ev).filter Effect.isPoint = condsLogFrom kind obj ev 0 (obj.conds kind) := by
  unfold contractLog
  simp only [Bool.false_eq_true, if_false]
  exact filter_condsLogFrom_all _ (fun _ _ _ _ _ => rfl) _ _ _ _ _

theorem point_microLog (c : Chart) (m : Micro) :
    (microLog c false m).filter Effect.isPoint = pointsMicro c m := by
  unfold microLog pointsMicro
  simp only [List.filter_append]
  have h1 : (m.exited.flatMap (fun n => exitLog false m.event (c.stateD n))).filter Effect.isPoint
      = m.exited.flatMap (fun n => Effect.onExit n :: condsLogFrom .post (.state (c.stateD n)) m.event 0 (c.stateD n).post) := by
    apply filter_flatMap'
    intro n
    simp [exitLog, List.filter_cons, List.filter_append, point_contractLog, stateD_name, Obj.conds]
  have h2 : (m.entered.flatMap (fun n => enterLog false m.event (c.stateD n))).filter Effect.isPoint
      = m.entered.flatMap (fun n => condsLogFrom .pre (.state (c.stateD n)) m.event 0 (c.stateD n).pre ++ [Effect.onEntry n]) := by
    apply filter_flatMap'
    intro n
    simp [enterLog, List.filter_cons, List.filter_append, point_contractLog, stateD_name, Obj.conds]
  have h3 : (m.sent.flatMap sentLog).filter Effect.isPoint = [] := by
    rw [filter_flatMap' _ _ (fun _ => [])]
    · simp
    · intro s
      cases s <;> simp [sentLog, List.filter_cons] <;> split <;> simp [List.filter_cons]
  rw [h1, h2, h3]
  cases m.transition with
  | none => simp
  | some t =>
    simp [transLog, List.filter_cons, List.filter_append, point_contractLog, Obj.conds]

theorem point_finishLog (c : Chart) (cfg : List Name) (ev : Option Event) :
    (finishLog c false cfg ev).filter Effect.isPoint = pointsEnd c cfg ev := by
  unfold finishLog pointsEnd
  rw [List.filter_append, filter_flatMap' _ _ (fun n => condsLogFrom .inv (.state (c.stateD n)) ev 0 (c.stateD n).inv)]
  · simp [List.filter_cons]
  · intro n; simp [point_contractLog, Obj.conds]

theorem point_guardLog {σ : Type} (E : Evaluator σ) (st : IState σ) (ev : Option Event)
    (calls : List (Trans × Bool)) : (guardLog E st ev calls).filter Effect.isPoint = [] := by
  unfold guardLog
  induction calls with
  | nil => rfl
  | cons c cs ih => simp [List.filter_cons, ih]

end Sismic

namespace Sismic

@[simp] theorem isCond_onExit (n : Name) : (Effect.onExit n).isCond = false := rfl
@[simp] theorem isCond_onEntry (n : Name) : (Effect.onEntry n).isCond = false := rfl
@[simp] theorem isCond_action (t : Nat) (e : Option Event) : (Effect.action t e).isCond = false := rfl
@[simp] theorem isCond_meta (e : Event) : (Effect.metaEv e).isCond = false := rfl
@[simp] theorem isCond_cond (k : CondKind) (o : ObjId) (i : Nat) (e : Option Event) (r : Option Bool) :
    (Effect.cond k o i e r).isCond = true := rfl
@[simp] theorem isCond_guard (t : Nat) (e : Option Event) (r : Option Bool) : (Effect.guard t e r).isCond = false := rfl

theorem contractLog_true (kind : CondKind) (obj : Obj) (ev : Option Event) : contractLog true kind obj ev = [] := by
  simp [contractLog]

end Sismic
