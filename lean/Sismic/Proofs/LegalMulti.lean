import Sismic.Proofs.Legal
/-!
# Sismic.Proofs.LegalMulti — C02 for macro steps that fire several transitions (one per region)
-/
namespace Sismic

variable (c : Chart)

/-- two children of the same state have disjoint subtrees -/
theorem siblings_disjoint (hT : TreeOK c) {L Ra Rb z : Name} (ha : c.parentFor Ra = some L)
    (hb : c.parentFor Rb = some L) (hne : Ra ≠ Rb) (h1 : Sub c Ra z) (h2 : Sub c Rb z) : False := by
  have key : ∀ A B, c.parentFor A = some L → c.parentFor B = some L → Anc c A B → False := by
    intro A B hA hB hAB
    rcases Anc.parent_cases' c hAB hB with e | e
    · rw [e] at hA; exact Anc.irrefl' c hT (Anc.base hA)
    · exact Anc.asymm' c hT e (Anc.base hA)
  rcases h1 with e1 | e1 <;> rcases h2 with e2 | e2
  · exact hne (e1.symm.trans e2)
  · rw [e1] at e2; exact key Rb Ra hb ha e2
  · rw [e2] at e1; exact key Ra Rb ha hb e1
  · rcases Anc.chain e1 e2 with e | e | e
    · exact hne e
    · exact key Ra Rb ha hb e
    · exact key Rb Ra hb ha e

/-- two children of `l` that are both ancestors-or-self of `s` are equal -/
theorem child_on_chain_unique (hT : TreeOK c) {l a b s : Name} (ha : c.parentFor a = some l)
    (hb : c.parentFor b = some l) (h1 : Sub c a s) (h2 : Sub c b s) : a = b := by
  by_cases e : a = b
  · exact e
  · exact (siblings_disjoint c hT ha hb e h1 h2).elim

/-- two transitions live in different regions of an orthogonal state -/
def Separated (a b : Trans) : Prop :=
  ∃ L Ra Rb, c.kindOf L = some .orthogonal ∧ c.parentFor Ra = some L ∧ c.parentFor Rb = some L ∧ Ra ≠ Rb ∧
    Sub c Ra a.source ∧ Sub c Rb b.source ∧
    (∀ tg, a.target = some tg → Sub c Ra tg) ∧ (∀ tg, b.target = some tg → Sub c Rb tg)

theorem Separated.symm {c : Chart} {a b : Trans} (h : Separated c a b) : Separated c b a := by
  obtain ⟨L, Ra, Rb, h1, h2, h3, h4, h5, h6, h7, h8⟩ := h
  exact ⟨L, Rb, Ra, h1, h3, h2, h4.symm, h6, h5, h8, h7⟩

/-- what `_sort_transitions` accepts, for two fired transitions, is separated -/
theorem separated_of_checks (h : WFChart c) (a b : Trans)
    (hnd : nonDetPair c a b = false) (hcf : conflictPair c a b = false)
    (hna : ¬ Anc c a.source b.source) (hnb : ¬ Anc c b.source a.source) : Separated c a b := by
  have hT := h.tree
  simp only [nonDetPair, Bool.or_eq_false_iff, beq_eq_false_iff_ne, ne_eq] at hnd
  obtain ⟨hne, hl⟩ := hnd
  cases hlca : c.lca a.source b.source with
  | none => rw [hlca] at hl; exact absurd hl (by simp)
  | some L =>
    rw [hlca] at hl
    have hk : c.kindOf L = some .orthogonal := by simpa using hl
    obtain ⟨hLa, hLb, hmax⟩ := lca_spec c hT _ _ L hlca
    obtain ⟨pa, sa⟩ := lastBefore_spec c hT a.source L hLa
    obtain ⟨pb, sb⟩ := lastBefore_spec c hT b.source L hLb
    have subA : Sub c (lastBefore c a.source (some L)) a.source := sa.elim (fun e => Or.inl e.symm) Or.inr
    have subB : Sub c (lastBefore c b.source (some L)) b.source := sb.elim (fun e => Or.inl e.symm) Or.inr
    simp only [conflictPair, hlca, Bool.or_eq_false_iff] at hcf
    have tgt : ∀ (t : Trans), leavesRegion c (some L) t = false →
        c.hasState (lastBefore c t.source (some L)) = true →
        ∀ tg, t.target = some tg → Sub c (lastBefore c t.source (some L)) tg := by
      intro t hlr hst tg htg
      simp only [leavesRegion, htg, Bool.not_eq_false', List.contains_iff_mem, List.mem_cons] at hlr
      rcases hlr with e | e
      · exact Or.inl e
      · exact Or.inr ((mem_descendants c h _ hst tg).mp e)
    refine ⟨L, _, _, hk, pa, pb, ?_, subA, subB,
      tgt a hcf.1 (h.parentState _ _ pa).1, tgt b hcf.2 (h.parentState _ _ pb).1⟩
    intro e
    rw [← e] at subB
    rcases subA with e1 | e1 <;> rcases subB with e2 | e2
    · exact hne (e1.trans e2.symm)
    · rw [← e1] at e2; exact hna e2
    · rw [← e2] at e1; exact hnb e1
    · rcases hmax _ e1 e2 with e' | e'
      · rw [e'] at pa; exact Anc.irrefl' c hT (Anc.base pa)
      · exact Anc.asymm' c hT e' (Anc.base pa)

/-- a transition that lives in region `R` exits and enters only inside `R` -/
theorem touch_in_region (h : WFChart c) {L R s tg : Name} (hR : c.parentFor R = some L)
    (hs : Sub c R s) (ht : Sub c R tg) :
    ∃ l, c.lca s tg = some l ∧ Sub c R (lastBefore c s (some l)) ∧ Sub c R (lastBefore c tg (some l)) := by
  have hT := h.tree
  have hLs : Anc c L s := by
    rcases hs with e | e
    · rw [e]; exact Anc.base hR
    · exact (Anc.base hR).trans e
  have hLt : Anc c L tg := by
    rcases ht with e | e
    · rw [e]; exact Anc.base hR
    · exact (Anc.base hR).trans e
  cases hl : c.lca s tg with
  | none =>
    exfalso
    simp only [Chart.lca] at hl
    have := List.find?_eq_none.mp hl L ((mem_ancestors c hT s L).mpr hLs)
    simp [(mem_ancestors c hT tg L).mpr hLt] at this
  | some l =>
    obtain ⟨hls, hlt, hmax⟩ := lca_spec c hT _ _ l hl
    obtain ⟨px, sx⟩ := lastBefore_spec c hT s l hls
    obtain ⟨py, sy⟩ := lastBefore_spec c hT tg l hlt
    have subx : Sub c (lastBefore c s (some l)) s := sx.elim (fun e => Or.inl e.symm) Or.inr
    have suby : Sub c (lastBefore c tg (some l)) tg := sy.elim (fun e => Or.inl e.symm) Or.inr
    refine ⟨l, rfl, ?_, ?_⟩
    · -- the exited subtree
      rcases hmax L hLs hLt with e | e
      · subst e
        exact Or.inl (child_on_chain_unique c hT px hR subx hs)
      · -- `l` strictly below `L`
        have hRl : Sub c R l := by
          rcases hs with e' | e'
          · -- R = s: l is a proper ancestor of R, hence L or above
            exfalso
            rw [e'] at hls
            rcases Anc.parent_cases' c hls hR with e'' | e''
            · rw [e''] at e; exact Anc.irrefl' c hT e
            · exact Anc.asymm' c hT e e''
          · rcases Anc.chain hls e' with e'' | e'' | e''
            · exact Or.inl e''
            · exfalso
              rcases Anc.parent_cases' c e'' hR with e3 | e3
              · rw [e3] at e; exact Anc.irrefl' c hT e
              · exact Anc.asymm' c hT e e3
            · exact Or.inr e''
        right
        rcases hRl with e' | e'
        · rw [← e']; exact Anc.base px
        · exact e'.trans (Anc.base px)
    · rcases hmax L hLs hLt with e | e
      · subst e
        exact Or.inl (child_on_chain_unique c hT py hR suby ht)
      · have hRl : Sub c R l := by
          rcases ht with e' | e'
          · exfalso
            rw [e'] at hlt
            rcases Anc.parent_cases' c hlt hR with e'' | e''
            · rw [e''] at e; exact Anc.irrefl' c hT e
            · exact Anc.asymm' c hT e e''
          · rcases Anc.chain hlt e' with e'' | e'' | e''
            · exact Or.inl e''
            · exfalso
              rcases Anc.parent_cases' c e'' hR with e3 | e3
              · rw [e3] at e; exact Anc.irrefl' c hT e
              · exact Anc.asymm' c hT e e3
            · exact Or.inr e''
        right
        rcases hRl with e' | e'
        · rw [← e']; exact Anc.base py
        · exact e'.trans (Anc.base py)

end Sismic

namespace Sismic

variable (c : Chart)

theorem Sub.trans' {c : Chart} {a b z : Name} (h1 : Sub c a b) (h2 : Sub c b z) : Sub c a z := by
  rcases h1 with e1 | e1 <;> rcases h2 with e2 | e2
  · exact Or.inl (e2.trans e1)
  · rw [e1] at e2; exact Or.inr e2
  · rw [e2]; exact Or.inr e1
  · exact Or.inr (e1.trans e2)

theorem legal_compound_child (h : WFChart c) {cfg0 : List Name} (hL : Legal c cfg0) {z : Name} {sd : StateDef}
    (hz : z ∈ cfg0) (hsd : c.stateFor z = some sd) (hk : sd.kind = .compound) :
    ∃ ch, c.parentFor ch = some z ∧ ch ∈ cfg0 := by
  obtain ⟨i, hi, _⟩ := h.initial z sd hsd hk
  have := (hL.compound z hz sd hsd hk).2 (by rw [hi]; rfl)
  match hf : (c.childrenFor z).filter cfg0.contains, this with
  | [ch], _ =>
    have hm : ch ∈ (c.childrenFor z).filter cfg0.contains := by rw [hf]; simp
    simp only [List.mem_filter, List.contains_iff_mem] at hm
    exact ⟨ch, (h.children z ch).mp hm.1, hm.2⟩

/-- **A stabilisation step does not touch a protected subtree**: if the configuration agrees with
    a legal configuration `cfg0` on the subtree of `P`, and `P` lies in a region of an orthogonal
    state, a stabilisation step exits nothing and enters nothing new below `P`. -/
theorem stab_untouched (h : WFChart c) {cfg0 cfg : List Name} {mem : List (Name × List Name)}
    (hL0 : Legal c cfg0) (hS : Semi c cfg) (hM : MemOK c mem) {P L R : Name}
    (hkL : c.kindOf L = some .orthogonal) (hR : c.parentFor R = some L) (hRP : Sub c R P) (hP0 : P ∈ cfg0)
    (hag : ∀ z, Sub c P z → (z ∈ cfg ↔ z ∈ cfg0)) {m : Micro}
    (hstep : stabilizationStep c mem cfg = some m) :
    ∀ z, Sub c P z → (z ∈ m.exited → False) ∧ (z ∈ m.entered → z ∈ cfg) := by
  have hT := h.tree
  have hPc : P ∈ cfg := (hag P (Or.inl rfl)).mpr hP0
  have hRc : R ∈ cfg := by
    rcases hRP with e | e
    · rw [← e]; exact hPc
    · exact hS.up_anc e hPc
  have hLc : L ∈ cfg := hS.up R hRc L hR
  have nohist0 : ∀ s ∈ cfg0, ∀ sd, c.stateFor s = some sd → sd.kind.isHistory = true → False := by
    intro s hs sd hsd hk
    have := hL0.nohist s hs sd.kind (kindOf_of_stateFor c s sd hsd)
    rw [hk] at this; cases this
  unfold stabilizationStep at hstep
  split at hstep
  · next m' hf =>
    simp only [Option.some.injEq] at hstep
    subst hstep
    obtain ⟨leaf, hleaf, hls⟩ := List.exists_of_findSome?_eq_some hf
    obtain ⟨hlc, hnoch⟩ := leaf_spec c h cfg leaf ((mem_isort _ _ _).mp hleaf)
    unfold leafStep at hls
    cases hsd : c.stateFor leaf with
    | none => rw [hsd] at hls; exact absurd hls (by simp)
    | some sd =>
      rw [hsd] at hls
      have hkind := kindOf_of_stateFor c leaf sd hsd
      simp only at hls
      split at hls
      · -- final child of the root: impossible next to an active region
        next hc =>
        exfalso
        simp only [Bool.and_eq_true, beq_iff_eq] at hc
        obtain ⟨hk, hpr⟩ := hc
        obtain ⟨r, hr, hrp, _⟩ := h.root
        rw [hr] at hpr
        have honly := semi_final_only c h hS hr hlc hpr (by rw [hkind, hk])
        rcases honly L hLc with e | e
        · rw [e] at hR; exact hnoch R hR hRc
        · rcases honly R hRc with e' | e'
          · rw [e', e] at hR
            have := h.regions r leaf .final (by rw [← e]; exact hkL) hR (by rw [hkind, hk])
            exact absurd this (by decide)
          · rw [e', hrp] at hR; cases hR
      · split at hls
        · -- history state
          next _ hh =>
          simp only [Option.some.injEq] at hls
          obtain ⟨p, m0, hp, hkp, hmem0, hpm0, _⟩ := h.history leaf sd hsd hh
          have hnoch' : ∀ ch, c.parentFor ch ≠ some leaf := by
            intro ch hch
            rcases h.composite ch leaf hch with e | e <;> rw [hkind] at e <;>
              (simp only [Option.some.injEq] at e; rw [e] at hh; exact absurd hh (by decide))
          have noDesc : ∀ z, Anc c leaf z → False := by
            intro z hz
            cases hz with
            | base hq => exact hnoch' _ hq
            | step hq h' =>
              clear hq
              induction h' with
              | base hq' => exact hnoch' _ hq'
              | step _ _ ih => exact ih
          -- the history state is not in the protected subtree
          have leafNot : Sub c P leaf → False := by
            intro hsub
            exact nohist0 leaf ((hag leaf hsub).mp hlc) sd hsd hh
          have hpc : p ∈ cfg := hS.up leaf hlc p hp
          -- `p` cannot be a proper ancestor of `P`
          have pNotAbove : Anc c p P → False := by
            intro hpP
            obtain ⟨k, hk, hsub⟩ := Anc.child_of hpP
            have hkc : k ∈ cfg := by
              rcases hsub with e | e
              · rw [← e]; exact hPc
              · exact hS.up_anc e hPc
            have : k = leaf := hS.compound p hpc hkp k leaf hk hp hkc hlc
            subst this
            rcases hsub with e | e
            · exact leafNot (Or.inl e.symm)
            · exact noDesc P e
          have inM : ∀ (M : List Name), GoodMem c p M → ∀ z, Sub c P z → z ∈ M → False := by
            intro M hM' z hsub hz
            have hpz := (hM'.below z hz).1
            rcases hsub with e | e
            · rw [e] at hpz; exact pNotAbove hpz
            · rcases Anc.chain hpz e with e' | e' | e'
              · rw [e'] at hp; exact leafNot (Or.inr (Anc.base hp))
              · exact pNotAbove e'
              · exact leafNot (Or.inr (e'.trans (Anc.base hp)))
          intro z hsub
          rw [← hls]
          refine ⟨?_, ?_⟩
          · intro hz
            simp only [List.mem_singleton] at hz
            rw [hz] at hsub; exact leafNot hsub
          · intro hz
            exfalso
            simp only [mem_isort] at hz
            cases hfind : mem.find? (fun p => p.1 == leaf) with
            | some kl =>
              obtain ⟨k, l⟩ := kl
              rw [hfind] at hz
              exact inM l (hM leaf k l hfind p hp) z hsub hz
            | none =>
              rw [hfind, hmem0] at hz
              have hgood : GoodMem c p [m0] := by
                refine ⟨?_, ?_, ?_⟩
                · intro x hx; simp at hx; rw [hx]; exact ⟨Anc.base hpm0, (h.parentState m0 p hpm0).1⟩
                · intro x hx q hq; simp at hx; rw [hx, hpm0] at hq; exact Or.inl (Option.some.inj hq).symm
                · intro w _ a b _ _ haa hbb; simp at haa hbb; rw [haa, hbb]
              exact inM [m0] hgood z hsub (by simpa using hz)
        · split at hls
          · -- orthogonal leaf
            next _ _ ho =>
            simp only [Option.some.injEq] at hls
            simp only [Bool.and_eq_true, beq_iff_eq] at ho
            intro z hsub
            rw [← hls]
            refine ⟨by simp, ?_⟩
            intro hz
            simp only [mem_isort] at hz
            have hpz := (h.children leaf z).mp hz
            rcases hsub with e | e
            · rw [e]; exact hPc
            · have hsl : Sub c P leaf := by
                rcases Anc.parent_cases' c e hpz with e' | e'
                · exact Or.inl e'.symm
                · exact Or.inr e'
              have hl0 : leaf ∈ cfg0 := (hag leaf hsl).mp hlc
              have := hL0.orth leaf hl0 (by rw [hkind, ho.1]) z hz
              exact (hag z (Or.inr e)).mpr this
          · split at hls
            · -- compound leaf
              next _ _ _ hcmp =>
              simp only [Option.some.injEq] at hls
              simp only [Bool.and_eq_true, beq_iff_eq] at hcmp
              obtain ⟨i, hi, hpi⟩ := h.initial leaf sd hsd hcmp.1
              intro z hsub
              rw [← hls, hi]
              refine ⟨by simp, ?_⟩
              intro hz
              simp only [Option.toList_some, List.mem_singleton] at hz
              subst hz
              rcases hsub with e | e
              · rw [e]; exact hPc
              · exfalso
                have hsl : Sub c P leaf := by
                  rcases Anc.parent_cases' c e hpi with e' | e'
                  · exact Or.inl e'.symm
                  · exact Or.inr e'
                have hl0 : leaf ∈ cfg0 := (hag leaf hsl).mp hlc
                obtain ⟨ch, hch, hc0⟩ := legal_compound_child c h hL0 hl0 hsd hcmp.1
                have : ch ∈ cfg := (hag ch (sub_of_parent_sub hch hsl)).mpr hc0
                exact hnoch ch hch this
            · exact absurd hls (by simp)
  · -- completion of an orthogonal state
    obtain ⟨n, hn, hcs⟩ := List.exists_of_findSome?_eq_some hstep
    have hnc : n ∈ cfg := (mem_isort _ _ _).mp hn
    unfold completeStep at hcs
    split at hcs
    · next hk =>
      simp only at hcs
      split at hcs
      · exact absurd hcs (by simp)
      · simp only [Option.some.injEq] at hcs
        intro z hsub
        rw [← hcs]
        refine ⟨by simp, ?_⟩
        intro hz
        simp only [mem_isort, List.mem_filter] at hz
        have hpz := (h.children n z).mp hz.1
        rcases hsub with e | e
        · rw [e]; exact hPc
        · have hsn : Sub c P n := by
            rcases Anc.parent_cases' c e hpz with e' | e'
            · exact Or.inl e'.symm
            · exact Or.inr e'
          have hn0 : n ∈ cfg0 := (hag n hsn).mp hnc
          have := hL0.orth n hn0 (by simpa using hk) z hz.1
          exact (hag z (Or.inr e)).mpr this
    · exact absurd hcs (by simp)

end Sismic

namespace Sismic

variable (c : Chart)

/-- the top of the subtree that must stay as planned until transition `t` is applied -/
def protTop (t : Trans) : Name :=
  match t.target with
  | some tg => lastBefore c t.source (c.lca t.source tg)
  | none => t.source

/-- the current configuration still looks, around transition `t`, as it did when `t` was planned -/
def Pending (cfg0 cfg : List Name) (t : Trans) : Prop :=
  ∀ z, Sub c (protTop c t) z → (z ∈ cfg ↔ z ∈ cfg0)

/-- a transition that lives in region `R`: its protected subtree, what it exits and what it
    enters all lie in `R` -/
theorem prot_in (h : WFChart c) (cfg0 : List Name) (ev : Option Event) {t : Trans} {L R : Name}
    (pR : c.parentFor R = some L) (sR : Sub c R t.source) (tR : ∀ tg, t.target = some tg → Sub c R tg) :
    Sub c R (protTop c t) ∧ Sub c (protTop c t) t.source ∧
    (∀ z, z ∈ (createStep c cfg0 ev t).exited → Sub c R z) ∧
    (∀ z, z ∈ (createStep c cfg0 ev t).entered → Sub c R z) := by
  have hT := h.tree
  unfold protTop createStep
  cases htg : t.target with
  | none => exact ⟨sR, Or.inl rfl, by simp, by simp⟩
  | some tg =>
    obtain ⟨l, hl, hx, hy⟩ := touch_in_region c h pR sR (tR tg htg)
    obtain ⟨hls, hlt, _⟩ := lca_spec c hT _ _ l hl
    obtain ⟨px, sx⟩ := lastBefore_spec c hT t.source l hls
    obtain ⟨py, sy⟩ := lastBefore_spec c hT tg l hlt
    simp only [hl]
    refine ⟨hx, sx.elim (fun e => Or.inl e.symm) Or.inr, ?_, ?_⟩
    · intro z hz
      simp only [List.mem_append, List.mem_filter, mem_isort] at hz
      rcases hz with ⟨hz, _⟩ | hz
      · obtain ⟨n, hn, ha⟩ := descF_sound c (fun p ch hc => (h.children p ch).mp hc) _ _ z hz
        simp only [List.mem_singleton] at hn
        subst hn
        exact Sub.trans' hx (Or.inr ha)
      · split at hz
        · simp only [List.mem_singleton] at hz; rw [hz]; exact hx
        · simp at hz
    · intro z hz
      have := (mem_enteredPath c hT tg l hlt z).mp (by unfold enteredPath; exact hz)
      have hyz := onPath_sub_y c hT (sy.elim (fun e => Or.inl e.symm) Or.inr) py
        (this.1.elim (fun e => Or.inl e.symm) Or.inr) this.2
      exact Sub.trans' hy hyz

end Sismic

namespace Sismic

variable (c : Chart)

/-- applying the step of `t` does not disturb what is pending for a separated transition `u` -/
theorem pending_after_other (h : WFChart c) (cfg0 cfg : List Name) (mem : List (Name × List Name))
    (ev : Option Event) {t u : Trans} (hsep : Separated c t u) (hp : Pending c cfg0 cfg u) :
    Pending c cfg0 (applyMicro c (cfg, mem) (createStep c cfg0 ev t)).1 u := by
  obtain ⟨L, Rt, Ru, _, pt, pu, hne, st, su, tt, tu⟩ := hsep
  obtain ⟨_, _, hex, hen⟩ := prot_in c h cfg0 ev pt st tt
  obtain ⟨hPu, _, _, _⟩ := prot_in c h cfg0 ev pu su tu
  intro z hz
  have hzu : Sub c Ru z := Sub.trans' hPu hz
  rw [mem_applyMicro]
  constructor
  · rintro (⟨h1, _⟩ | h1)
    · exact (hp z hz).mp h1
    · exact (siblings_disjoint c h.tree pt pu hne (hen z h1) hzu).elim
  · intro h1
    exact Or.inl ⟨(hp z hz).mpr h1, fun hx => siblings_disjoint c h.tree pt pu hne (hex z hx) hzu⟩

/-- a stabilisation step while transitions are still pending -/
theorem stab_pending_step (h : WFChart c) {cfg0 cfg : List Name} {mem : List (Name × List Name)}
    (hL0 : Legal c cfg0) (hS : Semi c cfg) (hM : MemOK c mem) {m : Micro}
    (hstep : stabilizationStep c mem cfg = some m)
    {u v : Trans} (hsep : Separated c u v) (hu0 : u.source ∈ cfg0) (hp : Pending c cfg0 cfg u) :
    Pending c cfg0 (applyMicro c (cfg, mem) m).1 u := by
  obtain ⟨L, Ru, Rv, hk, pu, _, _, su, _, tu, _⟩ := hsep
  obtain ⟨hPu, hPs, _, _⟩ := prot_in c h cfg0 none pu su tu
  have hP0 : protTop c u ∈ cfg0 := by
    have hS0 := legal_semi c h hL0
    rcases hPs with e | e
    · rw [← e]; exact hu0
    · exact hS0.up_anc e hu0
  have hun := stab_untouched c h hL0 hS hM hk pu hPu hP0 hp hstep
  intro z hz
  rw [mem_applyMicro]
  constructor
  · rintro (⟨h1, _⟩ | h1)
    · exact (hp z hz).mp h1
    · exact (hp z hz).mp ((hun z hz).2 h1)
  · intro h1
    exact Or.inl ⟨(hp z hz).mpr h1, (hun z hz).1⟩

/-- stabilisation while transitions are pending keeps the configuration semi-legal (never empty),
    the memory re-enterable and the pending transitions undisturbed -/
theorem stabChain_pending (h : WFChart c) {cfg0 : List Name} (hL0 : Legal c cfg0) (rem : List Trans)
    (hne : rem ≠ []) (hrem : ∀ u ∈ rem, u.source ∈ cfg0 ∧ ∃ v, Separated c u v) :
    ∀ (stab : List Micro) (cm : List Name × List (Name × List Name)),
      Semi c cm.1 → MemOK c cm.2 → (∀ u ∈ rem, Pending c cfg0 cm.1 u) → StabChain c cm stab →
      Semi c (applyMicros c cm stab).1 ∧ MemOK c (applyMicros c cm stab).2 ∧
        (∀ u ∈ rem, Pending c cfg0 (applyMicros c cm stab).1 u)
  | [], cm, hS, hM, hP, _ => ⟨hS, hM, hP⟩
  | m :: ms, cm, hS, hM, hP, hc => by
    obtain ⟨s, hs, hshape, hrest⟩ := hc
    have e1 : applyMicros c cm (m :: ms) = applyMicros c (applyMicro c cm s) ms := by
      simp only [applyMicros, List.foldl_cons]
      rw [applyMicro_shape c cm m s hshape]
    rw [e1]
    have hP' : ∀ u ∈ rem, Pending c cfg0 (applyMicro c cm s).1 u := by
      intro u hu
      obtain ⟨hu0, v, hsep⟩ := hrem u hu
      exact stab_pending_step c h hL0 hS hM hs hsep hu0 (hP u hu)
    have hS' : Semi c (applyMicro c cm s).1 := by
      rcases stabilizationStep_semi c h hS hM hs with he | hS'
      · -- a pending transition keeps its source active: the configuration is not empty
        exfalso
        cases rem with
        | nil => exact hne rfl
        | cons u _ =>
          obtain ⟨hu0, v, hsep⟩ := hrem u List.mem_cons_self
          obtain ⟨L, Ru, Rv, _, pu, _, _, su, _, tu, _⟩ := hsep
          obtain ⟨_, hPs, _, _⟩ := prot_in c h cfg0 none pu su tu
          have := (hP' u List.mem_cons_self u.source hPs).mpr hu0
          rw [he] at this; simp at this
      · exact hS'
    exact stabChain_pending h hL0 rem hne hrem ms _ hS' (memOK_applyMicro c h cm s hS hM) hP' hrest

end Sismic

namespace Sismic

variable (c : Chart)

/-- **several transitions in one macro step**: the steps planned in `cfg0` for pairwise separated
    transitions, each followed by its stabilisation, keep the invariant -/
theorem runChain_multi (h : WFChart c) {cfg0 : List Name} (hL0 : Legal c cfg0) (ev : Option Event) :
    ∀ (rem : List Trans),
      (∀ u ∈ rem, u ∈ c.transitions ∧ u.source ∈ cfg0 ∧ ∃ v, Separated c u v) →
      rem.Pairwise (Separated c) →
      ∀ (cm : List Name × List (Name × List Name)) (ex : List Micro),
        Semi c cm.1 → MemOK c cm.2 → (∀ u ∈ rem, Pending c cfg0 cm.1 u) →
        RunChain c cm (rem.map (createStep c cfg0 ev)) ex → SInv c (applyMicros c cm ex)
  | [], _, _, cm, ex, hS, hM, _, hc => by
    have : ex = [] := hc
    subst this
    exact ⟨Or.inr hS, hM⟩
  | t :: rem', hall, hpw, cm, ex, hS, hM, hP, hc => by
    simp only [List.map_cons] at hc
    obtain ⟨a, stab, rest, rfl, hshape, hstab, hrest⟩ := hc
    have e1 : applyMicros c cm (a :: stab ++ rest) =
        applyMicros c (applyMicros c (applyMicro c cm (createStep c cfg0 ev t)) stab) rest := by
      simp only [applyMicros, List.foldl_cons, List.foldl_append, List.cons_append]
      rw [applyMicro_shape c cm a _ hshape]
    rw [e1]
    obtain ⟨htr, ht0, v, hsepv⟩ := hall t List.mem_cons_self
    -- the source is still active, and the exited subtree is as planned
    have hreg : Sub c (protTop c t) t.source := by
      obtain ⟨L, Rt, Rv, _, pt, _, _, st, _, tt, _⟩ := hsepv
      exact (prot_in c h cfg0 ev pt st tt).2.1
    have hs : t.source ∈ cm.1 := (hP t List.mem_cons_self t.source hreg).mpr ht0
    have hag : ∀ tg, t.target = some tg → ∀ z, Sub c (lastBefore c t.source (c.lca t.source tg)) z →
        (z ∈ cm.1 ↔ z ∈ cfg0) := by
      intro tg htg z hz
      apply hP t List.mem_cons_self z
      simp only [protTop, htg]
      exact hz
    have hS1 : Semi c (applyMicro c cm (createStep c cfg0 ev t)).1 :=
      createStep_semi_gen c h cm.2 hS htr hs ev hag
    have hM1 : MemOK c (applyMicro c cm (createStep c cfg0 ev t)).2 := memOK_applyMicro c h cm _ hS hM
    have hpw' := List.pairwise_cons.mp hpw
    have hP1 : ∀ u ∈ rem', Pending c cfg0 (applyMicro c cm (createStep c cfg0 ev t)).1 u := by
      intro u hu
      exact pending_after_other c h cfg0 cm.1 cm.2 ev (hpw'.1 u hu) (hP u (List.mem_cons_of_mem _ hu))
    have hall' : ∀ u ∈ rem', u ∈ c.transitions ∧ u.source ∈ cfg0 ∧ ∃ v, Separated c u v :=
      fun u hu => hall u (List.mem_cons_of_mem _ hu)
    cases hr : rem' with
    | nil =>
      subst hr
      have : rest = [] := hrest
      subst this
      simp only [applyMicros, List.foldl_nil]
      exact stabChain_inv c h stab _ ⟨Or.inr hS1, hM1⟩ hstab
    | cons u us =>
      rw [hr] at hall' hP1 hrest hpw'
      obtain ⟨hS2, hM2, hP2⟩ := stabChain_pending c h hL0 (u :: us) (by simp)
        (fun w hw => ⟨(hall' w hw).2.1, (hall' w hw).2.2⟩) stab _ hS1 hM1 hP1 hstab
      exact runChain_multi h hL0 ev (u :: us) hall' hpw'.2 _ rest hS2 hM2 hP2 hrest

end Sismic

namespace Sismic

variable (c : Chart)

theorem pairwise_of_pairs {α} (R : α → α → Prop) : ∀ l : List α, (∀ p ∈ pairs l, R p.1 p.2) → l.Pairwise R
  | [], _ => List.Pairwise.nil
  | x :: xs, h => by
    simp only [pairs, List.mem_append, List.mem_map] at h
    refine List.Pairwise.cons ?_ (pairwise_of_pairs R xs (fun p hp => h p (Or.inr hp)))
    intro y hy
    exact h (x, y) (Or.inl ⟨y, hy, rfl⟩)

theorem mem_pairs_mem {α} : ∀ (l : List α) (p : α × α), p ∈ pairs l → p.1 ∈ l ∧ p.2 ∈ l
  | [], p, h => by simp [pairs] at h
  | x :: xs, p, h => by
    simp only [pairs, List.mem_append, List.mem_map] at h
    rcases h with ⟨y, hy, rfl⟩ | h
    · exact ⟨List.mem_cons_self, List.mem_cons_of_mem _ hy⟩
    · have := mem_pairs_mem xs p h
      exact ⟨List.mem_cons_of_mem _ this.1, List.mem_cons_of_mem _ this.2⟩

theorem pairwise_partner {α} (R : α → α → Prop) (hsym : ∀ a b, R a b → R b a) :
    ∀ l : List α, 2 ≤ l.length → l.Pairwise R → ∀ a ∈ l, ∃ b, R a b
  | [], hl, _, _, _ => by simp at hl
  | [_], hl, _, _, _ => by simp at hl
  | x :: y :: r, _, hp, a, ha => by
    have hx := (List.pairwise_cons.mp hp).1
    rcases List.mem_cons.mp ha with rfl | ha
    · exact ⟨y, hx y List.mem_cons_self⟩
    · exact ⟨x, hsym _ _ (hx a ha)⟩

/-- the transitions `_sort_transitions` lets through, when there are several, are pairwise separated -/
theorem sort_separated (h : WFChart c) (sel ts : List Trans) (hs : sortTransitions c sel = .ok ts)
    (hlen : 2 ≤ sel.length)
    (hna : ∀ a ∈ sel, ∀ b ∈ sel, ¬ Anc c a.source b.source) :
    ts.Pairwise (Separated c) ∧ 2 ≤ ts.length := by
  unfold sortTransitions at hs
  rw [if_neg (by omega)] at hs
  split at hs
  · exact absurd hs (by simp)
  next hnd =>
  split at hs
  · exact absurd hs (by simp)
  next hcf =>
  simp only [Except.ok.injEq] at hs
  subst hs
  have hsel : sel.Pairwise (Separated c) := by
    apply pairwise_of_pairs
    intro p hp
    have hin := mem_pairs_mem sel p hp
    have h1 : nonDetPair c p.1 p.2 = false := by
      cases hx : nonDetPair c p.1 p.2 with
      | false => rfl
      | true => exact absurd (List.any_eq_true.mpr ⟨p, hp, hx⟩) hnd
    have h2 : conflictPair c p.1 p.2 = false := by
      cases hx : conflictPair c p.1 p.2 with
      | false => rfl
      | true => exact absurd (List.any_eq_true.mpr ⟨p, hp, hx⟩) hcf
    exact separated_of_checks c h p.1 p.2 h1 h2 (hna _ hin.1 _ hin.2) (hna _ hin.2 _ hin.1)
  have hperm := isort_perm (leTrans c) sel
  refine ⟨?_, by rw [hperm.length_eq]; exact hlen⟩
  exact hperm.symm.pairwise hsel (fun hab => hab.symm)

end Sismic

namespace Sismic

variable (c : Chart)

theorem runChain_single (h : WFChart c) (cm : List Name × List (Name × List Name)) (p : Micro) (ex : List Micro)
    (hp : SInv c (applyMicro c cm p)) (hc : RunChain c cm [p] ex) : SInv c (applyMicros c cm ex) := by
  obtain ⟨a, stab, rest, rfl, hshape, hstab, hrest⟩ := hc
  have : rest = [] := hrest
  subst this
  have e1 : applyMicros c cm (a :: stab ++ []) = applyMicros c (applyMicro c cm p) stab := by
    simp only [applyMicros, List.append_nil, List.foldl_cons]
    rw [applyMicro_shape c cm a p hshape]
  rw [e1]
  exact stabChain_inv c h stab _ hp hstab

/-- **all the steps `_compute_steps` plans, each followed by its stabilisation, keep the invariant** -/
theorem planned_chain_inv {σ : Type} (h : WFChart c) (E : Evaluator σ) (st : IState σ)
    (computed ex : List Micro) (hp : planOf c E st = .ok computed)
    (hleg : st.config = [] ∨ Legal c st.config) (hM : MemOK c st.memory)
    (hc : RunChain c (st.config, st.memory) computed ex) :
    SInv c (applyMicros c (st.config, st.memory) ex) := by
  have hS0 : SInv c (st.config, st.memory) := ⟨hleg.imp id (legal_semi c h), hM⟩
  match computed, hp, hc with
  | [], _, hc =>
    have : ex = [] := hc
    subst this
    exact hS0
  | [p], hp, hc => exact runChain_single c h _ p ex (planned_inv c h E st p hp hS0) hc
  | p :: q :: r, hp, hc =>
    unfold planOf at hp
    simp only at hp
    split at hp
    · split at hp <;> simp at hp
    · next hne =>
      split at hp
      · exact absurd hp (by simp)
      · next ts hts =>
        simp only [Except.ok.injEq, createSteps] at hp
        have hlen : 2 ≤ ts.length := by
          have := congrArg List.length hp
          simp only [List.length_map, List.length_cons] at this
          omega
        -- the selection
        have hsel_mem : ∀ t ∈ ts, t ∈ (selectTransitions c st.config ((peekEvent st).map (·.name))
            (guardOk E st (peekEvent st))).selected := fun t ht => (sortTransitions_mem c _ _ hts t).mp ht
        have hen : ∀ t ∈ ts, t ∈ c.transitions ∧ t.source ∈ st.config :=
          fun t ht => selected_enabled c h.tree _ _ _ t (hsel_mem t ht)
        have hsellen : 2 ≤ (selectTransitions c st.config ((peekEvent st).map (·.name))
            (guardOk E st (peekEvent st))).selected.length := by
          unfold sortTransitions at hts
          split at hts
          · next hle =>
            simp only [Except.ok.injEq] at hts
            rw [← hts] at hlen; omega
          · next hle => omega
        have hna : ∀ a ∈ (selectTransitions c st.config ((peekEvent st).map (·.name))
            (guardOk E st (peekEvent st))).selected, ∀ b ∈ (selectTransitions c st.config ((peekEvent st).map (·.name))
            (guardOk E st (peekEvent st))).selected, ¬ Anc c a.source b.source := by
          intro a ha b hb
          have fa := (select_iff_fires c st.config _ _ h.tree a).mp ha
          have fb := (select_iff_fires c st.config _ _ h.tree b).mp hb
          exact fa.2.1 b fb.1
        obtain ⟨hpw, _⟩ := sort_separated c h _ ts hts hsellen hna
        have hL0 : Legal c st.config := by
          rcases hleg with he | hL
          · exfalso
            cases ts with
            | nil => simp at hlen
            | cons t _ =>
              have := (hen t List.mem_cons_self).2
              rw [he] at this; simp at this
          · exact hL
        rw [← hp] at hc
        exact runChain_multi c h hL0 _ ts
          (fun u hu => ⟨(hen u hu).1, (hen u hu).2, pairwise_partner _ (fun _ _ hab => hab.symm) ts hlen hpw u hu⟩)
          hpw _ ex (legal_semi c h hL0) hM (fun _ _ _ _ => Iff.rfl) hc

end Sismic
