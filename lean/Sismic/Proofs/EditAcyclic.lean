import Sismic.Proofs.EditValid
import Sismic.Proofs.Desc
/-!
# Sismic.Proofs.EditAcyclic — editing keeps the parent relation acyclic

"Still one tree": the parent map has no cycle, witnessed by a rank that decreases towards the root
(`Ranked`; with `Tidy` — at most one root, `_parent` / `_children` consistent — that is a tree).
`remove_state` only forgets entries; `add_state` hangs a fresh state below an existing one;
`rename_state` renames a node; `move_state` re-hangs a subtree below a state that is **not in that
subtree** — which is what its check `new_parent in [name] + descendants_for(name)` establishes, the
breadth-first `descendants_for` being complete on a consistent acyclic statechart.
-/
namespace Sismic
namespace Chart

/-- the parent map is acyclic: some rank decreases from every state to its parent -/
def Ranked (c : Chart) : Prop := ∃ r : Name → Nat, ∀ s p, c.parentFor s = some p → r p < r s

/-- the same, about every entry of `_parent` (what `remove_state` keeps without further ado) -/
def RankedE (c : Chart) : Prop := ∃ r : Name → Nat, ∀ e ∈ c.parent, ∀ p, e.2 = some p → r p < r e.1

theorem RankedE.ranked {c : Chart} (h : c.RankedE) : c.Ranked := by
  obtain ⟨r, hr⟩ := h
  exact ⟨r, fun s p hp => hr (s, some p) (parentFor_mem c s p hp) p rfl⟩

theorem find?_of_mem_nodup_keys {ν : Type} (e : Name × ν) : ∀ (l : List (Name × ν)), (l.map (·.1)).Nodup → e ∈ l →
    l.find? (fun p => p.1 == e.1) = some e
  | [], _, h => by cases h
  | x :: xs, hn, h => by
    rw [List.map_cons, List.nodup_cons] at hn
    rw [List.find?_cons]
    rcases List.mem_cons.1 h with e1 | hm
    · subst e1; simp
    · have : x.1 ≠ e.1 := fun eq => hn.1 (eq ▸ List.mem_map.2 ⟨e, hm, rfl⟩)
      have h1 : (x.1 == e.1) = false := by simp [this]
      rw [h1]
      exact find?_of_mem_nodup_keys e xs hn.2 hm

theorem Ranked.rankedE {c : Chart} (ht : Tidy c) (h : c.Ranked) : c.RankedE := by
  obtain ⟨r, hr⟩ := h
  refine ⟨r, ?_⟩
  intro e he p hp
  apply hr e.1 p
  unfold parentFor
  rw [find?_of_mem_nodup_keys e c.parent ht.parentKeys he]
  exact hp

/-! ### a rank can always be taken below the number of states -/

theorem filter_length_lt {α : Type} (P Q : α → Bool) (hPQ : ∀ x, P x = true → Q x = true) :
    ∀ (l : List α), (∃ x ∈ l, Q x = true ∧ P x = false) → (l.filter P).length < (l.filter Q).length
  | [], h => by obtain ⟨x, hx, _⟩ := h; cases hx
  | y :: ys, h => by
    have mono : ∀ (l : List α), (l.filter P).length ≤ (l.filter Q).length := by
      intro l
      induction l with
      | nil => simp
      | cons z zs ih =>
        simp only [List.filter_cons]
        by_cases hp : P z = true
        · simp only [hp, if_true, hPQ z hp, List.length_cons]; omega
        · by_cases hq : Q z = true
          · simp only [hp, hq, if_true, List.length_cons]
            simp only [Bool.not_eq_true] at hp
            simp only [hp, Bool.false_eq_true, if_false]; omega
          · simp only [Bool.not_eq_true] at hp hq
            simp only [hp, hq, Bool.false_eq_true, if_false]; exact ih
    obtain ⟨x, hx, hq, hp⟩ := h
    simp only [List.filter_cons]
    rcases List.mem_cons.1 hx with e | hm
    · subst e
      simp only [hp, hq, Bool.false_eq_true, if_false, if_true, List.length_cons]
      have := mono ys; omega
    · have ih := filter_length_lt P Q hPQ ys ⟨x, hm, hq, hp⟩
      by_cases hpy : P y = true
      · simp only [hpy, if_true, hPQ y hpy, List.length_cons]; omega
      · simp only [Bool.not_eq_true] at hpy
        by_cases hqy : Q y = true
        · simp only [hpy, hqy, Bool.false_eq_true, if_false, if_true, List.length_cons]; omega
        · simp only [Bool.not_eq_true] at hqy
          simp only [hpy, hqy, Bool.false_eq_true, if_false]; exact ih

/-- parents and children are states (from the consistency of the three dictionaries) -/
theorem _root_.Sismic.Tidy.parent_states {c : Chart} (ht : Tidy c) (s p : Name) (h : c.parentFor s = some p) :
    c.hasState s = true ∧ c.hasState p = true := by
  refine ⟨ht.parentKeysStates s (key_of_parentFor c s p h), ?_⟩
  have : s ∈ c.childrenFor p := (ht.childParent p s).2 h
  exact ht.childKeysStates p (key_of_child c p s this)

theorem treeOK_of_ranked (c : Chart) (ht : Tidy c) (h : c.Ranked) (hne : c.states ≠ []) : TreeOK c := by
  obtain ⟨r, hr⟩ := h
  let names := c.states.map (·.name)
  have hpos : 0 < names.length := by
    simp only [names, List.length_map]
    exact List.length_pos_iff.2 hne
  refine ⟨⟨fun s => if s ∈ names then (names.filter (fun t => decide (r t < r s))).length else 0, ?_, ?_⟩⟩
  · intro s p hp
    obtain ⟨hs, hpp⟩ := ht.parent_states s p hp
    have hs' : s ∈ names := (hasState_iff_mem c s).1 hs
    have hp' : p ∈ names := (hasState_iff_mem c p).1 hpp
    simp only [hs', hp', if_true]
    apply filter_length_lt
    · intro x hx
      simp only [decide_eq_true_eq] at hx ⊢
      exact Nat.lt_trans hx (hr s p hp)
    · exact ⟨p, hp', by simpa using hr s p hp, by simp⟩
  · intro s
    show (if s ∈ names then _ else 0) < c.states.length
    have hl : names.length = c.states.length := by simp [names]
    by_cases hs : s ∈ names
    · simp only [hs, if_true]
      rw [← hl]
      exact List.length_filter_lt_length_iff_exists.2 ⟨s, hs, by simp⟩
    · simp only [hs, if_false]
      rw [← hl]; exact hpos

/-! ### `remove_state` -/

theorem removeLeaf_rankedE (c : Chart) (n : Name) (hc : c.RankedE) : (c.removeLeaf n).RankedE := by
  obtain ⟨r, hr⟩ := hc
  refine ⟨r, ?_⟩
  intro e he p hp
  rw [(removeLeaf_fields c n).2.1] at he
  exact hr e (mem_eraseFirst _ _ e he) p hp

/-- whatever `remove_state` leaves — also when it raises half-way — is acyclic -/
theorem removeStateF_rankedE : ∀ (f : Nat) (c : Chart) (n : Name), c.RankedE → (removeStateF f c n).2.RankedE
  | 0, c, n, hc => by simpa [removeStateF] using hc
  | f+1, c, n, hc => by
    unfold removeStateF
    split
    · exact hc
    have hgo : ∀ (l : List Name) (c0 : Chart), c0.RankedE → (removeStateF.go f c0 l).2.RankedE := by
      intro l
      induction l with
      | nil => intro c0 h0; unfold removeStateF.go; exact h0
      | cons ch rest ih =>
        intro c0 h0
        unfold removeStateF.go
        have h1 := removeStateF_rankedE f c0 ch h0
        obtain ⟨res, c1, hx⟩ : ∃ res c1, removeStateF f c0 ch = (res, c1) := ⟨_, _, rfl⟩
        simp only [hx] at h1 ⊢
        cases res with
        | error e => exact h1
        | ok u => exact ih c1 h1
    have h1 := hgo (c.childrenFor n) c hc
    obtain ⟨res, c1, hx⟩ : ∃ res c1, removeStateF.go f c (c.childrenFor n) = (res, c1) := ⟨_, _, rfl⟩
    simp only [hx] at h1 ⊢
    cases res with
    | error e => exact h1
    | ok u => exact removeLeaf_rankedE c1 n h1

theorem removeState_rankedE (c : Chart) (n : Name) (hc : c.RankedE) : (c.removeState n).2.RankedE :=
  removeStateF_rankedE _ c n hc

/-! ### `add_state` -/

theorem addedChart_ranked (c : Chart) (s : StateDef) (p : Option Name) (ht : Tidy c) (hfresh : c.hasState s.name = false)
    (hp : ∀ q, p = some q → c.hasState q = true) (hc : c.Ranked) : (addedChart c s p).Ranked := by
  obtain ⟨r, hr⟩ := hc
  have notfresh : ∀ x, c.hasState x = true → x ≠ s.name := by
    intro x hx e; rw [e, hfresh] at hx; cases hx
  refine ⟨fun x => if x = s.name then (match p with | some q => r q + 1 | none => 0) else r x, ?_⟩
  intro x q hx
  rw [added_parentFor c s p ht hfresh] at hx
  by_cases e : x = s.name
  · simp only [e, if_true] at hx ⊢
    subst hx
    have hq := notfresh q (hp q rfl)
    simp only [hq, if_false]
    omega
  · simp only [e, if_false] at hx ⊢
    obtain ⟨_, hqs⟩ := ht.parent_states x q hx
    simp only [notfresh q hqs, if_false]
    exact hr x q hx

theorem addState_ranked (c : Chart) (s : StateDef) (p : Option Name) (ht : Tidy c) (hc : c.Ranked)
    (h : (c.addState s p).1 = .ok ()) : (c.addState s p).2.Ranked := by
  cases p with
  | none =>
    obtain ⟨hf, _, _, he⟩ := addState_root_fields c s h
    rw [he]
    exact addedChart_ranked c s none ht hf (fun q e => by cases e) hc
  | some par =>
    obtain ⟨hf, ⟨ps, hps, _, _⟩, he⟩ := addState_child_fields c s par h
    rw [he]
    refine addedChart_ranked c s (some par) ht hf ?_ hc
    intro q e
    cases e
    simp [Chart.hasState, hps]

/-! ### `rename_state` -/

theorem renameState_ranked (c : Chart) (a b : Name) (ht : Tidy c) (hc : c.Ranked) (h : (c.renameState a b).1 = .ok ()) :
    (c.renameState a b).2.Ranked := by
  by_cases hne : a = b
  · subst hne; rw [rename_same_is_noop]; exact hc
  obtain ⟨r, hr⟩ := hc
  obtain ⟨hb, _, _⟩ := renameState_states c a b h hne
  have notb : ∀ x, c.hasState x = true → x ≠ b := by
    intro x hx e; rw [e, hb] at hx; cases hx
  refine ⟨fun x => if x = b then r a else r x, ?_⟩
  intro x q hx
  rw [rename_parentFor c a b ht h hne x] at hx
  by_cases hxa : x = a
  · simp [hxa] at hx
  simp only [hxa, if_false] at hx
  by_cases hxb : x = b
  · -- the renamed state: its parent is the old parent of `a`, which is neither `a` nor `b`
    simp only [hxb, if_true] at hx ⊢
    obtain ⟨_, hqs⟩ := ht.parent_states a q hx
    simp only [notb q hqs, if_false]
    exact hr a q hx
  · simp only [hxb, if_false] at hx ⊢
    by_cases hpa : c.parentFor x = some a
    · simp only [hpa, if_true, Option.some.injEq] at hx
      subst hx
      simp only [if_true]
      exact hr x a hpa
    · simp only [hpa, if_false] at hx
      obtain ⟨_, hqs⟩ := ht.parent_states x q hx
      simp only [notb q hqs, if_false]
      exact hr x q hx

/-! ### `move_state` -/

theorem moveState_check (c : Chart) (a b : Name) (h : (c.moveState a b).1 = .ok ()) :
    (a :: c.descendants a).contains b = false := by
  generalize hr : c.moveState a b = r at h
  unfold moveState at hr
  split at hr
  · subst hr; simp at h
  · split at hr
    · subst hr; simp at h
    · split at hr
      · subst hr; simp at h
      · next hd => simpa using hd

/-- on a consistent acyclic statechart `descendants_for` misses no descendant -/
theorem descendants_complete (c : Chart) (ht : Tidy c) (hc : c.Ranked) (a : Name) (ha : c.hasState a = true)
    (x : Name) (hx : Anc c a x) : x ∈ c.descendants a := by
  have hne : c.states ≠ [] := by
    intro e
    simp [hasState, stateFor, e] at ha
  have hT := treeOK_of_ranked c ht hc hne
  refine descF_complete c hT ht.childParent ht.childrenNodup _ [a] (List.pairwise_singleton _ _)
    ⟨c.states.map (·.name), ht.names, ?_, by simp⟩ a (List.mem_singleton.mpr rfl) x hx
  intro y ⟨n, hn, hsub⟩
  simp only [List.mem_singleton] at hn
  subst hn
  rcases hsub with e | e
  · rw [e]; exact (hasState_iff_mem c n).1 ha
  · have : c.hasState y = true := by
      cases e with
      | base hp => exact (ht.parent_states _ _ hp).1
      | step hp _ => exact (ht.parent_states _ _ hp).1
    exact (hasState_iff_mem c y).1 this

open Classical in
theorem moveState_ranked (c : Chart) (a b : Name) (ht : Tidy c) (hc : c.Ranked) (h : (c.moveState a b).1 = .ok ()) :
    (c.moveState a b).2.Ranked := by
  obtain ⟨ha, _, _, _, _⟩ := moveState_fields c a b h
  have hchk := moveState_check c a b h
  -- the new parent is outside the subtree that moves
  have hout : ¬ (b = a ∨ Anc c a b) := by
    rintro (e | e)
    · simp [e] at hchk
    · have := descendants_complete c ht hc a ha b e
      have hm : b ∈ a :: c.descendants a := List.mem_cons_of_mem _ this
      rw [← List.contains_iff_mem] at hm
      rw [hm] at hchk
      cases hchk
  obtain ⟨r, hr⟩ := hc
  refine ⟨fun x => if (x = a ∨ Anc c a x) then r x + (r b + 1) else r x, ?_⟩
  intro x q hx
  rw [moveState_parentFor c a b ht h x] at hx
  by_cases hxa : x = a
  · simp only [hxa, if_true, Option.some.injEq] at hx
    subst hx
    simp only [hxa, true_or, if_true, hout, if_false]
    omega
  · simp only [hxa, if_false] at hx
    by_cases hsub : Anc c a x
    · simp only [hxa, false_or, hsub, if_true]
      have := hr x q hx
      split <;> omega
    · have hq : ¬ (q = a ∨ Anc c a q) := by
        rintro (e | e)
        · exact hsub (Anc.base (e ▸ hx))
        · exact hsub (Anc.step hx e)
      simp only [hxa, false_or, hsub, if_false, hq]
      exact hr x q hx

/-! ### sessions -/

theorem rankedE_of_same_parent {c c' : Chart} (h : c'.parent = c.parent) (hc : c.RankedE) : c'.RankedE := by
  obtain ⟨r, hr⟩ := hc
  exact ⟨r, by rw [h]; exact hr⟩

theorem applyEdit_rankedE (c : Chart) (op : EditOp) (ht : Tidy c) (hc : c.RankedE) : (c.applyEdit op).2.RankedE := by
  have atomic : ∀ (r : EditRes), (∀ e, r.1 = .error e → r.2 = c) → (r.1 = .ok () → r.2.RankedE) → r.2.RankedE := by
    intro r h1 h2
    cases hr : r.1 with
    | error e => rw [h1 e hr]; exact hc
    | ok u => exact h2 hr
  cases op with
  | addState s p =>
    exact atomic _ (addState_atomic c s p)
      (fun h => (addState_ranked c s p ht hc.ranked h).rankedE (addState_tidy c s p ht h))
  | addTransition t =>
    exact atomic _ (addTransition_atomic c t) (fun _ => rankedE_of_same_parent (by
      show (c.addTransition t).2.parent = c.parent
      unfold addTransition; repeat' split
      all_goals rfl) hc)
  | removeTransition t =>
    exact atomic _ (removeTransition_atomic c t) (fun _ => rankedE_of_same_parent (by
      show (c.removeTransition t).2.parent = c.parent
      unfold removeTransition; split <;> rfl) hc)
  | removeState n => exact removeState_rankedE c n hc
  | renameState a b =>
    exact atomic _ (renameState_atomic c a b)
      (fun h => (renameState_ranked c a b ht hc.ranked h).rankedE (renameState_tidy c a b ht h))
  | moveState a b =>
    exact atomic _ (moveState_atomic c a b)
      (fun h => (moveState_ranked c a b ht hc.ranked h).rankedE (moveState_tidy c a b ht h))
  | rotateTransition i s t =>
    exact atomic _ (rotateTransition_atomic c i s t) (fun _ => rankedE_of_same_parent (by
      show (c.rotateTransition i s t).2.parent = c.parent
      unfold rotateTransition; repeat' split
      all_goals rfl) hc)

theorem applyEdits_rankedE : ∀ (ops : List EditOp) (c : Chart), Tidy c → c.RankedE → (c.applyEdits ops).RankedE
  | [], _, _, hc => hc
  | op :: ops, c, ht, hc => applyEdits_rankedE ops _ (applyEdit_tidy c op ht) (applyEdit_rankedE c op ht hc)

end Chart
end Sismic
