import Sismic.Proofs.Rename
import Sismic.Proofs.Sort
import Sismic.Proofs.GroupBy
/-!
# Sismic.Proofs.Equivariant — the structural queries commute with an order-preserving renaming

`ρ` is a renaming of state names that is injective and order-preserving **on the names in play**
(`S`: the names the statechart mentions) — nothing is assumed about other strings, so renaming any
subset of the states of a statechart order-preservingly is covered.  Every query of `Statechart` the
interpreter uses (`state_for`, `parent_for`, `children_for`, `ancestors_for`, `depth_for`,
`descendants_for`, `least_common_ancestor`, `leaf_for`) and both sort orders give, on the substituted
statechart and substituted arguments, the substituted result.
-/
namespace Sismic

/-- `ρ` is injective and order-preserving on the names in `S` -/
structure RenOK (S : Name → Prop) (ρ : Name → Name) : Prop where
  inj : ∀ a b, S a → S b → ρ a = ρ b → a = b
  mono : ∀ a b, S a → S b → (ρ a ≤ ρ b ↔ a ≤ b)

/-- every name the statechart mentions is in `S` -/
structure NamesIn (S : Name → Prop) (c : Chart) : Prop where
  states : ∀ s ∈ c.states, S s.name
  memory : ∀ s ∈ c.states, ∀ m, s.memory = some m → S m
  parentK : ∀ p ∈ c.parent, S p.1
  parentV : ∀ p ∈ c.parent, ∀ q, p.2 = some q → S q
  childK : ∀ p ∈ c.children, ∀ k, p.1 = some k → S k
  childV : ∀ p ∈ c.children, ∀ x ∈ p.2, S x
  transS : ∀ t ∈ c.transitions, S t.source
  transT : ∀ t ∈ c.transitions, ∀ g, t.target = some g → S g

/-- a transition with its ends substituted and another identity -/
def Trans.relabel (ρ : Name → Name) (ι : Nat → Nat) (t : Trans) : Trans :=
  { t with id := ι t.id, source := ρ t.source, target := t.target.map ρ }

/-- `c'` is `c` with every state name substituted by `ρ` and every transition re-identified by `ι`
    (`c.mapNames ρ` is the case `ι = id`) -/
structure IsRen (ρ : Name → Name) (ι : Nat → Nat) (c c' : Chart) : Prop where
  states : c'.states = c.states.map (StateDef.rename ρ)
  parent : c'.parent = c.parent.map (fun p => (ρ p.1, p.2.map ρ))
  children : c'.children = c.children.map (fun p => (p.1.map ρ, p.2.map ρ))
  transitions : c'.transitions = c.transitions.map (Trans.relabel ρ ι)

theorem isRen_mapNames (ρ : Name → Name) (c : Chart) : IsRen ρ id c (c.mapNames ρ) :=
  ⟨rfl, rfl, rfl, rfl⟩

section
variable {S : Name → Prop}

/-! ### what the lookups give stays inside `S` -/

theorem NamesIn.parentFor_in {c : Chart} (hc : NamesIn S c) (n p : Name) (h : c.parentFor n = some p) : S p := by
  simp only [Chart.parentFor] at h
  split at h
  · rename_i k q hf
    subst h
    exact hc.parentV _ (List.mem_of_find?_eq_some hf) p rfl
  · cases h

theorem NamesIn.childrenFor_in {c : Chart} (hc : NamesIn S c) (n x : Name) (h : x ∈ c.childrenFor n) : S x := by
  simp only [Chart.childrenFor] at h
  split at h
  · rename_i k l hf
    exact hc.childV _ (List.mem_of_find?_eq_some hf) x h
  · cases h

theorem NamesIn.ancF_in {c : Chart} (hc : NamesIn S c) : ∀ (f : Nat) (n x : Name), x ∈ c.ancF f n → S x
  | 0, _, _, h => by simp [Chart.ancF] at h
  | f+1, n, x, h => by
    simp only [Chart.ancF] at h
    split at h
    · rename_i p hp
      rcases List.mem_cons.1 h with e | h'
      · subst e; exact hc.parentFor_in n _ hp
      · exact NamesIn.ancF_in hc f p x h'
    · cases h

end

section
variable {S : Name → Prop} {ρ : Name → Name} {ι : Nat → Nat} (hρ : RenOK S ρ)
include hρ

theorem RenOK.beq (a b : Name) (ha : S a) (hb : S b) : (ρ a == ρ b) = (a == b) := by
  by_cases h : a = b
  · subst h; rw [beq_self_eq_true, beq_self_eq_true]
  · have : ρ a ≠ ρ b := fun e => h (hρ.inj a b ha hb e)
    rw [beq_eq_false_iff_ne.2 h, beq_eq_false_iff_ne.2 this]

theorem RenOK.contains (l : List Name) (x : Name) (hl : ∀ y ∈ l, S y) (hx : S x) :
    (l.map ρ).contains (ρ x) = l.contains x := by
  induction l with
  | nil => simp
  | cons y ys ih =>
    have hy : S y := hl y (by simp)
    have := ih (fun z hz => hl z (by simp [hz]))
    simp only [List.map_cons, List.contains_cons]
    rw [hρ.beq x y hx hy]
    simp only [List.contains_eq_mem] at this ⊢
    rw [show (decide (ρ x ∈ List.map ρ ys)) = decide (x ∈ ys) from this]

theorem RenOK.mem (l : List Name) (x : Name) (hl : ∀ y ∈ l, S y) (hx : S x) :
    ρ x ∈ l.map ρ ↔ x ∈ l := by
  constructor
  · intro h
    obtain ⟨y, hy, e⟩ := List.mem_map.1 h
    exact (hρ.inj y x (hl y hy) hx e) ▸ hy
  · exact fun h => List.mem_map.2 ⟨x, h, rfl⟩

/-! ### dictionary lookups -/

theorem stateFor_mapNames (c : Chart) (hc : NamesIn S c) {c' : Chart} (hr : IsRen ρ ι c c') (n : Name) (hn : S n) :
    c'.stateFor (ρ n) = (c.stateFor n).map (StateDef.rename ρ) := by
  simp only [Chart.stateFor, hr.states]
  have : ∀ l : List StateDef, (∀ s ∈ l, S s.name) →
      (l.map (StateDef.rename ρ)).find? (fun s => s.name == ρ n) =
        (l.find? (fun s => s.name == n)).map (StateDef.rename ρ) := by
    intro l
    induction l with
    | nil => intro _; rfl
    | cons y ys ih =>
      intro hl
      have hy : S y.name := hl y (by simp)
      simp only [List.map_cons, List.find?_cons]
      have e : ((StateDef.rename ρ y).name == ρ n) = (y.name == n) := by
        show (ρ y.name == ρ n) = _
        exact hρ.beq _ _ hy hn
      rw [e]
      split
      · rfl
      · exact ih (fun s hs => hl s (by simp [hs]))
  exact this c.states hc.states

theorem hasState_mapNames (c : Chart) (hc : NamesIn S c) {c' : Chart} (hr : IsRen ρ ι c c') (n : Name) (hn : S n) :
    c'.hasState (ρ n) = c.hasState n := by
  simp [Chart.hasState, stateFor_mapNames hρ c hc hr n hn]

theorem kindOf_mapNames (c : Chart) (hc : NamesIn S c) {c' : Chart} (hr : IsRen ρ ι c c') (n : Name) (hn : S n) :
    c'.kindOf (ρ n) = c.kindOf n := by
  simp only [Chart.kindOf, stateFor_mapNames hρ c hc hr n hn, Option.map_map]
  congr 1

theorem parentFor_mapNames (c : Chart) (hc : NamesIn S c) {c' : Chart} (hr : IsRen ρ ι c c') (n : Name) (hn : S n) :
    c'.parentFor (ρ n) = (c.parentFor n).map ρ := by
  simp only [Chart.parentFor, hr.parent]
  have : ∀ l : List (Name × Option Name), (∀ p ∈ l, S p.1) →
      (l.map (fun p => (ρ p.1, p.2.map ρ))).find? (fun p => p.1 == ρ n) =
        (l.find? (fun p => p.1 == n)).map (fun p => (ρ p.1, p.2.map ρ)) := by
    intro l
    induction l with
    | nil => intro _; rfl
    | cons y ys ih =>
      intro hl
      have hy : S y.1 := hl y (by simp)
      simp only [List.map_cons, List.find?_cons]
      rw [hρ.beq _ _ hy hn]
      split
      · rfl
      · exact ih (fun s hs => hl s (by simp [hs]))
  rw [this c.parent hc.parentK]
  cases c.parent.find? (fun p => p.1 == n) with
  | none => rfl
  | some p => rfl

theorem childrenFor_mapNames (c : Chart) (hc : NamesIn S c) {c' : Chart} (hr : IsRen ρ ι c c') (n : Name) (hn : S n) :
    c'.childrenFor (ρ n) = (c.childrenFor n).map ρ := by
  simp only [Chart.childrenFor, hr.children]
  have : ∀ l : List (Option Name × List Name), (∀ p ∈ l, ∀ k, p.1 = some k → S k) →
      (l.map (fun p => (p.1.map ρ, p.2.map ρ))).find? (fun p => p.1 == some (ρ n)) =
        (l.find? (fun p => p.1 == some n)).map (fun p => (p.1.map ρ, p.2.map ρ)) := by
    intro l
    induction l with
    | nil => intro _; rfl
    | cons y ys ih =>
      intro hl
      simp only [List.map_cons, List.find?_cons]
      have e : (y.1.map ρ == some (ρ n)) = (y.1 == some n) := by
        cases hy1 : y.1 with
        | none => simp
        | some k =>
          have hk : S k := hl y (by simp) k hy1
          have := hρ.beq k n hk hn
          simp only [Option.map_some]
          show (some (ρ k) == some (ρ n)) = (some k == some n)
          simpa using this
      rw [e]
      split
      · rfl
      · exact ih (fun s hs => hl s (by simp [hs]))
  rw [this c.children hc.childK]
  cases c.children.find? (fun p => p.1 == some n) with
  | none => rfl
  | some p => rfl

omit hρ in
theorem root_mapNames (c : Chart) {c' : Chart} (hr : IsRen ρ ι c c') : c'.root = c.root.map ρ := by
  simp only [Chart.root, hr.parent]
  have : ∀ l : List (Name × Option Name),
      ((l.map (fun p => (ρ p.1, p.2.map ρ))).find? (fun p => p.2 == none)).map (·.1) =
        ((l.find? (fun p => p.2 == none)).map (·.1)).map ρ := by
    intro l
    induction l with
    | nil => rfl
    | cons y ys ih =>
      simp only [List.map_cons, List.find?_cons]
      have e : (y.2.map ρ == none) = (y.2 == none) := by cases y.2 <;> simp
      rw [e]
      split
      · rfl
      · exact ih
  exact this c.parent

end

section
variable {S : Name → Prop} {ρ : Name → Name} {ι : Nat → Nat} (hρ : RenOK S ρ)
include hρ

/-! ### the hierarchy -/

theorem ancF_mapNames (c : Chart) (hc : NamesIn S c) {c' : Chart} (hr : IsRen ρ ι c c') : ∀ (f : Nat) (n : Name), S n →
    c'.ancF f (ρ n) = (c.ancF f n).map ρ
  | 0, _, _ => rfl
  | f+1, n, hn => by
    simp only [Chart.ancF, parentFor_mapNames hρ c hc hr n hn]
    cases hp : c.parentFor n with
    | none => rfl
    | some p =>
      simp only [Option.map_some, List.map_cons]
      rw [ancF_mapNames c hc hr f p (hc.parentFor_in n p hp)]

omit hρ in
theorem mapNames_states_length (c : Chart) {c' : Chart} (hr : IsRen ρ ι c c') : c'.states.length = c.states.length := by
  simp [hr.states]

theorem ancestors_mapNames (c : Chart) (hc : NamesIn S c) {c' : Chart} (hr : IsRen ρ ι c c') (n : Name) (hn : S n) :
    c'.ancestors (ρ n) = (c.ancestors n).map ρ := by
  simp only [Chart.ancestors, mapNames_states_length c hr]
  exact ancF_mapNames hρ c hc hr _ n hn

theorem depth_mapNames (c : Chart) (hc : NamesIn S c) {c' : Chart} (hr : IsRen ρ ι c c') (n : Name) (hn : S n) :
    c'.depth (ρ n) = c.depth n := by
  simp [Chart.depth, ancestors_mapNames hρ c hc hr n hn]

theorem descF_mapNames (c : Chart) (hc : NamesIn S c) {c' : Chart} (hr : IsRen ρ ι c c') : ∀ (f : Nat) (l : List Name), (∀ x ∈ l, S x) →
    c'.descF f (l.map ρ) = (c.descF f l).map ρ
  | 0, _, _ => rfl
  | _+1, [], _ => rfl
  | f+1, n :: rest, hl => by
    have hn : S n := hl n (by simp)
    simp only [List.map_cons, Chart.descF, childrenFor_mapNames hρ c hc hr n hn, List.map_append]
    rw [← List.map_append, descF_mapNames c hc hr f (rest ++ c.childrenFor n)]
    intro x hx
    rcases List.mem_append.1 hx with h | h
    · exact hl x (by simp [h])
    · exact hc.childrenFor_in n x h

theorem descendants_mapNames (c : Chart) (hc : NamesIn S c) {c' : Chart} (hr : IsRen ρ ι c c') (n : Name) (hn : S n) :
    c'.descendants (ρ n) = (c.descendants n).map ρ := by
  simp only [Chart.descendants, mapNames_states_length c hr]
  exact descF_mapNames hρ c hc hr _ [n] (by simpa using hn)

end

section
variable {S : Name → Prop}

theorem NamesIn.descF_in {c : Chart} (hc : NamesIn S c) : ∀ (f : Nat) (l : List Name) (x : Name),
    x ∈ c.descF f l → S x
  | 0, _, _, h => by simp [Chart.descF] at h
  | _+1, [], _, h => by simp [Chart.descF] at h
  | f+1, n :: rest, x, h => by
    simp only [Chart.descF] at h
    rcases List.mem_append.1 h with h | h
    · exact hc.childrenFor_in n x h
    · exact NamesIn.descF_in hc f _ x h

theorem NamesIn.descendants_in {c : Chart} (hc : NamesIn S c) (n x : Name) (h : x ∈ c.descendants n) : S x :=
  hc.descF_in _ _ x h

theorem NamesIn.ancestors_in {c : Chart} (hc : NamesIn S c) (n x : Name) (h : x ∈ c.ancestors n) : S x :=
  hc.ancF_in _ n x h

end

section
variable {S : Name → Prop} {ρ : Name → Name} {ι : Nat → Nat} (hρ : RenOK S ρ)
include hρ

theorem find?_contains_map (bs : List Name) (hb : ∀ y ∈ bs, S y) : ∀ (l : List Name), (∀ y ∈ l, S y) →
    (l.map ρ).find? (fun x => (bs.map ρ).contains x) = (l.find? (fun x => bs.contains x)).map ρ
  | [], _ => rfl
  | y :: ys, hl => by
    simp only [List.map_cons, List.find?_cons, hρ.contains bs y hb (hl y (by simp))]
    split
    · rfl
    · exact find?_contains_map bs hb ys (fun z hz => hl z (by simp [hz]))

theorem lca_mapNames (c : Chart) (hc : NamesIn S c) {c' : Chart} (hr : IsRen ρ ι c c') (a b : Name) (ha : S a) (hb : S b) :
    c'.lca (ρ a) (ρ b) = (c.lca a b).map ρ := by
  simp only [Chart.lca, ancestors_mapNames hρ c hc hr a ha, ancestors_mapNames hρ c hc hr b hb]
  exact find?_contains_map hρ _ (fun y hy => hc.ancestors_in b y hy) _ (fun y hy => hc.ancestors_in a y hy)

theorem any_contains_map (names : List Name) (hn : ∀ y ∈ names, S y) : ∀ (l : List Name), (∀ y ∈ l, S y) →
    (l.map ρ).any (fun d => (names.map ρ).contains d) = l.any (fun d => names.contains d)
  | [], _ => rfl
  | y :: ys, hl => by
    simp only [List.map_cons, List.any_cons, hρ.contains names y hn (hl y (by simp))]
    rw [any_contains_map names hn ys (fun z hz => hl z (by simp [hz]))]

theorem leafFor_mapNames (c : Chart) (hc : NamesIn S c) {c' : Chart} (hr : IsRen ρ ι c c') (names : List Name) (hn : ∀ y ∈ names, S y) :
    c'.leafFor (names.map ρ) = (c.leafFor names).map ρ := by
  simp only [Chart.leafFor]
  have : ∀ l : List Name, (∀ y ∈ l, S y) →
      (l.map ρ).filter (fun n => !(c'.descendants n).any (fun d => (names.map ρ).contains d)) =
        (l.filter (fun n => !(c.descendants n).any (fun d => names.contains d))).map ρ := by
    intro l
    induction l with
    | nil => intro _; rfl
    | cons y ys ih =>
      intro hl
      have hy : S y := hl y (by simp)
      simp only [List.map_cons, List.filter_cons, descendants_mapNames hρ c hc hr y hy,
        any_contains_map hρ names hn _ (fun z hz => hc.descendants_in y z hz)]
      split
      · simp only [List.map_cons]; rw [ih (fun z hz => hl z (by simp [hz]))]
      · exact ih (fun z hz => hl z (by simp [hz]))
  exact this names hn

/-! ### sorting -/

omit hρ in
theorem insSorted_map {α β : Type} (g : α → β) (le : α → α → Bool) (le' : β → β → Bool) (x : α) :
    ∀ (l : List α), (∀ y ∈ l, le' (g x) (g y) = le x y) →
      insSorted le' (g x) (l.map g) = (insSorted le x l).map g
  | [], _ => rfl
  | y :: ys, h => by
    simp only [List.map_cons, insSorted, h y (by simp)]
    split
    · rfl
    · simp only [List.map_cons]
      rw [insSorted_map g le le' x ys (fun z hz => h z (by simp [hz]))]

omit hρ in
theorem isort_map {α β : Type} (g : α → β) (le : α → α → Bool) (le' : β → β → Bool) :
    ∀ (l : List α), (∀ x ∈ l, ∀ y ∈ l, le' (g x) (g y) = le x y) →
      isort le' (l.map g) = (isort le l).map g
  | [], _ => rfl
  | x :: xs, h => by
    have ih := isort_map g le le' xs (fun a ha b hb => h a (by simp [ha]) b (by simp [hb]))
    simp only [isort, List.map_cons, List.foldr_cons] at ih ⊢
    rw [ih]
    exact insSorted_map g le le' x _ (fun y hy => h x (by simp) y (by
      have := (mem_isort le xs y).1 hy
      simp [this]))

theorem leDepthName_mapNames (c : Chart) (hc : NamesIn S c) {c' : Chart} (hr : IsRen ρ ι c c') (a b : Name) (ha : S a) (hb : S b) :
    c'.leDepthName (ρ a) (ρ b) = c.leDepthName a b := by
  simp only [Chart.leDepthName, depth_mapNames hρ c hc hr a ha, depth_mapNames hρ c hc hr b hb, hρ.mono a b ha hb]

theorem leRevDepthName_mapNames (c : Chart) (hc : NamesIn S c) {c' : Chart} (hr : IsRen ρ ι c c') (a b : Name) (ha : S a) (hb : S b) :
    c'.leRevDepthName (ρ a) (ρ b) = c.leRevDepthName a b := by
  simp only [Chart.leRevDepthName, depth_mapNames hρ c hc hr a ha, depth_mapNames hρ c hc hr b hb, hρ.mono a b ha hb]

end

end Sismic
