import Sismic.Spec.WF
import Sismic.Model.Plan
/-!
# Sismic.Proofs.Tree — `ancestors_for` (fuel) ↔ `Anc`; LCA, `last_before_lca`, entered path
-/
namespace Sismic

theorem ancF_sound (c : Chart) : ∀ f s a, a ∈ c.ancF f s → Anc c a s := by
  intro f
  induction f with
  | zero => intro s a h; simp [Chart.ancF] at h
  | succ f ih =>
    intro s a h
    unfold Chart.ancF at h
    split at h
    · next p hp =>
      simp at h
      rcases h with h | h
      · subst h; exact Anc.base hp
      · exact Anc.step hp (ih p a h)
    · simp at h

theorem ancF_complete (c : Chart) (r : Name → Nat)
    (hr : ∀ s p, c.parentFor s = some p → r p < r s) :
    ∀ f s a, Anc c a s → r s < f → a ∈ c.ancF f s := by
  intro f
  induction f with
  | zero => intro s a _ h; omega
  | succ f ih =>
    intro s a h hf
    cases h with
    | base hp => simp [Chart.ancF, hp]
    | step hp h' =>
      rename_i p
      simp only [Chart.ancF, hp, List.mem_cons]
      right
      exact ih p a h' (by have := hr s p hp; omega)

theorem mem_ancestors (c : Chart) (h : TreeOK c) (s a : Name) :
    a ∈ c.ancestors s ↔ Anc c a s := by
  obtain ⟨r, hr, hb⟩ := h.rank
  constructor
  · exact ancF_sound c _ s a
  · intro ha; exact ancF_complete c r hr _ s a ha (hb s)

theorem Anc.trans {c : Chart} {a b s : Name} (h1 : Anc c a b) (h2 : Anc c b s) : Anc c a s := by
  induction h2 with
  | base hp => exact Anc.step hp h1
  | step hp _ ih => exact Anc.step hp ih

/-- ancestors of a state are linearly ordered -/
theorem Anc.chain {c : Chart} {a b s : Name} (h1 : Anc c a s) (h2 : Anc c b s) :
    a = b ∨ Anc c a b ∨ Anc c b a := by
  induction h1 generalizing b with
  | base hp =>
    cases h2 with
    | base hp' => left; simp_all
    | step hp' h' => right; right; simp_all
  | step hp h ih =>
    cases h2 with
    | base hp' => right; left; simp_all
    | step hp' h' =>
      rw [hp] at hp'
      cases hp'
      exact ih h'


variable (c : Chart)

/-- fuel beyond the rank does not change the result -/
theorem ancF_stable (r : Name → Nat) (hr : ∀ s p, c.parentFor s = some p → r p < r s) :
    ∀ f s, r s < f → c.ancF f s = c.ancF (f + 1) s := by
  intro f
  induction f with
  | zero => intro s h; omega
  | succ f ih =>
    intro s h
    show c.ancF (f+1) s = c.ancF (f+1+1) s
    unfold Chart.ancF
    cases hp : c.parentFor s with
    | none => rfl
    | some p =>
      simp only
      rw [ih p (by have := hr s p hp; omega)]

theorem ancF_stable' (r : Name → Nat) (hr : ∀ s p, c.parentFor s = some p → r p < r s) :
    ∀ k f s, r s < f → c.ancF f s = c.ancF (f + k) s := by
  intro k
  induction k with
  | zero => intro f s _; rfl
  | succ k ih =>
    intro f s h
    rw [ih f s h, ancF_stable c r hr (f + k) s (by omega)]
    rfl

theorem ancF_unfold (r : Name → Nat) (hr : ∀ s p, c.parentFor s = some p → r p < r s)
    (f : Nat) (s : Name) (hf : r s < f) :
    c.ancF f s = match c.parentFor s with
      | some p => p :: c.ancF f p
      | none => [] := by
  cases f with
  | zero => omega
  | succ n =>
    cases hp : c.parentFor s with
    | none => simp [Chart.ancF, hp]
    | some p =>
      have h1 : r p < n := by have := hr s p hp; omega
      simp only [Chart.ancF, hp]
      rw [ancF_stable c r hr n p h1]
      simp only [Chart.ancF]

/-- the recursive equation of `ancestors_for` -/
theorem ancestors_unfold (h : TreeOK c) (s : Name) :
    c.ancestors s = match c.parentFor s with
      | some p => p :: c.ancestors p
      | none => [] := by
  obtain ⟨r, hr, hb⟩ := h.rank
  exact ancF_unfold c r hr _ s (hb s)

theorem Anc.rank_lt' (r : Name → Nat) (hr : ∀ s p, c.parentFor s = some p → r p < r s)
    {a s : Name} (h : Anc c a s) : r a < r s := by
  induction h with
  | base hp => exact hr _ _ hp
  | step hp _ ih => exact Nat.lt_trans ih (hr _ _ hp)

theorem Anc.asymm' (h : TreeOK c) {a b : Name} (h1 : Anc c a b) (h2 : Anc c b a) : False := by
  obtain ⟨r, hr, _⟩ := h.rank
  have := Anc.rank_lt' c r hr h1
  have := Anc.rank_lt' c r hr h2
  omega

theorem Anc.irrefl' (h : TreeOK c) {a : Name} (h1 : Anc c a a) : False := by
  obtain ⟨r, hr, _⟩ := h.rank
  have := Anc.rank_lt' c r hr h1
  omega

theorem Anc.parent_cases' {a y p : Name} (h : Anc c a y) (hp : c.parentFor y = some p) :
    a = p ∨ Anc c a p := by
  cases h with
  | base hp' => left; rw [hp] at hp'; exact (Option.some.inj hp').symm
  | step hp' h' => right; rw [hp] at hp'; cases hp'; exact h'


theorem lca_spec (h : TreeOK c) (a b l : Name) (hl : c.lca a b = some l) :
    Anc c l a ∧ Anc c l b ∧ ∀ x, Anc c x a → Anc c x b → (x = l ∨ Anc c x l) := by
  unfold Chart.lca at hl
  simp only at hl
  have hmem := List.mem_of_find?_eq_some hl
  have hp := List.find?_some hl
  simp only [List.contains_iff_mem] at hp
  refine ⟨(mem_ancestors c h a l).mp hmem, (mem_ancestors c h b l).mp hp, ?_⟩
  intro x hxa hxb
  have hla := (mem_ancestors c h a l).mp hmem
  rcases Anc.chain hxa hla with e | e | e
  · left; exact e
  · right; exact e
  · -- l is a proper ancestor of x: then x comes before l in `ancestors a` and satisfies the predicate
    exfalso
    -- general fact: in `ancestors a`, every element before `l` ... we use find?: all elements before l fail the test
    have key : ∀ (s : Name), Anc c x s → l ∈ c.ancestors s →
        (c.ancestors s).find? (fun y => (c.ancestors b).contains y) = some l → False := by
      intro s hxs
      induction hxs with
      | @base s0 hps =>
        intro _ hf
        rw [ancestors_unfold c h s0, hps] at hf
        simp only [List.find?_cons] at hf
        have hxb' : (c.ancestors b).contains x = true := by
          simp [List.contains_iff_mem, (mem_ancestors c h b x).mpr hxb]
        rw [hxb'] at hf
        cases hf
        exact Anc.irrefl' c h e
      | @step p0 s0 hps hxp ih =>
        intro hls hf
        rw [ancestors_unfold c h s0, hps] at hf hls
        simp only [List.find?_cons] at hf
        by_cases hc : (c.ancestors b).contains p0 = true
        · rw [hc] at hf
          cases hf
          exact Anc.asymm' c h e hxp
        · simp only [hc] at hf
          rcases List.mem_cons.mp hls with h' | h'
          · subst h'
            have : (c.ancestors b).contains l = true := by
              simp [List.contains_iff_mem, hp]
            exact hc this
          · exact ih h' hf
    exact key a hxa hmem hl

/-- `last_before_lca`: walk up from `s` until the LCA is met -/
theorem lastBeforeGo_cons (l : Name) (cur x : Name) (xs : List Name) :
    lastBeforeGo (some l) cur (x :: xs) = if x = l then cur else lastBeforeGo (some l) x xs := by
  simp only [lastBeforeGo]
  by_cases h : x = l
  · subst h; simp
  · have : (some x == some l) = false := by simp [h]
    simp [this, h]

/-- walking up from `cur` (whose ancestors are `c.ancestors cur`) stops at the child of `l` -/
theorem lastBefore_go (h : TreeOK c) (l : Name) :
    ∀ (n : Nat) (cur : Name), (c.ancestors cur).length = n → Anc c l cur →
      c.parentFor (lastBeforeGo (some l) cur (c.ancestors cur)) = some l ∧
      (lastBeforeGo (some l) cur (c.ancestors cur) = cur ∨ Anc c (lastBeforeGo (some l) cur (c.ancestors cur)) cur) := by
  intro n
  induction n with
  | zero =>
    intro cur hlen hl
    have := (mem_ancestors c h cur l).mpr hl
    rw [List.length_eq_zero_iff.mp hlen] at this
    simp at this
  | succ n ih =>
    intro cur hlen hl
    rw [ancestors_unfold c h cur] at hlen ⊢
    cases hp : c.parentFor cur with
    | none => rw [hp] at hlen; simp at hlen
    | some p =>
      rw [hp] at hlen
      simp only [lastBeforeGo_cons]
      by_cases hpl : p = l
      · subst hpl
        simp only [if_true]
        exact ⟨hp, Or.inl trivial⟩
      · simp only [hpl, if_false]
        have hlp : Anc c l p := by
          rcases hl.parent_cases' c hp with e | e
          · exact absurd e.symm hpl
          · exact e
        have := ih p (by simpa using hlen) hlp
        refine ⟨this.1, Or.inr ?_⟩
        rcases this.2 with e | e
        · rw [e]; exact Anc.base hp
        · exact Anc.step hp e

theorem lastBefore_spec (h : TreeOK c) (s l : Name) (hl : Anc c l s) :
    c.parentFor (lastBefore c s (some l)) = some l ∧
      (lastBefore c s (some l) = s ∨ Anc c (lastBefore c s (some l)) s) :=
  lastBefore_go c h l _ s rfl hl

/-- states entered by an external transition: ancestors of the target strictly below the LCA,
    outermost first, then the target -/
def enteredPath (c : Chart) (t l : Name) : List Name :=
  ((c.ancestors t).takeWhile (fun x => some x != some l)).reverse ++ [t]

theorem takeWhile_anc (h : TreeOK c) (l : Name) :
    ∀ (n : Nat) (t : Name), (c.ancestors t).length = n → Anc c l t →
      ∀ z, z ∈ (c.ancestors t).takeWhile (fun x => some x != some l) ↔ (Anc c z t ∧ Anc c l z) := by
  intro n
  induction n with
  | zero =>
    intro t hlen hl
    have := (mem_ancestors c h t l).mpr hl
    rw [List.length_eq_zero_iff.mp hlen] at this
    simp at this
  | succ n ih =>
    intro t hlen hl z
    rw [ancestors_unfold c h t] at hlen ⊢
    cases hp : c.parentFor t with
    | none => rw [hp] at hlen; simp at hlen
    | some p =>
      rw [hp] at hlen
      simp only [List.takeWhile_cons]
      by_cases hpl : p = l
      · subst hpl
        simp only [bne_self_eq_false, Bool.false_eq_true, if_false, List.not_mem_nil, false_iff]
        rintro ⟨hz, hlz⟩
        rcases hz.parent_cases' c hp with e | e
        · rw [e] at hlz; exact Anc.irrefl' c h hlz
        · exact Anc.asymm' c h hlz e
      · have hne : (some p != some l) = true := by simp [hpl]
        simp only [hne, if_true, List.mem_cons]
        have hlp : Anc c l p := by
          rcases hl.parent_cases' c hp with e | e
          · exact absurd e.symm hpl
          · exact e
        rw [ih p (by simpa using hlen) hlp z]
        constructor
        · rintro (e | ⟨h1, h2⟩)
          · rw [e]; exact ⟨Anc.base hp, hlp⟩
          · exact ⟨Anc.step hp h1, h2⟩
        · rintro ⟨h1, h2⟩
          rcases h1.parent_cases' c hp with e | e
          · left; exact e
          · right; exact ⟨e, h2⟩

theorem mem_enteredPath (h : TreeOK c) (t l : Name) (hl : Anc c l t) (z : Name) :
    z ∈ enteredPath c t l ↔ ((z = t ∨ Anc c z t) ∧ Anc c l z) := by
  unfold enteredPath
  simp only [List.mem_append, List.mem_reverse, List.mem_singleton]
  rw [takeWhile_anc c h l _ t rfl hl z]
  constructor
  · rintro (⟨h1, h2⟩ | e)
    · exact ⟨Or.inr h1, h2⟩
    · rw [e]; exact ⟨Or.inl rfl, hl⟩
  · rintro ⟨e | h1, h2⟩
    · right; exact e
    · left; exact ⟨h1, h2⟩


end Sismic

namespace Sismic

/-! ### a decidable certificate for `TreeOK` (used for concrete charts) -/

def rankOf (tbl : List (Name × Nat)) (s : Name) : Nat :=
  match tbl.find? (fun e => e.1 == s) with
  | some e => e.2
  | none => 0

def treeCheck (c : Chart) (tbl : List (Name × Nat)) : Bool :=
  c.parent.all (fun e => match e.2 with
    | some p => decide (rankOf tbl p < rankOf tbl e.1)
    | none => true) &&
  tbl.all (fun e => decide (e.2 < c.states.length)) && decide (0 < c.states.length)

theorem treeOK_of_check (c : Chart) (tbl : List (Name × Nat)) (h : treeCheck c tbl = true) :
    TreeOK c := by
  unfold treeCheck at h
  simp only [Bool.and_eq_true, List.all_eq_true, decide_eq_true_eq] at h
  obtain ⟨⟨h1, h2⟩, h3⟩ := h
  refine ⟨⟨rankOf tbl, ?_, ?_⟩⟩
  · intro s p hp
    unfold Chart.parentFor at hp
    split at hp
    · next q heq =>
      have hm := List.mem_of_find?_eq_some heq
      have hs := List.find?_some heq
      simp only [beq_iff_eq] at hs
      subst hp
      have := h1 _ hm
      simp only [decide_eq_true_eq] at this
      rw [← hs]; exact this
    · cases hp
  · intro s
    unfold rankOf
    split
    · next e heq =>
      have := h2 e (List.mem_of_find?_eq_some heq)
      exact this
    · exact h3

end Sismic
