import Sismic.Model.Runner
/-!
# Sismic.Proofs.Runner — invariants of the runner/client system over all schedules
-/
namespace Sismic.Runner

variable {ι ε μ : Type}

def inCycle : RPc → Bool
  | .execFirst | .execMore | .afterExecute => true
  | _ => false

/-- bookkeeping invariant -/
structure Inv (s : St ι ε μ) : Prop where
  reported : s.reported.flatten ++ s.cycle = s.executed
  idle : inCycle s.pc = false → s.cycle = []
  one : s.executeAll = false → (∀ c ∈ s.reported, c.length ≤ 1) ∧
        (s.pc = .execFirst → s.cycle = []) ∧ s.pc ≠ .execMore ∧ s.cycle.length ≤ 1
  first : s.pc = .execFirst → s.cycle = []
  before : s.beforeRun = (if s.pc = .notStarted ∨ s.pc = .beforeRun then 0 else 1)
  after : s.afterRun = (if s.pc = .done then 1 else 0)

theorem inv_init (it : ι) (all : Bool) (cl : List (List (CAct ε))) :
    Inv ({ it := it, executeAll := all, clients := cl } : St ι ε μ) where
  reported := rfl
  idle _ := rfl
  one _ := ⟨by simp, fun _ => rfl, by simp, by simp⟩
  first _ := rfl
  before := by simp
  after := by simp

theorem inv_runnerStep (I : Interp ι ε μ) (s s' : St ι ε μ) (h : Inv s) (hs : runnerStep I s = some s') : Inv s' := by
  unfold runnerStep at hs
  obtain ⟨hrep, hidle, hone, hfirst, hbef, haft⟩ := h
  cases hpc : s.pc <;> simp only [hpc] at hs hidle hone hfirst hbef haft
  case notStarted => cases hs
  case done => cases hs
  case beforeRun =>
    cases hs
    exact ⟨hrep, by simpa [inCycle] using hidle, by intro h; have := hone h; simp_all, by simp, by simp [hbef], by simpa using haft⟩
  case waitA =>
    split at hs
    · cases hs
      exact ⟨hrep, by simpa [inCycle] using hidle, by intro h; have := hone h; simp_all, by simp, by simpa using hbef, by simpa using haft⟩
    · cases hs
  case readFinal =>
    cases hs
    refine ⟨hrep, ?_, ?_, ?_, ?_, ?_⟩
    · intro _; exact hidle (by simp [inCycle])
    · intro h; have := hone h; refine ⟨this.1, ?_, ?_, this.2.2.2⟩ <;> split <;> simp
    · split <;> simp
    · split <;> simpa using hbef
    · split <;> simpa using haft
  case isSetStop =>
    cases hs
    refine ⟨hrep, ?_, ?_, ?_, ?_, ?_⟩
    · intro _; exact hidle (by simp [inCycle])
    · intro h; have := hone h; refine ⟨this.1, ?_, ?_, this.2.2.2⟩ <;> split <;> simp
    · split <;> simp
    · split <;> simpa using hbef
    · split <;> simpa using haft
  case beforeExecute =>
    cases hs
    have hc : s.cycle = [] := hidle (by simp [inCycle])
    refine ⟨by simpa [hc] using hrep, by simp [inCycle], ?_, by simp, by simpa using hbef, by simpa using haft⟩
    intro h; have := hone h; exact ⟨this.1, fun _ => rfl, by simp, by simp⟩
  case execFirst =>
    have hc : s.cycle = [] := hfirst trivial
    cases he : I.exec s.it with
    | mk r it' =>
      cases r with
      | none =>
        simp only [he] at hs; cases hs
        refine ⟨hrep, by simp [inCycle], ?_, by simp, by simpa using hbef, by simpa using haft⟩
        intro h; have := hone h; exact ⟨this.1, by simp, by simp, this.2.2.2⟩
      | some m =>
        simp only [he] at hs; cases hs
        refine ⟨by simp [← hrep, hc], ?_, ?_, ?_, ?_, ?_⟩
        · intro h; split at h <;> simp [inCycle] at h
        · intro h
          have hall : s.executeAll = false := h
          have := hone hall
          simp only [hall, Bool.false_eq_true, if_false]
          exact ⟨this.1, by simp, by simp, by simp [hc]⟩
        · intro h; split at h <;> simp at h
        · split <;> simpa using hbef
        · split <;> simpa using haft
  case execMore =>
    cases he : I.exec s.it with
    | mk r it' =>
      cases r with
      | none =>
        simp only [he] at hs; cases hs
        refine ⟨hrep, by simp [inCycle], ?_, by simp, by simpa using hbef, by simpa using haft⟩
        intro h; exact absurd rfl (hone h).2.2.1
      | some m =>
        simp only [he] at hs; cases hs
        refine ⟨by simp [← hrep, List.append_assoc], ?_, ?_, ?_, ?_, ?_⟩
        · intro h; split at h <;> simp [inCycle] at h
        · intro h; exact absurd rfl (hone h).2.2.1
        · intro h; split at h <;> simp at h
        · split <;> simpa using hbef
        · split <;> simpa using haft
  case afterExecute =>
    cases hs
    refine ⟨by simp [← hrep], by simp, ?_, by simp, by simpa using hbef, by simpa using haft⟩
    intro h
    have := hone h
    refine ⟨?_, by simp, by simp, by simp⟩
    intro c hc
    rcases List.mem_append.mp hc with hc | hc
    · exact this.1 c hc
    · simp at hc; subst hc; exact this.2.2.2
  case sleep =>
    cases hs
    exact ⟨hrep, by simpa [inCycle] using hidle, by intro h; have := hone h; simp_all, by simp, by simpa using hbef, by simpa using haft⟩
  case waitB =>
    split at hs
    · cases hs
      exact ⟨hrep, by simpa [inCycle] using hidle, by intro h; have := hone h; simp_all, by simp, by simpa using hbef, by simpa using haft⟩
    · cases hs
  case setStop =>
    cases hs
    exact ⟨hrep, by simpa [inCycle] using hidle, by intro h; have := hone h; simp_all, by simp, by simpa using hbef, by simpa using haft⟩
  case afterRun =>
    cases hs
    exact ⟨hrep, by simpa [inCycle] using hidle, by intro h; have := hone h; simp_all, by simp, by simpa using hbef, by simp [haft]⟩

end Sismic.Runner

namespace Sismic.Runner
variable {ι ε μ : Type}

theorem inv_clientAct (I : Interp ι ε μ) (s s' : St ι ε μ) (a : CAct ε) (h : Inv s)
    (hs : clientAct I s a = some s') : Inv s' := by
  obtain ⟨hrep, hidle, hone, hfirst, hbef, haft⟩ := h
  cases a <;> simp only [clientAct] at hs
  case startThread =>
    split at hs
    · next hp =>
      cases hs
      have hp' : s.pc = .notStarted := by simpa using hp
      rw [hp'] at hidle hone hfirst hbef haft
      exact ⟨hrep, fun _ => hidle rfl, by intro h; have := hone h; simp_all, by simp, by simpa using hbef, by simpa using haft⟩
    · cases hs; exact ⟨hrep, hidle, hone, hfirst, hbef, haft⟩
  case join =>
    split at hs
    · cases hs; exact ⟨hrep, hidle, hone, hfirst, hbef, haft⟩
    · cases hs
  case startIsSet =>
    cases hs; split <;> exact ⟨hrep, hidle, hone, hfirst, hbef, haft⟩
  all_goals (cases hs; exact ⟨hrep, hidle, hone, hfirst, hbef, haft⟩)

theorem inv_setNth (s : St ι ε μ) (cl : List (List (CAct ε))) (h : Inv s) : Inv { s with clients := cl } :=
  ⟨h.reported, h.idle, h.one, h.first, h.before, h.after⟩

theorem inv_step (I : Interp ι ε μ) (s : St ι ε μ) (tid : Nat) (h : Inv s) : Inv (step I s tid) := by
  unfold step
  cases tid with
  | zero =>
    simp only
    cases hr : runnerStep I s with
    | none => simpa using h
    | some s' => simpa using inv_runnerStep I s s' h hr
  | succ k =>
    simp only
    split
    · next a rest _ =>
      split
      · next s' hc => exact inv_setNth _ _ (inv_clientAct I s s' a h hc)
      · exact h
    · exact h

/-- **Over every schedule.** -/
theorem inv_run (I : Interp ι ε μ) : ∀ (sched : List Nat) (s : St ι ε μ), Inv s → Inv (run I s sched)
  | [], s, h => h
  | t :: ts, s, h => by
    simp only [run, List.foldl_cons]
    exact inv_run I ts _ (inv_step I s t h)

/-! ### pause -/

/-- how many more cycles the runner can still start while it stays paused: one if it has passed the
    wait and has not called `before_execute` yet, none otherwise -/
def canStart : RPc → Nat
  | .readFinal | .isSetStop | .beforeExecute => 1
  | _ => 0

def potential (s : St ι ε μ) : Nat := s.cycles + canStart s.pc

theorem potential_runnerStep (I : Interp ι ε μ) (s s' : St ι ε μ) (hp : s.unpaused = false)
    (hs : runnerStep I s = some s') : potential s' ≤ potential s := by
  unfold runnerStep at hs
  unfold potential
  cases hpc : s.pc <;> simp only [hpc] at hs
  case notStarted => cases hs
  case done => cases hs
  case waitA => simp [hp] at hs
  case waitB => simp [hp] at hs
  case readFinal => cases hs; simp only; split <;> simp [canStart]
  case isSetStop => cases hs; simp only; split <;> simp [canStart]
  case execFirst =>
    cases he : I.exec s.it with
    | mk r it' => cases r <;> simp only [he] at hs <;> cases hs <;> simp only <;> (try split) <;> simp [canStart]
  case execMore =>
    cases he : I.exec s.it with
    | mk r it' => cases r <;> simp only [he] at hs <;> cases hs <;> simp only <;> (try split) <;> simp [canStart]
  all_goals (cases hs; simp [canStart]; try omega)

theorem potential_clientAct (I : Interp ι ε μ) (s s' : St ι ε μ) (a : CAct ε)
    (hs : clientAct I s a = some s') : potential s' ≤ potential s := by
  unfold potential
  cases a <;> simp only [clientAct] at hs
  case startThread =>
    split at hs
    · next hp =>
      cases hs
      have hp' : s.pc = .notStarted := by simpa using hp
      simp [hp', canStart]
    · cases hs; exact Nat.le_refl _
  case join => split at hs <;> cases hs; exact Nat.le_refl _
  case startIsSet => cases hs; split <;> exact Nat.le_refl _
  all_goals (cases hs; exact Nat.le_refl _)

/-- the runner stays paused along the schedule (no `unpause`, `start` or `stop` is executed) -/
def StaysPaused (I : Interp ι ε μ) : St ι ε μ → List Nat → Prop
  | s, [] => s.unpaused = false
  | s, t :: ts => s.unpaused = false ∧ StaysPaused I (step I s t) ts

theorem potential_step (I : Interp ι ε μ) (s : St ι ε μ) (tid : Nat) (hp : s.unpaused = false) :
    potential (step I s tid) ≤ potential s := by
  unfold step
  cases tid with
  | zero =>
    simp only
    cases hr : runnerStep I s with
    | none => simp
    | some s' => simpa using potential_runnerStep I s s' hp hr
  | succ k =>
    simp only
    split
    · next a rest _ =>
      split
      · next s' hc => exact potential_clientAct I s s' a hc
      · exact Nat.le_refl _
    · exact Nat.le_refl _

/-- **While paused at most the cycle already under way is executed**: along any schedule during
    which the runner stays paused, the number of cycles started grows by at most `canStart`. -/
theorem paused_cycles (I : Interp ι ε μ) : ∀ (sched : List Nat) (s : St ι ε μ), StaysPaused I s sched →
    (run I s sched).cycles ≤ s.cycles + canStart s.pc
  | [], s, _ => by simp [run]
  | t :: ts, s, h => by
    simp only [run, List.foldl_cons]
    have ih := paused_cycles I ts (step I s t) h.2
    have hp := potential_step I s t h.1
    unfold potential at hp
    simp only [run] at ih
    omega

/-! ### stop -/

def rank : RPc → Nat
  | .done => 0 | .afterRun => 1 | .setStop => 2 | .isSetStop => 3 | .readFinal => 4
  | .waitA => 5 | .waitB => 5 | .sleep => 6 | .beforeRun => 6 | .afterExecute => 7
  | .execFirst => 8 | .execMore => 8 | .beforeExecute => 9 | .notStarted => 0

/-- **`stop()` always returns (single client).**  Once both flags are set — and nobody clears
    them — the runner is never blocked and every one of its steps brings it strictly closer to its
    end (one macro step per cycle): it ends within 9 of its own steps. -/
theorem stop_progress (I : Interp ι ε μ) (s : St ι ε μ) (hstop : s.stop = true) (hun : s.unpaused = true)
    (hall : s.executeAll = false) (hpc : s.pc ≠ .done) (hpc' : s.pc ≠ .notStarted) :
    ∃ s', runnerStep I s = some s' ∧ rank s'.pc < rank s.pc ∧ s'.stop = true ∧ s'.unpaused = true ∧
      s'.executeAll = false := by
  unfold runnerStep
  cases h : s.pc <;> simp only [h] at hpc hpc' ⊢
  case notStarted => exact absurd rfl hpc'
  case done => exact absurd rfl hpc
  case readFinal => refine ⟨_, rfl, ?_, hstop, hun, hall⟩; simp only; split <;> simp [rank]
  case isSetStop => refine ⟨_, rfl, ?_, hstop, hun, hall⟩; simp [hstop, rank]
  case waitA => simp only [hun, if_true]; exact ⟨_, rfl, by simp [rank], hstop, rfl, hall⟩
  case waitB => simp only [hun, if_true]; exact ⟨_, rfl, by simp [rank], hstop, rfl, hall⟩
  case execFirst =>
    cases he : I.exec s.it with
    | mk r it' => cases r <;> exact ⟨_, rfl, by simp [hall, rank], hstop, hun, hall⟩
  case execMore =>
    cases he : I.exec s.it with
    | mk r it' => cases r <;> exact ⟨_, rfl, by simp [hall, rank], hstop, hun, hall⟩
  case setStop => exact ⟨_, rfl, by simp [rank], rfl, hun, hall⟩
  all_goals exact ⟨_, rfl, by simp [rank], hstop, hun, hall⟩

/-! ### events: exactly once, in order (concrete FIFO interpreter) -/

def consumedAndPending (s : St QI String String) : List String :=
  s.executed.filter (fun e => e != "<init>") ++ s.it.pending

theorem qexec_cases (fin : String) (q : QI) :
    (q.initialized = false ∧ (qInterp fin).exec q = (some "<init>", { q with initialized := true })) ∨
    (q.initialized = true ∧ q.pending = [] ∧ (qInterp fin).exec q = (none, q)) ∨
    (q.initialized = true ∧ ∃ e r, q.pending = e :: r ∧
      (qInterp fin).exec q = (some e, { q with pending := r, final := q.final || e == fin })) := by
  cases hi : q.initialized with
  | false => left; simp [qInterp, hi]
  | true =>
    right
    cases hp : q.pending with
    | nil => left; simp [qInterp, hi, hp]
    | cons e r => right; exact ⟨rfl, e, r, rfl, by simp [qInterp, hi, hp]⟩

theorem events_exec (fin : String) (s : St QI String String) (pc' : RPc → RPc)
    (hq : ∀ e ∈ s.it.pending, e ≠ "<init>") :
    let r := (qInterp fin).exec s.it
    let s' : St QI String String := match r with
      | (none, it') => { s with it := it', pc := .afterExecute }
      | (some m, it') => { s with it := it', cycle := s.cycle ++ [m], executed := s.executed ++ [m], pc := pc' s.pc }
    consumedAndPending s' = consumedAndPending s ∧ ∀ e ∈ s'.it.pending, e ≠ "<init>" := by
  unfold consumedAndPending
  rcases qexec_cases fin s.it with ⟨_, he⟩ | ⟨_, hp, he⟩ | ⟨_, e, r, hp, he⟩
  · simp only [he]; simp; exact hq
  · simp only [he]; exact ⟨trivial, hq⟩
  · simp only [he]
    have hne : e ≠ "<init>" := hq e (by rw [hp]; simp)
    refine ⟨?_, fun x hx => hq x (by rw [hp]; exact List.mem_cons_of_mem _ hx)⟩
    simp [hp, List.filter_append, hne]

theorem events_runnerStep (fin : String) (s s' : St QI String String)
    (hq : ∀ e ∈ s.it.pending, e ≠ "<init>") (hs : runnerStep (qInterp fin) s = some s') :
    consumedAndPending s' = consumedAndPending s ∧ ∀ e ∈ s'.it.pending, e ≠ "<init>" := by
  unfold runnerStep at hs
  cases hpc : s.pc <;> simp only [hpc] at hs
  case notStarted => cases hs
  case done => cases hs
  case waitA => split at hs <;> cases hs; exact ⟨rfl, hq⟩
  case waitB => split at hs <;> cases hs; exact ⟨rfl, hq⟩
  case execFirst =>
    have := events_exec fin s (fun _ => if s.executeAll then .execMore else .afterExecute) hq
    simp only at this
    cases he : (qInterp fin).exec s.it with
    | mk r it' =>
      rw [he] at this
      cases r <;> simp only [he] at hs <;> cases hs <;> exact this
  case execMore =>
    have := events_exec fin s (fun _ => if s.executeAll then .execMore else .afterExecute) hq
    simp only at this
    cases he : (qInterp fin).exec s.it with
    | mk r it' =>
      rw [he] at this
      cases r <;> simp only [he] at hs <;> cases hs <;> exact this
  all_goals (cases hs; exact ⟨rfl, hq⟩)

end Sismic.Runner
