import Sismic.Proofs.Frame
import Sismic.Proofs.Queue
/-!
# Sismic.Proofs.QueueInv — what `execute_once` does to the two event queues, for every outcome

* the queues stay ordered by due time;
* nothing is invented, lost or duplicated: the internal queue afterwards, plus what was consumed
  from it, is the internal queue before plus one entry `(step time + delay, e)` for every internal
  event appended to `_sent_events` during the call; the external queue changes only by the
  consumption of its head and by what listeners queue;
* at most one entry is consumed, and it was due.
-/
namespace Sismic
open M

variable {σ ω : Type}

def internals : List Sent → List Event
  | [] => []
  | .internal e :: r => e :: internals r
  | .notify _ :: r => internals r

theorem internals_append (a b : List Sent) : internals (a ++ b) = internals a ++ internals b := by
  induction a with
  | nil => rfl
  | cons x xs ih => cases x <;> simp [internals, ih]

/-- the queue entries made for what was sent at step time `t` -/
def entriesOf (t : Int) (l : List Sent) : List (Int × Event) := (internals l).map (fun e => (t + e.delay, e))

theorem entriesOf_append (t : Int) (a b : List Sent) : entriesOf t (a ++ b) = entriesOf t a ++ entriesOf t b := by
  simp [entriesOf, internals_append]

/-- no consumption -/
structure RQ0 (rs rs' : RS σ ω) : Prop where
  time : rs'.st.time = rs.st.time
  listeners : rs'.st.listeners = rs.st.listeners
  sortedI : QSorted rs.st.intQ → QSorted rs'.st.intQ
  sortedE : QSorted rs.st.extQ → QSorted rs'.st.extQ
  cons : ∃ new added, rs'.st.sentEvents = rs.st.sentEvents ++ new ∧
    rs'.st.intQ.Perm (rs.st.intQ ++ entriesOf rs.st.time new) ∧
    rs'.st.extQ.Perm (rs.st.extQ ++ added) ∧ (rs.st.listeners = [] → added = [])

theorem RQ0.same {rs rs' : RS σ ω} (h : rs'.st = rs.st) : RQ0 rs rs' where
  time := by rw [h]
  listeners := by rw [h]
  sortedI := by rw [h]; exact id
  sortedE := by rw [h]; exact id
  cons := ⟨[], [], by simp [h, entriesOf, internals]⟩

theorem RQ0_pre : PreOrd (RQ0 : RS σ ω → RS σ ω → Prop) where
  refl a := RQ0.same rfl
  trans a b c h1 h2 := by
    obtain ⟨n1, a1, s1, i1, e1, c1⟩ := h1.cons
    obtain ⟨n2, a2, s2, i2, e2, c2⟩ := h2.cons
    refine ⟨h2.time.trans h1.time, h2.listeners.trans h1.listeners, fun h => h2.sortedI (h1.sortedI h),
      fun h => h2.sortedE (h1.sortedE h), n1 ++ n2, a1 ++ a2, ?_, ?_, ?_, ?_⟩
    · rw [s2, s1, List.append_assoc]
    · rw [entriesOf_append, ← List.append_assoc]
      rw [h1.time] at i2
      exact i2.trans (List.Perm.append_right _ i1)
    · rw [← List.append_assoc]
      exact e2.trans (List.Perm.append_right _ e1)
    · intro hl
      rw [c1 hl, c2 (h1.listeners.trans hl)]
      rfl

/-- what a listener's `queue()` calls do -/
theorem foldl_extQ_spec (qs : List Event) (st : IState σ) :
    let st' := qs.foldl (fun st e => { st with extQ := queueInsert (st.time + e.delay) e st.extQ }) st
    st'.time = st.time ∧ st'.listeners = st.listeners ∧ st'.intQ = st.intQ ∧ st'.sentEvents = st.sentEvents ∧
    (QSorted st.extQ → QSorted st'.extQ) ∧
    st'.extQ.Perm (st.extQ ++ qs.map (fun e => (st.time + e.delay, e))) := by
  induction qs generalizing st with
  | nil => simp
  | cons q qs ih =>
    simp only [List.foldl_cons, List.map_cons]
    have := ih { st with extQ := queueInsert (st.time + q.delay) q st.extQ }
    simp only at this
    obtain ⟨t, l, i, s, so, p⟩ := this
    refine ⟨t, l, i, s, fun h => so (queueInsert_sorted _ _ _ h), ?_⟩
    refine p.trans ?_
    have h1 := queueInsert_perm (st.time + q.delay) q st.extQ
    refine (List.Perm.append_right _ h1).trans ?_
    simp only [List.cons_append]
    exact (List.perm_middle).symm

variable (env : Env σ ω)

theorem rq0_callListener (m : Event) (l : Nat) (rs : RS σ ω) :
    let rs' := (callListener env m l rs).2
    rs'.st.time = rs.st.time ∧ rs'.st.listeners = rs.st.listeners ∧ rs'.st.intQ = rs.st.intQ ∧
    rs'.st.sentEvents = rs.st.sentEvents ∧ (QSorted rs.st.extQ → QSorted rs'.st.extQ) ∧
    ∃ added, rs'.st.extQ.Perm (rs.st.extQ ++ added) := by
  unfold callListener
  simp only
  obtain ⟨t, l', i, s, so, p⟩ := foldl_extQ_spec (env.deliver l m rs.st.time rs.world).2.2 rs.st
  exact ⟨t, l', i, s, so, _, p⟩

/-- weak form used under the loop over the listeners -/
structure RQw (rs rs' : RS σ ω) : Prop where
  time : rs'.st.time = rs.st.time
  listeners : rs'.st.listeners = rs.st.listeners
  intQ : rs'.st.intQ = rs.st.intQ
  sent : rs'.st.sentEvents = rs.st.sentEvents
  sortedE : QSorted rs.st.extQ → QSorted rs'.st.extQ
  ext : ∃ added, rs'.st.extQ.Perm (rs.st.extQ ++ added)

theorem RQw.same {rs rs' : RS σ ω} (h : rs'.st = rs.st) : RQw rs rs' :=
  ⟨by rw [h], by rw [h], by rw [h], by rw [h], by rw [h]; exact id, [], by simp [h]⟩

theorem RQw_pre : PreOrd (RQw : RS σ ω → RS σ ω → Prop) where
  refl a := RQw.same rfl
  trans a b c h1 h2 := by
    obtain ⟨a1, e1⟩ := h1.ext
    obtain ⟨a2, e2⟩ := h2.ext
    refine ⟨h2.time.trans h1.time, h2.listeners.trans h1.listeners, h2.intQ.trans h1.intQ,
      h2.sent.trans h1.sent, fun h => h2.sortedE (h1.sortedE h), a1 ++ a2, ?_⟩
    rw [← List.append_assoc]
    exact e2.trans (List.Perm.append_right _ e1)

theorem rqw_raise (m : Event) : Rel RQw (raiseMeta env m) := by
  unfold raiseMeta
  apply Rel.bind RQw_pre
  · intro rs; exact RQw.same rfl
  intro _
  apply Rel.bind RQw_pre (Rel.get RQw_pre); intro st
  apply Rel.forEach RQw_pre
  intro l rs
  obtain ⟨t, l', i, s, so, p⟩ := rq0_callListener env m l rs
  exact ⟨t, l', i, s, so, p⟩

theorem rq0_raise (m : Event) : Rel RQ0 (raiseMeta env m) := by
  intro rs
  have hw : RQw rs (raiseMeta env m rs).2 := rqw_raise env m rs
  obtain ⟨added, hp⟩ := hw.ext
  by_cases hl : rs.st.listeners = []
  · have hs : (raiseMeta env m rs).2.st = rs.st := by
      simp [raiseMeta, M.bind, M.emit, M.get, hl, M.forEach, M.pure]
    exact RQ0.same hs
  · refine ⟨hw.time, hw.listeners, by rw [hw.intQ]; exact id, hw.sortedE, [], added, ?_, ?_, hp, fun h => absurd h hl⟩
    · rw [hw.sent]; simp
    · rw [hw.intQ]; simp [entriesOf, internals]

theorem rq0_modify (f : IState σ → IState σ)
    (hf : ∀ st, (f st).time = st.time ∧ (f st).listeners = st.listeners ∧ (f st).intQ = st.intQ ∧
      (f st).extQ = st.extQ ∧ (f st).sentEvents = st.sentEvents) : Rel RQ0 (M.modify f : M σ ω Unit) := by
  intro rs
  obtain ⟨t, l, i, e, s⟩ := hf rs.st
  refine ⟨t, l, ?_, ?_, [], [], ?_, ?_, ?_, fun _ => rfl⟩
  · simp only [M.modify]; rw [i]; exact id
  · simp only [M.modify]; rw [e]; exact id
  · simp only [M.modify]; rw [s]; simp
  · simp only [M.modify]; rw [i]; simp [entriesOf, internals]
  · simp only [M.modify]; rw [e]; simp

theorem rq0_emit (e : Effect) : Rel RQ0 (M.emit e : M σ ω Unit) := by
  intro rs; exact RQ0.same rfl

/-- listeners (bound interpreters, property statecharts, callables) that do not raise -/
def Quiet : Prop := ∀ l m t w, (env.deliver l m t w).1 = .ok ()

theorem raiseMeta_quiet (hq : Quiet env) (m : Event) (rs : RS σ ω) : (raiseMeta env m rs).1 = .ok () := by
  have hfe : ∀ (ls : List Nat) (rs : RS σ ω), (M.forEach (callListener env m) ls rs).1 = .ok () := by
    intro ls
    induction ls with
    | nil => intro rs; rfl
    | cons l ls ih =>
      intro rs
      have hc : (callListener env m l rs).1 = .ok () := by simp [callListener, hq l m]
      obtain ⟨r1, hx⟩ : ∃ r1, callListener env m l rs = (.ok (), r1) := ⟨_, Prod.ext hc rfl⟩
      simp only [M.forEach, M.bind, hx]
      exact ih r1
  simp only [raiseMeta, M.bind, M.emit, M.get]
  exact hfe _ _

theorem rq0_send (hq : Quiet env) (ev : Sent) : Rel RQ0 (sendOne env ev) := by
  cases ev with
  | notify m =>
    intro rs
    unfold sendOne raiseSent
    simp only [M.bind]
    have h1 := rq0_raise env m rs
    obtain ⟨rs1, hx⟩ : ∃ rs1, raiseMeta env m rs = (.ok (), rs1) := ⟨_, Prod.ext (raiseMeta_quiet env hq m rs) rfl⟩
    simp only [hx] at h1 ⊢
    obtain ⟨n1, a1, s1, i1, e1, c1⟩ := h1.cons
    refine ⟨h1.time, h1.listeners, h1.sortedI, h1.sortedE, n1 ++ [.notify m], a1, ?_, ?_, e1, c1⟩
    · simp [M.modify, s1]
    · rw [entriesOf_append]
      simpa [M.modify, entriesOf, internals] using i1
  | internal e =>
    intro rs
    let rs0 : RS σ ω := { rs with st := { rs.st with intQ := queueInsert (rs.st.time + e.delay) e rs.st.intQ } }
    have hx0 : queueEvent (σ := σ) (ω := ω) true e rs = (.ok (), rs0) := by simp [queueEvent, M.modify, rs0]
    have h1 := rq0_raise env { name := "event sent", data := [("event", e.toVal)] } rs0
    obtain ⟨rs1, hx1⟩ : ∃ rs1, raiseMeta env { name := "event sent", data := [("event", e.toVal)] } rs0 = (.ok (), rs1) :=
      ⟨_, Prod.ext (raiseMeta_quiet env hq _ rs0) rfl⟩
    rw [hx1] at h1
    -- the optional second meta-event
    obtain ⟨rs2, hx2, h2⟩ : ∃ rs2, (if e.hasDelay then raiseMeta env { name := "delayed event sent", data := [("event", e.toVal)] }
        else (M.pure () : M σ ω Unit)) rs1 = (.ok (), rs2) ∧ RQ0 rs1 rs2 := by
      split
      · have := rq0_raise env { name := "delayed event sent", data := [("event", e.toVal)] } rs1
        exact ⟨_, Prod.ext (raiseMeta_quiet env hq _ rs1) rfl, this⟩
      · exact ⟨rs1, rfl, RQ0_pre.refl _⟩
    have h12 := RQ0_pre.trans _ _ _ h1 h2
    have hfin : (sendOne env (.internal e) rs).2 = { rs2 with st := { rs2.st with sentEvents := rs2.st.sentEvents ++ [.internal e] } } := by
      unfold sendOne raiseSent
      simp only [M.bind, hx0, hx1, hx2, M.modify]
    rw [hfin]
    obtain ⟨n1, a1, s1, i1, e1, c1⟩ := h12.cons
    have hins : (rs0.st.intQ).Perm (rs.st.intQ ++ [(rs.st.time + e.delay, e)]) :=
      (queueInsert_perm _ _ _).trans (List.perm_append_singleton _ _).symm
    refine ⟨h12.time, h12.listeners, fun h => h12.sortedI (queueInsert_sorted _ _ _ h), h12.sortedE,
      n1 ++ [.internal e], a1, ?_, ?_, e1, c1⟩
    · show rs2.st.sentEvents ++ [Sent.internal e] = rs.st.sentEvents ++ (n1 ++ [Sent.internal e])
      rw [s1]; simp [rs0]
    · show rs2.st.intQ.Perm _
      rw [entriesOf_append]
      have : entriesOf rs.st.time [Sent.internal e] = [(rs.st.time + e.delay, e)] := rfl
      rw [this]
      refine i1.trans ?_
      refine (List.Perm.append_right _ hins).trans ?_
      simp only [List.append_assoc]
      exact List.Perm.append_left _ List.perm_append_comm

theorem rq0_respects (hq : Quiet env) : RespectsS env (RQ0 : RS σ ω → RS σ ω → Prop) where
  pre := RQ0_pre
  modify f hf := rq0_modify f (fun st => ⟨(hf st).1, (hf st).2.1, (hf st).2.2.1, (hf st).2.2.2.1, (hf st).2.2.2.2.1⟩)
  emit e _ := rq0_emit e
  raise m := rq0_raise env m
  contract := contract_of_prims env RQ0_pre
    (fun f hf => rq0_modify f (fun st => ⟨(hf st).1, (hf st).2.1, (hf st).2.2.1, (hf st).2.2.2.1, (hf st).2.2.2.2.1⟩))
    (fun _ _ _ _ _ => rq0_emit _)
  send ev := rq0_send env hq ev
  markEnter n := rq0_modify _ (fun st => ⟨rfl, rfl, rfl, rfl, rfl⟩)
  markFire n := rq0_modify _ (fun st => ⟨rfl, rfl, rfl, rfl, rfl⟩)

/-- with the consumption of at most one entry, which was due -/
structure RQP (rs rs' : RS σ ω) : Prop where
  time : rs'.st.time = rs.st.time
  listeners : rs'.st.listeners = rs.st.listeners
  sortedI : QSorted rs.st.intQ → QSorted rs'.st.intQ
  sortedE : QSorted rs.st.extQ → QSorted rs'.st.extQ
  cons : ∃ new added pi pe, rs'.st.sentEvents = rs.st.sentEvents ++ new ∧
    (rs'.st.intQ ++ pi).Perm (rs.st.intQ ++ entriesOf rs.st.time new) ∧
    (rs'.st.extQ ++ pe).Perm (rs.st.extQ ++ added) ∧ (rs.st.listeners = [] → added = []) ∧
    (pi ++ pe).length ≤ 1 ∧ ∀ p ∈ pi ++ pe, p.1 ≤ rs.st.time

theorem RQ0.toP {rs rs' : RS σ ω} (h : RQ0 rs rs') : RQP rs rs' := by
  obtain ⟨n, a, s, i, e, c⟩ := h.cons
  exact ⟨h.time, h.listeners, h.sortedI, h.sortedE, n, a, [], [], s, by simpa using i, by simpa using e, c,
    by simp, by simp⟩

theorem RQP.after {a b c : RS σ ω} (h1 : RQ0 a b) (h2 : RQP b c) : RQP a c := by
  obtain ⟨n1, a1, s1, i1, e1, c1⟩ := h1.cons
  obtain ⟨n2, a2, pi, pe, s2, i2, e2, c2, hl, hd⟩ := h2.cons
  refine ⟨h2.time.trans h1.time, h2.listeners.trans h1.listeners, fun h => h2.sortedI (h1.sortedI h),
    fun h => h2.sortedE (h1.sortedE h), n1 ++ n2, a1 ++ a2, pi, pe, ?_, ?_, ?_, ?_, hl, ?_⟩
  · rw [s2, s1, List.append_assoc]
  · rw [entriesOf_append, ← List.append_assoc]
    rw [h1.time] at i2
    exact i2.trans (List.Perm.append_right _ i1)
  · rw [← List.append_assoc]
    exact e2.trans (List.Perm.append_right _ e1)
  · intro h; rw [c1 h, c2 (h1.listeners.trans h)]; rfl
  · intro p hp; rw [← h1.time]; exact hd p hp

theorem RQP.before {a b c : RS σ ω} (h1 : RQP a b) (h2 : RQ0 b c) : RQP a c := by
  obtain ⟨n1, a1, pi, pe, s1, i1, e1, c1, hl, hd⟩ := h1.cons
  obtain ⟨n2, a2, s2, i2, e2, c2⟩ := h2.cons
  refine ⟨h2.time.trans h1.time, h2.listeners.trans h1.listeners, fun h => h2.sortedI (h1.sortedI h),
    fun h => h2.sortedE (h1.sortedE h), n1 ++ n2, a1 ++ a2, pi, pe, ?_, ?_, ?_, ?_, hl, hd⟩
  · rw [s2, s1, List.append_assoc]
  · rw [entriesOf_append, ← List.append_assoc]
    rw [h1.time] at i2
    -- c.intQ ++ pi ~ (b.intQ ++ E2) ++ pi ~ (b.intQ ++ pi) ++ E2 ~ (a.intQ ++ E1) ++ E2
    refine (List.Perm.append_right pi i2).trans ?_
    rw [List.append_assoc]
    refine (List.Perm.append_left _ List.perm_append_comm).trans ?_
    rw [← List.append_assoc]
    exact List.Perm.append_right _ i1
  · rw [← List.append_assoc]
    refine (List.Perm.append_right pe e2).trans ?_
    rw [List.append_assoc]
    refine (List.Perm.append_left _ List.perm_append_comm).trans ?_
    rw [← List.append_assoc]
    exact List.Perm.append_right _ e1
  · intro h; rw [c1 h, c2 (h1.listeners.trans h)]; rfl

theorem pairwise_tail {α} {r : α → α → Prop} {x : α} {l : List α} (h : (x :: l).Pairwise r) : l.Pairwise r :=
  (List.pairwise_cons.mp h).2

/-- `_select_event(consume=True)` + its announcement -/
theorem rqp_consume : ∀ rs : RS σ ω, RQP rs (consumeOne env rs).2 := by
  intro rs
  unfold consumeOne
  simp only [M.bind, M.get, M.modify]
  -- the state after the pop
  have hpop : RQP rs ({ rs with st := (popEvent rs.st).2 } : RS σ ω) := by
    rcases pop_spec rs.st with ⟨_, h⟩ | ⟨d, e, r, hq, hd, _, h⟩ | ⟨d, e, r, hq, hd, _, _, h⟩
    · exact (RQ0.same (by simp [h])).toP
    · refine ⟨by simp [h], by simp [h], ?_, by simp [h], [], [], [(d, e)], [], ?_⟩
      · intro hs; simp only [h]; rw [hq] at hs; exact pairwise_tail hs
      · simp only [h, List.append_nil, List.nil_append, entriesOf, internals, List.map_nil, true_and]
        refine ⟨?_, List.Perm.refl _, fun _ => trivial, Nat.le_refl 1, ?_⟩
        · rw [hq]; exact (List.perm_append_singleton _ _)
        · intro p hp
          simp only [List.mem_singleton] at hp
          subst hp; exact hd
    · refine ⟨by simp [h], by simp [h], by simp [h], ?_, [], [], [], [(d, e)], ?_⟩
      · intro hs; simp only [h]; rw [hq] at hs; exact pairwise_tail hs
      · simp only [h, List.append_nil, List.nil_append, entriesOf, internals, List.map_nil, true_and]
        refine ⟨List.Perm.refl _, ?_, fun _ => trivial, Nat.le_refl 1, ?_⟩
        · rw [hq]; exact (List.perm_append_singleton _ _)
        · intro p hp
          simp only [List.mem_singleton] at hp
          subst hp; exact hd
  exact hpop.before (rq0_raise env _ _)

def RelP {α : Type} (m : M σ ω α) : Prop := ∀ rs, RQP rs (m rs).2

theorem RelP.bind0P {α β : Type} {x : M σ ω α} {f : α → M σ ω β}
    (hx : Rel RQ0 x) (hf : ∀ a, RelP (f a)) : RelP (M.bind x f) := by
  intro rs
  unfold M.bind
  have h1 := hx rs
  split
  · next a rs' heq => rw [heq] at h1; exact RQP.after h1 (hf a rs')
  · next e rs' heq => rw [heq] at h1; exact h1.toP

theorem RelP.bindP0 {α β : Type} {x : M σ ω α} {f : α → M σ ω β}
    (hx : RelP x) (hf : ∀ a, Rel RQ0 (f a)) : RelP (M.bind x f) := by
  intro rs
  unfold M.bind
  have h1 := hx rs
  split
  · next a rs' heq => rw [heq] at h1; exact h1.before (hf a rs')
  · next e rs' heq => rw [heq] at h1; exact h1

theorem RelP.of0 {α : Type} {x : M σ ω α} (hx : Rel RQ0 x) : RelP x := fun rs => (hx rs).toP

/-- **`execute_once` and the queues, for every outcome of the call.** -/
theorem executeOnce_queues (hq : Quiet env) (clock : Int) (rs : RS σ ω) :
    let rs' := (executeOnce env clock rs).2
    rs'.st.time = clock ∧ rs'.st.listeners = rs.st.listeners ∧
    (QSorted rs.st.intQ → QSorted rs'.st.intQ) ∧ (QSorted rs.st.extQ → QSorted rs'.st.extQ) ∧
    ∃ added pi pe,
      (rs'.st.intQ ++ pi).Perm (rs.st.intQ ++ entriesOf clock rs'.st.sentEvents) ∧
      (rs'.st.extQ ++ pe).Perm (rs.st.extQ ++ added) ∧ (rs.st.listeners = [] → added = []) ∧
      (pi ++ pe).length ≤ 1 ∧ ∀ p ∈ pi ++ pe, p.1 ≤ clock := by
  have H := rq0_respects env hq
  let rs0 : RS σ ω := { rs with st := { rs.st with time := clock, sentEvents := [] } }
  have hrun : ∀ computed, RelP (runSteps env computed) := by
    intro computed
    unfold runSteps
    split
    · exact RelP.of0 (Rel.pure RQ0_pre _)
    · next first rest =>
      apply RelP.bindP0
      · split
        · exact rqp_consume env
        · exact RelP.of0 (Rel.pure RQ0_pre _)
      · intro _
        apply Rel.bind RQ0_pre (rel_applyAll H _); intro executed
        apply Rel.bind RQ0_pre (Rel.get RQ0_pre); intro st
        exact Rel.pure RQ0_pre _
  have htail : RelP (M.bind (raiseMeta env { name := "step started", data := [("time", .int clock)] }) (fun _ =>
      M.bind (computeSteps env) (fun computed =>
      M.bind (runSteps env computed) (fun ms => finishStep env ms)))) := by
    apply RelP.bind0P (rq0_raise env _); intro _
    apply RelP.bind0P (rel_computeSteps H); intro computed
    exact RelP.bindP0 (hrun computed) (fun ms => rel_finishStep H ms)
  have tail := htail rs0
  have hfin : (executeOnce env clock rs).2 = ((M.bind (raiseMeta env { name := "step started", data := [("time", .int clock)] }) (fun _ =>
      M.bind (computeSteps env) (fun computed =>
      M.bind (runSteps env computed) (fun ms => finishStep env ms)))) rs0).2 := by
    unfold executeOnce
    simp only [M.bind, M.modify, rs0]
  simp only
  rw [hfin]
  obtain ⟨new, added, pi, pe, s, i, e, c, hl, hd⟩ := tail.cons
  refine ⟨tail.time, tail.listeners, tail.sortedI, tail.sortedE, added, pi, pe, ?_, e, c, hl, hd⟩
  have hs : ((M.bind (raiseMeta env { name := "step started", data := [("time", .int clock)] }) (fun _ =>
      M.bind (computeSteps env) (fun computed =>
      M.bind (runSteps env computed) (fun ms => finishStep env ms)))) rs0).2.st.sentEvents = new := by
    rw [s]; rfl
  rw [hs]
  exact i

/-! ### histories: `queue()` calls and `execute_once` calls in any order -/

inductive QOp
  | queue (e : Event)
  | exec (clock : Int)

/-- one call on the interpreter (whatever `execute_once` returns or raises) -/
def qstep (rs : RS σ ω) : QOp → RS σ ω
  | .queue e => { rs with st := { rs.st with extQ := queueInsert (rs.st.time + e.delay) e rs.st.extQ } }
  | .exec c => (executeOnce env c rs).2

def qrun (rs : RS σ ω) (ops : List QOp) : RS σ ω := ops.foldl (qstep env) rs

/-- the queue entries made during a history: one per `queue()` call (due = the interpreter's time
    at the call + delay) and one per internal event sent during a step (due = step time + delay) -/
def pushed (rs : RS σ ω) : List QOp → List (Int × Event)
  | [] => []
  | .queue e :: ops => (rs.st.time + e.delay, e) :: pushed (qstep env rs (.queue e)) ops
  | .exec c :: ops => entriesOf c (executeOnce env c rs).2.st.sentEvents ++ pushed (qstep env rs (.exec c)) ops

def execCount : List QOp → Nat
  | [] => 0
  | .queue _ :: ops => execCount ops
  | .exec _ :: ops => execCount ops + 1

theorem perm_swap_mid {α} (a b c d : List α) : ((a ++ b) ++ (c ++ d)).Perm ((a ++ c) ++ (b ++ d)) := by
  simp only [List.append_assoc]
  apply List.Perm.append_left
  rw [← List.append_assoc, ← List.append_assoc]
  exact List.Perm.append_right _ List.perm_append_comm

theorem perm_mix {α} {a' a p1 e1 b' b p2 e2 : List α} (h1 : (a' ++ p1).Perm (a ++ e1)) (h2 : (b' ++ p2).Perm (b ++ e2)) :
    ((a' ++ b') ++ (p1 ++ p2)).Perm ((a ++ b) ++ (e1 ++ e2)) :=
  (perm_swap_mid a' b' p1 p2).trans ((List.Perm.append h1 h2).trans (perm_swap_mid a e1 b e2))

/-- **Queues of a closed interpreter over any history**: they stay ordered by due time, and the
    entries pending at the end plus the consumed ones (at most one per `execute_once`) are exactly
    the entries pending at the start plus the entries made — nothing lost, nothing duplicated. -/
theorem qrun_conserves (hq : Quiet env) (ops : List QOp) : ∀ (rs : RS σ ω), rs.st.listeners = [] →
    (qrun env rs ops).st.listeners = [] ∧
    (QSorted rs.st.intQ → QSorted (qrun env rs ops).st.intQ) ∧
    (QSorted rs.st.extQ → QSorted (qrun env rs ops).st.extQ) ∧
    ∃ consumed, consumed.length ≤ execCount ops ∧
      (((qrun env rs ops).st.intQ ++ (qrun env rs ops).st.extQ) ++ consumed).Perm
        ((rs.st.intQ ++ rs.st.extQ) ++ pushed env rs ops) := by
  induction ops with
  | nil => intro rs hl; exact ⟨hl, id, id, [], Nat.le_refl _, by simp [qrun, pushed]⟩
  | cons op ops ih =>
    intro rs hl
    cases op with
    | queue e =>
      have hl1 : (qstep env rs (.queue e)).st.listeners = [] := hl
      obtain ⟨l2, si, se, consumed, hc, hp⟩ := ih (qstep env rs (.queue e)) hl1
      refine ⟨l2, si, fun h => se (queueInsert_sorted _ _ _ h), consumed, hc, ?_⟩
      refine hp.trans ?_
      simp only [pushed, qstep]
      have h1 := queueInsert_perm (rs.st.time + e.delay) e rs.st.extQ
      -- i ++ insert ++ rest ~ i ++ ext ++ (entry :: rest)
      rw [List.append_assoc, List.append_assoc]
      apply List.Perm.append_left
      refine (List.Perm.append_right _ h1).trans ?_
      simp only [List.cons_append]
      exact List.perm_middle.symm
    | exec c =>
      obtain ⟨_, l1, s1i, s1e, added, pi, pe, hi, he, hadd, hlen, _⟩ := executeOnce_queues env hq c rs
      have hl1 : (qstep env rs (.exec c)).st.listeners = [] := l1.trans hl
      obtain ⟨l2, si, se, consumed, hc, hp⟩ := ih (qstep env rs (.exec c)) hl1
      rw [hadd hl, List.append_nil] at he
      refine ⟨l2, fun h => si (s1i h), fun h => se (s1e h), consumed ++ (pi ++ pe), ?_, ?_⟩
      · simp only [execCount, List.length_append] at hlen ⊢
        omega
      · simp only [pushed]
        have he' : ((executeOnce env c rs).2.st.extQ ++ pe).Perm (rs.st.extQ ++ []) := by simpa using he
        have hstep := perm_mix hi he'
        simp only [List.append_nil] at hstep
        have hfinal := List.Perm.append_right (pushed env (qstep env rs (.exec c)) ops) hstep
        have h2 := List.Perm.append_right (pi ++ pe) hp
        generalize pi ++ pe = X at hfinal h2 ⊢
        generalize pushed env (qstep env rs (.exec c)) ops = P at hfinal h2 ⊢
        generalize entriesOf c (executeOnce env c rs).2.st.sentEvents = E at hfinal ⊢
        have e1 : (qstep env rs (.exec c)) = (executeOnce env c rs).2 := rfl
        have e2 : qrun env rs (.exec c :: ops) = qrun env (qstep env rs (.exec c)) ops := rfl
        rw [e2]
        rw [← e1] at hfinal
        generalize qstep env rs (.exec c) = mid at hfinal h2 ⊢
        generalize qrun env mid ops = fin at h2 ⊢
        -- fin ++ (consumed ++ X) ~ (mid ++ P) ++ X ~ (mid ++ X) ++ P ~ (start ++ E) ++ P
        rw [← List.append_assoc]
        refine h2.trans ?_
        rw [List.append_assoc]
        refine (List.Perm.append_left _ List.perm_append_comm).trans ?_
        rw [← List.append_assoc]
        refine hfinal.trans ?_
        rw [List.append_assoc]

end Sismic
