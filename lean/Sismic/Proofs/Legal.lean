import Sismic.Proofs.Desc
import Sismic.Proofs.C06
import Sismic.Proofs.C03
import Sismic.Proofs.C01
import Sismic.Spec.Run
import Sismic.Spec.Legal
/-!
# Sismic.Proofs.Legal — C02: legality of the configuration as an invariant (set-level reasoning
over the list-level model)
-/
namespace Sismic

/-! ### the configuration after a micro step, as a set -/

theorem mem_foldl_exitPure (c : Chart) (cfg0 : List Name) (x : Name) :
    ∀ (ex : List Name) (cm : List Name × List (Name × List Name)),
      x ∈ (ex.foldl (exitPure c cfg0) cm).1 ↔ x ∈ cm.1 ∧ x ∉ ex
  | [], cm => by simp
  | n :: ex, cm => by
    simp only [List.foldl_cons]
    rw [mem_foldl_exitPure c cfg0 x ex]
    simp only [exitPure, List.mem_filter, bne_iff_ne, ne_eq, List.mem_cons, not_or]
    constructor
    · rintro ⟨⟨h1, h2⟩, h3⟩; exact ⟨h1, h2, h3⟩
    · rintro ⟨h1, h2, h3⟩; exact ⟨⟨h1, h2⟩, h3⟩

theorem nodup_foldl_exitPure (c : Chart) (cfg0 : List Name) :
    ∀ (ex : List Name) (cm : List Name × List (Name × List Name)), cm.1.Nodup →
      (ex.foldl (exitPure c cfg0) cm).1.Nodup
  | [], _, h => h
  | n :: ex, cm, h => by
    simp only [List.foldl_cons]
    apply nodup_foldl_exitPure c cfg0 ex
    simp only [exitPure]
    exact h.filter _

theorem mem_foldl_enterPure (x : Name) : ∀ (en cfg : List Name),
    x ∈ en.foldl enterPure cfg ↔ x ∈ cfg ∨ x ∈ en
  | [], cfg => by simp
  | n :: en, cfg => by
    simp only [List.foldl_cons]
    rw [mem_foldl_enterPure x en]
    simp only [enterPure]
    by_cases h : cfg.contains n = true
    · simp only [h, if_true, List.mem_cons]
      have hn : n ∈ cfg := by simpa using h
      constructor
      · rintro (h1 | h1); exact Or.inl h1; exact Or.inr (Or.inr h1)
      · rintro (h1 | h1 | h1); exact Or.inl h1; exact Or.inl (h1 ▸ hn); exact Or.inr h1
    · simp only [h, Bool.false_eq_true, if_false, List.mem_append, List.mem_singleton, List.mem_cons,
        List.not_mem_nil, or_false]
      constructor
      · rintro ((h1 | h1) | h1); exact Or.inl h1; exact Or.inr (Or.inl h1); exact Or.inr (Or.inr h1)
      · rintro (h1 | h1 | h1); exact Or.inl (Or.inl h1); exact Or.inl (Or.inr h1); exact Or.inr h1

theorem nodup_foldl_enterPure : ∀ (en cfg : List Name), cfg.Nodup → (en.foldl enterPure cfg).Nodup
  | [], _, h => h
  | n :: en, cfg, h => by
    simp only [List.foldl_cons]
    apply nodup_foldl_enterPure en
    simp only [enterPure]
    by_cases hc : cfg.contains n = true
    · simp only [hc, if_true]; exact h
    · simp only [hc, Bool.false_eq_true, if_false]
      have hn : n ∉ cfg := by simpa using hc
      rw [List.nodup_append]
      exact ⟨h, by simp, fun a ha b hb => by
        simp only [List.mem_singleton] at hb; subst hb; exact fun e => hn (e ▸ ha)⟩

/-- **the configuration after a micro step**: what was active and is not exited, plus what is entered -/
theorem mem_applyMicro (c : Chart) (cm : List Name × List (Name × List Name)) (m : Micro) (x : Name) :
    x ∈ (applyMicro c cm m).1 ↔ (x ∈ cm.1 ∧ x ∉ m.exited) ∨ x ∈ m.entered := by
  simp only [applyMicro]
  rw [mem_foldl_enterPure, mem_foldl_exitPure]

theorem nodup_applyMicro (c : Chart) (cm : List Name × List (Name × List Name)) (m : Micro)
    (h : cm.1.Nodup) : (applyMicro c cm m).1.Nodup := by
  simp only [applyMicro]
  exact nodup_foldl_enterPure _ _ (nodup_foldl_exitPure c cm.1 m.exited cm h)

/-! ### semi-legal configurations -/

/-- legal except that default entry may still be pending: compound states may have no active child
    yet, orthogonal states may miss regions, history states may be active -/
structure Semi (c : Chart) (cfg : List Name) : Prop where
  root : ∀ r, c.root = some r → r ∈ cfg
  state : ∀ s ∈ cfg, c.hasState s = true
  up : ∀ s ∈ cfg, ∀ p, c.parentFor s = some p → p ∈ cfg
  compound : ∀ z ∈ cfg, c.kindOf z = some .compound →
    ∀ a b, c.parentFor a = some z → c.parentFor b = some z → a ∈ cfg → b ∈ cfg → a = b
  nodup : cfg.Nodup

theorem Semi.up_anc {c : Chart} {cfg : List Name} (h : Semi c cfg) {a s : Name} (ha : Anc c a s)
    (hs : s ∈ cfg) : a ∈ cfg := by
  induction ha with
  | base hp => exact h.up _ hs _ hp
  | step hp _ ih => exact ih (h.up _ hs _ hp)

theorem Semi.congr {c : Chart} {cfg cfg' : List Name} (h : Semi c cfg) (hn : cfg'.Nodup)
    (hm : ∀ x, x ∈ cfg' ↔ x ∈ cfg) : Semi c cfg' :=
  ⟨fun r hr => (hm r).mpr (h.root r hr), fun s hs => h.state s ((hm s).mp hs),
   fun s hs p hp => (hm p).mpr (h.up s ((hm s).mp hs) p hp),
   fun z hz hk a b ha hb haa hbb => h.compound z ((hm z).mp hz) hk a b ha hb ((hm a).mp haa) ((hm b).mp hbb), hn⟩

end Sismic

namespace Sismic

/-! ### general tree facts under `WFChart` -/

theorem kindOf_some_of_hasState (c : Chart) (n : Name) (h : c.hasState n = true) : ∃ k, c.kindOf n = some k := by
  simp only [Chart.hasState, Option.isSome_iff_exists] at h
  obtain ⟨s, hs⟩ := h
  exact ⟨s.kind, by simp [Chart.kindOf, hs]⟩

theorem hasState_of_kindOf (c : Chart) (n : Name) (k : Kind) (h : c.kindOf n = some k) : c.hasState n = true := by
  simp only [Chart.kindOf, Option.map_eq_some_iff] at h
  obtain ⟨s, hs, _⟩ := h
  simp [Chart.hasState, hs]

/-- every state other than the root lies below the root -/
theorem root_anc (c : Chart) (h : WFChart c) (r : Name) (hr : c.root = some r) :
    ∀ s, c.hasState s = true → s ≠ r → Anc c r s := by
  obtain ⟨rk, hrk, _⟩ := h.tree.rank
  have aux : ∀ n s, rk s < n → c.hasState s = true → s ≠ r → Anc c r s := by
    intro n
    induction n with
    | zero => intro s hs; omega
    | succ n ih =>
      intro s hs hk hne
      obtain ⟨p, hp⟩ := h.nonroot s hk (by rw [hr]; exact fun e => hne (Option.some.inj e).symm)
      by_cases hpr : p = r
      · rw [hpr] at hp; exact Anc.base hp
      · exact Anc.step hp (ih p (by have := hrk s p hp; omega) (h.parentState s p hp).2 hpr)
  intro s
  exact aux (rk s + 1) s (Nat.lt_succ_self _)

theorem children_sub_descendants (c : Chart) (n ch : Name) (h : ch ∈ c.childrenFor n) : ch ∈ c.descendants n := by
  simp only [Chart.descendants, Chart.descF, List.nil_append, List.mem_append]
  exact Or.inl h

/-- a leaf of the configuration (as `leaf_for` computes it) has no active child -/
theorem leaf_spec (c : Chart) (h : WFChart c) (cfg : List Name) (n : Name) (hl : n ∈ c.leafFor cfg) :
    n ∈ cfg ∧ ∀ ch, c.parentFor ch = some n → ch ∉ cfg := by
  simp only [Chart.leafFor, List.mem_filter, Bool.not_eq_true', List.any_eq_false, List.contains_iff_mem] at hl
  refine ⟨hl.1, ?_⟩
  intro ch hp hc
  have := hl.2 ch (children_sub_descendants c n ch ((h.children n ch).mpr hp))
  simp [hc] at this

/-! ### stabilisation steps keep the configuration semi-legal -/

/-- entering (some of) the children of an active orthogonal state -/
theorem semi_enter_regions (c : Chart) (h : WFChart c) {cfg cfg' : List Name} (hS : Semi c cfg)
    {z : Name} (hz : z ∈ cfg) (hk : c.kindOf z = some .orthogonal) (R : List Name)
    (hR : ∀ x ∈ R, c.parentFor x = some z)
    (hm : ∀ x, x ∈ cfg' ↔ x ∈ cfg ∨ x ∈ R) (hn : cfg'.Nodup) : Semi c cfg' := by
  refine ⟨fun r hr => (hm r).mpr (Or.inl (hS.root r hr)), ?_, ?_, ?_, hn⟩
  · intro s hs
    rcases (hm s).mp hs with h1 | h1
    · exact hS.state s h1
    · exact (h.parentState s z (hR s h1)).1
  · intro s hs p hp
    rcases (hm s).mp hs with h1 | h1
    · exact (hm p).mpr (Or.inl (hS.up s h1 p hp))
    · rw [hR s h1] at hp; cases hp; exact (hm _).mpr (Or.inl hz)
  · intro w _ hkw a b ha hb haa hbb
    have notR : ∀ d, c.parentFor d = some w → d ∉ R := by
      intro d hd hRd
      rw [hR d hRd] at hd; cases hd
      rw [hk] at hkw; cases hkw
    have h1 : a ∈ cfg := ((hm a).mp haa).resolve_right (notR a ha)
    have h2 : b ∈ cfg := ((hm b).mp hbb).resolve_right (notR b hb)
    exact hS.compound w (hS.up a h1 w ha) hkw a b ha hb h1 h2

/-- default entry of a child of a compound leaf -/
theorem semi_enter_initial (c : Chart) (h : WFChart c) {cfg cfg' : List Name} (hS : Semi c cfg)
    {z i : Name} (hz : z ∈ cfg) (hleaf : ∀ ch, c.parentFor ch = some z → ch ∉ cfg)
    (hi : c.parentFor i = some z)
    (hm : ∀ x, x ∈ cfg' ↔ x ∈ cfg ∨ x = i) (hn : cfg'.Nodup) : Semi c cfg' := by
  refine ⟨fun r hr => (hm r).mpr (Or.inl (hS.root r hr)), ?_, ?_, ?_, hn⟩
  · intro s hs
    rcases (hm s).mp hs with h1 | h1
    · exact hS.state s h1
    · rw [h1]; exact (h.parentState i z hi).1
  · intro s hs p hp
    rcases (hm s).mp hs with h1 | h1
    · exact (hm p).mpr (Or.inl (hS.up s h1 p hp))
    · rw [h1, hi] at hp; cases hp; exact (hm _).mpr (Or.inl hz)
  · intro w hw hkw a b ha hb haa hbb
    have hwc : w ∈ cfg := by
      rcases (hm w).mp hw with h1 | h1
      · exact h1
      · exfalso
        rw [h1] at ha
        rcases (hm a).mp haa with h2 | h2
        · exact hleaf i hi (hS.up a h2 i ha)
        · rw [h2] at ha; exact Anc.irrefl' c h.tree (Anc.base ha)
    rcases (hm a).mp haa with h1 | h1 <;> rcases (hm b).mp hbb with h2 | h2
    · exact hS.compound w hwc hkw a b ha hb h1 h2
    · rw [h2, hi] at hb; cases hb; exact absurd h1 (hleaf a ha)
    · rw [h1, hi] at ha; cases ha; exact absurd h2 (hleaf b hb)
    · rw [h1, h2]

end Sismic

namespace Sismic

/-- what a history memory must look like to be re-entered under the compound state `p` -/
structure GoodMem (c : Chart) (p : Name) (M : List Name) : Prop where
  below : ∀ x ∈ M, Anc c p x ∧ c.hasState x = true
  up : ∀ x ∈ M, ∀ q, c.parentFor x = some q → q = p ∨ q ∈ M
  compound : ∀ w, c.kindOf w = some .compound →
    ∀ a b, c.parentFor a = some w → c.parentFor b = some w → a ∈ M → b ∈ M → a = b

/-- replacing an active history state by its memory -/
theorem semi_restore (c : Chart) (h : WFChart c) {cfg cfg' : List Name} (hS : Semi c cfg)
    {hs p : Name} (hh : hs ∈ cfg) (hp : c.parentFor hs = some p) (hkp : c.kindOf p = some .compound)
    (hnoch : ∀ ch, c.parentFor ch ≠ some hs) {M : List Name} (hM : GoodMem c p M)
    (hm : ∀ x, x ∈ cfg' ↔ (x ∈ cfg ∧ x ≠ hs) ∨ x ∈ M) (hn : cfg'.Nodup) : Semi c cfg' := by
  have hpc : p ∈ cfg := hS.up hs hh p hp
  have hpne : p ≠ hs := by
    intro e
    have hb : Anc c p hs := Anc.base hp
    rw [e] at hb
    exact Anc.irrefl' c h.tree hb
  refine ⟨?_, ?_, ?_, ?_, hn⟩
  · intro r hr
    refine (hm r).mpr (Or.inl ⟨hS.root r hr, ?_⟩)
    intro e
    obtain ⟨r', hr', hpr, _⟩ := h.root
    rw [hr] at hr'; cases hr'
    rw [e, hp] at hpr; cases hpr
  · intro s hs'
    rcases (hm s).mp hs' with h1 | h1
    · exact hS.state s h1.1
    · exact (hM.below s h1).2
  · intro s hs' q hq
    rcases (hm s).mp hs' with h1 | h1
    · refine (hm q).mpr (Or.inl ⟨hS.up s h1.1 q hq, ?_⟩)
      intro e; rw [e] at hq; exact hnoch s hq
    · rcases hM.up s h1 q hq with e | e
      · rw [e]; exact (hm p).mpr (Or.inl ⟨hpc, hpne⟩)
      · exact (hm q).mpr (Or.inr e)
  · intro w _ hkw a b ha hb haa hbb
    -- an old active child of `w` next to a restored one is impossible
    have clash : ∀ a b, c.parentFor a = some w → c.parentFor b = some w → (a ∈ cfg ∧ a ≠ hs) → b ∈ M → False := by
      intro a b ha hb ⟨hac, hane⟩ hbM
      have hwc : w ∈ cfg := hS.up a hac w ha
      rcases hM.up b hbM w hb with e | e
      · -- w = p: the active child of p is the history state
        subst e
        exact hane (hS.compound w hwc hkw a hs ha hp hac hh)
      · -- w is a restored state strictly below p: its branch below p is active, so it is the history state
        obtain ⟨k, hk, hsub⟩ := Anc.child_of (hM.below w e).1
        have hkc : k ∈ cfg := by
          rcases hsub with e' | e'
          · rw [← e']; exact hwc
          · exact hS.up_anc e' hwc
        have : k = hs := hS.compound p hpc hkp k hs hk hp hkc hh
        subst this
        rcases hsub with e' | e'
        · rw [e'] at hkw
          -- the history state is not compound: it has no children, but `a` is a child of `w = hs`
          rw [e'] at ha; exact hnoch a ha
        · cases e' with
          | base hq => exact hnoch _ hq
          | step hq h' =>
            clear hq
            induction h' with
            | base hq' => exact hnoch _ hq'
            | step _ _ ih => exact ih
    rcases (hm a).mp haa with h1 | h1 <;> rcases (hm b).mp hbb with h2 | h2
    · exact hS.compound w (hS.up a h1.1 w ha) hkw a b ha hb h1.1 h2.1
    · exact (clash a b ha hb h1 h2).elim
    · exact (clash b a hb ha h2 h1).elim
    · exact hM.compound w hkw a b ha hb h1 h2

/-- a final child of the root is active: the whole configuration is that state and the root -/
theorem semi_final_only (c : Chart) (h : WFChart c) {cfg : List Name} (hS : Semi c cfg)
    {leaf r : Name} (hr : c.root = some r) (hl : leaf ∈ cfg) (hp : c.parentFor leaf = some r)
    (hk : c.kindOf leaf = some .final) : ∀ x ∈ cfg, x = leaf ∨ x = r := by
  intro x hx
  by_cases hxr : x = r
  · exact Or.inr hxr
  left
  have hrc : r ∈ cfg := hS.root r hr
  have hkr : c.kindOf r = some .compound := by
    rcases h.composite leaf r hp with e | e
    · exact e
    · have := h.regions r leaf .final e hp hk
      exact absurd this (by decide)
  have ha := root_anc c h r hr x (hS.state x hx) hxr
  obtain ⟨k, hkp, hsub⟩ := Anc.child_of ha
  have hkc : k ∈ cfg := by
    rcases hsub with e | e
    · rw [← e]; exact hx
    · exact hS.up_anc e hx
  have : k = leaf := hS.compound r hrc hkr k leaf hkp hp hkc hl
  subst this
  rcases hsub with e | e
  · exact e
  · -- the final state would have a child
    exfalso
    have hasch : ∃ ch, c.parentFor ch = some k := by
      cases e with
      | base hq => exact ⟨_, hq⟩
      | step hq h' =>
        clear hq
        induction h' with
        | base hq' => exact ⟨_, hq'⟩
        | step _ _ ih => exact ih
    obtain ⟨ch, hch⟩ := hasch
    rcases h.composite ch k hch with e' | e' <;> rw [hk] at e' <;> cases e'

end Sismic

namespace Sismic

/-! ### a transition step keeps the configuration semi-legal -/

theorem sub_of_parent_sub {c : Chart} {x z p : Name} (hp : c.parentFor z = some p) (h : Sub c x p) : Sub c x z := by
  rcases h with h | h
  · right; rw [h] at hp; exact Anc.base hp
  · right; exact Anc.step hp h

/-- every element of the entered path lies in the subtree of `y`, the child of `l` on the way to `t` -/
theorem onPath_sub_y (c : Chart) (hT : TreeOK c) {t l y : Name} (yt : Sub c y t) (yp : c.parentFor y = some l)
    {z : Name} (hzt : Sub c z t) (hlz : Anc c l z) : Sub c y z := by
  rcases yt with hy | hy <;> rcases hzt with hz' | hz'
  · left; rw [← hz', hy]
  · exfalso
    rw [hy] at hz'
    rcases Anc.parent_cases' c hz' yp with e | e
    · rw [e] at hlz; exact Anc.irrefl' c hT hlz
    · exact Anc.asymm' c hT hlz e
  · right; rw [← hz']; exact hy
  · rcases Anc.chain hy hz' with e | e | e
    · left; exact e.symm
    · right; exact e
    · exfalso
      rcases Anc.parent_cases' c e yp with e' | e'
      · rw [e'] at hlz; exact Anc.irrefl' c hT hlz
      · exact Anc.asymm' c hT hlz e'

/-- The situation of `_create_steps` for an external transition `s → t` whose code-LCA is `l`:
    `x` is the child of `l` that is or contains the source, `y` the child of `l` that is or contains
    the target.  Everything active in the subtree of `x` is exited, the path from `y` down to `t` is
    entered. -/
theorem semi_transition (c : Chart) (h : WFChart c) {cfg cfg' : List Name} (hS : Semi c cfg)
    {s t l x y : Name} (xs : Sub c x s) (xp : c.parentFor x = some l) (yt : Sub c y t)
    (yp : c.parentFor y = some l) (ht : c.hasState t = true) (hs : s ∈ cfg)
    (hl : c.kindOf l = some .compound ∨ (c.kindOf l = some .orthogonal ∧ x = y))
    (hm : ∀ z, z ∈ cfg' ↔ (z ∈ cfg ∧ ¬ Sub c x z) ∨ (Sub c z t ∧ Anc c l z)) (hn : cfg'.Nodup) :
    Semi c cfg' := by
  have hT := h.tree
  have hx_act : x ∈ cfg := by
    rcases xs with e | e
    · rw [← e]; exact hs
    · exact hS.up_anc e hs
  have hl_act : l ∈ cfg := hS.up x hx_act l xp
  have hl_notsub : ¬ Sub c x l := by
    rintro (e | e)
    · have : Anc c l x := Anc.base xp
      rw [e] at this; exact Anc.irrefl' c hT this
    · exact Anc.asymm' c hT e (Anc.base xp)
  have hy_act_eq : y ∈ cfg → y = x := by
    intro hy
    rcases hl with hk | ⟨_, he⟩
    · exact hS.compound l hl_act hk y x yp xp hy hx_act
    · exact he.symm
  refine ⟨?_, ?_, ?_, ?_, hn⟩
  · intro r hr
    refine (hm r).mpr (Or.inl ⟨hS.root r hr, ?_⟩)
    obtain ⟨r', hr', hpr, _⟩ := h.root
    rw [hr] at hr'; cases hr'
    rintro (e | e)
    · rw [e, xp] at hpr; cases hpr
    · cases e with
      | base hq => rw [hpr] at hq; cases hq
      | step hq _ => rw [hpr] at hq; cases hq
  · intro z hz
    rcases (hm z).mp hz with ⟨hz', _⟩ | ⟨hzt, _⟩
    · exact hS.state z hz'
    · rcases hzt with e | e
      · rw [← e]; exact ht
      · cases e with
        | base hq => exact (h.parentState _ _ hq).2
        | step hq h' =>
          clear hq
          induction h' with
          | base hq' => exact (h.parentState _ _ hq').2
          | step _ _ ih => exact ih
  · intro z hz p hp
    rcases (hm z).mp hz with ⟨hz', hnz⟩ | ⟨hzt, hlz⟩
    · refine (hm p).mpr (Or.inl ⟨hS.up z hz' p hp, ?_⟩)
      intro hsub
      exact hnz (sub_of_parent_sub hp hsub)
    · have hpt : Anc c p t := by
        rcases hzt with e | e
        · rw [e]; exact Anc.base hp
        · exact (Anc.base hp).trans e
      rcases Anc.parent_cases' c hlz hp with e | e
      · rw [← e]; exact (hm l).mpr (Or.inl ⟨hl_act, hl_notsub⟩)
      · exact (hm p).mpr (Or.inr ⟨Or.inr hpt, e⟩)
  · intro z _ hk a b ha hb haa hbb
    have clash : ∀ a b, c.parentFor a = some z → c.parentFor b = some z →
        (a ∈ cfg ∧ ¬ Sub c x a) → (Sub c b t ∧ Anc c l b) → False := by
      intro a b ha hb ⟨hact, hcn⟩ hpath
      have hz_act : z ∈ cfg := hS.up a hact z ha
      rcases Anc.parent_cases' c hpath.2 hb with e | e
      · subst e
        rcases hl with hk' | ⟨hk', _⟩
        · have : a = x := hS.compound l hl_act hk' a x ha xp hact hx_act
          exact hcn (Or.inl this)
        · rw [hk'] at hk; cases hk
      · have hzt : Sub c z t := by
          right
          rcases hpath.1 with e' | e'
          · rw [e']; exact Anc.base hb
          · exact (Anc.base hb).trans e'
        have hzy : Sub c y z := onPath_sub_y c hT yt yp hzt e
        have hy_act : y ∈ cfg := by
          rcases hzy with e' | e'
          · rw [← e']; exact hz_act
          · exact hS.up_anc e' hz_act
        have hyx := hy_act_eq hy_act
        rw [hyx] at hzy
        exact hcn (sub_of_parent_sub ha hzy)
    rcases (hm a).mp haa with h1 | h1 <;> rcases (hm b).mp hbb with h2 | h2
    · exact hS.compound z (hS.up a h1.1 z ha) hk a b ha hb h1.1 h2.1
    · exact (clash a b ha hb h1 h2).elim
    · exact (clash b a hb ha h2 h1).elim
    · have key : ∀ a b, c.parentFor a = some z → c.parentFor b = some z → Anc c a b → False := by
        intro a b ha hb hab
        rcases Anc.parent_cases' c hab hb with e | e
        · rw [e] at ha; exact Anc.irrefl' c hT (Anc.base ha)
        · exact Anc.asymm' c hT e (Anc.base ha)
      rcases h1.1 with e1 | e1 <;> rcases h2.1 with e2 | e2
      · rw [← e1, ← e2]
      · exfalso; rw [e1] at e2; exact key b a hb ha e2
      · exfalso; rw [e2] at e1; exact key a b ha hb e1
      · rcases Anc.chain e1 e2 with e | e | e
        · exact e
        · exact (key a b ha hb e).elim
        · exact (key b a hb ha e).elim

end Sismic

namespace Sismic

/-- only the path from the root to `t` is active (transition from or to the root state) -/
theorem semi_path (c : Chart) (h : WFChart c) {cfg' : List Name} {t : Name} (ht : c.hasState t = true)
    (hm : ∀ z, z ∈ cfg' ↔ Sub c z t) (hn : cfg'.Nodup) : Semi c cfg' := by
  have hT := h.tree
  refine ⟨?_, ?_, ?_, ?_, hn⟩
  · intro r hr
    by_cases e : t = r
    · exact (hm r).mpr (Or.inl e)
    · exact (hm r).mpr (Or.inr (root_anc c h r hr t ht e))
  · intro z hz
    rcases (hm z).mp hz with e | e
    · rw [← e]; exact ht
    · cases e with
      | base hq => exact (h.parentState _ _ hq).2
      | step hq h' =>
        clear hq
        induction h' with
        | base hq' => exact (h.parentState _ _ hq').2
        | step _ _ ih => exact ih
  · intro z hz p hp
    refine (hm p).mpr (Or.inr ?_)
    rcases (hm z).mp hz with e | e
    · rw [e]; exact Anc.base hp
    · exact (Anc.base hp).trans e
  · intro z _ _ a b ha hb haa hbb
    have key : ∀ a b, c.parentFor a = some z → c.parentFor b = some z → Anc c a b → False := by
      intro a b ha hb hab
      rcases Anc.parent_cases' c hab hb with e | e
      · rw [e] at ha; exact Anc.irrefl' c hT (Anc.base ha)
      · exact Anc.asymm' c hT e (Anc.base ha)
    rcases (hm a).mp haa with e1 | e1 <;> rcases (hm b).mp hbb with e2 | e2
    · rw [← e1, ← e2]
    · exfalso; rw [e1] at e2; exact key b a hb ha e2
    · exfalso; rw [e2] at e1; exact key a b ha hb e1
    · rcases Anc.chain e1 e2 with e | e | e
      · exact e
      · exact (key a b ha hb e).elim
      · exact (key b a hb ha e).elim

/-- the configuration of a freshly initialised interpreter: the root alone -/
theorem semi_root (c : Chart) (h : WFChart c) (r : Name) (hr : c.root = some r) : Semi c [r] := by
  obtain ⟨r', hr', hpr, hst⟩ := h.root
  rw [hr] at hr'; cases hr'
  refine ⟨?_, ?_, ?_, ?_, by simp⟩
  · intro r' hr''; rw [hr] at hr''; cases hr''; simp
  · intro s hs; simp at hs; rw [hs]; exact hst
  · intro s hs p hp; simp at hs; rw [hs, hpr] at hp; cases hp
  · intro z hz _ a b ha hb haa hbb
    simp at haa hbb; rw [haa, hbb]

end Sismic

namespace Sismic

/-! ### the history memory stays re-enterable -/

/-- every recorded memory can be re-entered under the parent of its history state -/
def MemOK (c : Chart) (mem : List (Name × List Name)) : Prop :=
  ∀ hs k l, mem.find? (fun p => p.1 == hs) = some (k, l) → ∀ p, c.parentFor hs = some p → GoodMem c p l

theorem stateD_kind_compound (c : Chart) (n : Name) (h : (c.stateD n).kind = .compound) :
    c.hasState n = true ∧ c.kindOf n = some .compound ∧ (c.stateD n).name = n := by
  unfold Chart.stateD at h ⊢
  cases hs : c.stateFor n with
  | none => rw [hs] at h; cases h
  | some s =>
    rw [hs] at h
    simp only at h
    refine ⟨by simp [Chart.hasState, hs], by simp [Chart.kindOf, hs, h], ?_⟩
    simp only [Chart.stateFor] at hs
    have := List.find?_some hs
    simpa using this

theorem goodMem_deep (c : Chart) (h : WFChart c) {cfg0 : List Name} (hS : Semi c cfg0) (n : Name)
    (hn : c.hasState n = true) :
    GoodMem c n (cfg0.filter (fun x => (c.descendants n).contains x)) := by
  have mem : ∀ x, x ∈ cfg0.filter (fun x => (c.descendants n).contains x) ↔ x ∈ cfg0 ∧ Anc c n x := by
    intro x
    simp only [List.mem_filter, List.contains_iff_mem, mem_descendants c h n hn]
  refine ⟨?_, ?_, ?_⟩
  · intro x hx
    exact ⟨((mem x).mp hx).2, hS.state x ((mem x).mp hx).1⟩
  · intro x hx q hq
    obtain ⟨hxc, hax⟩ := (mem x).mp hx
    rcases Anc.parent_cases' c hax hq with e | e
    · exact Or.inl e.symm
    · exact Or.inr ((mem q).mpr ⟨hS.up x hxc q hq, e⟩)
  · intro w hkw a b ha hb haa hbb
    have h1 := ((mem a).mp haa).1
    have h2 := ((mem b).mp hbb).1
    exact hS.compound w (hS.up a h1 w ha) hkw a b ha hb h1 h2

theorem goodMem_shallow (c : Chart) (h : WFChart c) {cfg0 : List Name} (hS : Semi c cfg0) (n : Name) :
    GoodMem c n (cfg0.filter (fun x => (c.childrenFor n).contains x)) := by
  have mem : ∀ x, x ∈ cfg0.filter (fun x => (c.childrenFor n).contains x) ↔ x ∈ cfg0 ∧ c.parentFor x = some n := by
    intro x
    simp only [List.mem_filter, List.contains_iff_mem, h.children n x]
  refine ⟨?_, ?_, ?_⟩
  · intro x hx
    exact ⟨Anc.base ((mem x).mp hx).2, hS.state x ((mem x).mp hx).1⟩
  · intro x hx q hq
    rw [((mem x).mp hx).2] at hq
    exact Or.inl (Option.some.inj hq).symm
  · intro w hkw a b ha hb haa hbb
    have h1 := ((mem a).mp haa).1
    have h2 := ((mem b).mp hbb).1
    exact hS.compound w (hS.up a h1 w ha) hkw a b ha hb h1 h2

theorem find_saveMem (c : Chart) (cfg0 : List Name) (s : StateDef) (hs : Name) (k : Name) (l : List Name) :
    ∀ (rest : List Name) (mem : List (Name × List Name)),
      (saveMem c cfg0 s mem rest).find? (fun p => p.1 == hs) = some (k, l) →
      mem.find? (fun p => p.1 == hs) = some (k, l) ∨ (hs ∈ rest ∧ memoryOf c cfg0 s hs = .ok (some l))
  | [], mem, h => Or.inl h
  | ch :: rest, mem, h => by
    simp only [saveMem] at h
    split at h
    · next a ha =>
      rcases find_saveMem c cfg0 s hs k l rest _ h with h1 | h1
      · by_cases e : ch = hs
        · subst e
          have := memGet_assocSet_same ch a mem
          simp only [memGet] at this
          rw [this] at h1
          simp only [Option.some.injEq, Prod.mk.injEq] at h1
          exact Or.inr ⟨List.mem_cons_self, by rw [ha, h1.2]⟩
        · have := memGet_assocSet_other ch hs a e mem
          simp only [memGet] at this
          rw [this] at h1
          exact Or.inl h1
      · exact Or.inr ⟨List.mem_cons_of_mem _ h1.1, h1.2⟩
    · rcases find_saveMem c cfg0 s hs k l rest _ h with h1 | h1
      · exact Or.inl h1
      · exact Or.inr ⟨List.mem_cons_of_mem _ h1.1, h1.2⟩

theorem memOK_exitPure (c : Chart) (h : WFChart c) {cfg0 : List Name} (hS : Semi c cfg0)
    (cm : List Name × List (Name × List Name)) (n : Name) (hM : MemOK c cm.2) :
    MemOK c (exitPure c cfg0 cm n).2 := by
  simp only [exitPure]
  split
  · next hk =>
    have hk' : (c.stateD n).kind = .compound := by simpa using hk
    obtain ⟨hst, _, hname⟩ := stateD_kind_compound c n hk'
    intro hs k l hf p hp
    rcases find_saveMem c cfg0 _ hs k l _ _ hf with h1 | ⟨hin, hmo⟩
    · exact hM hs k l h1 p hp
    · have hpn : c.parentFor hs = some n := (h.children n hs).mp hin
      rw [hpn] at hp; cases hp
      unfold memoryOf at hmo
      rw [hname] at hmo
      split at hmo
      · split at hmo
        · exact absurd hmo (by simp)
        · simp only [Except.ok.injEq, Option.some.injEq] at hmo
          rw [← hmo]; exact goodMem_deep c h hS _ hst
      · split at hmo
        · exact absurd hmo (by simp)
        · simp only [Except.ok.injEq, Option.some.injEq] at hmo
          rw [← hmo]; exact goodMem_shallow c h hS _
      · exact absurd hmo (by simp)
      · exact absurd hmo (by simp)
  · exact hM

theorem memOK_applyMicro (c : Chart) (h : WFChart c) (cm : List Name × List (Name × List Name)) (m : Micro)
    (hS : Semi c cm.1) (hM : MemOK c cm.2) : MemOK c (applyMicro c cm m).2 := by
  simp only [applyMicro]
  have : ∀ (ex : List Name) (cm' : List Name × List (Name × List Name)), MemOK c cm'.2 →
      MemOK c (ex.foldl (exitPure c cm.1) cm').2 := by
    intro ex
    induction ex with
    | nil => intro cm' h'; exact h'
    | cons n ex ih => intro cm' h'; exact ih _ (memOK_exitPure c h hS cm' n h')
  exact this m.exited cm hM

theorem mem_applyMicro_noexit (c : Chart) (cm : List Name × List (Name × List Name)) (m : Micro)
    (he : m.exited = []) : (applyMicro c cm m).2 = cm.2 := by
  simp [applyMicro, he]

end Sismic

namespace Sismic

/-! ### `_create_stabilization_step` -/

theorem kindOf_of_stateFor (c : Chart) (n : Name) (sd : StateDef) (h : c.stateFor n = some sd) :
    c.kindOf n = some sd.kind := by simp [Chart.kindOf, h]

theorem leafStep_semi (c : Chart) (h : WFChart c) {cfg : List Name} {mem : List (Name × List Name)}
    (hS : Semi c cfg) (hM : MemOK c mem) {leaf : Name} {m : Micro}
    (hl : leaf ∈ c.leafFor cfg) (hstep : leafStep c mem leaf = some m) :
    (applyMicro c (cfg, mem) m).1 = [] ∨ Semi c (applyMicro c (cfg, mem) m).1 := by
  obtain ⟨hlc, hnoch⟩ := leaf_spec c h cfg leaf hl
  have hn := nodup_applyMicro c (cfg, mem) m hS.nodup
  unfold leafStep at hstep
  cases hsd : c.stateFor leaf with
  | none => rw [hsd] at hstep; exact absurd hstep (by simp)
  | some sd =>
    rw [hsd] at hstep
    have hkind := kindOf_of_stateFor c leaf sd hsd
    simp only at hstep
    split at hstep
    · -- final child of the root
      next hc =>
      simp only [Bool.and_eq_true, beq_iff_eq] at hc
      obtain ⟨hk, hpr⟩ := hc
      obtain ⟨r, hr, _, _⟩ := h.root
      rw [hr] at hpr
      simp only [Option.some.injEq] at hstep
      left
      rw [List.eq_nil_iff_forall_not_mem]
      intro x hx
      rw [mem_applyMicro] at hx
      rw [← hstep, hr] at hx
      simp only [Option.toList_some, List.mem_cons, List.not_mem_nil, or_false, not_or] at hx
      obtain ⟨hxc, hx1, hx2⟩ := hx
      rcases semi_final_only c h hS hr hlc hpr (by rw [hkind, hk]) x hxc with e | e
      · exact hx1 e
      · exact hx2 e
    · split at hstep
      · -- history state
        next _ hh =>
        simp only [Option.some.injEq] at hstep
        obtain ⟨p, m0, hp, hkp, hmem0, hpm0, _⟩ := h.history leaf sd hsd hh
        right
        have hnoch' : ∀ ch, c.parentFor ch ≠ some leaf := by
          intro ch hch
          rcases h.composite ch leaf hch with e | e <;> rw [hkind] at e <;>
            (simp only [Option.some.injEq] at e; rw [e] at hh; exact absurd hh (by decide))
        cases hfind : mem.find? (fun p => p.1 == leaf) with
        | some kl =>
          obtain ⟨k, l⟩ := kl
          rw [hfind] at hstep
          simp only at hstep
          apply semi_restore c h hS hlc hp hkp hnoch' (hM leaf k l hfind p hp) _ hn
          intro x
          rw [mem_applyMicro, ← hstep]
          simp only [List.mem_singleton, mem_isort]
        | none =>
          rw [hfind, hmem0] at hstep
          simp only at hstep
          have hgood : GoodMem c p [m0] := by
            refine ⟨?_, ?_, ?_⟩
            · intro x hx; simp at hx; rw [hx]; exact ⟨Anc.base hpm0, (h.parentState m0 p hpm0).1⟩
            · intro x hx q hq; simp at hx; rw [hx, hpm0] at hq; exact Or.inl (Option.some.inj hq).symm
            · intro w _ a b _ _ haa hbb; simp at haa hbb; rw [haa, hbb]
          apply semi_restore c h hS hlc hp hkp hnoch' hgood _ hn
          intro x
          rw [mem_applyMicro, ← hstep]
          simp only [List.mem_singleton, mem_isort, Option.toList_some]
      · split at hstep
        · -- orthogonal leaf: enter all its children
          next _ _ ho =>
          simp only [Option.some.injEq] at hstep
          simp only [Bool.and_eq_true, beq_iff_eq] at ho
          right
          apply semi_enter_regions c h hS hlc (by rw [hkind, ho.1]) (c.childrenFor leaf)
            (fun x hx => (h.children leaf x).mp hx) _ hn
          intro x
          rw [mem_applyMicro, ← hstep]
          simp [mem_isort]
        · split at hstep
          · -- compound leaf: enter its initial state
            next _ _ _ hcmp =>
            simp only [Option.some.injEq] at hstep
            simp only [Bool.and_eq_true, beq_iff_eq] at hcmp
            obtain ⟨i, hi, hpi⟩ := h.initial leaf sd hsd hcmp.1
            right
            apply semi_enter_initial c h hS hlc hnoch hpi _ hn
            intro x
            rw [mem_applyMicro, ← hstep, hi]
            simp
          · exact absurd hstep (by simp)

theorem completeStep_semi (c : Chart) (h : WFChart c) {cfg : List Name} {mem : List (Name × List Name)}
    (hS : Semi c cfg) {n : Name} {m : Micro} (hn' : n ∈ cfg) (hstep : completeStep c cfg n = some m) :
    Semi c (applyMicro c (cfg, mem) m).1 := by
  have hn := nodup_applyMicro c (cfg, mem) m hS.nodup
  unfold completeStep at hstep
  split at hstep
  · next hk =>
    simp only at hstep
    split at hstep
    · exact absurd hstep (by simp)
    · simp only [Option.some.injEq] at hstep
      apply semi_enter_regions c h hS hn' (by simpa using hk)
        ((c.childrenFor n).filter (fun x => !cfg.contains x))
        (fun x hx => (h.children n x).mp (List.mem_filter.mp hx).1) _ hn
      intro x
      rw [mem_applyMicro, ← hstep]
      simp [mem_isort]
  · exact absurd hstep (by simp)

/-- **a stabilisation step keeps the configuration semi-legal (or empties it: final)** -/
theorem stabilizationStep_semi (c : Chart) (h : WFChart c) {cfg : List Name} {mem : List (Name × List Name)}
    (hS : Semi c cfg) (hM : MemOK c mem) {m : Micro} (hstep : stabilizationStep c mem cfg = some m) :
    (applyMicro c (cfg, mem) m).1 = [] ∨ Semi c (applyMicro c (cfg, mem) m).1 := by
  unfold stabilizationStep at hstep
  split at hstep
  · next m' hf =>
    simp only [Option.some.injEq] at hstep
    subst hstep
    obtain ⟨leaf, hleaf, hls⟩ := List.exists_of_findSome?_eq_some hf
    exact leafStep_semi c h hS hM ((mem_isort _ _ _).mp hleaf) hls
  · obtain ⟨n, hn, hcs⟩ := List.exists_of_findSome?_eq_some hstep
    exact Or.inr (completeStep_semi c h hS ((mem_isort _ _ _).mp hn) hcs)

end Sismic

namespace Sismic

/-! ### `_create_steps` -/

/-- without an LCA the walk up ends at the root -/
theorem lastBefore_none (c : Chart) (h : WFChart c) (r : Name) (hr : c.root = some r) :
    ∀ s, c.hasState s = true → lastBefore c s none = r := by
  obtain ⟨rk, hrk, _⟩ := h.tree.rank
  have aux : ∀ n s, rk s < n → c.hasState s = true → lastBeforeGo none s (c.ancestors s) = r := by
    intro n
    induction n with
    | zero => intro s hs; omega
    | succ n ih =>
      intro s hs hst
      rw [ancestors_unfold c h.tree s]
      cases hp : c.parentFor s with
      | none =>
        simp only [lastBeforeGo]
        by_cases e : s = r
        · exact e
        · obtain ⟨p, hp'⟩ := h.nonroot s hst (by rw [hr]; exact fun e' => e (Option.some.inj e').symm)
          rw [hp] at hp'; cases hp'
      | some p =>
        simp only [lastBeforeGo]
        have : (some p == (none : Option Name)) = false := rfl
        simp only [this, Bool.false_eq_true, if_false]
        exact ih p (by have := hrk s p hp; omega) (h.parentState s p hp).2
  intro s hst
  exact aux (rk s + 1) s (Nat.lt_succ_self _) hst

/-- a step planned in configuration `cfg0` and applied to `cfg`, which agrees with `cfg0` on the
    subtree the step exits -/
theorem createStep_semi_gen (c : Chart) (h : WFChart c) {cfg cfg0 : List Name} (mem : List (Name × List Name))
    (hS : Semi c cfg) {t : Trans} (ht : t ∈ c.transitions) (hs : t.source ∈ cfg) (ev : Option Event)
    (hag : ∀ tg, t.target = some tg → ∀ z, Sub c (lastBefore c t.source (c.lca t.source tg)) z →
      (z ∈ cfg ↔ z ∈ cfg0)) :
    Semi c (applyMicro c (cfg, mem) (createStep c cfg0 ev t)).1 := by
  have hn := nodup_applyMicro c (cfg, mem) (createStep c cfg0 ev t) hS.nodup
  obtain ⟨hsrc, htgt⟩ := h.transitions t ht
  unfold createStep at hn ⊢
  cases htg : t.target with
  | none =>
    simp only [htg] at hn ⊢
    exact hS.congr hn (fun x => by rw [mem_applyMicro]; simp)
  | some tg =>
    simp only [htg] at hn ⊢
    have htgs := htgt tg htg
    have hag := hag tg htg
    cases hl : c.lca t.source tg with
    | some l =>
      simp only [hl] at hn hag ⊢
      obtain ⟨hls, hlt, _⟩ := lca_spec c h.tree _ _ l hl
      obtain ⟨xp, xs⟩ := lastBefore_spec c h.tree t.source l hls
      obtain ⟨yp, ys⟩ := lastBefore_spec c h.tree tg l hlt
      have hxst : c.hasState (lastBefore c t.source (some l)) = true := (h.parentState _ _ xp).1
      have hkl : c.kindOf l = some .compound ∨
          (c.kindOf l = some .orthogonal ∧ lastBefore c t.source (some l) = lastBefore c tg (some l)) := by
        rcases h.composite _ l xp with e | e
        · exact Or.inl e
        · exact Or.inr ⟨e, h.noCross t ht tg l htg hl e⟩
      apply semi_transition c h hS (s := t.source) (t := tg) (l := l)
        (x := lastBefore c t.source (some l)) (y := lastBefore c tg (some l))
        (xs.elim (fun e => Or.inl e.symm) Or.inr) xp (ys.elim (fun e => Or.inl e.symm) Or.inr) yp htgs hs hkl _ hn
      intro z
      rw [mem_applyMicro]
      have hent := mem_enteredPath c h.tree tg l hlt z
      unfold enteredPath at hent
      simp only
      rw [hent]
      have hex : z ∈ (List.filter cfg0.contains (isort c.leRevDepthName (c.descendants (lastBefore c t.source (some l)))) ++
            if cfg0.contains (lastBefore c t.source (some l)) = true then [lastBefore c t.source (some l)] else []) ↔
          z ∈ cfg0 ∧ Sub c (lastBefore c t.source (some l)) z := by
        simp only [List.mem_append, List.mem_filter, mem_isort, List.contains_iff_mem,
          mem_descendants c h _ hxst, Sub]
        constructor
        · rintro (⟨h1, h2⟩ | h1)
          · exact ⟨h2, Or.inr h1⟩
          · split at h1
            · next hc => simp only [List.mem_singleton] at h1; rw [h1]; exact ⟨hc, Or.inl rfl⟩
            · simp at h1
        · rintro ⟨h1, e | e⟩
          · right; rw [e] at h1; simp [h1, e]
          · left; exact ⟨e, h1⟩
      constructor
      · rintro (⟨h1, h2⟩ | h1)
        · exact Or.inl ⟨h1, fun hsub => h2 (hex.mpr ⟨(hag z hsub).mp h1, hsub⟩)⟩
        · exact Or.inr ⟨h1.1.elim (fun e => Or.inl e.symm) Or.inr, h1.2⟩
      · rintro (⟨h1, h2⟩ | h1)
        · exact Or.inl ⟨h1, fun hin => h2 (hex.mp hin).2⟩
        · exact Or.inr ⟨h1.1.elim (fun e => Or.inl e.symm) Or.inr, h1.2⟩
    | none =>
      simp only [hl] at hn hag ⊢
      obtain ⟨r, hr, _, _⟩ := h.root
      have hlb := lastBefore_none c h r hr t.source hsrc
      rw [hlb] at hag
      apply semi_path c h htgs _ hn
      intro z
      rw [mem_applyMicro, hlb]
      have hrst : c.hasState r = true := by obtain ⟨r', hr', _, hst⟩ := h.root; rw [hr] at hr'; cases hr'; exact hst
      simp only [List.mem_append, List.mem_reverse, List.mem_singleton]
      have htw : ∀ l : List Name, l.takeWhile (fun x => some x != (none : Option Name)) = l := by
        intro l
        induction l with
        | nil => rfl
        | cons a as ih =>
          have : (some a != (none : Option Name)) = true := rfl
          simp only [List.takeWhile_cons, this, if_true, ih]
      rw [htw, mem_ancestors c h.tree]
      constructor
      · rintro (⟨h1, h2⟩ | h1 | h1)
        · exfalso
          apply h2
          simp only [List.mem_append, List.mem_filter, mem_isort, List.contains_iff_mem, mem_descendants c h r hrst]
          by_cases e : z = r
          · right
            have : r ∈ cfg0 := (hag r (Or.inl rfl)).mp (hS.root r hr)
            rw [e]; simp [this]
          · have ha := root_anc c h r hr z (hS.state z h1) e
            left; exact ⟨ha, (hag z (Or.inr ha)).mp h1⟩
        · exact Or.inr h1
        · exact Or.inl h1.symm
      · rintro (e | e)
        · exact Or.inr (Or.inr e.symm)
        · exact Or.inr (Or.inl e)


theorem createStep_semi (c : Chart) (h : WFChart c) {cfg : List Name} (mem : List (Name × List Name))
    (hS : Semi c cfg) {t : Trans} (ht : t ∈ c.transitions) (hs : t.source ∈ cfg) (ev : Option Event) :
    Semi c (applyMicro c (cfg, mem) (createStep c cfg ev t)).1 :=
  createStep_semi_gen c h mem hS ht hs ev (fun _ _ _ _ => Iff.rfl)

end Sismic

namespace Sismic

/-! ### semi-legal and stable ⇒ legal -/

theorem length_le_one_of_all_eq {α} (l : List α) (hn : l.Nodup) (h : ∀ a ∈ l, ∀ b ∈ l, a = b) : l.length ≤ 1 := by
  match l, hn, h with
  | [], _, _ => simp
  | [_], _, _ => simp
  | a :: b :: r, hn, h =>
    exfalso
    have e : a = b := h a (by simp) b (by simp)
    rw [e] at hn
    simp at hn

theorem semi_stable_legal (c : Chart) (h : WFChart c) {cfg : List Name} {mem : List (Name × List Name)}
    (hS : Semi c cfg) (hst : stabilizationStep c mem cfg = none) : Legal c cfg := by
  unfold stabilizationStep at hst
  have hleafs : ∀ leaf ∈ c.leafFor cfg, leafStep c mem leaf = none := by
    intro leaf hl
    cases hf : (isort c.leRevDepthName (c.leafFor cfg)).findSome? (leafStep c mem) with
    | some m => rw [hf] at hst; exact absurd hst (by simp)
    | none => exact List.findSome?_eq_none_iff.mp hf leaf ((mem_isort _ _ _).mpr hl)
  have hcompl : ∀ n ∈ cfg, completeStep c cfg n = none := by
    intro n hn
    cases hf : (isort c.leRevDepthName (c.leafFor cfg)).findSome? (leafStep c mem) with
    | some m => rw [hf] at hst; exact absurd hst (by simp)
    | none =>
      rw [hf] at hst
      exact List.findSome?_eq_none_iff.mp hst n ((mem_isort _ _ _).mpr hn)
  -- an active state without active children is a leaf for `leaf_for`
  have isLeaf : ∀ z ∈ cfg, (∀ ch, c.parentFor ch = some z → ch ∉ cfg) → z ∈ c.leafFor cfg := by
    intro z hz hno
    simp only [Chart.leafFor, List.mem_filter, Bool.not_eq_true', List.any_eq_false, List.contains_iff_mem]
    refine ⟨hz, ?_⟩
    intro x hx hxc
    have hax := (mem_descendants c h z (hS.state z hz) x).mp hx
    obtain ⟨k, hk, hsub⟩ := Anc.child_of hax
    have hxc' : x ∈ cfg := by simpa using hxc
    have : k ∈ cfg := by
      rcases hsub with e | e
      · rw [← e]; exact hxc'
      · exact hS.up_anc e hxc'
    exact hno k hk this
  refine ⟨hS.root, hS.state, hS.up, ?_, ?_, ?_, hS.nodup⟩
  · intro z hz sd hsd hk
    have hkz : c.kindOf z = some .compound := by rw [kindOf_of_stateFor c z sd hsd, hk]
    have hle : ((c.childrenFor z).filter cfg.contains).length ≤ 1 := by
      apply length_le_one_of_all_eq _ ((h.childrenNodup z).filter _)
      intro a ha b hb
      simp only [List.mem_filter, List.contains_iff_mem] at ha hb
      exact hS.compound z hz hkz a b ((h.children z a).mp ha.1) ((h.children z b).mp hb.1) ha.2 hb.2
    refine ⟨hle, ?_⟩
    intro hi
    by_cases hex : ∃ ch, c.parentFor ch = some z ∧ ch ∈ cfg
    · obtain ⟨ch, hch, hcc⟩ := hex
      have : ch ∈ (c.childrenFor z).filter cfg.contains := by
        simp only [List.mem_filter, List.contains_iff_mem]
        exact ⟨(h.children z ch).mpr hch, hcc⟩
      have := List.length_pos_of_mem this
      omega
    · exfalso
      have hleaf := isLeaf z hz (fun ch hch hcc => hex ⟨ch, hch, hcc⟩)
      have := hleafs z hleaf
      have hfin : (sd.kind == Kind.final) = false := by rw [hk]; rfl
      have hhis : sd.kind.isHistory = false := by rw [hk]; rfl
      have hort : (sd.kind == Kind.orthogonal) = false := by rw [hk]; rfl
      have hcmp : (sd.kind == Kind.compound) = true := by rw [hk]; rfl
      simp [leafStep, hsd, hfin, hhis, hort, hcmp, hi] at this
  · intro z hz hk ch hch
    have := hcompl z hz
    simp only [completeStep, hk, beq_self_eq_true, if_true] at this
    split at this
    · next he =>
      have hemp : (c.childrenFor z).filter (fun x => !cfg.contains x) = [] := by
        have hp := isort_perm leName ((c.childrenFor z).filter (fun x => !cfg.contains x))
        have : isort leName ((c.childrenFor z).filter (fun x => !cfg.contains x)) = [] := by
          simpa using he
        rw [this] at hp
        exact hp.symm.eq_nil
      by_cases hnc : ch ∈ cfg
      · exact hnc
      exfalso
      have : ch ∈ (c.childrenFor z).filter (fun x => !cfg.contains x) := by
        simp only [List.mem_filter, Bool.not_eq_true']
        exact ⟨hch, by simpa using hnc⟩
      rw [hemp] at this
      simp at this
    · exact absurd this (by simp)
  · intro s hs k hk
    cases hkk : k.isHistory with
    | false => rfl
    | true =>
      exfalso
      have hnoch : ∀ ch, c.parentFor ch = some s → ch ∉ cfg := by
        intro ch hch
        rcases h.composite ch s hch with e | e <;> rw [hk] at e <;>
          (simp only [Option.some.injEq] at e; rw [e] at hkk; exact absurd hkk (by decide))
      have hleaf := isLeaf s hs hnoch
      have := hleafs s hleaf
      simp only [Chart.kindOf, Option.map_eq_some_iff] at hk
      obtain ⟨sd, hsd, hkd⟩ := hk
      have hfin : (sd.kind == Kind.final) = false := by
        rw [hkd]; cases k <;> simp_all [Kind.isHistory]
      simp [leafStep, hsd, hfin, hkd, hkk] at this
      split at this <;> exact absurd this (by simp)

end Sismic

namespace Sismic

/-! ### the invariant along a macro step -/

/-- configuration empty (not started, or final) or semi-legal; memory re-enterable -/
def SInv (c : Chart) (cm : List Name × List (Name × List Name)) : Prop :=
  (cm.1 = [] ∨ Semi c cm.1) ∧ MemOK c cm.2

theorem stabilization_nil (c : Chart) (mem : List (Name × List Name)) : stabilizationStep c mem [] = none := by
  simp [stabilizationStep, Chart.leafFor, isort]

theorem stabChain_inv (c : Chart) (h : WFChart c) : ∀ (stab : List Micro) (cm : List Name × List (Name × List Name)),
    SInv c cm → StabChain c cm stab → SInv c (applyMicros c cm stab)
  | [], cm, hi, _ => hi
  | m :: ms, cm, hi, hc => by
    obtain ⟨s, hs, hshape, hrest⟩ := hc
    have e1 : applyMicros c cm (m :: ms) = applyMicros c (applyMicro c cm s) ms := by
      simp only [applyMicros, List.foldl_cons]
      rw [applyMicro_shape c cm m s hshape]
    rw [e1]
    apply stabChain_inv c h ms _ _ hrest
    rcases hi.1 with he | hS
    · rw [he, stabilization_nil] at hs; exact absurd hs (by simp)
    · exact ⟨stabilizationStep_semi c h hS hi.2 hs, memOK_applyMicro c h cm s hS hi.2⟩

theorem sortTransitions_mem (c : Chart) (ts r : List Trans) (h : sortTransitions c ts = .ok r) (t : Trans) :
    t ∈ r ↔ t ∈ ts := by
  unfold sortTransitions at h
  split at h
  · simp only [Except.ok.injEq] at h; rw [h]
  · split at h
    · exact absurd h (by simp)
    · split at h
      · exact absurd h (by simp)
      · simp only [Except.ok.injEq] at h; rw [← h]; exact mem_isort _ _ _

theorem legal_semi (c : Chart) (h : WFChart c) {cfg : List Name} (hL : Legal c cfg) : Semi c cfg := by
  refine ⟨hL.root, hL.state, hL.up, ?_, hL.nodup⟩
  intro z hz hk a b ha hb haa hbb
  simp only [Chart.kindOf, Option.map_eq_some_iff] at hk
  obtain ⟨sd, hsd, hkd⟩ := hk
  have hle := (hL.compound z hz sd hsd hkd).1
  have ma : a ∈ (c.childrenFor z).filter cfg.contains := by
    simp only [List.mem_filter, List.contains_iff_mem]; exact ⟨(h.children z a).mpr ha, haa⟩
  have mb : b ∈ (c.childrenFor z).filter cfg.contains := by
    simp only [List.mem_filter, List.contains_iff_mem]; exact ⟨(h.children z b).mpr hb, hbb⟩
  match hf : (c.childrenFor z).filter cfg.contains, hle, ma, mb with
  | [], _, ma, _ => simp at ma
  | [x], _, ma, mb => simp at ma mb; rw [ma, mb]
  | x :: y :: r, hle, _, _ => simp at hle

end Sismic

namespace Sismic

theorem selected_enabled (c : Chart) (hT : TreeOK c) (cfg : List Name) (evName : Option String)
    (ok : Trans → Bool → Bool) (t : Trans) (h : t ∈ (selectTransitions c cfg evName ok).selected) :
    t ∈ c.transitions ∧ t.source ∈ cfg := by
  have hf := (select_iff_fires c cfg evName ok hT t).mp h
  exact ⟨hf.1.1.1, hf.1.1.2.1⟩

/-- a planned step (initialised interpreter, at most one step planned) keeps the invariant -/
theorem planned_inv {σ : Type} (c : Chart) (h : WFChart c) (E : Evaluator σ) (st : IState σ) (p : Micro)
    (hp : planOf c E st = .ok [p]) (hi : SInv c (st.config, st.memory)) :
    SInv c (applyMicro c (st.config, st.memory) p) := by
  unfold planOf at hp
  simp only at hp
  split at hp
  · -- nothing selected: the event alone is consumed
    split at hp
    · exact absurd hp (by simp)
    · simp only [Except.ok.injEq, List.cons.injEq, and_true] at hp
      subst hp
      exact hi
  · next hne =>
    split at hp
    · exact absurd hp (by simp)
    · next ts hts =>
      simp only [Except.ok.injEq, createSteps] at hp
      match ts, hts, hp with
      | [], _, hp => simp at hp
      | [t], hts, hp =>
        simp only [List.map_cons, List.map_nil, List.cons.injEq, and_true] at hp
        have hsel : t ∈ (selectTransitions c st.config ((peekEvent st).map (·.name)) (guardOk E st (peekEvent st))).selected :=
          (sortTransitions_mem c _ _ hts t).mp (by simp)
        obtain ⟨htr, hsrc⟩ := selected_enabled c h.tree _ _ _ t hsel
        rcases hi.1 with he | hS
        · simp only at he; rw [he] at hsrc; simp at hsrc
        · rw [← hp]
          exact ⟨Or.inr (createStep_semi c h st.memory hS htr hsrc _), memOK_applyMicro c h _ _ hS hi.2⟩
      | _ :: _ :: _, _, hp => simp at hp

end Sismic
