import Sismic.Proofs.EquivPlan
import Sismic.Proofs.Hoare
import Sismic.Proofs.C01
import Mathlib.Data.List.Forall2
/-!
# Sismic.Proofs.EquivRun — the interpreter commutes with a relabelling of the statechart

Two runs: `env` on a statechart `c`, `env'` on `c'` = `c` with every state name substituted by `ρ`
(injective and order-preserving on the names `c` mentions) and every transition re-identified by
`ι` (`IsRen ρ ι c c'`).  The evaluators and the listeners of the two runs cannot tell the
difference (`EvalR`, `DelivR`: what they answer for an object is what they answer for the
relabelled object in the relabelled state).  Then every function of the interpreter, and
`execute_once` as a whole, returns the relabelled result — the same macro step with the names
substituted, or the same exception about the relabelled object — and leaves related states
(`RSR`): the same queues, times, sent events and outside world, configuration, history memory and
recorded times substituted, effect logs related entry by entry.
-/
namespace Sismic
open M

variable {σ ω : Type}

/-! ### relabelling the run-time objects -/

def ObjId.ren (ρ : Name → Name) (ι : Nat → Nat) : ObjId → ObjId
  | .state n => .state (ρ n)
  | .trans i => .trans (ι i)

def Obj.ren (ρ : Name → Name) (ι : Nat → Nat) : Obj → Obj
  | .state s => .state (s.rename ρ)
  | .trans t => .trans (t.relabel ρ ι)

theorem Obj.ren_id (ρ : Name → Name) (ι : Nat → Nat) (o : Obj) : (o.ren ρ ι).id = o.id.ren ρ ι := by
  cases o <;> rfl

theorem Obj.ren_conds (ρ : Name → Name) (ι : Nat → Nat) (o : Obj) (k : CondKind) : (o.ren ρ ι).conds k = o.conds k := by
  cases o <;> cases k <;> rfl

def ExecKind.ren (ρ : Name → Name) (ι : Nat → Nat) : ExecKind → ExecKind
  | .onEntry s => .onEntry (s.rename ρ)
  | .onExit s => .onExit (s.rename ρ)
  | .action t => .action (t.relabel ρ ι)

/-- the built-in meta-events that carry state names, and their relabelled versions; anything else
    (in particular what the statechart's own code notifies) is the same in both runs -/
inductive MetaR (ρ : Name → Name) : Event → Event → Prop
  | same (m : Event) : MetaR ρ m m
  | entered (n : Name) :
      MetaR ρ { name := "state entered", data := [("state", .str n)] }
              { name := "state entered", data := [("state", .str (ρ n))] }
  | exited (n : Name) :
      MetaR ρ { name := "state exited", data := [("state", .str n)] }
              { name := "state exited", data := [("state", .str (ρ n))] }
  | processed (s : Name) (tg : Option Name) (ev : Option Event) :
      MetaR ρ { name := "transition processed",
                data := [("source", .str s), ("target", optNameVal tg), ("event", optEventVal ev)] }
              { name := "transition processed",
                data := [("source", .str (ρ s)), ("target", optNameVal (tg.map ρ)), ("event", optEventVal ev)] }

inductive EffR (ρ : Name → Name) (ι : Nat → Nat) : Effect → Effect → Prop
  | guard (i : Nat) (e : Option Event) (r : Option Bool) : EffR ρ ι (.guard i e r) (.guard (ι i) e r)
  | cond (k : CondKind) (o : ObjId) (i : Nat) (e : Option Event) (r : Option Bool) :
      EffR ρ ι (.cond k o i e r) (.cond k (o.ren ρ ι) i e r)
  | onExit (n : Name) : EffR ρ ι (.onExit n) (.onExit (ρ n))
  | onEntry (n : Name) : EffR ρ ι (.onEntry n) (.onEntry (ρ n))
  | action (i : Nat) (e : Option Event) : EffR ρ ι (.action i e) (.action (ι i) e)
  | metaEv (m m' : Event) (h : MetaR ρ m m') : EffR ρ ι (.metaEv m) (.metaEv m')

inductive ErrR (ρ : Name → Name) (ι : Nat → Nat) : Err → Err → Prop
  | pre (o : ObjId) (c : String) : ErrR ρ ι (.precondition o c) (.precondition (o.ren ρ ι) c)
  | post (o : ObjId) (c : String) : ErrR ρ ι (.postcondition o c) (.postcondition (o.ren ρ ι) c)
  | inv (o : ObjId) (c : String) : ErrR ρ ι (.invariant o c) (.invariant (o.ren ρ ι) c)
  | same (e : Err) : ErrR ρ ι e e

theorem ErrR.kind (ρ : Name → Name) (ι : Nat → Nat) (k : CondKind) (o : ObjId) (c : String) :
    ErrR ρ ι (k.err o c) (k.err (o.ren ρ ι) c) := by
  cases k
  · exact .pre o c
  · exact .post o c
  · exact .inv o c

def renKeys {ν : Type} (ρ : Name → Name) (l : List (Name × ν)) : List (Name × ν) := l.map (fun p => (ρ p.1, p.2))

/-- related interpreter states: `C` relates the evaluator states -/
structure StR (ρ : Name → Name) (C : σ → σ → Prop) (st st' : IState σ) : Prop where
  initialized : st'.initialized = st.initialized
  time : st'.time = st.time
  memory : st'.memory = renameMemory ρ st.memory
  config : st'.config = st.config.map ρ
  entryTime : st'.entryTime = renKeys ρ st.entryTime
  idleTime : st'.idleTime = renKeys ρ st.idleTime
  sentEvents : st'.sentEvents = st.sentEvents
  intQ : st'.intQ = st.intQ
  extQ : st'.extQ = st.extQ
  listeners : st'.listeners = st.listeners
  ctx : C st.ctx st'.ctx

/-- every name the state mentions is one of the names in play -/
structure GoodSt (S : Name → Prop) (st : IState σ) : Prop where
  config : ∀ x ∈ st.config, S x
  memK : ∀ p ∈ st.memory, S p.1
  memV : ∀ p ∈ st.memory, ∀ x ∈ p.2, S x
  entryK : ∀ p ∈ st.entryTime, S p.1
  idleK : ∀ p ∈ st.idleTime, S p.1

def RSR (ρ : Name → Name) (ι : Nat → Nat) (C : σ → σ → Prop) (rs rs' : RS σ ω) : Prop :=
  StR ρ C rs.st rs'.st ∧ rs'.world = rs.world ∧ List.Forall₂ (EffR ρ ι) rs.eff rs'.eff

/-- related outcomes: both return related values, or both raise related exceptions; related and
    good states afterwards in either case -/
def OutR (ρ : Name → Name) (ι : Nat → Nat) (C : σ → σ → Prop) (S : Name → Prop) {α α' : Type} (Rv : α → α' → Prop) :
    Except Err α × RS σ ω → Except Err α' × RS σ ω → Prop
  | (.ok a, s), (.ok a', s') => Rv a a' ∧ RSR ρ ι C s s' ∧ GoodSt S s.st
  | (.error e, s), (.error e', s') => ErrR ρ ι e e' ∧ RSR ρ ι C s s' ∧ GoodSt S s.st
  | _, _ => False

/-- `f'` (on the relabelled statechart) does what `f` does, relabelled -/
def EqvM (ρ : Name → Name) (ι : Nat → Nat) (C : σ → σ → Prop) (S : Name → Prop) {α α' : Type} (Rv : α → α' → Prop)
    (f : M σ ω α) (f' : M σ ω α') : Prop :=
  ∀ rs rs', RSR ρ ι C rs rs' → GoodSt S rs.st → OutR ρ ι C S Rv (f rs) (f' rs')

section Logic
variable {ρ : Name → Name} {ι : Nat → Nat} {C : σ → σ → Prop} {S : Name → Prop}
variable {α α' β β' : Type}

theorem EqvM.pure {Rv : α → α' → Prop} {a : α} {a' : α'} (h : Rv a a') :
    EqvM ρ ι C S Rv (M.pure a : M σ ω α) (M.pure a') :=
  fun _ _ hr hg => ⟨h, hr, hg⟩

theorem EqvM.throw {Rv : α → α' → Prop} {e e' : Err} (h : ErrR ρ ι e e') :
    EqvM ρ ι C S Rv (M.throw e : M σ ω α) (M.throw e') :=
  fun _ _ hr hg => ⟨h, hr, hg⟩

theorem EqvM.bind {Rv : α → α' → Prop} {Rw : β → β' → Prop} {f : M σ ω α} {f' : M σ ω α'}
    {g : α → M σ ω β} {g' : α' → M σ ω β'}
    (hf : EqvM ρ ι C S Rv f f') (hg : ∀ a a', Rv a a' → EqvM ρ ι C S Rw (g a) (g' a')) :
    EqvM ρ ι C S Rw (M.bind f g) (M.bind f' g') := by
  intro rs rs' hr hgood
  have h := hf rs rs' hr hgood
  unfold M.bind
  cases h1 : f rs with
  | mk r s =>
    cases h2 : f' rs' with
    | mk r' s' =>
      rw [h1, h2] at h
      cases r with
      | ok a =>
        cases r' with
        | ok a' =>
          obtain ⟨hv, hs, hgd⟩ := h
          exact hg a a' hv s s' hs hgd
        | error e' => exact h.elim
      | error e =>
        cases r' with
        | ok a' => exact h.elim
        | error e' => exact h

/-- both read their state: related, good states -/
theorem EqvM.get : EqvM ρ ι C S (fun st st' => StR ρ C st st' ∧ GoodSt S st) (M.get : M σ ω _) M.get :=
  fun _ _ hr hg => ⟨⟨hr.1, hg⟩, hr, hg⟩

theorem EqvM.modify (f f' : IState σ → IState σ)
    (h : ∀ st st', StR ρ C st st' → GoodSt S st → StR ρ C (f st) (f' st') ∧ GoodSt S (f st)) :
    EqvM ρ ι C S (fun _ _ => True) (M.modify f : M σ ω Unit) (M.modify f') := by
  intro rs rs' hr hg
  obtain ⟨h1, h2⟩ := h rs.st rs'.st hr.1 hg
  exact ⟨trivial, ⟨h1, hr.2.1, hr.2.2⟩, h2⟩

theorem EqvM.emit {e e' : Effect} (h : EffR ρ ι e e') :
    EqvM ρ ι C S (fun _ _ => True) (M.emit e : M σ ω Unit) (M.emit e') := by
  intro rs rs' hr hg
  refine ⟨trivial, ⟨hr.1, hr.2.1, ?_⟩, hg⟩
  exact List.rel_append hr.2.2 (List.Forall₂.cons h List.Forall₂.nil)

theorem EqvM.forEach {γ γ' : Type} {Rg : γ → γ' → Prop} {f : γ → M σ ω Unit} {f' : γ' → M σ ω Unit}
    (hf : ∀ x x', Rg x x' → EqvM ρ ι C S (fun _ _ => True) (f x) (f' x')) :
    ∀ (l : List γ) (l' : List γ'), List.Forall₂ Rg l l' →
      EqvM ρ ι C S (fun _ _ => True) (M.forEach f l) (M.forEach f' l')
  | [], _, h => by cases h; exact EqvM.pure trivial
  | x :: xs, _, h => by
    cases h with
    | cons hx hxs => exact EqvM.bind (hf _ _ hx) (fun _ _ _ => EqvM.forEach hf xs _ hxs)

theorem EqvM.mono {Rv Rv' : α → α' → Prop} {f : M σ ω α} {f' : M σ ω α'} (h : EqvM ρ ι C S Rv f f')
    (hm : ∀ a a', Rv a a' → Rv' a a') : EqvM ρ ι C S Rv' f f' := by
  intro rs rs' hr hg
  have := h rs rs' hr hg
  cases h1 : f rs with
  | mk r s =>
    cases h2 : f' rs' with
    | mk r' s' =>
      rw [h1, h2] at this
      cases r <;> cases r' <;> first | exact this.elim | exact this | exact ⟨hm _ _ this.1, this.2⟩

end Logic

/-! ### the two environments -/

def Obj.owner : Obj → Name
  | .state s => s.name
  | .trans t => t.source

def ExecKind.owner : ExecKind → Name
  | .onEntry s => s.name
  | .onExit s => s.name
  | .action t => t.source

/-- an object of the statechart -/
def ObjOf (c : Chart) : Obj → Prop
  | .state s => s ∈ c.states
  | .trans t => t ∈ c.transitions

/-- a piece of executable code of the statechart -/
def ExecOf (c : Chart) : ExecKind → Prop
  | .onEntry s => s ∈ c.states
  | .onExit s => s ∈ c.states
  | .action t => t ∈ c.transitions

/-- `env'` runs the relabelled statechart, and neither the evaluators nor the listeners can tell — as far
    as the guards, conditions and code *of the statechart* go -/
structure EnvR (ρ : Name → Name) (ι : Nat → Nat) (C : σ → σ → Prop) (S : Name → Prop) (env env' : Env σ ω) : Prop where
  ok : RenOK S ρ
  ren : IsRen ρ ι env.chart env'.chart
  names : NamesIn S env.chart
  initial : ∀ s ∈ env.chart.states, ∀ i, s.initial = some i → S i
  ignore : env'.ignoreContract = env.ignoreContract
  fuel : env'.stabFuel = env.stabFuel
  guard : ∀ st st' t ev, StR ρ C st st' → GoodSt S st → S t.source → t ∈ env.chart.transitions →
    env'.E.guard st' (t.relabel ρ ι) ev = env.E.guard st t ev
  cond : ∀ st st' kind obj code ev, StR ρ C st st' → GoodSt S st → ObjOf env.chart obj → code ∈ obj.conds kind →
    env'.E.cond st' kind (obj.ren ρ ι) code ev = env.E.cond st kind obj code ev
  exec : ∀ st st' k ev, StR ρ C st st' → GoodSt S st → S k.owner → ExecOf env.chart k →
    (env'.E.exec st' (k.ren ρ ι) ev).2 = (env.E.exec st k ev).2 ∧
      C (env.E.exec st k ev).1 (env'.E.exec st' (k.ren ρ ι) ev).1
  freeze : ∀ a a' obj, ObjOf env.chart obj → C a a' → C (env.E.freeze a obj) (env'.E.freeze a' (obj.ren ρ ι))
  deliver : ∀ l m m' t w, MetaR ρ m m' → env'.deliver l m' t w = env.deliver l m t w

section Prims
variable {ρ : Name → Name} {ι : Nat → Nat} {C : σ → σ → Prop} {S : Name → Prop}
variable {env env' : Env σ ω} (h : EnvR ρ ι C S env env')
include h

theorem eqv_callListener {m m' : Event} (hm : MetaR ρ m m') (l : Nat) :
    EqvM ρ ι C S (fun _ _ => True) (callListener env m l) (callListener env' m' l) := by
  intro rs rs' hr hg
  unfold callListener
  have e : env'.deliver l m' rs'.st.time rs'.world = env.deliver l m rs.st.time rs.world := by
    rw [hr.1.time, hr.2.1]; exact h.deliver l m m' _ _ hm
  simp only [e]
  have hfold : ∀ (qs : List Event) (st st' : IState σ), StR ρ C st st' → GoodSt S st →
      StR ρ C (qs.foldl (fun st e => { st with extQ := queueInsert (st.time + e.delay) e st.extQ }) st)
        (qs.foldl (fun st e => { st with extQ := queueInsert (st.time + e.delay) e st.extQ }) st') ∧
      GoodSt S (qs.foldl (fun st e => { st with extQ := queueInsert (st.time + e.delay) e st.extQ }) st) := by
    intro qs
    induction qs with
    | nil => intro st st' h1 h2; exact ⟨h1, h2⟩
    | cons q qs ih =>
      intro st st' h1 h2
      simp only [List.foldl_cons]
      apply ih
      · exact { h1 with extQ := by simp only [h1.extQ, h1.time] }
      · exact ⟨h2.config, h2.memK, h2.memV, h2.entryK, h2.idleK⟩
  obtain ⟨f1, f2⟩ := hfold (env.deliver l m rs.st.time rs.world).2.2 rs.st rs'.st hr.1 hg
  cases hres : (env.deliver l m rs.st.time rs.world).1 with
  | ok u => exact ⟨trivial, ⟨f1, rfl, hr.2.2⟩, f2⟩
  | error e => exact ⟨.same e, ⟨f1, rfl, hr.2.2⟩, f2⟩

theorem eqv_raiseMeta {m m' : Event} (hm : MetaR ρ m m') :
    EqvM ρ ι C S (fun _ _ => True) (raiseMeta env m) (raiseMeta env' m') := by
  unfold raiseMeta
  apply EqvM.bind (EqvM.emit (.metaEv m m' hm))
  intro _ _ _
  apply EqvM.bind EqvM.get
  intro st st' hst
  rw [hst.1.listeners]
  apply EqvM.forEach (Rg := Eq) (fun l l' e => e ▸ eqv_callListener h hm l)
  exact List.forall₂_same.2 (fun _ _ => rfl)

theorem eqv_queueEvent (i : Bool) (e : Event) :
    EqvM ρ ι C S (fun _ _ => True) (queueEvent (σ := σ) (ω := ω) i e) (queueEvent i e) := by
  unfold queueEvent
  apply EqvM.modify
  intro st st' h1 h2
  cases i
  · exact ⟨{ h1 with extQ := by simp only [Bool.false_eq_true, if_false, h1.extQ, h1.time] },
      ⟨h2.config, h2.memK, h2.memV, h2.entryK, h2.idleK⟩⟩
  · exact ⟨{ h1 with intQ := by simp only [if_true, h1.intQ, h1.time] },
      ⟨h2.config, h2.memK, h2.memV, h2.entryK, h2.idleK⟩⟩

theorem eqv_raiseSent (s : Sent) : EqvM ρ ι C S (fun _ _ => True) (raiseSent env s) (raiseSent env' s) := by
  cases s with
  | notify m => exact eqv_raiseMeta h (.same m)
  | «internal» e =>
    unfold raiseSent
    apply EqvM.bind (eqv_queueEvent h true e)
    intro _ _ _
    apply EqvM.bind (eqv_raiseMeta h (.same _))
    intro _ _ _
    split
    · exact eqv_raiseMeta h (.same _)
    · exact EqvM.pure trivial

theorem eqv_raiseAll (sent : List Sent) : EqvM ρ ι C S (fun _ _ => True) (raiseAll env sent) (raiseAll env' sent) := by
  unfold raiseAll
  apply EqvM.forEach (Rg := Eq)
  · intro x x' e
    subst e
    apply EqvM.bind (eqv_raiseSent h x)
    intro _ _ _
    apply EqvM.modify
    intro st st' h1 h2
    exact ⟨{ h1 with sentEvents := by simp only [h1.sentEvents] }, ⟨h2.config, h2.memK, h2.memV, h2.entryK, h2.idleK⟩⟩
  · exact List.forall₂_same.2 (fun _ _ => rfl)

theorem eqv_evalConds (kind : CondKind) (obj : Obj) (hobj : ObjOf env.chart obj) (ev : Option Event) :
    ∀ (codes : List Code) (i : Nat), (∀ c ∈ codes, c ∈ obj.conds kind) →
      EqvM ρ ι C S (fun _ _ => True) (evalConds env kind obj ev i codes) (evalConds env' kind (obj.ren ρ ι) ev i codes)
  | [], _, _ => EqvM.pure trivial
  | c :: rest, i, hcs => by
    unfold evalConds
    apply EqvM.bind EqvM.get
    intro st st' hst
    have e : env'.E.cond st' kind (obj.ren ρ ι) c ev = env.E.cond st kind obj c ev :=
      h.cond st st' kind obj c ev hst.1 hst.2 hobj (hcs c (by simp))
    simp only [e, Obj.ren_id]
    apply EqvM.bind (EqvM.emit (.cond kind obj.id i ev _))
    intro _ _ _
    cases env.E.cond st kind obj c ev with
    | none => exact EqvM.throw (.same _)
    | some b =>
      cases b with
      | false => exact EqvM.throw (ErrR.kind ρ ι kind obj.id c.src)
      | true => exact eqv_evalConds kind obj hobj ev rest (i + 1) (fun x hx => hcs x (by simp [hx]))

theorem eqv_evalContract (kind : CondKind) (obj : Obj) (hobj : ObjOf env.chart obj) (ev : Option Event) :
    EqvM ρ ι C S (fun _ _ => True) (evalContract env kind obj ev) (evalContract env' kind (obj.ren ρ ι) ev) := by
  unfold evalContract
  rw [h.ignore]
  split
  · exact EqvM.pure trivial
  · simp only [Obj.ren_conds]
    apply EqvM.bind (Rv := fun _ _ => True)
    · split
      · apply EqvM.modify
        intro st st' h1 h2
        exact ⟨{ h1 with ctx := h.freeze _ _ obj hobj h1.ctx }, ⟨h2.config, h2.memK, h2.memV, h2.entryK, h2.idleK⟩⟩
      · exact EqvM.pure trivial
    · intro _ _ _
      exact eqv_evalConds h kind obj hobj ev _ 0 (fun _ hc => hc)

theorem eqv_stateObj (n : Name) (hn : S n) :
    EqvM ρ ι C S (fun s s' => s' = s.rename ρ ∧ s.name = n ∧ s ∈ env.chart.states) (stateObj env n) (stateObj env' (ρ n)) := by
  unfold stateObj
  rw [stateFor_mapNames h.ok env.chart h.names h.ren n hn]
  cases hs : env.chart.stateFor n with
  | none => exact EqvM.throw (.same _)
  | some s =>
    refine EqvM.pure ⟨rfl, ?_, List.mem_of_find?_eq_some hs⟩
    have := List.find?_some hs
    simpa using this

theorem eqv_stateObjs : ∀ (ns : List Name), (∀ n ∈ ns, S n) →
    EqvM ρ ι C S (fun l l' => l' = l.map (StateDef.rename ρ) ∧ l.map (·.name) = ns ∧ ∀ s ∈ l, s ∈ env.chart.states)
      (stateObjs env ns) (stateObjs env' (ns.map ρ))
  | [], _ => EqvM.pure ⟨rfl, rfl, by simp⟩
  | n :: ns, hn => by
    simp only [List.map_cons, stateObjs]
    apply EqvM.bind (eqv_stateObj h n (hn n (by simp)))
    intro s s' ⟨hs, hname, hmem⟩
    apply EqvM.bind (eqv_stateObjs ns (fun x hx => hn x (by simp [hx])))
    intro l l' ⟨hl, hnames, hmems⟩
    refine EqvM.pure ⟨by simp [hs, hl], by simp [hname, hnames], ?_⟩
    intro x hx
    rcases List.mem_cons.1 hx with e | hx
    · exact e ▸ hmem
    · exact hmems x hx

theorem eqv_runCode (k : ExecKind) (hk : S k.owner) (hof : ExecOf env.chart k) (ev : Option Event) :
    EqvM ρ ι C S Eq (runCode env k ev) (runCode env' (k.ren ρ ι) ev) := by
  unfold runCode
  apply EqvM.bind EqvM.get
  intro st st' hst
  obtain ⟨e1, e2⟩ := h.exec st st' k ev hst.1 hst.2 hk hof
  apply EqvM.bind (Rv := fun _ _ => True)
  · apply EqvM.modify
    intro s s' h1 h2
    exact ⟨{ h1 with ctx := e2 }, ⟨h2.config, h2.memK, h2.memV, h2.entryK, h2.idleK⟩⟩
  · intro _ _ _
    rw [e1]
    cases (env.E.exec st k ev).2 with
    | none => exact EqvM.throw (.same _)
    | some sent => exact EqvM.pure rfl

end Prims

/-! ### association lists under the substitution -/

section AssocRen
variable {ρ : Name → Name} {S : Name → Prop} (hρ : RenOK S ρ)
include hρ

theorem renKeys_assocSet {ν : Type} (k : Name) (v : ν) (hk : S k) : ∀ (l : List (Name × ν)), (∀ p ∈ l, S p.1) →
    renKeys ρ (assocSet k v l) = assocSet (ρ k) v (renKeys ρ l)
  | [], _ => rfl
  | (k', v') :: r, hl => by
    have hk' : S k' := hl (k', v') (by simp)
    simp only [assocSet, renKeys, List.map_cons, hρ.beq k' k hk' hk]
    split
    · rfl
    · simp only [List.map_cons]
      have := renKeys_assocSet k v hk r (fun p hp => hl p (by simp [hp]))
      simp only [renKeys] at this
      rw [this]

theorem renameMemory_assocSet (k : Name) (a : List Name) (hk : S k) : ∀ (l : List (Name × List Name)), (∀ p ∈ l, S p.1) →
    renameMemory ρ (assocSet k a l) = assocSet (ρ k) (a.map ρ) (renameMemory ρ l)
  | [], _ => rfl
  | (k', v') :: r, hl => by
    have hk' : S k' := hl (k', v') (by simp)
    simp only [assocSet, renameMemory, List.map_cons, hρ.beq k' k hk' hk]
    split
    · rfl
    · simp only [List.map_cons]
      have := renameMemory_assocSet k a hk r (fun p hp => hl p (by simp [hp]))
      simp only [renameMemory] at this
      rw [this]

theorem filter_ne_map (n : Name) (hn : S n) : ∀ (l : List Name), (∀ x ∈ l, S x) →
    (l.map ρ).filter (fun x => x != ρ n) = (l.filter (fun x => x != n)).map ρ := by
  intro l hl
  apply filter_map_comm
  intro x hx
  simp only [bne, hρ.beq x n (hl x hx) hn]

end AssocRen

theorem mem_assocSet {κ ν : Type} [BEq κ] (k : κ) (v : ν) : ∀ (l : List (κ × ν)) (p : κ × ν),
    p ∈ assocSet k v l → p = (k, v) ∨ p ∈ l
  | [], p, h => by simp [assocSet] at h; exact Or.inl h
  | (k', v') :: r, p, h => by
    simp only [assocSet] at h
    split at h
    · rcases List.mem_cons.1 h with e | h'
      · exact Or.inl e
      · exact Or.inr (by simp [h'])
    · rcases List.mem_cons.1 h with e | h'
      · exact Or.inr (by simp [e])
      · rcases mem_assocSet k v r p h' with e | h''
        · exact Or.inl e
        · exact Or.inr (by simp [h''])

/-! ### micro steps -/

structure GoodStep (S : Name → Prop) (c : Chart) (m : Micro) : Prop where
  entered : ∀ x ∈ m.entered, S x
  exited : ∀ x ∈ m.exited, S x
  trans : ∀ t, m.transition = some t → S t.source ∧ t ∈ c.transitions

section Steps
variable {ρ : Name → Name} {ι : Nat → Nat} {C : σ → σ → Prop} {S : Name → Prop}
variable {env env' : Env σ ω} (h : EnvR ρ ι C S env env')
include h

theorem memoryOf_ren (cfg0 : List Name) (hcfg : ∀ x ∈ cfg0, S x) (s : StateDef) (hs : S s.name) (ch : Name) (hch : S ch) :
    memoryOf env'.chart (cfg0.map ρ) (s.rename ρ) (ρ ch) =
      (match memoryOf env.chart cfg0 s ch with
       | .ok o => .ok (o.map (List.map ρ))
       | .error e => .error e) := by
  unfold memoryOf
  rw [kindOf_mapNames h.ok env.chart h.names h.ren ch hch]
  have hname : (s.rename ρ).name = ρ s.name := rfl
  cases env.chart.kindOf ch with
  | none => rfl
  | some k =>
    cases k with
    | deep =>
      simp only [hname, descendants_mapNames h.ok env.chart h.names h.ren s.name hs]
      rw [filter_map_comm ρ (fun x => (env.chart.descendants s.name).contains x) _ cfg0
        (fun x hx => h.ok.contains _ x (fun y hy => h.names.descendants_in s.name y hy) (hcfg x hx))]
      simp only [List.length_map]
      split <;> rfl
    | shallow =>
      simp only [hname, childrenFor_mapNames h.ok env.chart h.names h.ren s.name hs]
      rw [filter_map_comm ρ (fun x => (env.chart.childrenFor s.name).contains x) _ cfg0
        (fun x hx => h.ok.contains _ x (fun y hy => h.names.childrenFor_in s.name y hy) (hcfg x hx))]
      simp only [List.length_map]
      split <;> rfl
    | basic => rfl
    | compound => rfl
    | orthogonal => rfl
    | final => rfl

omit h in
theorem memoryOf_sub' (c : Chart) (cfg0 : List Name) (s : StateDef) (ch : Name) (a : List Name)
    (hm : memoryOf c cfg0 s ch = .ok (some a)) : ∀ x ∈ a, x ∈ cfg0 := by
  unfold memoryOf at hm
  split at hm
  · split at hm
    · cases hm
    · simp only [Except.ok.injEq, Option.some.injEq] at hm
      intro x hx; rw [← hm] at hx; exact (List.mem_filter.1 hx).1
  · split at hm
    · cases hm
    · simp only [Except.ok.injEq, Option.some.injEq] at hm
      intro x hx; rw [← hm] at hx; exact (List.mem_filter.1 hx).1
  · cases hm
  · cases hm

theorem eqv_saveMemory (cfg0 : List Name) (hcfg : ∀ x ∈ cfg0, S x) (s : StateDef) (hs : S s.name) :
    ∀ (chs : List Name), (∀ x ∈ chs, S x) →
      EqvM ρ ι C S (fun _ _ => True) (saveMemory env cfg0 s chs) (saveMemory env' (cfg0.map ρ) (s.rename ρ) (chs.map ρ))
  | [], _ => EqvM.pure trivial
  | ch :: rest, hchs => by
    have hch : S ch := hchs ch (by simp)
    simp only [List.map_cons, saveMemory]
    rw [memoryOf_ren h cfg0 hcfg s hs ch hch]
    cases hm : memoryOf env.chart cfg0 s ch with
    | error e => exact EqvM.throw (.same e)
    | ok o =>
      cases o with
      | none => exact eqv_saveMemory cfg0 hcfg s hs rest (fun x hx => hchs x (by simp [hx]))
      | some a =>
        simp only [Option.map_some]
        apply EqvM.bind (Rv := fun _ _ => True)
        · apply EqvM.modify
          intro st st' h1 h2
          refine ⟨{ h1 with memory := ?_ }, ⟨h2.config, ?_, ?_, h2.entryK, h2.idleK⟩⟩
          · simp only [h1.memory]
            exact (renameMemory_assocSet h.ok ch a hch _ h2.memK).symm
          · intro p hp
            rcases mem_assocSet ch a _ p hp with e | hp'
            · rw [e]; exact hch
            · exact h2.memK p hp'
          · intro p hp x hx
            rcases mem_assocSet ch a _ p hp with e | hp'
            · rw [e] at hx; exact hcfg x (memoryOf_sub' env.chart cfg0 s ch a hm x hx)
            · exact h2.memV p hp' x hx
        · intro _ _ _
          exact eqv_saveMemory cfg0 hcfg s hs rest (fun x hx => hchs x (by simp [hx]))

end Steps

section Steps2
variable {ρ : Name → Name} {ι : Nat → Nat} {C : σ → σ → Prop} {S : Name → Prop}
variable {env env' : Env σ ω} (h : EnvR ρ ι C S env env')
include h

theorem eqv_exitState (cfg0 : List Name) (hcfg : ∀ x ∈ cfg0, S x) (ev : Option Event) (step step' : Micro)
    (hev : step'.event = step.event) (s : StateDef) (hs : S s.name) (hmem : s ∈ env.chart.states) :
    EqvM ρ ι C S Eq (exitState env cfg0 step s) (exitState env' (cfg0.map ρ) step' (s.rename ρ)) := by
  unfold exitState
  have hname : (s.rename ρ).name = ρ s.name := rfl
  have hkind : (s.rename ρ).kind = s.kind := rfl
  simp only [hname, hkind, hev]
  apply EqvM.bind (EqvM.emit (.onExit s.name)); intro _ _ _
  apply EqvM.bind (eqv_runCode h (.onExit s) hs hmem none); intro sent sent' hsent
  subst hsent
  apply EqvM.bind (Rv := fun _ _ => True)
  · split
    · rw [childrenFor_mapNames h.ok env.chart h.names h.ren s.name hs]
      exact eqv_saveMemory h cfg0 hcfg s hs _ (fun x hx => h.names.childrenFor_in s.name x hx)
    · exact EqvM.pure trivial
  intro _ _ _
  apply EqvM.bind EqvM.get; intro st st' hst
  apply EqvM.bind (Rv := fun _ _ => True)
  · rw [hst.1.config, h.ok.contains st.config s.name hst.2.config hs]
    split
    · exact EqvM.throw (.same _)
    · exact EqvM.pure trivial
  intro _ _ _
  apply EqvM.bind (Rv := fun _ _ => True)
  · apply EqvM.modify
    intro a a' h1 h2
    refine ⟨{ h1 with config := ?_ }, ⟨?_, h2.memK, h2.memV, h2.entryK, h2.idleK⟩⟩
    · simp only [h1.config]
      exact filter_ne_map h.ok s.name hs a.config h2.config
    · intro x hx; exact h2.config x (List.mem_filter.1 hx).1
  intro _ _ _
  apply EqvM.bind (eqv_evalContract h .post (.state s) hmem step.event); intro _ _ _
  apply EqvM.bind (eqv_raiseMeta h (.exited s.name)); intro _ _ _
  exact EqvM.pure rfl

theorem eqv_enterState (step step' : Micro) (hev : step'.event = step.event) (s : StateDef) (hs : S s.name)
    (hmem : s ∈ env.chart.states) :
    EqvM ρ ι C S Eq (enterState env step s) (enterState env' step' (s.rename ρ)) := by
  unfold enterState
  have hname : (s.rename ρ).name = ρ s.name := rfl
  simp only [hname, hev]
  apply EqvM.bind (eqv_evalContract h .pre (.state s) hmem step.event); intro _ _ _
  apply EqvM.bind (EqvM.emit (.onEntry s.name)); intro _ _ _
  apply EqvM.bind (eqv_runCode h (.onEntry s) hs hmem none); intro sent sent' hsent
  subst hsent
  apply EqvM.bind (Rv := fun _ _ => True)
  · apply EqvM.modify
    intro a a' h1 h2
    refine ⟨{ h1 with config := ?_, entryTime := ?_, idleTime := ?_ }, ⟨?_, h2.memK, h2.memV, ?_, ?_⟩⟩
    · simp only [h1.config, h.ok.contains a.config s.name h2.config hs]
      split
      · rfl
      · simp
    · simp only [h1.entryTime, h1.time]
      exact (renKeys_assocSet h.ok s.name a.time hs _ h2.entryK).symm
    · simp only [h1.idleTime, h1.time]
      exact (renKeys_assocSet h.ok s.name a.time hs _ h2.idleK).symm
    · intro x hx
      split at hx
      · exact h2.config x hx
      · rcases List.mem_append.1 hx with hx | hx
        · exact h2.config x hx
        · simp at hx; rw [hx]; exact hs
    · intro p hp
      rcases mem_assocSet _ _ _ p hp with e | hp'
      · rw [e]; exact hs
      · exact h2.entryK p hp'
    · intro p hp
      rcases mem_assocSet _ _ _ p hp with e | hp'
      · rw [e]; exact hs
      · exact h2.idleK p hp'
  intro _ _ _
  apply EqvM.bind (eqv_raiseMeta h (.entered s.name)); intro _ _ _
  exact EqvM.pure rfl

theorem eqv_fireTransition (step step' : Micro) (hev : step'.event = step.event) (t : Trans) (ht : S t.source)
    (hmem : t ∈ env.chart.transitions) :
    EqvM ρ ι C S Eq (fireTransition env step t) (fireTransition env' step' (t.relabel ρ ι)) := by
  unfold fireTransition
  have hid : (t.relabel ρ ι).id = ι t.id := rfl
  have hsrc : (t.relabel ρ ι).source = ρ t.source := rfl
  have htg : (t.relabel ρ ι).target = t.target.map ρ := rfl
  simp only [hid, hsrc, htg, hev]
  apply EqvM.bind (eqv_evalContract h .pre (.trans t) hmem step.event); intro _ _ _
  apply EqvM.bind (eqv_evalContract h .inv (.trans t) hmem step.event); intro _ _ _
  apply EqvM.bind (EqvM.emit (.action t.id step.event)); intro _ _ _
  apply EqvM.bind (eqv_runCode h (.action t) ht hmem step.event); intro sent sent' hsent
  subst hsent
  apply EqvM.bind (eqv_evalContract h .post (.trans t) hmem step.event); intro _ _ _
  apply EqvM.bind (eqv_evalContract h .inv (.trans t) hmem step.event); intro _ _ _
  apply EqvM.bind (Rv := fun _ _ => True)
  · apply EqvM.modify
    intro a a' h1 h2
    refine ⟨{ h1 with idleTime := ?_ }, ⟨h2.config, h2.memK, h2.memV, h2.entryK, ?_⟩⟩
    · simp only [h1.idleTime, h1.time]
      exact (renKeys_assocSet h.ok t.source a.time ht _ h2.idleK).symm
    · intro p hp
      rcases mem_assocSet _ _ _ p hp with e | hp'
      · rw [e]; exact ht
      · exact h2.idleK p hp'
  intro _ _ _
  apply EqvM.bind (eqv_raiseMeta h (.processed t.source t.target step.event)); intro _ _ _
  exact EqvM.pure rfl

omit h in
theorem eqv_collect {γ γ' : Type} {Rg : γ → γ' → Prop} {f : γ → M σ ω (List Sent)} {f' : γ' → M σ ω (List Sent)}
    (hf : ∀ x x', Rg x x' → EqvM ρ ι C S Eq (f x) (f' x')) :
    ∀ (l : List γ) (l' : List γ'), List.Forall₂ Rg l l' → EqvM ρ ι C S Eq (collect f l) (collect f' l')
  | [], _, hl => by cases hl; exact EqvM.pure rfl
  | x :: xs, _, hl => by
    cases hl with
    | cons hx hxs =>
      unfold collect
      apply EqvM.bind (hf _ _ hx); intro a a' ha
      apply EqvM.bind (eqv_collect hf xs _ hxs); intro b b' hb
      exact EqvM.pure (by rw [ha, hb])

/-- `_apply_step` on related micro steps: the result is the relabelled step again -/
theorem eqv_applyStep (step : Micro) (hg : GoodStep S env.chart step) :
    EqvM ρ ι C S (fun m m' => m' = m.rename ρ ι ∧ GoodStep S env.chart m)
      (applyStep env step) (applyStep env' (step.rename ρ ι)) := by
  unfold applyStep
  have hent : (step.rename ρ ι).entered = step.entered.map ρ := rfl
  have hexi : (step.rename ρ ι).exited = step.exited.map ρ := rfl
  have htr : (step.rename ρ ι).transition = step.transition.map (Trans.relabel ρ ι) := rfl
  have hev : (step.rename ρ ι).event = step.event := rfl
  simp only [hent, hexi, htr]
  apply EqvM.bind (eqv_stateObjs h step.entered hg.entered); intro entered entered' ⟨he, hen, henm⟩
  apply EqvM.bind (eqv_stateObjs h step.exited hg.exited); intro exited exited' ⟨hx, hxn, hxm⟩
  apply EqvM.bind EqvM.get; intro st0 st0' hst0
  have hS : ∀ (l : List StateDef) (ns : List Name), l.map (·.name) = ns → (∀ n ∈ ns, S n) → ∀ s ∈ l, S s.name := by
    intro l ns e hn s hs
    exact hn _ (e ▸ List.mem_map.2 ⟨s, hs, rfl⟩)
  apply EqvM.bind (Rv := Eq)
  · rw [hst0.1.config, hx]
    apply eqv_collect (Rg := fun s s' => s' = s.rename ρ ∧ S s.name ∧ s ∈ env.chart.states)
    · intro s s' ⟨e, hs, hm⟩
      subst e
      exact eqv_exitState h st0.config hst0.2.config step.event step _ hev s hs hm
    · exact List.forall₂_map_right_iff.2 (List.forall₂_same.2 (fun s hs => ⟨rfl, hS _ _ hxn hg.exited s hs, hxm s hs⟩))
  intro s1 s1' e1; subst e1
  apply EqvM.bind (Rv := Eq)
  · cases ht : step.transition with
    | none => exact EqvM.pure rfl
    | some t => exact eqv_fireTransition h step _ hev t (hg.trans t ht).1 (hg.trans t ht).2
  intro s2 s2' e2; subst e2
  apply EqvM.bind (Rv := Eq)
  · rw [he]
    apply eqv_collect (Rg := fun s s' => s' = s.rename ρ ∧ S s.name ∧ s ∈ env.chart.states)
    · intro s s' ⟨e, hs, hm⟩
      subst e
      exact eqv_enterState h step _ hev s hs hm
    · exact List.forall₂_map_right_iff.2 (List.forall₂_same.2 (fun s hs => ⟨rfl, hS _ _ hen hg.entered s hs, henm s hs⟩))
  intro s3 s3' e3; subst e3
  apply EqvM.bind (eqv_raiseAll h _); intro _ _ _
  refine EqvM.pure ⟨rfl, ⟨hg.entered, hg.exited, hg.trans⟩⟩

end Steps2

/-! ### what is selected and planned mentions names in play only -/

theorem goClasses_sub (ok : Trans → Bool) (G : List Trans) : ∀ (ps : List Int) (sel : List Trans),
    goClasses ok G ps = some sel → ∀ t ∈ sel, t ∈ G
  | [], _, h => by simp [goClasses] at h
  | p :: ps, sel, h => by
    simp only [goClasses] at h
    split at h
    · simp only [Option.some.injEq] at h
      intro t ht; rw [← h] at ht
      exact (List.mem_filter.1 (List.mem_filter.1 ht).1).1
    · exact goClasses_sub ok G ps sel h

theorem stepSrc_selected_sub (c : Chart) (ok : Trans → Bool) (G : List Trans) (st : SelSt) (src : Name)
    (h : ∀ t ∈ st.selected, t ∈ G) : ∀ t ∈ (stepSrc c ok G st src).selected, t ∈ G := by
  unfold stepSrc
  split
  · exact h
  · dsimp only
    split
    · next sel hsel =>
      intro t ht
      rcases List.mem_append.1 ht with ht | ht
      · exact h t ht
      · exact (List.mem_filter.1 (goClasses_sub ok _ _ sel hsel t ht)).1
    · exact h

theorem selectGroup_selected_sub (c : Chart) (ok : Trans → Bool) (G : List Trans) :
    ∀ t ∈ (selectGroup c ok G).selected, t ∈ G := by
  unfold selectGroup
  suffices ∀ (l : List Name) (st : SelSt), (∀ t ∈ st.selected, t ∈ G) →
      ∀ t ∈ (l.foldl (stepSrc c ok G) st).selected, t ∈ G from this _ {} (by simp)
  intro l
  induction l with
  | nil => intro st h; simpa using h
  | cons s l ih => intro st h; rw [List.foldl_cons]; exact ih _ (stepSrc_selected_sub c ok G st s h)

theorem selectTransitions_selected_sub (c : Chart) (cfg : List Name) (evName : Option String) (ok : Trans → Bool → Bool) :
    ∀ t ∈ (selectTransitions c cfg evName ok).selected, t ∈ c.transitions := by
  intro t ht
  unfold selectTransitions at ht
  dsimp only at ht
  split at ht
  · exact (List.mem_filter.1 (List.mem_filter.1 (selectGroup_selected_sub c _ _ t ht)).1).1
  · exact (List.mem_filter.1 (List.mem_filter.1 (selectGroup_selected_sub c _ _ t ht)).1).1

theorem sortTransitions_sub (c : Chart) (ts ts' : List Trans) (h : sortTransitions c ts = .ok ts') :
    ∀ t ∈ ts', t ∈ ts := by
  unfold sortTransitions at h
  split at h
  · simp only [Except.ok.injEq] at h; rw [← h]; exact fun _ => id
  · split at h
    · cases h
    · split at h
      · cases h
      · simp only [Except.ok.injEq] at h
        intro t ht; rw [← h] at ht
        exact (mem_isort _ _ t).1 ht

section Good
variable {S : Name → Prop}

theorem createStep_good (c : Chart) (hc : NamesIn S c) (cfg : List Name) (ev : Option Event) (t : Trans)
    (ht : t ∈ c.transitions) : GoodStep S c (createStep c cfg ev t) := by
  have hs : S t.source := hc.transS t ht
  unfold createStep
  cases hg : t.target with
  | none => exact ⟨by simp, by simp, fun u hu => by simp at hu; rw [← hu]; exact ⟨hs, ht⟩⟩
  | some tg =>
    have htg : S tg := hc.transT t ht tg hg
    refine ⟨?_, ?_, fun u hu => by simp at hu; rw [← hu]; exact ⟨hs, ht⟩⟩
    · intro x hx
      simp only [List.mem_append, List.mem_reverse, List.mem_singleton] at hx
      rcases hx with hx | hx
      · exact hc.ancestors_in tg x (List.takeWhile_subset _ hx)
      · rw [hx]; exact htg
    · intro x hx
      simp only [List.mem_append] at hx
      rcases hx with hx | hx
      · exact hc.descendants_in _ x ((mem_isort _ _ x).1 (List.mem_filter.1 hx).1)
      · split at hx
        · simp at hx; rw [hx]; exact hc.lastBefore_in _ hs _
        · simp at hx

theorem leafStep_good (c : Chart) (hc : NamesIn S c) (hi : ∀ s ∈ c.states, ∀ i, s.initial = some i → S i)
    (memory : List (Name × List Name)) (hmv : ∀ p ∈ memory, ∀ x ∈ p.2, S x) (leaf : Name) (hleaf : S leaf)
    (m : Micro) (hm : leafStep c memory leaf = some m) : GoodStep S c m := by
  unfold leafStep at hm
  cases hs : c.stateFor leaf with
  | none => simp [hs] at hm
  | some s =>
    have hsm : s ∈ c.states := List.mem_of_find?_eq_some hs
    simp only [hs] at hm
    split at hm
    · simp only [Option.some.injEq] at hm
      subst hm
      refine ⟨by simp, ?_, by simp⟩
      intro x hx
      rcases List.mem_cons.1 hx with e | hx
      · rw [e]; exact hleaf
      · cases hr : c.root with
        | none => simp [hr] at hx
        | some r => simp [hr] at hx; rw [hx]; exact hc.root_in r hr
    · split at hm
      · simp only [Option.some.injEq] at hm
        subst hm
        refine ⟨?_, by simpa using hleaf, by simp⟩
        intro x hx
        have hx := (mem_isort _ _ x).1 hx
        split at hx
        · next k l hf => exact hmv _ (List.mem_of_find?_eq_some hf) x hx
        · cases hmem : s.memory with
          | none => simp [hmem] at hx
          | some mm => simp [hmem] at hx; rw [hx]; exact hc.memory s hsm mm hmem
      · split at hm
        · simp only [Option.some.injEq] at hm
          subst hm
          refine ⟨?_, by simp, by simp⟩
          intro x hx
          exact hc.childrenFor_in leaf x ((mem_isort _ _ x).1 hx)
        · split at hm
          · simp only [Option.some.injEq] at hm
            subst hm
            refine ⟨?_, by simp, by simp⟩
            intro x hx
            cases hini : s.initial with
            | none => simp [hini] at hx
            | some i => simp [hini] at hx; rw [hx]; exact hi s hsm i hini
          · cases hm

theorem completeStep_good (c : Chart) (hc : NamesIn S c) (cfg : List Name) (n : Name) (m : Micro)
    (hm : completeStep c cfg n = some m) : GoodStep S c m := by
  unfold completeStep at hm
  split at hm
  · dsimp only at hm
    split at hm
    · cases hm
    · simp only [Option.some.injEq] at hm
      subst hm
      refine ⟨?_, by simp, by simp⟩
      intro x hx
      exact hc.childrenFor_in n x (List.mem_filter.1 ((mem_isort _ _ x).1 hx)).1
  · cases hm

theorem stabilizationStep_good (c : Chart) (hc : NamesIn S c) (hi : ∀ s ∈ c.states, ∀ i, s.initial = some i → S i)
    (memory : List (Name × List Name)) (hmv : ∀ p ∈ memory, ∀ x ∈ p.2, S x) (cfg : List Name) (hcfg : ∀ x ∈ cfg, S x)
    (m : Micro) (hm : stabilizationStep c memory cfg = some m) : GoodStep S c m := by
  unfold stabilizationStep at hm
  split at hm
  · next m' hf =>
    simp only [Option.some.injEq] at hm
    subst hm
    obtain ⟨leaf, hl, hls⟩ := List.exists_of_findSome?_eq_some hf
    have : leaf ∈ cfg := leafFor_sub c cfg leaf ((mem_isort _ _ leaf).1 hl)
    exact leafStep_good c hc hi memory hmv leaf (hcfg leaf this) m' hls
  · obtain ⟨n, _, hns⟩ := List.exists_of_findSome?_eq_some hm
    exact completeStep_good c hc cfg n m hns

end Good

section Whole
variable {ρ : Name → Name} {ι : Nat → Nat} {C : σ → σ → Prop} {S : Name → Prop}
variable {env env' : Env σ ω} (h : EnvR ρ ι C S env env')
include h

/-- related lists of micro steps -/
def MicsR (ρ : Name → Name) (ι : Nat → Nat) (l l' : List Micro) : Prop := l' = l.map (Micro.rename ρ ι)

theorem eqv_stabilize : ∀ n : Nat, EqvM ρ ι C S (MicsR ρ ι) (stabilize env n) (stabilize env' n)
  | 0 => EqvM.throw (.same _)
  | n+1 => by
    unfold stabilize
    apply EqvM.bind EqvM.get; intro st st' hst
    have e := stabilizationStep_rename (ι := ι) h.ok env.chart h.names h.ren st.memory hst.2.memK hst.2.memV
      st.config hst.2.config
    rw [hst.1.memory, hst.1.config, e]
    cases hs : stabilizationStep env.chart st.memory st.config with
    | none => exact EqvM.pure rfl
    | some m =>
      have hg := stabilizationStep_good env.chart h.names h.initial st.memory hst.2.memV st.config hst.2.config m hs
      simp only [Option.map_some]
      apply EqvM.bind (eqv_applyStep h m hg); intro a a' ⟨ha, _⟩
      apply EqvM.bind (eqv_stabilize n); intro r r' hr
      exact EqvM.pure (by rw [MicsR] at *; simp [ha, hr])

theorem eqv_logGuards (st st' : IState σ) (hst : StR ρ C st st') (hgs : GoodSt S st) (ev : Option Event) :
    ∀ (l : List (Trans × Bool)), (∀ p ∈ l, S p.1.source ∧ p.1 ∈ env.chart.transitions) →
      EqvM ρ ι C S (fun _ _ => True) (logGuards env st ev l)
        (logGuards env' st' ev (l.map (fun p => (p.1.relabel ρ ι, p.2))))
  | [], _ => EqvM.pure trivial
  | (t, exposed) :: rest, hl => by
    simp only [List.map_cons, logGuards]
    have e : env'.E.guard st' (t.relabel ρ ι) (if exposed then ev else none) =
        env.E.guard st t (if exposed then ev else none) :=
      h.guard st st' t _ hst hgs (hl (t, exposed) (by simp)).1 (hl (t, exposed) (by simp)).2
    have hid : (t.relabel ρ ι).id = ι t.id := rfl
    simp only [e, hid]
    apply EqvM.bind (EqvM.emit (.guard t.id _ _)); intro _ _ _
    cases env.E.guard st t (if exposed then ev else none) with
    | none => exact EqvM.throw (.same _)
    | some b => exact eqv_logGuards st st' hst hgs ev rest (fun p hp => hl p (by simp [hp]))

theorem guardOk_ren (st st' : IState σ) (hst : StR ρ C st st') (hgs : GoodSt S st) (ev : Option Event) (t : Trans)
    (ht : S t.source) (hm : t ∈ env.chart.transitions) (b : Bool) :
    guardOk env'.E st' ev (t.relabel ρ ι) b = guardOk env.E st ev t b := by
  unfold guardOk
  have hg : (t.relabel ρ ι).guard = t.guard := rfl
  rw [hg]
  cases t.guard with
  | none => rfl
  | some c => simp only [h.guard st st' t _ hst hgs ht hm]

theorem eqv_computeSteps :
    EqvM ρ ι C S (fun l l' => MicsR ρ ι l l' ∧ ∀ m ∈ l, GoodStep S env.chart m) (computeSteps env) (computeSteps env') := by
  unfold computeSteps
  apply EqvM.bind EqvM.get; intro st st' hst
  rw [hst.1.initialized]
  split
  · apply EqvM.bind (Rv := fun _ _ => True)
    · apply EqvM.modify
      intro a a' h1 h2
      exact ⟨{ h1 with initialized := rfl }, ⟨h2.config, h2.memK, h2.memV, h2.entryK, h2.idleK⟩⟩
    intro _ _ _
    refine EqvM.pure ⟨?_, ?_⟩
    · rw [MicsR, root_mapNames env.chart h.ren]
      cases env.chart.root <;> rfl
    · intro m hm
      simp only [List.mem_singleton] at hm
      subst hm
      refine ⟨?_, by simp, by simp⟩
      intro x hx
      cases hr : env.chart.root with
      | none => simp [hr] at hx
      | some r => simp [hr] at hx; rw [hx]; exact h.names.root_in r hr
  · have hpeek : peekEvent st' = peekEvent st := by
      unfold peekEvent; rw [hst.1.intQ, hst.1.extQ, hst.1.time]
    rw [hpeek, hst.1.config]
    dsimp only
    have hsel := selectTransitions_rename (ι := ι) h.ok env.chart h.names h.ren st.config hst.2.config
      ((peekEvent st).map (·.name)) (guardOk env.E st (peekEvent st)) (guardOk env'.E st' (peekEvent st))
      (fun t ht b => guardOk_ren h st st' hst.1 hst.2 (peekEvent st) t (h.names.transS t ht) ht b)
    rw [hsel]
    obtain ⟨sel, hseldef⟩ : ∃ X, X = selectTransitions env.chart st.config ((peekEvent st).map (·.name))
        (guardOk env.E st (peekEvent st)) := ⟨_, rfl⟩
    rw [← hseldef]
    have hcalls : ∀ p ∈ sel.calls, S p.1.source ∧ p.1 ∈ env.chart.transitions := by
      intro p hp
      rw [hseldef] at hp
      exact ⟨h.names.transS _ (calls_exposure env.chart st.config _ _ p.1 p.2 hp).1,
        (calls_exposure env.chart st.config _ _ p.1 p.2 hp).1⟩
    have hselsub : ∀ t ∈ sel.selected, t ∈ env.chart.transitions := by
      rw [hseldef]; exact selectTransitions_selected_sub _ _ _ _
    apply EqvM.bind (Rv := fun _ _ => True)
    · exact eqv_logGuards h st st' hst.1 hst.2 (peekEvent st) sel.calls hcalls
    intro _ _ _
    have hemp : (sel.rename ρ ι).selected.isEmpty = sel.selected.isEmpty := by simp [SelResult.rename]
    rw [hemp]
    split
    · cases peekEvent st with
      | none => exact EqvM.pure ⟨rfl, by simp⟩
      | some e =>
        refine EqvM.pure ⟨rfl, ?_⟩
        intro m hm
        simp only [List.mem_singleton] at hm
        subst hm
        exact ⟨by simp, by simp, by simp⟩
    · have hsort := sortTransitions_rename (ι := ι) h.ok env.chart h.names h.ren sel.selected hselsub
      have hsel' : (sel.rename ρ ι).selected = sel.selected.map (Trans.relabel ρ ι) := rfl
      rw [hsel', hsort]
      cases hso : sortTransitions env.chart sel.selected with
      | error e =>
        cases e with
        | nonDeterminism => exact EqvM.throw (.same _)
        | conflicting => exact EqvM.throw (.same _)
      | ok ts =>
        have htsub : ∀ t ∈ ts, t ∈ env.chart.transitions :=
          fun t ht => hselsub t (sortTransitions_sub env.chart _ ts hso t ht)
        simp only [Except.map]
        refine EqvM.pure ⟨?_, ?_⟩
        · rw [MicsR]
          cases ts with
          | nil => rfl
          | cons t r => exact createSteps_rename h.ok env.chart h.names h.ren st.config hst.2.config _ (t :: r) htsub
        · intro m hm
          simp only [createSteps, List.mem_map] at hm
          obtain ⟨t, ht, e⟩ := hm
          rw [← e]
          exact createStep_good env.chart h.names st.config _ t (htsub t ht)

theorem eqv_applyAll : ∀ (l : List Micro), (∀ m ∈ l, GoodStep S env.chart m) →
    EqvM ρ ι C S (MicsR ρ ι) (applyAll env l) (applyAll env' (l.map (Micro.rename ρ ι)))
  | [], _ => EqvM.pure rfl
  | m :: rest, hl => by
    simp only [List.map_cons, applyAll]
    apply EqvM.bind (eqv_applyStep h m (hl m (by simp))); intro a a' ⟨ha, _⟩
    rw [h.fuel]
    apply EqvM.bind (eqv_stabilize h env.stabFuel); intro st st' hs
    apply EqvM.bind (eqv_applyAll rest (fun x hx => hl x (by simp [hx]))); intro more more' hm
    exact EqvM.pure (by rw [MicsR] at *; simp [ha, hs, hm])

def MacroStep.rename (ρ : Name → Name) (ι : Nat → Nat) (m : MacroStep) : MacroStep :=
  { m with steps := m.steps.map (Micro.rename ρ ι) }

omit h in
theorem MacroStep.rename_event (m : MacroStep) : (m.rename ρ ι).event = m.event := by
  simp only [MacroStep.event, MacroStep.rename]
  induction m.steps with
  | nil => rfl
  | cons x xs ih =>
    simp only [List.map_cons, List.findSome?_cons]
    have : (Micro.rename ρ ι x).event = x.event := rfl
    rw [this]
    cases x.event with
    | none => exact ih
    | some e => rfl

def OptMR (ρ : Name → Name) (ι : Nat → Nat) (m m' : Option MacroStep) : Prop := m' = m.map (MacroStep.rename ρ ι)

theorem eqv_finishStep (ms : Option MacroStep) :
    EqvM ρ ι C S (OptMR ρ ι) (finishStep env ms) (finishStep env' (ms.map (MacroStep.rename ρ ι))) := by
  unfold finishStep
  apply EqvM.bind EqvM.get; intro st st' hst
  have hev : (ms.map (MacroStep.rename ρ ι)).bind (·.event) = ms.bind (·.event) := by
    cases ms with
    | none => rfl
    | some m => exact MacroStep.rename_event m
  rw [hev]
  apply EqvM.bind (Rv := fun _ _ => True)
  · have hsort : env'.chart.sortConfig st'.config = (env.chart.sortConfig st.config).map ρ := by
      simp only [Chart.sortConfig, hst.1.config]
      exact isort_map ρ env.chart.leDepthName env'.chart.leDepthName st.config
        (fun x hx y hy => leDepthName_mapNames h.ok env.chart h.names h.ren x y (hst.2.config x hx) (hst.2.config y hy))
    rw [hsort]
    apply EqvM.forEach (Rg := fun n n' => n' = ρ n ∧ S n)
    · intro n n' ⟨e, hn⟩
      subst e
      apply EqvM.bind (eqv_stateObj h n hn); intro s s' ⟨hs, hname, hmem⟩
      subst hs
      exact eqv_evalContract h .inv (.state s) hmem _
    · apply List.forall₂_map_right_iff.2
      apply List.forall₂_same.2
      intro n hn
      exact ⟨rfl, hst.2.config n ((mem_isort _ _ n).1 hn)⟩
  intro _ _ _
  apply EqvM.bind (eqv_raiseMeta h (.same _)); intro _ _ _
  exact EqvM.pure rfl

/-- `_select_event(consume=True)` on the queues alone -/
def popQ (iq eq : List (Int × Event)) (t : Int) : Option Event × List (Int × Event) × List (Int × Event) :=
  match iq with
  | (d, e) :: r => if d ≤ t then (some e, r, eq) else
      (match eq with
       | (d', e') :: r' => if d' ≤ t then (some e', iq, r') else (none, iq, eq)
       | [] => (none, iq, eq))
  | [] =>
      (match eq with
       | (d', e') :: r' => if d' ≤ t then (some e', iq, r') else (none, iq, eq)
       | [] => (none, iq, eq))

omit h in
theorem popEvent_popQ (st : IState σ) :
    popEvent st = ((popQ st.intQ st.extQ st.time).1,
      { st with intQ := (popQ st.intQ st.extQ st.time).2.1, extQ := (popQ st.intQ st.extQ st.time).2.2 }) := by
  unfold popEvent popQ
  cases hq : st.intQ with
  | nil =>
    cases he : st.extQ with
    | nil => simp only; cases st; simp_all
    | cons p r =>
      obtain ⟨d, e⟩ := p
      dsimp only
      split
      · cases st; simp_all
      · cases st; simp_all
  | cons p r =>
    obtain ⟨d, e⟩ := p
    dsimp only
    split
    · cases st; simp_all
    · cases he : st.extQ with
      | nil => cases st; simp_all
      | cons p2 r2 =>
        obtain ⟨d2, e2⟩ := p2
        dsimp only
        split
        · cases st; simp_all
        · cases st; simp_all

omit h in
theorem popEvent_rel (st st' : IState σ) (h1 : StR ρ C st st') :
    (popEvent st').1 = (popEvent st).1 ∧ StR ρ C (popEvent st).2 (popEvent st').2 := by
  rw [popEvent_popQ st, popEvent_popQ st', h1.intQ, h1.extQ, h1.time]
  exact ⟨rfl, ⟨h1.initialized, rfl, h1.memory, h1.config, h1.entryTime, h1.idleTime, h1.sentEvents, rfl, rfl,
    h1.listeners, h1.ctx⟩⟩

omit h in
theorem popEvent_good (st : IState σ) (hg : GoodSt S st) : GoodSt S (popEvent st).2 := by
  have : (popEvent st).2.config = st.config ∧ (popEvent st).2.memory = st.memory ∧
      (popEvent st).2.entryTime = st.entryTime ∧ (popEvent st).2.idleTime = st.idleTime := by
    unfold popEvent
    split
    · split
      · exact ⟨rfl, rfl, rfl, rfl⟩
      · split
        · split <;> exact ⟨rfl, rfl, rfl, rfl⟩
        · exact ⟨rfl, rfl, rfl, rfl⟩
    · split
      · split <;> exact ⟨rfl, rfl, rfl, rfl⟩
      · exact ⟨rfl, rfl, rfl, rfl⟩
  obtain ⟨a, b, c, d⟩ := this
  exact ⟨a ▸ hg.config, b ▸ hg.memK, b ▸ hg.memV, c ▸ hg.entryK, d ▸ hg.idleK⟩

theorem eqv_runSteps (computed : List Micro) (hl : ∀ m ∈ computed, GoodStep S env.chart m) :
    EqvM ρ ι C S (OptMR ρ ι) (runSteps env computed) (runSteps env' (computed.map (Micro.rename ρ ι))) := by
  unfold runSteps
  cases computed with
  | nil => exact EqvM.pure rfl
  | cons first rest =>
    simp only [List.map_cons]
    have hfe : (Micro.rename ρ ι first).event = first.event := rfl
    rw [hfe]
    apply EqvM.bind (Rv := fun _ _ => True)
    · split
      · apply EqvM.bind EqvM.get; intro st st' hst
        apply EqvM.bind (Rv := fun _ _ => True)
        · apply EqvM.modify
          intro a a' h1 h2
          exact ⟨(popEvent_rel a a' h1).2, popEvent_good a h2⟩
        intro _ _ _
        rw [(popEvent_rel st st' hst.1).1]
        exact eqv_raiseMeta h (.same _)
      · exact EqvM.pure trivial
    intro _ _ _
    have := eqv_applyAll h (first :: rest) hl
    simp only [List.map_cons] at this
    apply EqvM.bind this; intro ex ex' hex
    apply EqvM.bind EqvM.get; intro st st' hst
    refine EqvM.pure ?_
    rw [OptMR, hst.1.time, hex]
    rfl

/-- **`execute_once` commutes with the relabelling**: the same macro step with the names substituted
    and the transitions re-identified (or nothing, or the same exception about the relabelled
    object), related states and logs afterwards. -/
theorem eqv_executeOnce (clock : Int) :
    EqvM ρ ι C S (OptMR ρ ι) (executeOnce env clock) (executeOnce env' clock) := by
  unfold executeOnce
  apply EqvM.bind (Rv := fun _ _ => True)
  · apply EqvM.modify
    intro a a' h1 h2
    exact ⟨{ h1 with time := rfl, sentEvents := rfl }, ⟨h2.config, h2.memK, h2.memV, h2.entryK, h2.idleK⟩⟩
  intro _ _ _
  apply EqvM.bind (eqv_raiseMeta h (.same _)); intro _ _ _
  apply EqvM.bind (eqv_computeSteps h); intro computed computed' ⟨hc, hgood⟩
  rw [hc]
  apply EqvM.bind (eqv_runSteps h computed hgood); intro ms ms' hms
  rw [hms]
  exact eqv_finishStep h ms

end Whole

/-! ### whole runs -/

/-- related outcomes of one call -/
inductive OutcomeR (ρ : Name → Name) (ι : Nat → Nat) : Except Err (Option MacroStep) → Except Err (Option MacroStep) → Prop
  | ok (m : Option MacroStep) : OutcomeR ρ ι (.ok m) (.ok (m.map (MacroStep.rename ρ ι)))
  | error (e e' : Err) (h : ErrR ρ ι e e') : OutcomeR ρ ι (.error e) (.error e')

section Runs
variable {ρ : Name → Name} {ι : Nat → Nat} {C : σ → σ → Prop} {S : Name → Prop}
variable {env env' : Env σ ω}

/-- one call, spelled out -/
theorem equivariant_executeOnce (h : EnvR ρ ι C S env env') (clock : Int) (rs rs' : RS σ ω)
    (hr : RSR ρ ι C rs rs') (hg : GoodSt S rs.st) :
    OutcomeR ρ ι (executeOnce env clock rs).1 (executeOnce env' clock rs').1 ∧
      RSR ρ ι C (executeOnce env clock rs).2 (executeOnce env' clock rs').2 ∧
      GoodSt S (executeOnce env clock rs).2.st := by
  have := eqv_executeOnce h clock rs rs' hr hg
  cases h1 : executeOnce env clock rs with
  | mk r s =>
    cases h2 : executeOnce env' clock rs' with
    | mk r' s' =>
      rw [h1, h2] at this
      cases r with
      | ok a =>
        cases r' with
        | ok a' =>
          obtain ⟨hv, hs, hgd⟩ := this
          rw [OptMR] at hv
          subst hv
          exact ⟨.ok a, hs, hgd⟩
        | error e' => exact this.elim
      | error e =>
        cases r' with
        | ok a' => exact this.elim
        | error e' => exact ⟨.error e e' this.1, this.2.1, this.2.2⟩

end Runs

end Sismic
